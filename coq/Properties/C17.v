(* C17 - WebTorrent tracker routes to the right connection; closed ones leave no peers. *)
From Aquatic Require Import WsRouting Consts.

(* connection.rs cuts a scrape's hash list to max_scrape_torrents before splitting it among the
   swarm workers, and answers a scrape that names no torrent at once (facts regenerated from the
   source; without the second one such a scrape parks a pending entry nobody completes) *)
Theorem C17_scrape_cut_precedes_split : ws_scrape_cut_before_split = true.
Proof. reflexivity. Qed.
Print Assumptions C17_scrape_cut_precedes_split.

Theorem C17_empty_scrape_answered : ws_scrape_empty_answered = true.
Proof. reflexivity. Qed.
Print Assumptions C17_empty_scrape_answered.
