(* C17 - WebTorrent tracker routes to the right connection; closed ones leave no peers. *)
From Aquatic Require Import WsRouting Consts.

(* connection.rs cuts a scrape's hash list to max_scrape_torrents before splitting it among the
   swarm workers, and answers a scrape that names no torrent at once (facts regenerated from the
   source; without the second one such a scrape parks a pending entry nobody completes) *)
Theorem C17_scrape_cut_precedes_split : ws_scrape_cut_before_split = true.
Proof. reflexivity. Qed.
Print Assumptions C17_scrape_cut_precedes_split.

Theorem C17_empty_scrape_answered : ws_scrape_empty_answered = true.
Proof. reflexivity. Qed.
Print Assumptions C17_empty_scrape_answered.

(* ---- routing (Model/WsRouting.v, sequential semantics) ---- *)
From Aquatic Require Import WsSwarm AssocFacts WsFacts WsRoutingFacts.
Local Open Scope N_scope.

(* what a step hands to clients is, message for message, what the swarm worker addressed to
   connections that are alive; nothing reaches a connection that is gone *)
Theorem C17_delivered_iff_addressed_and_alive : forall cs outs o,
  In (DOut o) (deliver cs outs) <-> In o outs /\ find_conn (wout_dest o) cs <> None.
Proof.
  intros cs outs o. split.
  - intros H. apply deliver_dest_alive in H. destruct H as (o' & E & Hin & Hal). injection E as <-. split; assumption.
  - intros [Hin Hal]. apply deliver_complete; assumption.
Qed.
Print Assumptions C17_delivered_iff_addressed_and_alive.

Theorem C17_step_delivers_to_named_live_connections : forall cfg cut ae k y who a y' msgs,
  wsys_step cfg cut ae k y who a = Ok (y', msgs) ->
  forall m, In m msgs -> find_conn (dest m) (y_conns y) <> None \/ find_conn (dest m) (y_conns y') <> None.
Proof. exact step_delivers_to_named_live_connections. Qed.
Print Assumptions C17_step_delivers_to_named_live_connections.

(* a second peer id for a torrent the connection has not stopped: the error, and the connection
   is gone (the running tracker loses the error message itself: recorded finding) *)
Theorem C17_second_peer_id_refused : forall cfg cut ae k y who c rq pid',
  find_conn who (y_conns y) = Some c ->
  aget N.eqb (q_hash rq) (sc_announced c) = Some pid' -> pid' <> q_pid rq ->
  forall y' msgs, wsys_step cfg cut ae k y who (CAnnounce rq) = Ok (y', msgs) ->
    msgs = [DErr (fst who) (snd who) 2] /\ find_conn who (y_conns y') = None.
Proof. exact second_peer_id_refused. Qed.
Print Assumptions C17_second_peer_id_refused.

Theorem C17_same_peer_id_forwarded : forall cfg cut ae k y who c rq,
  find_conn who (y_conns y) = Some c ->
  (aget N.eqb (q_hash rq) (sc_announced c) = None \/ aget N.eqb (q_hash rq) (sc_announced c) = Some (q_pid rq)) ->
  forall y' msgs, wsys_step cfg cut ae k y who (CAnnounce rq) = Ok (y', msgs) ->
    exists s' outs, ws_announce cfg (yget (y_workers y) (wroute k (q_hash rq))) rq 0 0 0 = Ok (s', outs)
      /\ y_workers y' = yset (y_workers y) (wroute k (q_hash rq)) s' /\ msgs = deliver (y_conns y') outs.
Proof. exact same_peer_id_forwarded. Qed.
Print Assumptions C17_same_peer_id_forwarded.

(* with both facts above in place: every scrape naming a list gets exactly one reply, on the
   sender's connection, merging the swarm workers' parts *)
Theorem C17_scrape_gets_exactly_one_reply : forall cfg k y who c hs y' msgs,
  find_conn who (y_conns y) = Some c ->
  wsys_step cfg ws_scrape_cut_before_split ws_scrape_empty_answered k y who (CScrape (Some hs)) = Ok (y', msgs) ->
  y' = y /\ exists files, msgs = [DOut (WScrape (fst who) (snd who) files)].
Proof.
  intros cfg k y who c hs y' msgs. rewrite C17_scrape_cut_precedes_split, C17_empty_scrape_answered.
  apply scrape_gets_exactly_one_reply.
Qed.
Print Assumptions C17_scrape_gets_exactly_one_reply.

Theorem C17_closed_connection_is_gone : forall cfg cut ae k y who y' msgs,
  wsys_step cfg cut ae k y who CClose = Ok (y', msgs) -> msgs = [] /\ find_conn who (y_conns y') = None.
Proof. exact closed_connection_is_gone. Qed.
Print Assumptions C17_closed_connection_is_gone.

(* ---- closed connections leave no peers (mechanism) ---- *)
From Aquatic Require Import WsCloseFacts.

(* closing runs the clean-up record: afterwards, in the swarm worker that owns each recorded
   torrent, the recorded peer id is gone; torrents the record does not name, and the other
   address family, are untouched; no swarm worker fails *)
Theorem C17_close_clears_every_recorded_entry : forall k v6, (0 < k)%nat -> forall ann ws ws',
  length ws = k -> all_ok k ws -> NoDup (map fst ann) -> close_all k ws v6 ann = Ok ws' ->
  length ws' = k /\ all_ok k ws'
  /\ (forall h pid t', In (h, pid) ann -> aget N.eqb h (wfam (yget ws' (wroute k h)) v6) = Some t' -> aget N.eqb pid (wt_peers t') = None)
  /\ (forall h, ~ In h (map fst ann) -> forall j f, aget N.eqb h (wfam (yget ws' j) f) = aget N.eqb h (wfam (yget ws j) f))
  /\ (forall j h, aget N.eqb h (wfam (yget ws' j) (negb v6)) = aget N.eqb h (wfam (yget ws j) (negb v6))).
Proof. exact close_all_clears. Qed.
Print Assumptions C17_close_clears_every_recorded_entry.

(* ... and the record names every torrent the connection announced without stopping it, under
   the one peer id it may use there *)
Theorem C17_announce_is_recorded : forall cfg cut ae k y who c rq y' msgs,
  find_conn who (y_conns y) = Some c -> sc_key c = who ->
  (aget N.eqb (q_hash rq) (sc_announced c) = None \/ aget N.eqb (q_hash rq) (sc_announced c) = Some (q_pid rq)) ->
  wsys_step cfg cut ae k y who (CAnnounce rq) = Ok (y', msgs) ->
  exists c', find_conn who (y_conns y') = Some c' /\ sc_key c' = who /\ sc_v6 c' = sc_v6 c
    /\ (q_stopped rq = false -> aget N.eqb (q_hash rq) (sc_announced c') = Some (q_pid rq)).
Proof. exact announce_is_recorded. Qed.
Print Assumptions C17_announce_is_recorded.

(* ---- closed ones leave no peers: the invariant ---- *)
From Aquatic Require Import WsOwnFacts.

(* [Own]: every peer entry of every swarm worker belongs to a LIVE connection of its address
   family whose clean-up record names exactly that (torrent, peer id), and sits in the worker the
   torrent routes to.  It holds initially and is preserved by every action - open, announce
   (accepted, ignored under the ownership rule, stopped, refused for a second peer id), scrape,
   invalid message, close - for every number of swarm workers, provided the socket workers hand
   over requests with the identity and family of the connection they arrived on. *)
Theorem C17_invariant_initially : forall k, Own k (wsys_init k).
Proof. exact Own_init. Qed.
Print Assumptions C17_invariant_initially.

Theorem C17_invariant_preserved : forall cfg cut ae k y who a y' msgs, (0 < k)%nat ->
  Own k y -> action_wf y who a -> wsys_step cfg cut ae k y who a = Ok (y', msgs) -> Own k y'.
Proof. exact Own_step. Qed.
Print Assumptions C17_invariant_preserved.

Theorem C17_invariant_along_every_history : forall cfg cut ae k, (0 < k)%nat -> forall acts y y' ms,
  Own k y -> run_wf cfg cut ae k y acts -> wsys_run cfg cut ae k y acts = Ok (y', ms) -> Own k y'.
Proof. exact Own_run. Qed.
Print Assumptions C17_invariant_along_every_history.

(* no action can make a swarm worker fail *)
Theorem C17_step_total : forall cfg cut ae k y who a, (0 < k)%nat -> Own k y ->
  exists y' msgs, wsys_step cfg cut ae k y who a = Ok (y', msgs).
Proof. exact wsys_step_total. Qed.
Print Assumptions C17_step_total.

(* when a connection closes - or is refused for a second peer id - NO swarm worker holds a peer
   entry created by it any more, without any further message from the client *)
Theorem C17_closed_leaves_no_peers : forall cfg cut ae k y who y' msgs, (0 < k)%nat ->
  Own k y -> wsys_step cfg cut ae k y who CClose = Ok (y', msgs) ->
  forall j f h t pid p, (j < k)%nat ->
    aget N.eqb h (wfam (yget (y_workers y') j) f) = Some t -> aget N.eqb pid (wt_peers t) = Some p -> owner p <> who.
Proof. exact closed_leaves_no_peers. Qed.
Print Assumptions C17_closed_leaves_no_peers.

Theorem C17_refused_leaves_no_peers : forall cfg cut ae k y who c rq pid' y' msgs, (0 < k)%nat ->
  Own k y -> find_conn who (y_conns y) = Some c ->
  aget N.eqb (q_hash rq) (sc_announced c) = Some pid' -> pid' <> q_pid rq ->
  wsys_step cfg cut ae k y who (CAnnounce rq) = Ok (y', msgs) ->
  forall j f h t pid p, (j < k)%nat ->
    aget N.eqb h (wfam (yget (y_workers y') j) f) = Some t -> aget N.eqb pid (wt_peers t) = Some p -> owner p <> who.
Proof. exact refused_leaves_no_peers. Qed.
Print Assumptions C17_refused_leaves_no_peers.
