(* C11 - the access list is enforced on announce, on cleaning and across reloads.
   (The announce gates of the three socket workers are stated in C11gates.v on the handler
   models.) *)
From Aquatic Require Import RefSwarm HttpSwarm AccessListFile AccessListFacts PeerMapRefine SwarmCommon
     UdpSwarmRefine HttpSwarmRefine ExpiryFacts.
Local Open Scope N_scope.

(* allow: only listed hashes; deny: only unlisted ones; off: everything *)
Theorem C11_mode_semantics : forall l h,
  (allows AclAllow l h = true <-> In h l)
  /\ (allows AclDeny l h = true <-> ~ In h l)
  /\ allows AclOff l h = true.
Proof. exact mode_semantics. Qed.
Print Assumptions C11_mode_semantics.

(* a reload that fails - file unreadable, or ANY malformed line - leaves the previous list fully
   in force; a reload never installs part of a file *)
Theorem C11_failed_reload_keeps_list : forall mode cur,
  mode <> AclOff ->
  reload mode cur None = (cur, false)
  /\ (forall bytes, parse_file bytes = None -> reload mode cur (Some bytes) = (cur, false)).
Proof. intros mode cur H. split; [apply reload_unreadable, H|intros; apply reload_malformed; assumption]. Qed.
Print Assumptions C11_failed_reload_keeps_list.

Theorem C11_reload_all_or_nothing : forall mode cur io,
  fst (reload mode cur io) = cur
  \/ exists bytes hs, io = Some bytes /\ parse_file bytes = Some hs /\ fst (reload mode cur io) = map le_num hs.
Proof. exact reload_all_or_nothing. Qed.
Print Assumptions C11_reload_all_or_nothing.

(* a bad line at ANY position makes the whole file fail; blank lines are skipped *)
Theorem C11_bad_line_any_position : forall pre bad post,
  bad <> [] -> parse_line bad = None -> parse_lines (pre ++ bad :: post) = None.
Proof. exact parse_lines_bad_anywhere. Qed.
Print Assumptions C11_bad_line_any_position.

Theorem C11_blank_lines_skipped : forall pre post,
  parse_lines (pre ++ [] :: post) = parse_lines (pre ++ post).
Proof. exact parse_lines_blank_skipped. Qed.
Print Assumptions C11_blank_lines_skipped.

(* a 20-byte hash written as 40 hex digits in any mixture of upper and lower case parses back
   to exactly that hash; a line of any other length is rejected; surrounding white space and
   white-space-only lines do not matter *)
Theorem C11_hex_any_case : forall case bs,
  length bs = 20%nat -> Forall (fun b => b < 256) bs -> parse_line (encode_hex case 0 bs) = Some bs.
Proof. exact parse_line_encode. Qed.
Print Assumptions C11_hex_any_case.

Theorem C11_wrong_length_rejected : forall l, length l <> 40%nat -> parse_line l = None.
Proof. exact parse_line_wrong_length. Qed.
Print Assumptions C11_wrong_length_rejected.

Theorem C11_whitespace_trimmed : forall pre core post first last mid,
  forallb is_ws pre = true -> forallb is_ws post = true ->
  core = first :: mid ++ [last] -> is_ws first = false -> is_ws last = false ->
  trim (pre ++ core ++ post) = core.
Proof. exact trim_core. Qed.
Print Assumptions C11_whitespace_trimmed.

(* after a reload to (mode, acl) the next cleaning pass removes every stored torrent the new
   list forbids and leaves every permitted torrent's unexpired entries untouched (udp, http) *)
Theorem C11_clean_after_reload_udp : forall cfg s r now mode acl,
  R cfg s r ->
  exists s' out, u_step cfg s (UClean now mode acl) = Ok (s', out)
    /\ forall v6 h k p,
         In (k, p) (pm_entries (tm_get h (ufam s' v6)))
         <-> allows mode acl h = true /\ In (k, p) (pm_entries (tm_get h (ufam s v6))) /\ (now < p_until p)%N.
Proof. exact udp_clean_exact. Qed.
Print Assumptions C11_clean_after_reload_udp.

Theorem C11_clean_after_reload_http : forall cfg s r now mode acl,
  HR cfg s r ->
  exists s' out, h_step cfg s (HClean now mode acl) = Ok (s', out)
    /\ forall v6 h k p,
         In (k, p) (pm_entries (tm_get h (hfam s' v6)))
         <-> allows mode acl h = true /\ In (k, p) (pm_entries (tm_get h (hfam s v6))) /\ (now < p_until p)%N.
Proof. exact http_clean_exact. Qed.
Print Assumptions C11_clean_after_reload_http.

(* non-vacuity: a two-line file with mixed case, CRLF and padding parses; the same file with one
   digit missing in the second line does not *)
Example C11_parse_example :
  let good := example_file in
  (exists hs, parse_file good = Some hs /\ length hs = 2%nat)
  /\ parse_file (removelast (removelast (removelast good))) = None.
Proof. cbv zeta. split; [eexists; split; vm_compute; reflexivity|vm_compute; reflexivity]. Qed.

(* ---- the announce gates of the three trackers (system-level models) ---- *)
From Aquatic Require Import HttpSwarm HttpConn WsSwarm WsRouting Layout UdpCodec UdpCodecFacts UdpHandler UdpHandlerFacts.

(* http: a forbidden torrent is refused by the socket worker and no swarm worker state changes;
   a permitted announce is what the swarm workers make of it *)
Theorem C11_http_gate : forall mode acl cfg cut k ws op,
  (http_forbidden mode acl op = true -> sys_gate mode acl cfg cut k ws op = Ok (ws, GFailureNotAllowed))
  /\ (http_forbidden mode acl op = false ->
      sys_gate mode acl cfg cut k ws op = match sys_step cfg cut k ws op with Ok (ws', out) => Ok (ws', GOut out) | Panic => Panic end).
Proof.
  intros mode acl cfg cut k ws op. unfold sys_gate. split; intros ->; [reflexivity|].
  destruct (sys_step cfg cut k ws op) as [[ws' out]|]; reflexivity.
Qed.
Print Assumptions C11_http_gate.

(* WebTorrent: the error (kind 4), no bookkeeping, no swarm worker touched *)
Theorem C11_ws_gate : forall mode acl cfg cut ae k y who c rq,
  find_conn who (y_conns y) = Some c ->
  (allows mode acl (q_hash rq) = false -> wsys_gate mode acl cfg cut ae k y who (CAnnounce rq) = Ok (y, [DErr (fst who) (snd who) 4]))
  /\ (allows mode acl (q_hash rq) = true -> wsys_gate mode acl cfg cut ae k y who (CAnnounce rq) = wsys_step cfg cut ae k y who (CAnnounce rq)).
Proof. intros mode acl cfg cut ae k y who c rq Hc. unfold wsys_gate. rewrite Hc. split; intros ->; reflexivity. Qed.
Print Assumptions C11_ws_gate.

(* udp: with a valid connection id, a forbidden torrent gets the error reply and the state is
   unchanged (the general statement is C06_state_changes_only_by_accepted_announce) *)
Theorem C11_udp_gate : forall mac St da ds cfg now st from bytes vs,
  sa_port from <> 0%N ->
  parse_request bep15_layouts bytes (hc_max_scrape cfg) = POk (UdpCodec.RAnnounce vs) ->
  id_valid mac cfg now (canonical from) (int_of (areq_field bep15_layouts vs "connection_id")) = true ->
  allows (hc_acl_mode cfg) (hc_acl cfg) (be_dec (bytes_of (areq_field bep15_layouts vs "info_hash"))) = false ->
  handle bep15_layouts mac St da ds cfg now st from bytes
  = Ok (st, Some (SError (int_of (areq_field bep15_layouts vs "transaction_id")) not_allowed_text)).
Proof.
  intros mac St da ds cfg now st from bytes vs Hp Hr Hv Ha. unfold handle.
  apply N.eqb_neq in Hp. rewrite Hp, Hr, Hv, Ha. reflexivity.
Qed.
Print Assumptions C11_udp_gate.
