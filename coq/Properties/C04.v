(* C04 - UDP shared swarm state is linearizable and deadlock-free.
   Model/UdpConcurrent.v: threads interleave at lock-acquisition granularity (every instruction
   runs under one lock; between instructions none is held).  The reference tracker is the
   sequential per-torrent specification of C01 (RefTracker.v). *)
From Coq Require Import Permutation.
From Aquatic Require Import RefSwarm PeerMapFacts Selection PeerMapRefine SwarmCommon UdpConcurrent UdpConcFacts Consts.
Local Open Scope N_scope.

(* the phase-2 retain of the cleaning pass keeps a torrent whose Arc is shared (regenerated) *)
Theorem C04_clean_keeps_shared_arc : udp_clean_keeps_shared_arc = true.
Proof. reflexivity. Qed.
Print Assumptions C04_clean_keeps_shared_arc.

(* announce looks a torrent's cell up and, on a miss, creates it under ONE lock (upgradable read,
   upgraded; entry().or_default() does not overwrite): the model's IAnn1 is one instruction *)
Theorem C04_get_or_create_is_atomic : udp_announce_get_or_create_atomic = true.
Proof. reflexivity. Qed.
Print Assumptions C04_get_or_create_is_atomic.

(* EVERY program of announces, scrapes and cleaning passes, ANY number of threads, EVERY
   schedule: the run never fails, and its events are a run of the sequential reference tracker
   in which every instruction is a stutter or the single atomic effect of its operation
   ([lin]: IAnn2 = the announce with the reference's counts and a valid peer selection, IScr =
   the reference's counts, ICl2 = the reference's expiry) - a forward simulation with the
   linearization points inside the operations, i.e. linearizability; the final shared state
   refines the final reference state *)
Theorem C04_linearizable : forall cap ops sched,
  exists s evs, run_micro cap udp_clean_keeps_shared_arc (cinit ops) sched = Ok (s, evs) /\ Inv s
    /\ exists r, lin_run (fun _ => []) evs r /\ Sim cap s r.
Proof. intros cap ops sched. rewrite C04_clean_keeps_shared_arc. apply linearizable. Qed.
Print Assumptions C04_linearizable.

(* the key invariant: a thread's Arc clone is always the cell the shard maps its torrent to, so
   an in-flight announce can never write into a cell the cleaning pass has unlinked *)
Theorem C04_held_cell_is_mapped : forall cap ops sched s evs,
  run_micro cap true (cinit ops) sched = Ok (s, evs) ->
  forall t h c, In t (cs_threads s) -> t_held t = Some (h, c) -> lookup h (cs_map s) = Some c.
Proof.
  intros cap ops sched s evs H.
  destruct (linearizable cap ops sched) as (s' & evs' & H' & (I1 & _) & _). rewrite H in H'. injection H' as <- _. exact I1.
Qed.
Print Assumptions C04_held_cell_is_mapped.

(* one step of any thread, from any state satisfying the invariants *)
Theorem C04_step : forall cap s r me res,
  Inv s -> AllShaped s -> Sim cap s r -> micro cap true s me = Some res ->
  exists s' ev, res = Ok (s', ev) /\ Inv s' /\ AllShaped s'
    /\ exists t i, nth_error (cs_threads s) me = Some t /\ hd_error (t_code t) = Some i
         /\ exists r', lin r (t_held t) i ev r' /\ Sim cap s' r'.
Proof. exact micro_simulates. Qed.
Print Assumptions C04_step.

(* no thread ever waits for another at this granularity, and every step consumes an
   instruction: no deadlock, no infinite schedule *)
Theorem C04_progress : forall cap s r me t i code,
  Inv s -> AllShaped s -> Sim cap s r ->
  nth_error (cs_threads s) me = Some t -> t_code t = i :: code ->
  exists s' ev, micro cap true s me = Some (Ok (s', ev)) /\ (remaining s' + 1 = remaining s)%nat.
Proof. exact progress. Qed.
Print Assumptions C04_progress.

(* WITHOUT the Arc::get_mut guard the property is false: an announce that was answered is lost.
   Thread 0 announces (clone of a fresh cell), thread 1's cleaning pass unlinks the still empty
   cell, thread 0 then writes its peer into the unlinked cell; the final scrape shows nothing. *)
Definition w_h : N := 7.
Definition w_ops : list cop :=
  [OAnn w_h (mkAargs 100 Leeching 1 1000 30 0 0); OCl 50 [w_h]; OScr [w_h]].
Definition w_sched : list nat := [0; 1; 1; 1; 1; 1; 1; 1; 1; 0; 0; 2; 2; 2]%nat.

Theorem C04_refuted_without_guard :
  exists s evs, run_micro 2 false (cinit w_ops) w_sched = Ok (s, evs)
    /\ In (0%nat, EAnnounce 0 0 []) evs /\ In (2%nat, EScrape 0 0) evs /\ abs_pm s w_h = Small [].
Proof. vm_compute. do 2 eexists. split; [reflexivity|]. repeat split; auto 20. Qed.
Print Assumptions C04_refuted_without_guard.

(* the same schedule with the guard: the announced peer is there at the end *)
Example C04_same_schedule_with_guard :
  exists s evs, run_micro 2 true (cinit w_ops) w_sched = Ok (s, evs) /\ In (2%nat, EScrape 0 1) evs.
Proof. vm_compute. do 2 eexists. split; [reflexivity|]. cbn. tauto. Qed.
