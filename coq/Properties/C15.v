(* C15 - WebTorrent JSON codec round-trips; 20-byte identifiers are exact.
   Tree level (serde-derive shape of every message).  The JSON text layer - serde_json's printer
   and simd-json's tokenizer - is not modelled; the correspondence bridges it with
   serde_json::Value and checks text = binary frames on the implementation. *)
From Aquatic Require Import WsCodec WsCodecFacts.
Local Open Scope N_scope.

(* a 20-byte identifier is encoded as the 20 characters with those code points, and EXACTLY the
   strings of exactly 20 characters U+0000..U+00FF are accepted: no shorter, no longer, no other
   characters *)
Theorem C15_id_exact : forall s bs,
  dec20 s = Some bs <-> length s = 20%nat /\ Forall (fun c => c <= 255) s /\ bs = s.
Proof. exact dec20_exact. Qed.
Print Assumptions C15_id_exact.

Theorem C15_id_roundtrip : forall b, length b = 20%nat -> Forall (fun c => c <= 255) b -> dec20 (enc20 b) = Some b.
Proof. exact dec20_enc20. Qed.
Print Assumptions C15_id_roundtrip.

Theorem C15_id_rejects_other_lengths : forall s, length s <> 20%nat -> dec20 s = None.
Proof. exact dec20_rejects_other_lengths. Qed.
Print Assumptions C15_id_rejects_other_lengths.

Theorem C15_id_rejects_wide_char : forall s c, In c s -> 255 < c -> dec20 s = None.
Proof. exact dec20_rejects_wide_char. Qed.
Print Assumptions C15_id_rejects_wide_char.

(* every announce - any event or none, left absent/0/positive, with offers (any number, arbitrary
   SDP text), with an answer, every optional field present or absent - survives the mapping to a
   JSON tree and back; the untagged InMessage picks the right variant *)
Theorem C15_announce_tree_roundtrip : forall a,
  announce_ok a -> of_in_json (in_json (InAnnounce a)) = Some (InAnnounce a).
Proof. exact announce_tree_roundtrip. Qed.
Print Assumptions C15_announce_tree_roundtrip.

(* scrapes with no, one (a bare string) or several (an array) info hashes *)
Theorem C15_scrape_tree_roundtrip : forall h,
  hashes_ok h -> of_in_json (in_json (InScrape h)) = Some (InScrape h).
Proof. exact scrape_tree_roundtrip. Qed.
Print Assumptions C15_scrape_tree_roundtrip.

(* non-vacuity: an announce with two offers and an answer *)
Example C15_example :
  let i := repeat 255 20 in
  let a := mkWann i (repeat 0 20) (Some 0) (Some WEvStopped) (Some [mkWoffer [34; 92; 128512] i; mkWoffer [] i]) None
                  (Some [10]) (Some i) (Some i) in
  announce_ok a /\ of_in_json (in_json (InAnnounce a)) = Some (InAnnounce a).
Proof.
  cbv zeta. split; [|vm_compute; reflexivity].
  assert (Hi : id_ok (repeat 255 20)) by (split; [reflexivity|apply Forall_forall; intros x Hx; apply repeat_spec in Hx; subst; lia]).
  assert (H0 : id_ok (repeat 0 20)) by (split; [reflexivity|apply Forall_forall; intros x Hx; apply repeat_spec in Hx; subst; lia]).
  unfold announce_ok. cbn [wa_info_hash wa_peer_id wa_left wa_numwant wa_offers wa_to_peer_id wa_offer_id onum_ok oid_ok].
  repeat split; try apply Hi; try apply H0; try (unfold usize_max; lia).
  apply Forall_cons; [exact Hi|apply Forall_cons; [exact Hi|apply Forall_nil]].
Qed.
