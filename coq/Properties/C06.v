(* C06 - UDP request/reply contract: one reply, to the sender, no amplification.
   The handler model (Model/UdpHandler.v) is a function
       state -> source address -> datagram bytes -> state * option reply
   so "at most one datagram per datagram received, addressed to its source" is its type: both
   socket backends return Option<Response> and send it to the canonical source.  The theorems
   hold for every keyed hash [mac], every swarm implementation [do_announce]/[do_scrape], every
   configuration, clock, state, source and EVERY byte string. *)
From Aquatic Require Import Layout UdpCodec Bep15 UdpCodecFacts UdpHandler UdpHandlerFacts.
Local Open Scope N_scope.
Notation L := bep15_layouts.

Theorem C06_port_zero_ignored : forall mac St da ds cfg now st o bytes,
  handle L mac St da ds cfg now st (SA o 0) bytes = Ok (st, None).
Proof. exact port_zero_ignored. Qed.
Print Assumptions C06_port_zero_ignored.

(* the only reply obtainable without a valid connection id is the connect reply *)
Theorem C06_reply_needs_connect_or_valid_id : forall mac St da ds cfg now st from bytes st' r,
  handle L mac St da ds cfg now st from bytes = Ok (st', Some r) ->
  (exists tid, parse_request L bytes (hc_max_scrape cfg) = POk (RConnect tid) /\ st' = st
               /\ r = SConnect [VInt tid; VInt (wire_of_id (create mac now (sa_octets (canonical from))))])
  \/ (exists cid, carried_id L cfg bytes = Some cid /\ id_valid mac cfg now (canonical from) cid = true).
Proof. exact reply_needs_connect_or_valid_id. Qed.
Print Assumptions C06_reply_needs_connect_or_valid_id.

(* ... which is 16 bytes, never larger than the request that caused it *)
Theorem C06_connect_reply_not_larger : forall bytes max tid c,
  parse_request L bytes max = POk (RConnect tid) ->
  length (write_response L (SConnect [VInt tid; VInt c])) = 16%nat /\ (16 <= length bytes)%nat.
Proof. exact (connect_reply_not_larger (fun _ => 0)). Qed.
Print Assumptions C06_connect_reply_not_larger.

Theorem C06_invalid_id_unanswered : forall mac St da ds cfg now st from bytes cid,
  carried_id L cfg bytes = Some cid -> id_valid mac cfg now (canonical from) cid = false ->
  handle L mac St da ds cfg now st from bytes = Ok (st, None).
Proof. exact invalid_id_unanswered. Qed.
Print Assumptions C06_invalid_id_unanswered.

Theorem C06_unparseable_unanswered : forall mac St da ds cfg now st from bytes,
  parse_request L bytes (hc_max_scrape cfg) = PErr Unsendable ->
  handle L mac St da ds cfg now st from bytes = Ok (st, None).
Proof. exact unparseable_unanswered. Qed.
Print Assumptions C06_unparseable_unanswered.

(* exactly one reply for a well-formed connect ... *)
Theorem C06_connect_always_answered : forall mac St da ds cfg now st from bytes tid,
  sa_port from <> 0 -> parse_request L bytes (hc_max_scrape cfg) = POk (RConnect tid) ->
  exists c, handle L mac St da ds cfg now st from bytes = Ok (st, Some (SConnect [VInt tid; VInt c])).
Proof. exact connect_always_answered. Qed.
Print Assumptions C06_connect_always_answered.

(* ... and for any parseable request carrying a valid id, as long as the swarm calls return
   (they do on every reachable state: C01 / C12) *)
Theorem C06_valid_id_always_answered : forall mac St da ds cfg now st from bytes cid,
  sa_port from <> 0 -> carried_id L cfg bytes = Some cid -> id_valid mac cfg now (canonical from) cid = true ->
  (forall vs, exists st' r, da st (canonical from) vs = Ok (st', r)) ->
  (forall tid hs, exists r, ds st (canonical from) tid hs = Ok r) ->
  exists st' r, handle L mac St da ds cfg now st from bytes = Ok (st', Some r).
Proof. exact valid_id_always_answered. Qed.
Print Assumptions C06_valid_id_always_answered.

(* transaction id and kind of every reply, for a swarm that echoes the id and answers in kind *)
Theorem C06_reply_echoes_tid_and_kind : forall mac St da ds,
  (forall st src vs st' r, da st src vs = Ok (st', r) ->
     exists fixed peers, r = SAnnounce (negb (is_v4 src)) fixed peers
       /\ int_of (field_at bep15_announce_fixed fixed "transaction_id") = int_of (field_at bep15_announce_request vs "transaction_id")) ->
  (forall st src tid hs r, ds st src tid hs = Ok r -> exists stats, r = SScrape tid stats /\ length stats = length hs) ->
  forall cfg now st from bytes st' r,
  handle L mac St da ds cfg now st from bytes = Ok (st', Some r) ->
  response_tid L r = request_tid bytes /\ reply_kind_ok from (parse_request L bytes (hc_max_scrape cfg)) r.
Proof. exact reply_echoes_tid_and_kind. Qed.
Print Assumptions C06_reply_echoes_tid_and_kind.

(* rejected input leaves the tracker state unchanged (also the last clause of C12) *)
Theorem C06_state_changes_only_by_accepted_announce : forall mac St da ds cfg now st from bytes st' o,
  handle L mac St da ds cfg now st from bytes = Ok (st', o) ->
  st' = st
  \/ (exists vs r, parse_request L bytes (hc_max_scrape cfg) = POk (RAnnounce vs)
                 /\ id_valid mac cfg now (canonical from) (int_of (areq_field L vs "connection_id")) = true
                 /\ allows (hc_acl_mode cfg) (hc_acl cfg) (be_dec (bytes_of (areq_field L vs "info_hash"))) = true
                 /\ da st (canonical from) vs = Ok (st', r) /\ o = Some r).
Proof. exact state_changes_only_by_accepted_announce. Qed.
Print Assumptions C06_state_changes_only_by_accepted_announce.

(* the scrape list handed to the swarm is the first max_scrape_torrents requested hashes, in
   request order: C13_roundtrip_scrape_cut; its size bound: C12_udp_scrape_alloc *)

(* ---- receive buffers: what reaches the handler ---- *)
From Aquatic Require Import Consts.

(* on either backend a datagram causes at most what the handler gives for a prefix of it;
   one that fits the receive buffer is handled exactly *)
Theorem C06_serve_is_handle_of_prefix_or_drop : forall mac St da ds b cfg now st from bytes,
  serve L mac St da ds b cfg now st from bytes = Ok (st, None)
  \/ exists n, serve L mac St da ds b cfg now st from bytes = handle L mac St da ds cfg now st from (firstn n bytes).
Proof. exact serve_is_handle_of_prefix_or_drop. Qed.
Print Assumptions C06_serve_is_handle_of_prefix_or_drop.

Theorem C06_serve_is_handle_when_fits : forall mac St da ds b cfg now st from bytes,
  fits b bytes -> serve L mac St da ds b cfg now st from bytes = handle L mac St da ds cfg now st from bytes.
Proof. exact serve_is_handle_when_fits. Qed.
Print Assumptions C06_serve_is_handle_when_fits.

(* KNOWN FINDING (uring-request-buffer): "exactly one reply for any well-formed request carrying
   a valid connection id" is FALSE on the io_uring backend for requests longer than
   REQUEST_BUF_LEN - 16 - sizeof(sockaddr) = 480 (v4 socket) / 468 (v6 socket) bytes: a
   well-formed scrape naming 24 torrents (496 bytes; max_scrape_torrents defaults to 70) is
   dropped whatever id it carries, while the mio backend answers it. *)
Theorem C06_uring_drops_wellformed_scrape_refuted : forall mac St da ds cfg now st from cid tid hs v6s,
  signed_ok 8 cid -> signed_ok 4 tid -> Forall (fun h => length h = 20%nat) hs -> hs <> [] ->
  (uring_capacity (N.to_nat uring_REQUEST_BUF_LEN) v6s < 16 + 20 * length hs)%nat ->
  let bytes := write_request L (UdpCodec.RScrape cid tid hs) in
  parse_request L bytes (hc_max_scrape cfg) = POk (UdpCodec.RScrape cid tid (firstn (Nat.min (hc_max_scrape cfg) (length hs)) hs))
  /\ serve L mac St da ds (Uring (N.to_nat uring_REQUEST_BUF_LEN) v6s) cfg now st from bytes = Ok (st, None).
Proof.
  intros mac St da ds cfg now st from cid tid hs v6s Hc Ht Hall Hne Hn bytes. split.
  - apply roundtrip_scrape; assumption.
  - apply uring_drops_long_datagrams. unfold bytes. rewrite (scrape_request_length _ _ _ Hall). exact Hn.
Qed.
Print Assumptions C06_uring_drops_wellformed_scrape_refuted.

(* with the constants of the current source the hypothesis holds from 24 torrents on *)
Example C06_uring_capacity_now :
  uring_capacity (N.to_nat uring_REQUEST_BUF_LEN) false = N.to_nat (uring_REQUEST_BUF_LEN - 32)
  /\ uring_capacity (N.to_nat uring_REQUEST_BUF_LEN) true = N.to_nat (uring_REQUEST_BUF_LEN - 44).
Proof. split; reflexivity. Qed.
