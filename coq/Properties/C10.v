(* C10 - peers (and WebTorrent offers, see C10ws.v) expire exactly at their deadline, never
   earlier.  The clock is the worker's whole-second u32 time sample. *)
From Aquatic Require Import RefSwarm HttpSwarm Expiry PeerMapFacts PeerMapRefine SwarmCommon
     UdpSwarmRefine HttpSwarmRefine ExpiryFacts.

(* the deadline set at an announce is sample + max age (ValidUntil::new saturates at u32::MAX) *)
Theorem C10_deadline_exact : forall sample age,
  (sample + age <= u32_max)%N -> valid_until_new sample age = (sample + age)%N.
Proof. exact deadline_exact. Qed.
Print Assumptions C10_deadline_exact.

(* an entry is valid at clock [now] iff now is before the deadline: never early for any clock
   value a u32 can show, never late *)
Theorem C10_never_early : forall sample age now,
  (now <= u32_max)%N -> (now < sample + age)%N -> (now < u32_max)%N \/ (sample + age <= u32_max)%N ->
  vu_valid (valid_until_new sample age) now = true.
Proof. exact never_early. Qed.
Print Assumptions C10_never_early.

Theorem C10_never_late : forall sample age now,
  (sample + age <= now)%N -> vu_valid (valid_until_new sample age) now = false.
Proof. exact never_late. Qed.
Print Assumptions C10_never_late.

(* a cleaning pass at [now] keeps exactly the entries whose deadline is still in the future -
   inline or heap representation, any capacity, any number of other peers *)
Theorem C10_clean_exact : forall cap shrink pc pm now pm' cnt msgs,
  pmap_inv cap shrink pm ->
  pm_clean cap shrink pc pm now = Ok (pm', cnt, msgs) ->
  forall k p, In (k, p) (pm_entries pm') <-> In (k, p) (pm_entries pm) /\ (now < p_until p)%N.
Proof. exact pm_clean_exact. Qed.
Print Assumptions C10_clean_exact.

(* the same for every torrent of a reachable udp / http tracker state (forbidden torrents go) *)
Theorem C10_udp_clean_exact : forall cfg s r now mode acl,
  R cfg s r ->
  exists s' out, u_step cfg s (UClean now mode acl) = Ok (s', out)
    /\ forall v6 h k p,
         In (k, p) (pm_entries (tm_get h (ufam s' v6)))
         <-> allows mode acl h = true /\ In (k, p) (pm_entries (tm_get h (ufam s v6))) /\ (now < p_until p)%N.
Proof. exact udp_clean_exact. Qed.
Print Assumptions C10_udp_clean_exact.

Theorem C10_http_clean_exact : forall cfg s r now mode acl,
  HR cfg s r ->
  exists s' out, h_step cfg s (HClean now mode acl) = Ok (s', out)
    /\ forall v6 h k p,
         In (k, p) (pm_entries (tm_get h (hfam s' v6)))
         <-> allows mode acl h = true /\ In (k, p) (pm_entries (tm_get h (hfam s v6))) /\ (now < p_until p)%N.
Proof. exact http_clean_exact. Qed.
Print Assumptions C10_http_clean_exact.

(* every re-announce sets a fresh deadline and touches nobody else's *)
Theorem C10_refresh : forall cap shrink pm key st pid until take o1 o2 pm' rep removed,
  pmap_inv cap shrink pm -> st <> Stopped ->
  pm_announce cap pm key st pid until take o1 o2 = Ok (pm', rep, removed) ->
  find_key key (pm_entries pm') = Some (mkPeer pid (is_seeding st) until)
  /\ forall k p, k <> key -> (In (k, p) (pm_entries pm') <-> In (k, p) (pm_entries pm)).
Proof. exact announce_sets_deadline. Qed.
Print Assumptions C10_refresh.

(* non-vacuity: deadline 7 - a pass at 6 keeps the peer, a pass at 7 removes it (heap map) *)
Example C10_boundary :
  let l := [(1, mkPeer 1 true 7); (2, mkPeer 2 false 9); (3, mkPeer 3 false 9)]%N in
  (exists pm c m, pm_clean 2 true false (Large l 1) 6%N = Ok (pm, c, m) /\ length (pm_entries pm) = 3)
  /\ (exists pm c m, pm_clean 2 true false (Large l 1) 7%N = Ok (pm, c, m) /\ keys (pm_entries pm) = [2; 3]%N).
Proof. split; do 3 eexists; split; vm_compute; reflexivity. Qed.

(* ---- staleness of the clock sample (http swarm worker) ----
   the http swarm worker stamps announces with a shared deadline that a timer refreshes every
   [http_peer_valid_until_refresh_secs] seconds (regenerated from swarm/mod.rs; 0 = the period is
   no longer a literal).  A deadline is therefore computed from a clock sample at most one period
   old, and a peer is never removed more than that much before announce time + max_peer_age. *)
From Aquatic Require Import Consts.
Theorem C10_http_sample_refreshed_every_second : (0 < http_peer_valid_until_refresh_secs <= 1)%N.
Proof. vm_compute. split; congruence. Qed.
Print Assumptions C10_http_sample_refreshed_every_second.

Theorem C10_stale_sample_bound : forall refresh t sample age now,
  (sample <= t)%N -> (t <= sample + refresh)%N -> (t + age <= u32_max)%N -> (now + refresh < t + age)%N ->
  vu_valid (valid_until_new sample age) now = true.
Proof.
  intros refresh t sample age now H1 H2 H3 H4. apply C10_never_early; [lia|lia|right; lia].
Qed.
Print Assumptions C10_stale_sample_bound.

(* the udp socket workers refresh their clock (connection-id clock and peer deadline sample) every
   256th poll iteration (mio: at most 256 x poll_timeout_ms = 12.8 s when idle with the default
   50 ms) or on a 5-second pulse (io_uring); regenerated from the sources *)
Theorem C10_udp_clock_refresh_cadence :
  (0 < udp_mio_clock_refresh_polls <= 256)%N /\ (0 < udp_uring_clock_pulse_secs <= 5)%N.
Proof. vm_compute. repeat split; congruence. Qed.
Print Assumptions C10_udp_clock_refresh_cadence.
