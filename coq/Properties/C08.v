(* C08 - WebTorrent swarm bookkeeping and per-connection ownership of peers (one swarm worker's
   storage; the socket worker's bookkeeping and the channels between workers are C17). *)
From Aquatic Require Import WsSwarm AssocFacts WsFacts.

(* every operation on a reachable state succeeds - in particular num_seeders never underflows -
   and num_seeders stays equal to the number of stored seeders, peer ids stay unique *)
Theorem C08_invariant : forall strict cfg s op,
  wstate_ok s -> exists s' outs, ws_step_gen strict cfg s op = Ok (s', outs) /\ wstate_ok s'.
Proof. exact ws_step_ok. Qed.
Print Assumptions C08_invariant.

Theorem C08_initial_state_ok : wstate_ok winit.
Proof. split; (split; [constructor|intros h t E; discriminate]). Qed.
Print Assumptions C08_initial_state_ok.

(* an announce installs exactly the announced status and a fresh deadline for its own peer id,
   keeps the entry's creator, removes the entry on 'stopped', and touches nobody else *)
Theorem C08_upsert : forall t rq until st,
  wt_ok t -> exists t', ws_upsert t rq until st = Ok t' /\ wt_ok t'
    /\ match st with
       | WStopped => aget N.eqb (q_pid rq) (wt_peers t') = None
       | _ => exists p, aget N.eqb (q_pid rq) (wt_peers t') = Some p
                        /\ w_seeder p = (match st with WSeeding => true | _ => false end) /\ w_until p = until
                        /\ (match aget N.eqb (q_pid rq) (wt_peers t) with
                            | Some old => w_consumer p = w_consumer old /\ w_conn p = w_conn old /\ w_expect p = w_expect old
                            | None => w_consumer p = q_consumer rq /\ w_conn p = q_conn rq /\ w_expect p = []
                            end)
       end
    /\ (forall k, k <> q_pid rq -> aget N.eqb k (wt_peers t') = aget N.eqb k (wt_peers t)).
Proof. exact ws_upsert_ok. Qed.
Print Assumptions C08_upsert.

(* 'left = 0' means seeder, anything else (absent included) leecher, 'stopped' wins *)
Theorem C08_status : forall stopped bleft,
  wstatus_of stopped bleft = if stopped then WStopped else match bleft with Some 0%N => WSeeding | _ => WLeeching end.
Proof. reflexivity. Qed.
Print Assumptions C08_status.

(* an announce with a stored peer id from a connection with a different connection id is ignored:
   no reply, no effect - under the code's test and under the intended one *)
Theorem C08_foreign_announce_inert : forall cfg s rq now o1 o2 t p,
  aget N.eqb (q_hash rq) (wfam s (q_v6 rq)) = Some t ->
  aget N.eqb (q_pid rq) (wt_peers t) = Some p -> w_conn p <> q_conn rq ->
  forall strict, ws_announce_gen strict cfg s rq now o1 o2 = Ok (s, []).
Proof. exact foreign_announce_inert. Qed.
Print Assumptions C08_foreign_announce_inert.

(* the code's ownership test is the intended one whenever connection ids are not shared between
   socket workers ... *)
Theorem C08_ownership_test_exact_when_ids_unique : forall rq p,
  (w_conn p = q_conn rq -> w_consumer p = q_consumer rq) -> lenient_foreign rq p = strict_foreign rq p.
Proof. exact ownership_test_exact_when_ids_unique. Qed.
Print Assumptions C08_ownership_test_exact_when_ids_unique.

(* ... and it is NOT when they are (recorded finding "conn-id-collision"): a connection of
   socket worker 1 whose slot key equals that of the owner on socket worker 0 re-labels the
   owner's entry as a seeder and is answered *)
Lemma C08_ownership_refuted_conn_id_collision :
  let cfg := mkWcfg 10 255 100 100 in
  let a consumer bleft := WOpAnnounce (mkWreq consumer 4294967297 false 7 99 false (Some bleft) None None) 0%N 0 0 in
  exists s1 o1 s2 o2,
    ws_step cfg winit (a 0%N 5%N) = Ok (s1, o1) /\ ws_step cfg s1 (a 1%N 0%N) = Ok (s2, o2)
    /\ o2 = [WAnnounce 1 4294967297 7 1 0]
    /\ ws_step_gen true cfg s1 (a 1%N 0%N) = Ok (s1, []).
Proof. cbv zeta. do 4 eexists. repeat split; vm_compute; reflexivity. Qed.

(* closing: the notification for (torrent, peer id) removes that entry and no other *)
Theorem C08_close_removes_that_peer : forall s v6 hash pid s' t,
  wstate_ok s -> ws_closed s v6 hash pid = Ok s' -> aget N.eqb hash (wfam s v6) = Some t ->
  exists t', aget N.eqb hash (wfam s' v6) = Some t'
    /\ aget N.eqb pid (wt_peers t') = None
    /\ forall k, k <> pid -> aget N.eqb k (wt_peers t') = aget N.eqb k (wt_peers t).
Proof. exact closed_removes_that_peer. Qed.
Print Assumptions C08_close_removes_that_peer.

(* the removal is by peer id with no ownership test (recorded finding "close-without-owner-check",
   reachable because the socket worker records (torrent, peer id) even for announces the swarm
   worker ignores): connection B's close removes connection A's entry *)
Lemma C08_close_refuted_without_owner_check :
  let cfg := mkWcfg 10 255 100 100 in
  let ann consumer conn := WOpAnnounce (mkWreq consumer conn false 7 99 false (Some 5%N) None None) 0%N 0 0 in
  exists s1 o1 s2 o2 s3,
    ws_step cfg winit (ann 0%N 4294967297%N) = Ok (s1, o1)         (* A announces: stored *)
    /\ ws_step cfg s1 (ann 0%N 4294967298%N) = Ok (s2, o2) /\ o2 = [] /\ s2 = s1   (* B uses A's peer id: ignored *)
    /\ ws_closed s2 false 7 99 = Ok s3                              (* B closes: its socket worker reports (7, 99) *)
    /\ wt_peers (wm_get 7 (w4 s3)) = [].                            (* A's entry is gone *)
Proof. cbv zeta. do 5 eexists. repeat split; vm_compute; reflexivity. Qed.
