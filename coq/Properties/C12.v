(* C12 - no network input can crash parsing or request handling.

   What is a theorem here:
   - the three swarm handlers, with every Rust panic point written into the model as [Panic]
     (usize underflow of the seeder/peer counters, ArrayVec::push beyond capacity, slice indices of
     the peer selection), never reach one: for EVERY history from the empty tracker and every
     field value of every request (numwant and bytes_left range over all of Z, events, ports,
     deadlines, selection offsets are arbitrary) the run is [Ok].  Field extremes such as
     numwant = i32::MIN or left < 0 are instances.
   - the parsers' allocation: a udp scrape request stores at most max_scrape_torrents hashes and
     at most one per 20 bytes of datagram; an http scrape query stores at most one hash per '='.
   The parsers themselves are written with checked reads only (.get, zerocopy prefix reads,
   str::get), so their models are ordinary total functions (UdpCodec.v, HttpCodec.v, WsCodec.v)
   and "returns an error value instead of panicking" is their correspondence with the real code
   under catch_unwind (suites of C13/C14/C15 plus the fuzz-misc stream): TESTING, not proof.
   The interiors of httparse, simd-json/serde_json, serde_bencode, tungstenite and the regex engine
   of the peer-id crate are not modelled at all. *)
From Aquatic Require Import Outcome Layout UdpCodec HttpCodec RefSwarm UdpSwarm HttpSwarm WsSwarm
  AssocFacts WsFacts NoPanicFacts.

Theorem C12_udp_handlers_total : forall cfg ops, exists s outs, u_run cfg uinit ops = Ok (s, outs).
Proof. exact u_run_total. Qed.
Print Assumptions C12_udp_handlers_total.

Theorem C12_http_handlers_total : forall cfg ops, exists s outs, h_run cfg hinit ops = Ok (s, outs).
Proof. exact h_run_total. Qed.
Print Assumptions C12_http_handlers_total.

Theorem C12_ws_handlers_total : forall strict cfg ops s, wstate_ok s ->
  exists s' outs, ws_run strict cfg s ops = Ok (s', outs) /\ wstate_ok s'.
Proof. exact ws_run_total. Qed.
Print Assumptions C12_ws_handlers_total.

Theorem C12_udp_scrape_alloc : forall L bytes max cid tid hs,
  parse_request L bytes max = POk (UdpCodec.RScrape cid tid hs) ->
  (length hs <= max)%nat /\ (20 * length hs <= length bytes)%nat /\ Forall (fun h => length h <= 20)%nat hs.
Proof. exact udp_scrape_alloc. Qed.
Print Assumptions C12_udp_scrape_alloc.

Theorem C12_http_scrape_alloc : forall s hs,
  parse_scrape_query s = Some hs -> (length hs <= length s)%nat.
Proof. exact http_scrape_alloc. Qed.
Print Assumptions C12_http_scrape_alloc.

(* non-vacuity: the run from the empty ws state is covered *)
Example C12_ws_init_ok : wstate_ok winit.
Proof. split; (split; [constructor|intros h t E; discriminate]). Qed.
