(* C07 - HTTP swarm bookkeeping equals a reference tracker (one swarm worker).
   [cfg] (inline capacity, max_peers, max_scrape_torrents) and the selection offsets are
   universally quantified. *)
From Aquatic Require Import RefSwarm HttpSwarm PeerMapFacts Selection PeerMapRefine SwarmCommon HttpSwarmRefine Consts.

Theorem C07_step_refines : forall cfg s r op,
  HR cfg s r ->
  exists s' out, h_step cfg s op = Ok (s', out) /\ HR cfg s' (fst (hr_step r op)) /\ hobs_ok cfg r op out.
Proof. exact hstep_refines. Qed.
Print Assumptions C07_step_refines.

Theorem C07_history_refines : forall cfg ops,
  exists s outs, h_run cfg hinit ops = Ok (s, outs)
                 /\ HR cfg s (hr_final rinit ops) /\ htrace_ok cfg rinit ops outs.
Proof. intros cfg ops. apply hrun_refines. apply HR_init. Qed.
Print Assumptions C07_history_refines.

(* a scrape reports each of the first max_scrape_torrents requested torrents exactly once, with
   the reference counts - zeros for torrents the reference tracker holds nothing for *)
Theorem C07_scrape_once_each : forall cfg s r v6 hashes,
  HR cfg s r ->
  exists files, h_step cfg s (HScrape v6 hashes) = Ok (s, HOScrape files)
    /\ NoDup (map fst files)
    /\ (forall h, In h (map fst files) <-> In h (firstn (Nat.min (length hashes) (hc_max_scrape cfg)) hashes))
    /\ (forall h c, In (h, c) files -> c = ref_counts (r v6 h))
    /\ (forall h c, In (h, c) files -> r v6 h = [] -> c = (0, 0)).
Proof.
  intros cfg s r v6 hashes H.
  destruct (hstep_refines cfg s r (HScrape v6 hashes) H) as (s' & out & Hs & _ & Hobs).
  cbn [h_step] in Hs. destruct (h_scrape cfg (hfam s v6) hashes) as [files|] eqn:E; cbn [obind] in Hs; [|discriminate].
  inversion Hs; subst. exists files. split; [cbn [h_step]; rewrite E; reflexivity|].
  unfold hobs_ok in Hobs. cbn in Hobs. destruct Hobs as (A & B & C).
  split; [exact A|]. split; [exact B|]. split; [exact C|].
  intros h c Hin Hr. rewrite (C h c Hin), Hr. reflexivity.
Qed.
Print Assumptions C07_scrape_once_each.

(* the handout set of a torrent is the reference's; an all-gone torrent holds nothing *)
Theorem C07_handout_set : forall cfg s r v6 h,
  HR cfg s r ->
  (forall k, In k (keys (pm_entries (tm_get h (hfam s v6)))) <-> In k (keys (r v6 h)))
  /\ (r v6 h = [] -> pm_entries (tm_get h (hfam s v6)) = []).
Proof.
  intros cfg s r v6 h H. destruct (H v6) as [_ Hrel]. destruct (Hrel h) as [_ Hp]. split.
  - intros k. split; apply Permutation_in; [apply keys_perm, Hp|apply Permutation_sym, keys_perm, Hp].
  - intros Hr. unfold pm_refines in Hp. rewrite Hr in Hp. apply Permutation_sym, Permutation_nil in Hp. exact Hp.
Qed.
Print Assumptions C07_handout_set.

(* a torrent that is empty in the reference (never seen, all stopped, all expired) is answered
   like any other state with the same reference, and the next cleaning pass drops it *)
Theorem C07_clean_drops_empty : forall cfg s r now mode acl s' out,
  HR cfg s r -> h_step cfg s (HClean now mode acl) = Ok (s', out) ->
  forall v6, Forall (fun e => pm_is_empty (snd e) = false) (hfam s' v6).
Proof. intros cfg s r now mode acl s' out H. apply clean_drops_empty. exists r; exact H. Qed.
Print Assumptions C07_clean_drops_empty.

Theorem C07_at_source_capacity : forall max_peers max_scrape ops,
  let cfg := mkHcfg (N.to_nat http_small_cap) max_peers max_scrape in
  exists s outs, h_run cfg hinit ops = Ok (s, outs) /\ htrace_ok cfg rinit ops outs.
Proof.
  intros mp ms ops cfg. destruct (C07_history_refines cfg ops) as (s & outs & H & _ & T). eauto.
Qed.
Print Assumptions C07_at_source_capacity.

(* non-vacuity: five leechers push a torrent into the heap map; cleaning leaves a heap map with
   fewer than five entries (http does not shrink on clean); a later stop converts it back *)
Example C07_crosses_representations :
  let cfg := mkHcfg 4 50 100 in
  let a k u stop := HAnnounce false 7%N k stop 1%N u None 0 0 in
  exists s1 o1 s2 o2,
    h_run cfg hinit [a 1%N 9%N false; a 2%N 9%N false; a 3%N 9%N false; a 4%N 5%N false; a 5%N 5%N false;
                     HClean 5%N AclOff []] = Ok (s1, o1)
    /\ (exists l ns, tm_get 7%N (h4 s1) = Large l ns /\ length l = 3)
    /\ h_run cfg s1 [a 3%N 9%N true] = Ok (s2, o2)
    /\ (exists l, tm_get 7%N (h4 s2) = Small l /\ length l = 2).
Proof. cbv zeta. do 4 eexists. split; [vm_compute; reflexivity|]. split; [vm_compute; eauto|]. split; [vm_compute; reflexivity|vm_compute; eauto]. Qed.
