(* C14 - HTTP wire codec: requests round-trip, replies are canonical bencode.
   `urlencoding::{encode,decode}` (only used for the optional `key` parameter) are Section
   variables: the round-trip theorem assumes exactly that decode inverts encode on that key.
   `httparse` and `serde_bencode` (the bundled client's reply parser) are not modelled: "parses
   back to an equal reply" is checked on the implementation by the correspondence run only. *)
From Coq Require Import String.
From Aquatic Require Import HttpCodec Bencode HttpCodecFacts.
From Coq Require Import List.
Import ListNotations.
Local Open Scope N_scope.

(* identifiers: every 20-byte value written by the library decodes back ... *)
Theorem C14_urldecode_urlencode : forall bs,
  bytes_ok bs -> length bs = 20%nat -> urldecode20 (urlencode bs) = Some bs.
Proof. exact urldecode20_urlencode. Qed.
Print Assumptions C14_urldecode_urlencode.

(* ... and EXACTLY the strings that spell exactly 20 bytes (each raw - a character up to U+00FF
   other than '%' - or '%' + two hex digits of either case) are accepted, with exactly those bytes *)
Theorem C14_urldecode_exact : forall s bs, urldecode20 s = Some bs <-> spells s bs /\ length bs = 20%nat.
Proof. exact urldecode20_exact. Qed.
Print Assumptions C14_urldecode_exact.

Theorem C14_urldecode_rejects_short : forall s, (length s < 20)%nat -> urldecode20 s = None.
Proof. exact urldecode20_rejects_short. Qed.
Print Assumptions C14_urldecode_rejects_short.

(* recorded finding "urldecode-hex-char-truncation": after '%' the two characters are cast to u8
   before hex decoding, so a non-ASCII character whose low byte is a hex digit passes as one
   (U+0131 has low byte 0x31 = '1') *)
Lemma C14_urldecode_accepts_non_hex_refuted :
  urldecode20 ([ch_pct; 305; 305] ++ repeat 97 19) = Some (17 :: repeat 97 19).
Proof. vm_compute. reflexivity. Qed.

(* the query-string parser: on well-formed key=value segments joined by '&' the lock-step walk over
   '=' and '&' positions is a left-to-right fold over the segments, whatever the handler *)
Theorem C14_walk_is_fold : forall (St : Type) (kv : St -> list N -> list N -> option St) segs st,
  segs <> [] -> Forall (fun kvp => clean (fst kvp) /\ clean (snd kvp)) segs ->
  parse_query kv (render segs) st = fold_kv kv st segs.
Proof. intros St kv. exact (parse_query_render kv). Qed.
Print Assumptions C14_walk_is_fold.

Theorem C14_unknown_keys_ignored : forall url_decode a k v,
  Forall (fun known => bytes_eqb k (HttpResp.str known) = false)
         ["info_hash"; "peer_id"; "port"; "left"; "uploaded"; "downloaded"; "event"; "compact"; "numwant"; "key"]%string ->
  announce_kv url_decode a k v = Some a.
Proof. exact unknown_key_ignored. Qed.
Print Assumptions C14_unknown_keys_ignored.

(* requests written by the library parse back to an equal request: all events, arbitrary binary
   identifiers, optional fields present or absent *)
Theorem C14_announce_roundtrip : forall url_decode url_encode r,
  areq_wf url_decode url_encode r ->
  parse_path url_decode (write_announce_path url_encode [] r) = Some (HReqAnnounce r).
Proof. exact announce_roundtrip. Qed.
Print Assumptions C14_announce_roundtrip.

Theorem C14_scrape_roundtrip : forall url_decode hs,
  hs <> [] -> Forall (fun h => bytes_ok h /\ length h = 20%nat) hs ->
  parse_path url_decode (write_scrape_path [] hs) = Some (HReqScrape hs).
Proof. exact scrape_roundtrip. Qed.
Print Assumptions C14_scrape_roundtrip.

(* outside [areq_wf] the library writes requests its own parser rejects (recorded finding
   "writer-emits-unparsable"): an empty scrape, and a key whose encoding exceeds 100 bytes *)
Lemma C14_roundtrip_refuted_outside_wf :
  parse_path (fun x => Some x) (write_scrape_path [] []) = None
  /\ parse_path (fun x => Some x)
       (write_announce_path (fun x => x) []
          (mkAreq (repeat 1 20) (repeat 2 20) 1 0 0 0 EvEmpty None (Some (repeat 107 101)))) = None.
Proof. split; vm_compute; reflexivity. Qed.

(* replies are bencode values in canonical form: sorted keys, compact 6 / 18 byte peer entries *)
Theorem C14_announce_is_canonical_bencode : forall c i iv p4 p6 w,
  Forall (fun p => length (fst p) = 4%nat) p4 -> Forall (fun p => length (fst p) = 16%nat) p6 ->
  write_announce c i iv p4 p6 w = benc (announce_value c i iv p4 p6 w)
  /\ canonical (announce_value c i iv p4 p6 w) = true.
Proof. intros. split; [apply announce_is_bencode; assumption|apply announce_value_canonical]. Qed.
Print Assumptions C14_announce_is_canonical_bencode.

Theorem C14_scrape_is_canonical_bencode : forall files,
  Forall (fun f => length (fst f) = 20%nat) files -> keys_sorted (map fst files) = true ->
  write_scrape files = benc (scrape_value files) /\ canonical (scrape_value files) = true.
Proof. intros. split; [apply scrape_is_bencode; assumption|apply scrape_value_canonical; assumption]. Qed.
Print Assumptions C14_scrape_is_canonical_bencode.

Theorem C14_failure_is_canonical_bencode : forall reason,
  write_failure reason = benc (failure_value reason) /\ canonical (failure_value reason) = true.
Proof. intros. split; [apply failure_is_bencode|apply failure_value_canonical]. Qed.
Print Assumptions C14_failure_is_canonical_bencode.

(* non-vacuity *)
Example C14_example :
  let r := mkAreq (repeat 255 20) (repeat 0 20) 6881 1 2 0 EvStopped (Some 50) (Some [97; 98]) in
  areq_wf (fun x => Some x) (fun x => x) r
  /\ parse_path (fun x => Some x) (write_announce_path (fun x => x) [] r) = Some (HReqAnnounce r).
Proof.
  cbv zeta. split; [|vm_compute; reflexivity].
  unfold areq_wf. cbn [a_info_hash a_peer_id a_port a_uploaded a_downloaded a_left a_numwant a_key].
  repeat split; try (unfold usize_max; lia); try reflexivity;
    try (apply Forall_forall; intros x Hx; apply repeat_spec in Hx; subst; lia);
    try (cbn; lia).
  unfold clean. repeat constructor; unfold ch_eq, ch_amp; lia.
Qed.
