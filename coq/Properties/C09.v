(* C09 - WebRTC offers and answers are relayed only along real, unused offers. *)
From Aquatic Require Import WsSwarm AssocFacts WsFacts.

(* offers of a stored, non-stopped sender: offer i goes to receiver i of a duplicate-free selection
   of OTHER stored peers of the same torrent and family; min(offers sent, max_offers, other peers)
   are forwarded; each is tagged with the sender's peer id and addressed to the receiving peer's
   own (socket worker, connection) - for every outcome of the random offsets *)
Theorem C09_offers : forall cfg t rq now offers o1 o2 p,
  wt_ok t -> aget N.eqb (q_pid rq) (wt_peers t) = Some p ->
  exists recv t' outs,
    ws_handle_offers cfg t rq now offers o1 o2 = Ok (t', outs)
    /\ NoDup (wkeys recv) /\ incl recv (wt_peers t) /\ ~ In (q_pid rq) (wkeys recv)
    /\ length recv = Nat.min (Nat.min (length offers) (wc_max_offers cfg)) (length (wt_peers t) - 1)
    /\ outs = map (fun x => WOffer (w_consumer (snd (snd x))) (w_conn (snd (snd x))) (q_hash rq) (q_pid rq) (fst (fst x)) (snd (fst x)))
                  (combine offers recv).
Proof. exact offers_forwarded. Qed.
Print Assumptions C09_offers.

(* none for a 'stopped' announce: the stopped branch of the announce never calls the offer or
   answer handlers (shown on the step function by computation over its structure) *)
Theorem C09_stopped_forwards_nothing : forall strict cfg s rq now o1 o2 s' outs,
  q_stopped rq = true -> ws_announce_gen strict cfg s rq now o1 o2 = Ok (s', outs) ->
  forall m, In m outs -> match m with WOffer _ _ _ _ _ _ | WAnswer _ _ _ _ _ _ | WError _ _ _ => False | _ => True end.
Proof.
  intros strict cfg s rq now o1 o2 s' outs Hst H m Hin. unfold ws_announce_gen in H.
  destruct (match aget N.eqb (q_pid rq) _ with Some p => _ | None => false end).
  - inversion H; subst. destruct Hin.
  - unfold wstatus_of in H. rewrite Hst in H.
    destruct (ws_upsert _ rq _ WStopped) as [t1|]; cbn [obind] in H; [|discriminate].
    destruct (checked_sub _ _) as [inc|]; cbn [obind] in H; [|discriminate].
    inversion H; subst. cbn in Hin. destruct Hin as [<-|[]]. exact I.
Qed.
Print Assumptions C09_stopped_forwards_nothing.

(* an answer is forwarded - to the offering peer's connection only - exactly when the addressed
   peer is stored and holds a pending expectation for (answerer, offer id); the expectation is then
   consumed; every other answer yields an error to the answerer (addressee stored) or nothing *)
Theorem C09_answer_iff_pending : forall t rq to_pid oid sdp,
  let '(t', outs) := ws_handle_answer t rq to_pid oid sdp in
  match aget N.eqb to_pid (wt_peers t) with
  | None => outs = [] /\ t' = t
  | Some r =>
      match aget pair_eqb (q_pid rq, oid) (w_expect r) with
      | Some _ => outs = [WAnswer (w_consumer r) (w_conn r) (q_hash rq) (q_pid rq) oid sdp]
                  /\ exists r', aget N.eqb to_pid (wt_peers t') = Some r'
                                /\ w_expect r' = snd (aswap_remove pair_eqb (q_pid rq, oid) (w_expect r))
      | None => outs = [WError (q_consumer rq) (q_conn rq) (q_hash rq)] /\ t' = t
      end
  end.
Proof. exact answer_iff_pending. Qed.
Print Assumptions C09_answer_iff_pending.

Theorem C09_answer_consumed_once : forall (k : N * N) (l : list ((N * N) * N)),
  NoDup (map fst l) -> aget pair_eqb k (snd (aswap_remove pair_eqb k l)) = None.
Proof. exact aget_after_swap_remove. Qed.
Print Assumptions C09_answer_consumed_once.

(* a cleaning pass at [now] keeps exactly the pending offers whose deadline is in the future *)
Theorem C09_offers_age_out : forall now e,
  w_expect (snd (clean_peer now e)) = filter (fun x => vu_valid (snd x) now) (w_expect (snd e)).
Proof. reflexivity. Qed.
Print Assumptions C09_offers_age_out.

(* non-vacuity: A and B stored; B offers; A answers; the same answer again is an error *)
Example C09_example :
  let cfg := mkWcfg 10 255 100 100 in
  let ann conn pid offers answer := WOpAnnounce (mkWreq 0 conn false 7 pid false (Some 5%N) offers answer) 0%N 0 0 in
  exists s1 o1 s2 o2 s3 o3 s4 o4,
    ws_step cfg winit (ann 1%N 11%N None None) = Ok (s1, o1)
    /\ ws_step cfg s1 (ann 2%N 22%N (Some [(500%N, 9%N)]) None) = Ok (s2, o2)
    /\ o2 = [WOffer 0 1 7 22 500 9; WAnnounce 0 2 7 0 2]
    /\ ws_step cfg s2 (ann 1%N 11%N None (Some (22%N, 500%N, 8%N))) = Ok (s3, o3)
    /\ o3 = [WAnswer 0 2 7 11 500 8; WAnnounce 0 1 7 0 2]
    /\ ws_step cfg s3 (ann 1%N 11%N None (Some (22%N, 500%N, 8%N))) = Ok (s4, o4)
    /\ o4 = [WError 0 1 7; WAnnounce 0 1 7 0 2].
Proof. cbv zeta. do 8 eexists. repeat split; vm_compute; reflexivity. Qed.
