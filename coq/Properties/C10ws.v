(* C10, WebTorrent part: peers and pending offers expire exactly at their deadline. *)
From Aquatic Require Import WsSwarm AssocFacts WsFacts Expiry.

(* after a cleaning pass, a permitted torrent holds exactly the peers whose deadline is still in
   the future, each with exactly its unexpired pending offers; forbidden torrents and torrents
   left without peers are gone *)
Theorem C10_ws_clean_exact : forall now mode acl m,
  wmap_ok m -> exists m', ws_clean_fam now mode acl m = Ok m' /\ wmap_ok m'
    /\ forall h, aget N.eqb h m' =
                 match aget N.eqb h m with
                 | Some t => if allows mode acl h
                             then match cleaned_peers now (wt_peers t) with
                                  | [] => None
                                  | ps => Some (mkWt ps (wcount ps))
                                  end
                             else None
                 | None => None
                 end.
Proof. exact ws_clean_fam_ok. Qed.
Print Assumptions C10_ws_clean_exact.

Theorem C10_ws_cleaned_peers : forall now ps k p,
  In (k, p) (cleaned_peers now ps) <->
  exists p0, In (k, p0) ps /\ (now < w_until p0)%N
             /\ p = mkWpeer (w_consumer p0) (w_conn p0) (w_seeder p0) (w_until p0)
                            (filter (fun x => vu_valid (snd x) now) (w_expect p0)).
Proof.
  intros now ps k p. unfold cleaned_peers. rewrite in_map_iff. split.
  - intros [[k0 p0] [E Hin]]. apply filter_In in Hin. destruct Hin as [Hin Hv]. cbn in Hv.
    unfold clean_peer in E. cbn in E. inversion E; subst. exists p0. split; [exact Hin|]. split; [apply N.ltb_lt, Hv|reflexivity].
  - intros [p0 [Hin [Hlt ->]]]. exists (k, p0). split; [reflexivity|]. apply filter_In. split; [exact Hin|]. apply N.ltb_lt, Hlt.
Qed.
Print Assumptions C10_ws_cleaned_peers.

(* the deadline of a peer is set by every accepted non-stopped announce to sample + max_peer_age *)
Theorem C10_ws_deadline_set : forall t rq until st,
  wt_ok t -> st <> WStopped ->
  exists t' p, ws_upsert t rq until st = Ok t' /\ aget N.eqb (q_pid rq) (wt_peers t') = Some p /\ w_until p = until.
Proof.
  intros t rq until st Hok Hst. destruct (ws_upsert_ok t rq until st Hok) as (t' & Hu & _ & Hself & _).
  destruct st; [| |congruence]; destruct Hself as (p & Hp & _ & Hun & _); exists t', p; auto.
Qed.
Print Assumptions C10_ws_deadline_set.
