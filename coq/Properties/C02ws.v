(* C02, WebTorrent part: the peers chosen to receive offers. *)
From Aquatic Require Import WsSwarm AssocFacts WsFacts.

(* distinct stored members of the same torrent, never the sender, exactly
   min(limit, other members) of them - for every swarm size, limit, sender position and every
   outcome of the two random offsets; the selection never fails (no usize underflow, both
   get_range calls in bounds) *)
Theorem C02_ws_receivers : forall peers max sender o1 o2,
  NoDup (wkeys peers) -> In sender (wkeys peers) ->
  exists r, ws_extract peers max sender o1 o2 = Ok r
    /\ NoDup (wkeys r) /\ incl r peers /\ ~ In sender (wkeys r)
    /\ length r = Nat.min max (length peers - 1).
Proof. exact ws_extract_spec. Qed.
Print Assumptions C02_ws_receivers.
