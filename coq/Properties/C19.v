(* C19 - a dead worker brings the whole tracker down.
   Model/Watchdog.v: the scan loop at the end of run() in the three lib.rs files; its period and
   the fact that all three handle.join() arms return Err are regenerated from the sources. *)
From Aquatic Require Import Watchdog WatchdogFacts Consts.
Local Open Scope N_scope.

(* whichever worker ends first, at any moment t (start-up: t = 0, or any later point), in any
   way (returning Ok, returning Err, panicking), with any number of other workers: run() returns
   at a scan no later than one period after t *)
Theorem C19_watchdog_catches : forall period ws w t e,
  0 < period -> In w ws -> wk_end w = Some (t, e) ->
  exists T r, watchdog period ws 0 (S (N.to_nat (t / period + 1))) = Some (T, r) /\ T < t + period.
Proof. exact watchdog_catches. Qed.
Print Assumptions C19_watchdog_catches.

(* what it returns is an error naming a worker that really ended ([run_result] has no Ok) *)
Theorem C19_watchdog_sound : forall period ws fuel n T r, watchdog period ws n fuel = Some (T, r) ->
  exists w t e, In w ws /\ wk_end w = Some (t, e) /\ t <= T
    /\ r = match e with Panicked => RunErrPanicked (wk_kind w) | _ => RunErrStopped (wk_kind w) end.
Proof. exact watchdog_sound. Qed.
Print Assumptions C19_watchdog_sound.

Theorem C19_watchdog_silent_while_all_run : forall period ws, (forall w, In w ws -> wk_end w = None) ->
  forall fuel n, watchdog period ws n fuel = None.
Proof. exact watchdog_silent. Qed.
Print Assumptions C19_watchdog_silent_while_all_run.

(* the sources' numbers: ten seconds are enough in all three trackers, and no way of ending is
   swallowed by the match on handle.join() *)
Theorem C19_periods_within_ten_seconds :
  0 < udp_watchdog_period <= 10 /\ 0 < http_watchdog_period <= 10 /\ 0 < ws_watchdog_period <= 10.
Proof. vm_compute. repeat split; congruence. Qed.
Print Assumptions C19_periods_within_ten_seconds.

Theorem C19_every_ending_is_an_error :
  udp_watchdog_every_ending_is_an_error = true /\ http_watchdog_every_ending_is_an_error = true
  /\ ws_watchdog_every_ending_is_an_error = true.
Proof. repeat split; reflexivity. Qed.
Print Assumptions C19_every_ending_is_an_error.

(* non-vacuity: a cleaning worker panicking 7.3 s after the first scan is reported at 10 s *)
Example C19_example :
  watchdog 5000 [mkWorker WSocket None; mkWorker WCleaning (Some (7300, Panicked)); mkWorker WSignals None] 0 5
  = Some (10000, RunErrPanicked WCleaning).
Proof. reflexivity. Qed.
