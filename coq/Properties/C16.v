(* C16 - HTTP tracker: one well-framed reply per request; workers are invisible.
   Model/HttpConn.v: k swarm workers behind the routing, split and merge of connection.rs;
   the frame built in the response buffer that every reply of a connection reuses. *)
From Aquatic Require Import RefSwarm HttpSwarm PeerMapFacts Selection PeerMapRefine SwarmCommon HttpSwarmRefine
  HttpResp HttpConn HttpConnFacts Consts Literals.

(* connection.rs cuts a scrape's hash list to max_scrape_torrents BEFORE splitting it among the
   swarm workers (regenerated from the source on every run).  Without that cut each worker caps
   only its own share and a k-worker tracker answers up to k * max_scrape_torrents entries. *)
Theorem C16_scrape_cut_precedes_split : http_scrape_cut_before_split = true.
Proof. reflexivity. Qed.
Print Assumptions C16_scrape_cut_precedes_split.

(* workers are invisible: for EVERY number of swarm workers k >= 1, from the empty tracker, every
   history of announces, scrapes and cleaning passes runs without a panic and every reply
   satisfies, against the single reference tracker, exactly the specification C07 proves for the
   one-worker tracker (counts; peer selection; one scrape entry per distinct hash among the first
   max_scrape_torrents requested, with the reference's counts) *)
Theorem C16_workers_invisible : forall cfg k ops, (0 < k)%nat ->
  exists ws outs, sys_run cfg http_scrape_cut_before_split k (sys_init k) ops = Ok (ws, outs)
                  /\ SysR cfg k ws (hr_final rinit ops) /\ htrace_ok cfg rinit ops outs.
Proof.
  intros cfg k ops Hk. rewrite C16_scrape_cut_precedes_split.
  apply (sys_run_refines cfg k Hk). apply SysR_init.
Qed.
Print Assumptions C16_workers_invisible.

Theorem C16_step_refines : forall cfg k ws r op, (0 < k)%nat -> SysR cfg k ws r ->
  exists ws' out, sys_step cfg true k ws op = Ok (ws', out) /\ SysR cfg k ws' (fst (hr_step r op)) /\ hobs_ok cfg r op out.
Proof. intros cfg k ws r op Hk. apply sys_step_refines, Hk. Qed.
Print Assumptions C16_step_refines.

(* framing: the Content-Length field written into the REUSED buffer does not depend on what the
   previous reply left there, so C18_framing_whole (exact frame, length = body + 2, blank
   padding) holds for the second and every later reply of a kept-alive connection too *)
Theorem C16_frame_independent_of_previous_reply : forall HA HB HC buf_size prev body,
  length prev = length HB ->
  frame_reusing HA HB HC buf_size prev body = frame_response HA HB HC buf_size body.
Proof. exact frame_reusing_is_frame. Qed.
Print Assumptions C16_frame_independent_of_previous_reply.

Theorem C16_length_field_keeps_its_width : forall HA HB HC buf_size body,
  (length (itoa (N.of_nat (Nat.min (length body) (buf_size - header_len HA HB HC) + 2)%nat)) <= length HB)%nat ->
  length (length_field HA HB HC buf_size body) = length HB.
Proof. exact length_field_length. Qed.
Print Assumptions C16_length_field_keeps_its_width.
