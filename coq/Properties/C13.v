(* C13 - the UDP wire codec conforms to BEP 15 and round-trips.
   [gen_layouts] is regenerated from crates/udp_protocol/src/{request,response,common}.rs on every
   run; the first theorem ties it to the BEP 15 tables, the others are stated for the generated
   layouts (rewritten through that equation), so a changed field order, width, type, discriminant
   or protocol identifier in the source breaks them. *)
From Aquatic Require Import Layout LayoutFacts UdpCodec Bep15 UdpCodecFacts UdpCodecGen.
Local Open Scope N_scope.

Theorem C13_layouts_are_bep15 : gen_layouts = bep15_layouts.
Proof. vm_compute. reflexivity. Qed.
Print Assumptions C13_layouts_are_bep15.

(* encode-then-decode is the identity for EVERY layout (not only today's) *)
Theorem C13_generic_roundtrip : forall ipw l vs rest,
  wf_vals ipw l vs -> dec_prefix ipw l (enc_struct l vs ++ rest) = Some (vs, rest).
Proof. exact dec_enc_struct. Qed.
Print Assumptions C13_generic_roundtrip.

Theorem C13_roundtrip_connect : forall tid max,
  signed_ok 4 tid -> parse_request gen_layouts (write_request gen_layouts (RConnect tid)) max = POk (RConnect tid).
Proof. rewrite C13_layouts_are_bep15. exact roundtrip_connect. Qed.
Print Assumptions C13_roundtrip_connect.

(* every conforming announce (all four events are the valid values of the event field), with or
   without extension bytes after it, is accepted and every field gets its value *)
Theorem C13_accepts_conforming_announce : forall vs ext max,
  announce_wf vs -> int_of (field_at bep15_announce_request vs "port") <> 0%Z ->
  parse_request gen_layouts (enc_struct (L_announce_request gen_layouts) vs ++ ext) max = POk (RAnnounce vs).
Proof. rewrite C13_layouts_are_bep15. exact accepts_conforming_announce. Qed.
Print Assumptions C13_accepts_conforming_announce.

Theorem C13_roundtrip_announce : forall vs max,
  announce_wf vs -> int_of (field_at bep15_announce_request vs "port") <> 0%Z ->
  parse_request gen_layouts (write_request gen_layouts (RAnnounce vs)) max = POk (RAnnounce vs).
Proof. rewrite C13_layouts_are_bep15. exact roundtrip_announce. Qed.
Print Assumptions C13_roundtrip_announce.

Theorem C13_announce_bytes_are_bep15 : forall cid tid ih pid dl lf ul ev ip key want port,
  write_request gen_layouts
    (RAnnounce [VInt cid; VInt 1; VInt tid; VBytes ih; VBytes pid; VInt dl; VInt lf; VInt ul;
                VInt ev; VBytes ip; VInt key; VInt want; VInt port])
  = i64_be cid ++ i32_be 1 ++ i32_be tid ++ ih ++ pid ++ i64_be dl ++ i64_be lf ++ i64_be ul
    ++ i32_be ev ++ ip ++ i32_be key ++ i32_be want ++ be_enc 2 (Z.to_N port).
Proof. rewrite C13_layouts_are_bep15. exact announce_bytes_are_bep15. Qed.
Print Assumptions C13_announce_bytes_are_bep15.

(* a scrape round-trips, cut to the first max_scrape_torrents hashes, in order *)
Theorem C13_roundtrip_scrape_cut : forall cid tid hs max,
  signed_ok 8 cid -> signed_ok 4 tid -> hs <> [] -> Forall (fun h => length h = 20%nat) hs ->
  parse_request gen_layouts (write_request gen_layouts (RScrape cid tid hs)) max
  = POk (RScrape cid tid (firstn (Nat.min max (length hs)) hs)).
Proof. rewrite C13_layouts_are_bep15. exact roundtrip_scrape. Qed.
Print Assumptions C13_roundtrip_scrape_cut.

(* rejections *)
Theorem C13_rejects_too_short : forall bytes max,
  (length bytes < 12)%nat -> parse_request gen_layouts bytes max = PErr Unsendable.
Proof. rewrite C13_layouts_are_bep15. exact rejects_short. Qed.
Print Assumptions C13_rejects_too_short.

Theorem C13_rejects_unknown_action : forall bytes max,
  let a := rd_i32 (firstn 4 (skipn 8 bytes)) in
  a <> 0%Z -> a <> 1%Z -> a <> 2%Z -> parse_request gen_layouts bytes max = PErr Unsendable.
Proof. rewrite C13_layouts_are_bep15. exact rejects_unknown_action. Qed.
Print Assumptions C13_rejects_unknown_action.

Theorem C13_rejects_short_announce : forall bytes max,
  rd_i32 (firstn 4 (skipn 8 bytes)) = 1%Z -> (length bytes < 98)%nat -> parse_request gen_layouts bytes max = PErr Unsendable.
Proof. rewrite C13_layouts_are_bep15. exact rejects_short_announce. Qed.
Print Assumptions C13_rejects_short_announce.

Theorem C13_rejects_short_connect_or_scrape : forall bytes max,
  let a := rd_i32 (firstn 4 (skipn 8 bytes)) in
  (a = 0%Z \/ a = 2%Z) -> (length bytes < 16)%nat -> parse_request gen_layouts bytes max = PErr Unsendable.
Proof. rewrite C13_layouts_are_bep15. exact rejects_short_connect_or_scrape. Qed.
Print Assumptions C13_rejects_short_connect_or_scrape.

Theorem C13_rejects_wrong_protocol_id : forall bytes max,
  rd_i32 (firstn 4 (skipn 8 bytes)) = 0%Z -> be_dec (firstn 8 bytes) <> bep15_protocol_id ->
  parse_request gen_layouts bytes max = PErr Unsendable.
Proof. rewrite C13_layouts_are_bep15. exact rejects_wrong_protocol_id. Qed.
Print Assumptions C13_rejects_wrong_protocol_id.

Theorem C13_rejects_unknown_event : forall bytes max,
  rd_i32 (firstn 4 (skipn 8 bytes)) = 1%Z -> (98 <= length bytes)%nat ->
  enum_valid bep15_events (rd_i32 (firstn 4 (skipn 80 bytes))) = false ->
  parse_request gen_layouts bytes max = PErr Unsendable.
Proof. rewrite C13_layouts_are_bep15. exact rejects_unknown_event. Qed.
Print Assumptions C13_rejects_unknown_event.

Theorem C13_rejects_port_zero : forall vs ext max,
  announce_wf vs -> int_of (field_at bep15_announce_request vs "port") = 0%Z ->
  parse_request gen_layouts (enc_struct bep15_announce_request vs ++ ext) max
  = PErr (Sendable (int_of (field_at bep15_announce_request vs "connection_id"))
                   (int_of (field_at bep15_announce_request vs "transaction_id")) 1).
Proof. rewrite C13_layouts_are_bep15. exact rejects_port_zero. Qed.
Print Assumptions C13_rejects_port_zero.

Theorem C13_rejects_empty_hash_list : forall cid tid max,
  signed_ok 8 cid -> signed_ok 4 tid ->
  parse_request gen_layouts (i64_be cid ++ i32_be 2 ++ i32_be tid) max = PErr (Sendable cid tid 2).
Proof. rewrite C13_layouts_are_bep15. exact rejects_empty_scrape. Qed.
Print Assumptions C13_rejects_empty_hash_list.

Theorem C13_rejects_bad_hash_list : forall cid tid rest max,
  signed_ok 8 cid -> signed_ok 4 tid -> rest <> [] -> (length rest mod 20 <> 0)%nat ->
  parse_request gen_layouts (i64_be cid ++ i32_be 2 ++ i32_be tid ++ rest) max = PErr (Sendable cid tid 3).
Proof. rewrite C13_layouts_are_bep15. exact rejects_bad_hash_list. Qed.
Print Assumptions C13_rejects_bad_hash_list.

(* replies: connect / announce (both address families) / scrape / error *)
Theorem C13_roundtrip_connect_response : forall vs v6,
  wf_vals 4 bep15_connect_response vs ->
  parse_response gen_layouts (write_response gen_layouts (SConnect vs)) v6 = Some (SConnect vs).
Proof. rewrite C13_layouts_are_bep15. exact roundtrip_connect_response. Qed.
Print Assumptions C13_roundtrip_connect_response.

Theorem C13_roundtrip_announce_response : forall v6 fixed peers,
  wf_vals 4 bep15_announce_fixed fixed -> Forall (wf_vals (ipw v6) bep15_peer) peers ->
  parse_response gen_layouts (write_response gen_layouts (SAnnounce v6 fixed peers)) v6 = Some (SAnnounce v6 fixed peers).
Proof. rewrite C13_layouts_are_bep15. exact roundtrip_announce_response. Qed.
Print Assumptions C13_roundtrip_announce_response.

Theorem C13_roundtrip_scrape_response : forall tid stats v6,
  signed_ok 4 tid -> Forall (wf_vals 4 bep15_scrape_stats) stats ->
  parse_response gen_layouts (write_response gen_layouts (SScrape tid stats)) v6 = Some (SScrape tid stats).
Proof. rewrite C13_layouts_are_bep15. exact roundtrip_scrape_response. Qed.
Print Assumptions C13_roundtrip_scrape_response.

Theorem C13_roundtrip_error_response : forall tid msg v6,
  signed_ok 4 tid ->
  parse_response gen_layouts (write_response gen_layouts (SError tid msg)) v6 = Some (SError tid msg).
Proof. rewrite C13_layouts_are_bep15. exact roundtrip_error_response. Qed.
Print Assumptions C13_roundtrip_error_response.

(* non-vacuity: a concrete well-formed 'stopped' announce *)
Example C13_wf_example :
  announce_wf [VInt (-5); VInt 1; VInt 7; VBytes (repeat 255 20); VBytes (repeat 1 20); VInt 0; VInt (-1); VInt 9;
               VInt 3; VBytes [1; 2; 3; 4]; VInt 0; VInt (-2147483648); VInt 6881].
Proof.
  unfold announce_wf, bep15_announce_request. cbn [wf_vals wf_field].
  repeat split; try (unfold signed_ok; vm_compute; split; congruence); try (vm_compute; congruence);
    try reflexivity; try (repeat constructor; vm_compute; reflexivity).
Qed.
