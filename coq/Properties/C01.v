(* C01 - UDP swarm bookkeeping equals a reference tracker.
   Statements only; proofs live in Proofs/.  [cfg] (inline capacity, max_response_peers,
   peer_clients) is universally quantified; the offsets of the random peer selection are
   fields of [UAnnounce] and therefore universally quantified as well. *)
From Aquatic Require Import RefSwarm PeerMapFacts Selection PeerMapRefine UdpSwarmRefine Consts.

(* one step: the model does not panic (no counter underflow, no ArrayVec overflow), stays
   related to the reference tracker, and its reply shows the reference's counts *)
Theorem C01_step_refines : forall cfg s r op,
  R cfg s r ->
  exists s' out, u_step cfg s op = Ok (s', out) /\ R cfg s' (fst (r_step r op)) /\ obs_ok cfg r op out.
Proof. exact step_refines. Qed.
Print Assumptions C01_step_refines.

(* every finite history from the empty tracker *)
Theorem C01_history_refines : forall cfg ops,
  exists s outs, u_run cfg uinit ops = Ok (s, outs)
                 /\ R cfg s (r_final rinit ops) /\ trace_ok cfg rinit ops outs.
Proof. intros cfg ops. apply run_refines. apply R_init. Qed.
Print Assumptions C01_history_refines.

(* the peers the tracker is able to hand out for a torrent are exactly the reference's *)
Theorem C01_handout_set : forall cfg s r v6 h,
  R cfg s r ->
  forall k, In k (keys (pm_entries (tm_get h (ufam s v6)))) <-> In k (keys (r v6 h)).
Proof.
  intros cfg s r v6 h HR k. destruct (HR v6) as [_ Hrel]. destruct (Hrel h) as [_ Hp].
  split; apply Permutation_in; [apply keys_perm, Hp|apply Permutation_sym, keys_perm, Hp].
Qed.
Print Assumptions C01_handout_set.

(* a torrent whose peers have all stopped or been cleaned holds nothing, and any two concrete
   states with the same reference state (one may keep an empty map, the other none) answer every
   future history with the same counts, namely the reference's *)
Theorem C01_empty_is_unseen : forall cfg s1 s2 r ops,
  R cfg s1 r -> R cfg s2 r ->
  (forall v6 h, r v6 h = [] -> pm_entries (tm_get h (ufam s1 v6)) = [])
  /\ exists s1' outs1 s2' outs2,
       u_run cfg s1 ops = Ok (s1', outs1) /\ u_run cfg s2 ops = Ok (s2', outs2)
       /\ trace_ok cfg r ops outs1 /\ trace_ok cfg r ops outs2.
Proof.
  intros cfg s1 s2 r ops H1 H2. split.
  - intros v6 h Hr. destruct (H1 v6) as [_ Hrel]. destruct (Hrel h) as [_ Hp].
    unfold pm_refines in Hp. rewrite Hr in Hp. apply Permutation_sym, Permutation_nil in Hp. exact Hp.
  - destruct (run_refines cfg ops s1 r H1) as (a & oa & Ha & _ & Ta).
    destruct (run_refines cfg ops s2 r H2) as (b & ob & Hb & _ & Tb).
    exists a, oa, b, ob. auto.
Qed.
Print Assumptions C01_empty_is_unseen.

(* instance at the capacity the source declares today (regenerated from crates/udp/src/swarm.rs) *)
Theorem C01_at_source_capacity : forall max_resp pc ops,
  let cfg := mkUcfg (N.to_nat udp_small_cap) max_resp pc in
  exists s outs, u_run cfg uinit ops = Ok (s, outs) /\ trace_ok cfg rinit ops outs.
Proof.
  intros max_resp pc ops cfg. destruct (C01_history_refines cfg ops) as (s & outs & H & _ & T). eauto.
Qed.
Print Assumptions C01_at_source_capacity.

(* non-vacuity: a reachable history that drives a torrent into the heap representation and back *)
Example C01_crosses_representations :
  let cfg := mkUcfg 2 30 true in
  let a k ev := UAnnounce false 7%N k ev 1%Z 1%N 100%N 0%Z 0 0 in
  exists s1 o1 s2 o2,
    u_run cfg uinit [a 1%N 2%N; a 2%N 2%N; a 3%N 2%N] = Ok (s1, o1)
    /\ (exists l ns, tm_get 7%N (u4 s1) = Large l ns)
    /\ u_run cfg s1 [a 3%N 3%N] = Ok (s2, o2)
    /\ (exists l, tm_get 7%N (u4 s2) = Small l /\ length l = 2).
Proof. cbv zeta. do 4 eexists. split; [vm_compute; reflexivity|]. split; [vm_compute; eauto|]. split; [vm_compute; reflexivity|vm_compute; eauto]. Qed.
