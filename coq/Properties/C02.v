(* C02 - peer lists are sound, bounded and never contain the requester (udp and http part;
   the WebTorrent offer-receiver selection is in C02ws.v).  For every swarm size, every limit
   and every outcome [o1 o2] of the two random offsets. *)
From Aquatic Require Import RefTracker PeerMapFacts Selection PeerMapRefine.

(* the heap-map selection: never fails (no usize underflow, both get_range calls in bounds),
   returns distinct stored keys, at most [take]; everything when the map is small enough,
   otherwise exactly 2 * (take / 2) >= take - 1 *)
Theorem C02_large : forall take l o1 o2,
  NoDup (keys l) ->
  exists r, extract_large take l o1 o2 = Ok r
    /\ NoDup r /\ incl r (keys l) /\ length r <= take
    /\ (length l <= take -> r = keys l)
    /\ (take < length l -> length r = 2 * (take / 2)).
Proof. exact extract_large_spec. Qed.
Print Assumptions C02_large.

Theorem C02_small : forall take l,
  NoDup (keys l) ->
  let r := extract_small take l in
  NoDup r /\ incl r (keys l) /\ length r <= take
  /\ (length l <= take -> r = keys l) /\ (take < length l -> length r = take).
Proof. exact extract_small_spec. Qed.
Print Assumptions C02_small.

(* the reply of a whole announce (either representation, any inline capacity): distinct stored
   members of the same torrent, never the requester's own key, at most [take]; all other members
   when there are at most [take], otherwise at least [take - 1] *)
Theorem C02_announce_reply : forall cap shrink pm key st pid until take o1 o2 pm' rep removed,
  pmap_inv cap shrink pm ->
  pm_announce cap pm key st pid until take o1 o2 = Ok (pm', rep, removed) ->
  let others := ref_remove key (pm_entries pm) in
  NoDup (r_peers rep) /\ incl (r_peers rep) (keys others) /\ ~ In key (r_peers rep)
  /\ length (r_peers rep) <= take
  /\ (length others <= take -> Permutation (r_peers rep) (keys others))
  /\ (take < length others -> take - 1 <= length (r_peers rep)).
Proof.
  intros cap shrink pm key st pid until take o1 o2 pm' rep removed Hinv Ha.
  destruct (pm_announce_refines cap shrink pm (pm_entries pm) key st pid until take o1 o2 Hinv (Permutation_refl _))
    as (pm2 & rep2 & rem2 & Ha2 & _ & _ & _ & _ & Hsel).
  rewrite Ha in Ha2. inversion Ha2; subst. exact Hsel.
Qed.
Print Assumptions C02_announce_reply.

(* the limit: a non-positive request means the configured maximum (udp), an absent or zero
   request likewise (http); otherwise the smaller of the two *)
Theorem C02_limit_udp : forall want cfg,
  ((want <= 0)%Z -> limit_udp want cfg = cfg)
  /\ ((0 < want)%Z -> limit_udp want cfg = Nat.min cfg (Z.to_nat want)).
Proof.
  intros want cfg. unfold limit_udp. destruct (Z.leb_spec want 0); split; intros; try reflexivity; lia.
Qed.
Print Assumptions C02_limit_udp.

Theorem C02_limit_http : forall want cfg,
  limit_http None cfg = cfg /\ limit_http (Some 0) cfg = cfg
  /\ (0 < want -> limit_http (Some want) cfg = Nat.min want cfg).
Proof.
  intros want cfg. split; [reflexivity|]. split; [reflexivity|]. intros H. destruct want; [lia|reflexivity].
Qed.
Print Assumptions C02_limit_http.

(* non-vacuity: a 9-entry heap map, limit 4: both halves contribute, offsets matter *)
Example C02_large_example :
  let l := map (fun k => (N.of_nat k, mkPeer 0 false 9)) (seq 1 9) in
  extract_large 4 l 1 2 = Ok [2; 3; 7; 8]%N /\ extract_large 4 l 0 0 = Ok [1; 2; 5; 6]%N.
Proof. split; vm_compute; reflexivity. Qed.
