(* C05 - UDP connection ids are bound to the source IP and to a time window.
   [mac] - the keyed BLAKE3 hash truncated to 32 bits - is universally quantified: the
   statements hold for every function.  That another run has another key, that the key is
   secret and that a 32-bit tag is guessed with chance 2^-32 are cryptographic assumptions about
   BLAKE3 and getrandom, not theorems. *)
From Aquatic Require Import Validator ValidatorFacts.
Local Open Scope N_scope.

(* accepted from the same address exactly while fewer than max_connection_age seconds have
   passed (and the issue time is not more than 60 s in the tracker's future) *)
Theorem C05_window : forall mac t0 now age ip,
  t0 < two32 -> now < two32 -> age < two32 ->
  (valid mac now age ip (create mac t0 ip) = true <-> (now < t0 + age /\ t0 <= now + 60)).
Proof. exact window. Qed.
Print Assumptions C05_window.

Corollary C05_window_monotone_clock : forall mac t0 now age ip,
  t0 < two32 -> now < two32 -> age < two32 -> t0 <= now ->
  (valid mac now age ip (create mac t0 ip) = true <-> now - t0 < age).
Proof.
  intros mac t0 now age ip H0 Hn Ha Hle. rewrite (window mac t0 now age ip H0 Hn Ha). lia.
Qed.
Print Assumptions C05_window_monotone_clock.

(* max_connection_age = 2^32-1 and clocks near 2^32-1 behave arithmetically: the u64 sums
   cannot wrap *)
Theorem C05_no_u64_wrap : forall e now age,
  e < two32 -> now < two32 -> age < two32 ->
  (e + age) mod two64 = e + age /\ (now + 60) mod two64 = now + 60.
Proof. exact no_u64_wrap. Qed.
Print Assumptions C05_no_u64_wrap.

(* the only 8-byte strings accepted for an address are the ids create issues for THAT address
   at an in-window time: ids issued for another address, altered ids, forged ids and ids from a
   previous run (another mac) are rejected unless their tag equals the keyed hash *)
Theorem C05_accept_characterised : forall mac now age ip id,
  length id = 8%nat -> Forall (fun b => b < 256) id -> now < two32 -> age < two32 ->
  (valid mac now age ip id = true <->
     id = create mac (u32_of (firstn 4 id)) ip
     /\ now < u32_of (firstn 4 id) + age /\ u32_of (firstn 4 id) <= now + 60).
Proof. exact accept_characterised. Qed.
Print Assumptions C05_accept_characterised.

Theorem C05_other_ip_needs_collision : forall mac t0 now age ip ip',
  valid mac now age ip' (create mac t0 ip) = true ->
  mac (le32 t0 ++ ip') mod two32 = mac (le32 t0 ++ ip) mod two32.
Proof. exact other_ip_needs_collision. Qed.
Print Assumptions C05_other_ip_needs_collision.

Theorem C05_mac_input_injective : forall t t' ip ip',
  t < two32 -> t' < two32 -> le32 t ++ ip = le32 t' ++ ip' -> t = t' /\ ip = ip'.
Proof. exact mac_input_injective. Qed.
Print Assumptions C05_mac_input_injective.

Theorem C05_far_future_rejected : forall mac now age ip id,
  now < two32 -> now + 60 < u32_of (firstn 4 id) -> valid mac now age ip id = false.
Proof. exact far_future_rejected. Qed.
Print Assumptions C05_far_future_rejected.

Theorem C05_age_zero_never_valid : forall mac t0 now ip,
  t0 < two32 -> now < two32 -> t0 <= now -> valid mac now 0 ip (create mac t0 ip) = false.
Proof. exact age_zero_never_valid. Qed.
Print Assumptions C05_age_zero_never_valid.

(* non-vacuity with a concrete (toy) mac: in window, expired, other address *)
Example C05_example :
  let mac := fun bs => fold_left (fun a b => (a * 31 + b + 7) mod two32) bs 5 in
  let id := create mac 100 [10; 0; 0; 1] in
  valid mac 219 120 [10; 0; 0; 1] id = true /\ valid mac 220 120 [10; 0; 0; 1] id = false
  /\ valid mac 100 120 [10; 0; 0; 2] id = false.
Proof. cbv zeta. repeat split; vm_compute; reflexivity. Qed.

(* the validator's whole-second clock is refreshed by the socket worker every 256th poll iteration
   (mio) or on a 5-second pulse (io_uring) - regenerated from the sources: an id lives at most
   max_connection_age seconds of THAT clock, i.e. up to one refresh period longer in real time *)
From Aquatic Require Import Consts.
Theorem C05_clock_refresh_cadence :
  (0 < udp_mio_clock_refresh_polls <= 256)%N /\ (0 < udp_uring_clock_pulse_secs <= 5)%N.
Proof. vm_compute. repeat split; congruence. Qed.
Print Assumptions C05_clock_refresh_cadence.
