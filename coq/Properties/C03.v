(* C03 - stored peer addresses are the real source addresses.
   What the kernel reports as the source of a datagram / connection, and std's
   `str::parse::<IpAddr>` (a Section variable here), are outside the model. *)
From Aquatic Require Import Addr AddrFacts.
Local Open Scope N_scope.

(* an IPv4-mapped IPv6 source is the embedded IPv4 address, in all three trackers *)
Theorem C03_mapped_is_v4 : forall a b c d p, canonical (SA (mapped a b c d) p) = SA [a; b; c; d] p.
Proof. exact mapped_is_v4. Qed.
Print Assumptions C03_mapped_is_v4.

Theorem C03_canonical_other_unchanged : forall o p, mapped_v4 o = None -> canonical (SA o p) = SA o p.
Proof. exact canonical_unmapped. Qed.
Print Assumptions C03_canonical_other_unchanged.

Theorem C03_mapped_only_that_pattern : forall o v,
  mapped_v4 o = Some v -> exists a b c d, o = mapped a b c d /\ v = [a; b; c; d].
Proof. exact mapped_v4_spec. Qed.
Print Assumptions C03_mapped_only_that_pattern.

Theorem C03_canonical_idempotent : forall a, canonical (canonical a) = canonical a.
Proof. exact canonical_idempotent. Qed.
Print Assumptions C03_canonical_idempotent.

Theorem C03_ws_family_agrees : forall o p,
  length o = 4%nat \/ length o = 16%nat -> ws_is_v6 o = negb (is_v4 (canonical (SA o p))).
Proof. exact ws_family_agrees. Qed.
Print Assumptions C03_ws_family_agrees.

(* the stored key is (canonical source ip, REQUEST port); the ip field inside the request never
   influences it; a host seen through a dual-stack socket and through plain IPv4 is one peer *)
Theorem C03_key_is_source : forall src port x,
  peer_key src port x = (match canonical src with SA o _ => o end, port).
Proof. exact key_is_canonical_source. Qed.
Print Assumptions C03_key_is_source.

Theorem C03_request_ip_ignored : forall src port x y, peer_key src port x = peer_key src port y.
Proof. exact request_ip_ignored. Qed.
Print Assumptions C03_request_ip_ignored.

Theorem C03_dual_stack_same_peer : forall a b c d p req_port x y,
  peer_key (SA (mapped a b c d) p) req_port x = peer_key (SA [a; b; c; d] p) req_port y.
Proof. exact dual_stack_same_key. Qed.
Print Assumptions C03_dual_stack_same_peer.

(* HTTP: directly connected -> the TCP peer; behind a reverse proxy -> the last address of the
   LAST occurrence of the configured header (exact name), with the TCP peer's port; for every
   IP-text parser *)
Theorem C03_http_direct : forall parse_ip name remote hs,
  http_peer_addr parse_ip false name remote hs = Some (canonical remote).
Proof. exact http_direct. Qed.
Print Assumptions C03_http_direct.

Theorem C03_http_last_occurrence : forall parse_ip name hs1 v hs2,
  Forall (fun h => bytes_eqb (fst h) name = false) hs2 ->
  forwarded parse_ip name (hs1 ++ (name, v) :: hs2) = Some (parse_ip (trim' (last_piece v))).
Proof. exact forwarded_last_occurrence. Qed.
Print Assumptions C03_http_last_occurrence.

Theorem C03_http_last_of_comma_list : forall pre tail,
  Forall (fun b => b <> 44) tail -> last_piece (pre ++ 44 :: tail) = tail.
Proof. exact last_piece_after_last_comma. Qed.
Print Assumptions C03_http_last_of_comma_list.

Theorem C03_http_proxied : forall parse_ip name o p hs,
  http_peer_addr parse_ip true name (SA o p) hs
  = match forwarded parse_ip name hs with
    | Some (Some ip) => Some (canonical (SA ip p))
    | _ => None
    end.
Proof. exact http_proxied. Qed.
Print Assumptions C03_http_proxied.

(* non-vacuity: two occurrences, the later one with a comma list *)
Example C03_header_example :
  let parse := fun t => if bytes_eqb t [57; 46; 57] then Some [9; 9; 9; 9] else None in   (* "9.9" stands for an address text *)
  forwarded parse [88] [([88], [49]); ([65], [50]); ([88], [49; 44; 32; 57; 46; 57; 32])] = Some (Some [9; 9; 9; 9]).
Proof. vm_compute. reflexivity. Qed.
