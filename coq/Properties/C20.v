(* C20 - UDP operator reports are faithful; the scrape export is replaced atomically. *)
From Aquatic Require Import RefSwarm Export PeerMapFacts PeerMapRefine SwarmCommon UdpSwarmRefine StatsFacts.

(* ---- totals reported by a cleaning pass (per address family) ----
   torrents = number of stored torrents, each permitted and non-empty;
   peers    = number of unexpired peers counted before forbidden torrents are dropped, which IS
              the stored number whenever no torrent that still has peers is forbidden (the other
              case is the recorded finding "totals-forbidden-torrent", refuted below) *)
Theorem C20_totals : forall cfg v6 now mode acl tm rf,
  fam_rel (c_cap cfg) true tm rf ->
  exists tm2 t p msgs lines,
    u_clean_fam cfg v6 now mode acl tm = Ok (tm2, (t, p), msgs, lines)
    /\ t = length tm2 /\ NoDup (map fst tm2)
    /\ Forall (fun e => allows mode acl (fst e) = true /\ pm_is_empty (snd e) = false) tm2
    /\ p = total_peers (map (clean_entry (c_cap cfg) true now) tm)
    /\ ((forall e, In e (map (clean_entry (c_cap cfg) true now) tm) -> pm_is_empty (snd e) = false -> allows mode acl (fst e) = true)
        -> p = total_peers tm2)
    /\ lines = flat_map (line_of v6) (map (clean_entry (c_cap cfg) true now) tm)
    /\ msgs = flat_map (fun e => removed_msgs (c_peer_clients cfg) now (pm_entries (snd e))) tm.
Proof. exact clean_totals. Qed.
Print Assumptions C20_totals.

(* the export lists exactly the torrents that have a stored peer after expiry, each once, with
   their true seeder and leecher counts *)
Theorem C20_export_lines : forall v6 tm1,
  tm_wf tm1 ->
  let lines := flat_map (line_of v6) tm1 in
  (forall f h s l, In (f, h, s, l) lines <->
      f = v6 /\ exists pm, In (h, pm) tm1 /\ pm_is_empty pm = false
               /\ s = count_seeders (pm_entries pm) /\ l = length (pm_entries pm) - count_seeders (pm_entries pm))
  /\ NoDup (map (fun x => snd (fst (fst x))) lines).
Proof. exact export_lines_exact. Qed.
Print Assumptions C20_export_lines.

(* ---- per-client tallies ----
   the statistics worker's count for an id after a message stream is the fold of +1/-1 *)
Theorem C20_tally_fold : forall msgs t pid,
  tally_wf t ->
  tally_count (fold_left tally_step msgs t) pid = fold_left (msg_delta pid) msgs (tally_count t pid).
Proof. exact tally_fold_count. Qed.
Print Assumptions C20_tally_fold.

(* an announce changes the number of stored entries carrying each id exactly as its messages say,
   provided the entry it replaces or removes carries the announced id *)
Theorem C20_tally_announce : forall cap shrink pm key st pid until take o1 o2 pm' rep removed q,
  pmap_inv cap shrink pm ->
  pm_announce cap pm key st pid until take o1 o2 = Ok (pm', rep, removed) ->
  (forall p, removed = Some p -> p_id p = pid) ->
  pid_count q (pm_entries pm')
  = fold_left (msg_delta q) (announce_msgs true st pid removed) (pid_count q (pm_entries pm)).
Proof. exact announce_tally_law. Qed.
Print Assumptions C20_tally_announce.

(* expiry: one PeerRemoved per expired entry, with that entry's id *)
Theorem C20_tally_clean : forall cap shrink pm now pm' cnt msgs q,
  pmap_inv cap shrink pm ->
  pm_clean cap shrink true pm now = Ok (pm', cnt, msgs) ->
  pid_count q (pm_entries pm') = fold_left (msg_delta q) msgs (pid_count q (pm_entries pm)).
Proof. exact clean_tally_law. Qed.
Print Assumptions C20_tally_clean.

(* ---- recorded findings: the full statements are FALSE of the faithful model ---- *)
(* a stored key re-announces with a new peer id, then stops: the old id is tallied forever *)
Lemma C20_tally_refuted_peer_id_change :
  exists ops s outs,
    u_run (mkUcfg 2 30 true) uinit ops = Ok (s, outs)
    /\ pm_entries (tm_get 7%N (u4 s)) = []
    /\ tally_count (tally_run (flat_map (fun o => match o with OAnnounce _ _ _ m => m | OClean _ _ _ _ m _ => m | _ => [] end) outs)) 170%N = 1.
Proof.
  exists [UAnnounce false 7%N 1%N 2%N 1%Z 170%N 100%N 0%Z 0 0;
          UAnnounce false 7%N 1%N 0%N 1%Z 187%N 100%N 0%Z 0 0;
          UAnnounce false 7%N 1%N 3%N 1%Z 187%N 100%N 0%Z 0 0].
  do 2 eexists. split; [vm_compute; reflexivity|]. split; vm_compute; reflexivity.
Qed.

(* a torrent with an unexpired peer is dropped by the access list: it is still counted *)
Lemma C20_peers_refuted_forbidden_torrent :
  exists s s' t4 p4 t6 p6 m l,
    u_run (mkUcfg 2 30 true) uinit [UAnnounce false 7%N 1%N 2%N 1%Z 170%N 100%N 0%Z 0 0] = Ok (s, [OAnnounce 0 0 [] [PeerAdded 170%N]])
    /\ u_step (mkUcfg 2 30 true) s (UClean 5%N AclDeny [7%N]) = Ok (s', OClean t4 p4 t6 p6 m l)
    /\ u4 s' = [] /\ p4 = 1 /\ t4 = 0.
Proof. do 8 eexists. split; [vm_compute; reflexivity|]. split; [vm_compute; reflexivity|]. repeat split. Qed.

(* ---- atomic replacement of the export file ----
   after a crash following ANY number k of the steps create / write each line / flush / close /
   rename, with ANY write-through behaviour of the buffered writer, the configured path holds
   either the previous complete file or the new complete one *)
Theorem C20_atomic : forall spills old lines k,
  crash_view spills old lines k = old \/ crash_view spills old lines k = Some lines.
Proof. exact export_atomic. Qed.
Print Assumptions C20_atomic.

Theorem C20_flush_failure_keeps_old : forall spills old lines,
  f_path (fs_run spills 0 (mkFs old None []) (FCreateTmp :: map FWriteLine lines)) = old.
Proof. exact export_flush_failure_keeps_old. Qed.
Print Assumptions C20_flush_failure_keeps_old.

(* non-vacuity of the atomicity statement: a crash between flush and rename *)
Example C20_atomic_example :
  crash_view (fun _ => 1) (Some [[1%N]]) [[2%N]; [3%N]] 4 = Some [[1%N]]
  /\ crash_view (fun _ => 1) (Some [[1%N]]) [[2%N]; [3%N]] 6 = Some [[2%N]; [3%N]].
Proof. split; vm_compute; reflexivity. Qed.

(* ---- a temporary file left behind by a killed export ----
   the model's first step truncates the temporary file; that is what the source does
   (File::create), regenerated as a fact: *)
From Aquatic Require Import Consts.
Theorem C20_tmp_file_is_created_truncating : udp_export_tmp_created_truncating = true.
Proof. reflexivity. Qed.
Print Assumptions C20_tmp_file_is_created_truncating.

(* hence whatever an earlier, killed export left in the temporary file - any lines, any length -
   the atomicity statement is unchanged: old complete file or new complete file *)
Theorem C20_atomic_with_stale_tmp : forall spills old stale lines k,
  let view := f_path (fs_run spills 0 (mkFs old stale []) (firstn k (export_steps lines))) in
  view = old \/ view = Some lines.
Proof.
  intros spills old stale lines k. destruct k as [|k]; [left; reflexivity|].
  pose proof (C20_atomic spills old lines (S k)) as H. unfold crash_view in H.
  cbn [export_steps firstn fs_run fs_step] in *. exact H.
Qed.
Print Assumptions C20_atomic_with_stale_tmp.

(* ---- the tally over a WHOLE history of one torrent ----
   any sequence of announces and cleaning passes (any capacity, any selection offsets): no step
   panics; and when every stored entry an announce replaced or removed carried the announced id
   (`stable = true`), the statistics worker's tally of every id, fed with every message the
   history emitted, equals the number of stored entries carrying that id. *)
Theorem C20_history_never_panics : forall cap shrink ops,
  exists pm' msgs stable, pm_hist cap shrink (Small []) ops = Ok (pm', msgs, stable) /\ pmap_inv cap shrink pm'.
Proof. intros cap shrink ops. exact (pm_hist_total cap shrink ops (Small []) (small_nil_inv cap shrink)). Qed.
Print Assumptions C20_history_never_panics.

Theorem C20_tally_history : forall cap shrink ops pm' msgs q,
  pm_hist cap shrink (Small []) ops = Ok (pm', msgs, true) ->
  tally_count (tally_run msgs) q = pid_count q (pm_entries pm').
Proof. exact hist_tally_exact. Qed.
Print Assumptions C20_tally_history.

(* non-vacuity: two ids join, one is cleaned away, one re-announces and the inline map is used;
   the history is id-stable and the tallies are 0 and 1 *)
Example C20_tally_history_example :
  exists pm' msgs,
    pm_hist 2 true (Small []) [PAnn 1%N Leeching 170%N 100%N 5 0 0; PAnn 2%N Seeding 187%N 50%N 5 0 0;
                               PClean 60%N; PAnn 1%N Seeding 170%N 200%N 5 0 0] = Ok (pm', msgs, true)
    /\ tally_count (tally_run msgs) 170%N = 1 /\ tally_count (tally_run msgs) 187%N = 0
    /\ length (pm_entries pm') = 1.
Proof. do 2 eexists. split; [vm_compute; reflexivity|]. repeat split; vm_compute; reflexivity. Qed.

(* and the hypothesis `stable = true` cannot be dropped (the recorded finding, on one torrent) *)
Lemma C20_tally_history_refuted_without_stable :
  exists ops pm' msgs,
    pm_hist 2 true (Small []) ops = Ok (pm', msgs, false)
    /\ tally_count (tally_run msgs) 170%N <> pid_count 170%N (pm_entries pm').
Proof.
  exists [PAnn 1%N Leeching 170%N 100%N 5 0 0; PAnn 1%N Leeching 187%N 100%N 5 0 0; PAnn 1%N Stopped 187%N 100%N 5 0 0].
  do 2 eexists. split; [vm_compute; reflexivity|]. vm_compute. discriminate.
Qed.

(* ---- the tally summed over ALL torrents of a family ----
   one announce to any torrent moves the family-wide number of stored entries carrying each id
   exactly as the messages it sends say (id-stable case; the other case is the recorded finding) *)
Theorem C20_tally_family_announce : forall cap shrink tm hash key st pid until take o1 o2 pm' rep removed q,
  pmap_inv cap shrink (tm_get hash tm) ->
  pm_announce cap (tm_get hash tm) key st pid until take o1 o2 = Ok (pm', rep, removed) ->
  (forall p, removed = Some p -> p_id p = pid) ->
  tm_pid_count q (tm_set hash pm' tm)
  = fold_left (msg_delta q) (announce_msgs true st pid removed) (tm_pid_count q tm).
Proof. exact fam_announce_tally_law. Qed.
Print Assumptions C20_tally_family_announce.
