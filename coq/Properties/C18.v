(* C18 - every reply the tracker computes fits its buffers and is delivered whole.
   All numbers - buffer sizes, limits, header literals - and the PRESENCE of the start-up
   validations are regenerated from the source on every run (Gen/Consts.v, Gen/Literals.v). *)
From Aquatic Require Import Buffers Consts Literals Layout UdpCodec Bep15 UdpCodecFacts BufferFacts.
Local Open Scope N_scope.

(* reply lengths come from the codec model, not from a table *)
Theorem C18_udp_announce_reply_length : forall v6 fixed peers,
  wf_vals 4 bep15_announce_fixed fixed -> Forall (wf_vals (ipw v6) bep15_peer) peers ->
  N.of_nat (length (write_response bep15_layouts (SAnnounce v6 fixed peers))) = udp_announce_len v6 (N.of_nat (length peers)).
Proof. exact udp_announce_reply_length. Qed.
Print Assumptions C18_udp_announce_reply_length.

Theorem C18_udp_scrape_reply_length : forall tid stats,
  Forall (wf_vals 4 bep15_scrape_stats) stats ->
  N.of_nat (length (write_response bep15_layouts (SScrape tid stats))) = udp_scrape_len (N.of_nat (length stats)).
Proof. exact udp_scrape_reply_length. Qed.
Print Assumptions C18_udp_scrape_reply_length.

(* udp, mio backend: every configuration run() accepts keeps the largest announce reply (both
   families) and the largest scrape reply (max_scrape_torrents is a u8) inside BUFFER_SIZE *)
Theorem C18_udp_mio : forall max_response_peers,
  udp_accepted max_response_peers ->
  forall v6 n, n <= max_response_peers -> udp_announce_len v6 n <= udp_BUFFER_SIZE.
Proof. exact udp_mio_fits. Qed.
Print Assumptions C18_udp_mio.

Theorem C18_udp_mio_scrape : forall n, n <= 255 -> udp_scrape_len n <= udp_BUFFER_SIZE.
Proof. exact udp_mio_scrape_fits. Qed.
Print Assumptions C18_udp_mio_scrape.

(* udp, io_uring backend: RESPONSE_BUF_LEN; a scrape lists at most the hashes that fit the
   request buffer *)
Theorem C18_udp_uring : forall max_response_peers,
  uring_accepted max_response_peers ->
  forall v6 n, n <= max_response_peers -> udp_announce_len v6 n <= uring_RESPONSE_BUF_LEN.
Proof. exact udp_uring_fits. Qed.
Print Assumptions C18_udp_uring.

Theorem C18_udp_uring_scrape : forall n,
  n <= udp_hashes_in uring_REQUEST_BUF_LEN -> udp_scrape_len n <= uring_RESPONSE_BUF_LEN.
Proof. exact udp_uring_scrape_fits. Qed.
Print Assumptions C18_udp_uring_scrape.

(* http: announce replies of an accepted configuration (either family, counters of any size) *)
Theorem C18_http_announce : forall max_peers c i iv p4 p6,
  http_accepted max_peers ->
  Forall (fun p => length (fst p) = 4%nat) p4 -> Forall (fun p => length (fst p) = 16%nat) p6 ->
  (p4 = [] \/ p6 = []) -> N.of_nat (length p4) <= max_peers -> N.of_nat (length p6) <= max_peers ->
  http_header_len + N.of_nat (length (write_announce c i iv p4 p6 None)) + 2 <= http_RESPONSE_BUFFER_SIZE.
Proof. exact http_announce_fits. Qed.
Print Assumptions C18_http_announce.

(* http: the scrape reply for as many torrents as a request fitting the request buffer can name,
   with counters of any size *)
Theorem C18_http_scrape : forall files,
  Forall (fun f => length (fst f) = 20%nat) files ->
  N.of_nat (length files) <= http_hashes_in http_REQUEST_BUFFER_SIZE ->
  http_header_len + N.of_nat (length (write_scrape files)) + 2 <= http_RESPONSE_BUFFER_SIZE.
Proof. exact http_scrape_fits. Qed.
Print Assumptions C18_http_scrape.

Theorem C18_http_failure : forall reason,
  (length reason <= 200)%nat ->
  http_header_len + N.of_nat (length (write_failure reason)) + 2 <= http_RESPONSE_BUFFER_SIZE.
Proof. exact http_failure_fits. Qed.
Print Assumptions C18_http_failure.

(* a body that fits is delivered whole with the right Content-Length; one that does not is
   reported as ResponseBufferFull, never cut short *)
Theorem C18_framing_whole : forall HA HB HC buf_size body,
  (header_len HA HB HC + length body + 2 <= buf_size)%nat ->
  frame_response HA HB HC buf_size body
  = Framed (HA ++ (itoa (N.of_nat (length body + 2)) ++ skipn (length (itoa (N.of_nat (length body + 2)))) HB)
               ++ HC ++ body ++ [13; 10]).
Proof. exact framing_whole. Qed.
Print Assumptions C18_framing_whole.

Theorem C18_framing_overflow_detected : forall HA HB HC buf_size body,
  (buf_size < header_len HA HB HC + length body + 2)%nat -> (header_len HA HB HC <= buf_size)%nat ->
  frame_response HA HB HC buf_size body = ResponseBufferFull.
Proof. exact framing_overflow_detected. Qed.
Print Assumptions C18_framing_overflow_detected.

(* non-vacuity: the limits are met with equality-or-nearly by real configurations *)
Example C18_boundaries :
  udp_accepted 454 /\ udp_announce_len true 454 = 8192 /\ ~ (udp_announce_len true 455 <= udp_BUFFER_SIZE)
  /\ uring_accepted 112 /\ udp_announce_len true 112 = 2036 /\ http_accepted 400.
Proof. repeat split; vm_compute; congruence. Qed.
