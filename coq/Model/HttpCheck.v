(* Correspondence checker for the http swarm storage (see UdpCheck.v for the method). *)
From Aquatic Require Export HttpSwarm UdpCheck.

Definition file_eqb (a b : N * (nat * nat)) : bool :=
  N.eqb (fst a) (fst b) && Nat.eqb (fst (snd a)) (fst (snd b)) && Nat.eqb (snd (snd a)) (snd (snd b)).

(* bit 0 counts (announce, scrape), bit 1 reply peers, bit 3 torrent totals after clean *)
Definition hout_eqb (mask : N) (m i : hout) : bool :=
  match m, i with
  | HOAnnounce s l p, HOAnnounce s' l' p' =>
      asp mask 0 (Nat.eqb s s' && Nat.eqb l l') && asp mask 1 (list_eqb N.eqb p p')
  | HOScrape a, HOScrape b => asp mask 0 (perm_eqb file_eqb a b)
  | HOClean a b, HOClean a' b' => asp mask 3 (Nat.eqb a a' && Nat.eqb b b')
  | _, _ => false
  end.

Definition himpl_peers_of (o : hout) : list N :=
  match o with HOAnnounce _ _ p => p | _ => [] end.

Definition hcheck_op (mask : N) (cfg : hcfg) (s : hstate) (op : hop) (impl : hout) : option hstate :=
  match h_step cfg s op with
  | Ok (s', out) =>
      if hout_eqb mask out impl then Some s'
      else
        match op with
        | HAnnounce v6 hash key _ _ _ want _ _ =>
            if hout_eqb (N.land mask 29) out impl
               && peers_possible (limit_http want (hc_max_peers cfg)) (tm_get hash (hfam s v6)) key (himpl_peers_of impl)
            then Some s' else None
        | _ => None
        end
  | Panic => None
  end.

Definition hany_large (s : hstate) : bool :=
  existsb (fun e => is_large (snd e)) (h4 s) || existsb (fun e => is_large (snd e)) (h6 s).

Fixpoint hcheck_history (mask : N) (cfg : hcfg) (s : hstate) (i : N) (was_large went_back : bool)
         (h : list (hop * hout)) : option N * bool * bool :=
  match h with
  | [] => (None, was_large, went_back)
  | (op, impl) :: t =>
      match hcheck_op mask cfg s op impl with
      | None => (Some i, was_large, went_back)
      | Some s' =>
          let lg := hany_large s' in
          hcheck_history mask cfg s' (N.succ i) (was_large || lg) (went_back || (hany_large s && negb lg)) t
      end
  end.

Definition http_code (mask : N) (cap : N) (c : nat * nat * list (hop * hout)) : N :=
  let '(max_peers, max_scrape, h) := c in
  let '(f, up, down) := hcheck_history mask (mkHcfg (N.to_nat cap) max_peers max_scrape) hinit 0%N false false h in
  (match f with None => 0 | Some i => N.succ i end * 4 + (if up then 1 else 0) + (if down then 2 else 0))%N.
