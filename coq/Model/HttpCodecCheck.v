(* correspondence for the harness suite `http-req` *)
From Aquatic Require Export HttpCodec.
Local Open Scope N_scope.

Fixpoint tbl_dec (tbl : list (list N * option (list N))) (v : list N) : option (list N) :=
  match tbl with
  | [] => None
  | (k, r) :: t => if bytes_eqb k v then r else tbl_dec t v
  end.

Fixpoint tbl_enc (tbl : list (list N * list N)) (v : list N) : list N :=
  match tbl with
  | [] => v
  | (k, r) :: t => if bytes_eqb k v then r else tbl_enc t v
  end.

Definition on_eqb (a b : option N) : bool :=
  match a, b with Some x, Some y => N.eqb x y | None, None => true | _, _ => false end.
Definition ol_eqb (a b : option (list N)) : bool :=
  match a, b with Some x, Some y => bytes_eqb x y | None, None => true | _, _ => false end.
Definition ev_eqb (a b : aevent) : bool :=
  match a, b with
  | EvStarted, EvStarted | EvStopped, EvStopped | EvCompleted, EvCompleted | EvEmpty, EvEmpty => true
  | _, _ => false
  end.

Definition areq_eqb (a b : areq) : bool :=
  bytes_eqb (a_info_hash a) (a_info_hash b) && bytes_eqb (a_peer_id a) (a_peer_id b) && N.eqb (a_port a) (a_port b)
  && N.eqb (a_uploaded a) (a_uploaded b) && N.eqb (a_downloaded a) (a_downloaded b) && N.eqb (a_left a) (a_left b)
  && ev_eqb (a_event a) (a_event b) && on_eqb (a_numwant a) (a_numwant b) && ol_eqb (a_key a) (a_key b).

Fixpoint ll_eqb (a b : list (list N)) : bool :=
  match a, b with
  | [], [] => true
  | x :: a', y :: b' => bytes_eqb x y && ll_eqb a' b'
  | _, _ => false
  end.

Definition hreq_eqb (a b : option hrequest) : bool :=
  match a, b with
  | Some (HReqAnnounce x), Some (HReqAnnounce y) => areq_eqb x y
  | Some (HReqScrape x), Some (HReqScrape y) => ll_eqb x y
  | None, None => true
  | _, _ => false
  end.

Definition http_req_case := (option hrequest * list N * option hrequest * list (list N * option (list N)) * list (list N * list N))%type.

Definition http_req_case_ok (c : http_req_case) : bool :=
  let '(written, path, parsed, dtbl, etbl) := c in
  hreq_eqb (parse_path (tbl_dec dtbl) path) parsed
  && match written with
     | Some (HReqAnnounce r) => bytes_eqb (write_announce_path (tbl_enc etbl) [] r) path
     | Some (HReqScrape hs) => bytes_eqb (write_scrape_path [] hs) path
     | None => true
     end.

Definition http_req_code (c : bool * list http_req_case) : N :=
  let '(_, cs) := c in
  let fix go (i : N) (l : list http_req_case) : N :=
    match l with [] => 0 | x :: t => if http_req_case_ok x then go (N.succ i) t else N.succ i end in
  (go 0 cs * 4
   + (if existsb (fun x => match x with (_, _, Some _, _, _) => true | _ => false end) cs
         && existsb (fun x => match x with (_, _, None, _, _) => true | _ => false end) cs then 3 else 1))%N.
