(* Executable model of one aquatic_http swarm worker's storage
   (crates/http/src/workers/swarm/storage.rs: `TorrentMaps`, `TorrentMap`, `TorrentData`).
   Same peer map as udp with inline capacity 4 and no shrinking on clean; `torrents` is an
   IndexMap (insertion ordered, `retain` keeps order) - an association list here.
   `entry().or_default()` creates the torrent even for a `stopped` announce; it stays (possibly
   empty) until the next cleaning pass.  Sharding over several swarm workers is C16. *)
From Aquatic Require Export PeerMap AccessList TorrentMap.

Record hstate := mkH { h4 : tmap; h6 : tmap }.
Definition hinit : hstate := mkH [] [].
Definition hfam (s : hstate) (v6 : bool) : tmap := if v6 then h6 s else h4 s.
Definition hset (s : hstate) (v6 : bool) (tm : tmap) : hstate :=
  if v6 then mkH (h4 s) tm else mkH tm (h6 s).

Record hcfg := mkHcfg {
  hc_cap : nat;          (* SMALL_PEER_MAP_CAPACITY *)
  hc_max_peers : nat;    (* protocol.max_peers *)
  hc_max_scrape : nat    (* protocol.max_scrape_torrents *)
}.

(* PeerStatus::from_event_and_bytes_left: bytes_left is a usize *)
Definition hstatus_of (stopped : bool) (bleft : N) : status :=
  if stopped then Stopped else if N.eqb bleft 0 then Seeding else Leeching.

Inductive hop :=
| HAnnounce (v6 : bool) (hash key : N) (stopped : bool) (bleft : N) (until : N) (want : option nat) (o1 o2 : nat)
| HScrape (v6 : bool) (hashes : list N)
| HClean (now : N) (mode : acl_mode) (acl : list N).

Inductive hout :=
| HOAnnounce (complete incomplete : nat) (peers : list N)
| HOScrape (files : list (N * (nat * nat)))
| HOClean (t4 t6 : nat).

Definition h_announce (cfg : hcfg) (s : hstate) v6 hash key stopped bleft until want o1 o2
  : outcome (hstate * hout) :=
  let tm := hfam s v6 in
  let st := hstatus_of stopped bleft in
  let take := limit_http want (hc_max_peers cfg) in
  let! (pm', rep, _) := pm_announce (hc_cap cfg) (tm_get hash tm) key st 0%N until take o1 o2 in
  Ok (hset s v6 (tm_set hash pm' tm), HOAnnounce (r_seeders rep) (r_leechers rep) (r_peers rep)).

(* BTreeMap::insert: a repeated hash overwrites its own (identical) entry *)
Fixpoint assoc_insert {V} (k : N) (v : V) (l : list (N * V)) : list (N * V) :=
  match l with
  | [] => [(k, v)]
  | (k', v') :: t => if N.eqb k' k then (k', v) :: t else (k', v') :: assoc_insert k v t
  end.

Fixpoint h_scrape_loop (tm : tmap) (hashes : list N) (acc : list (N * (nat * nat)))
  : outcome (list (N * (nat * nat))) :=
  match hashes with
  | [] => Ok acc
  | h :: t =>
      let! c := (match tm_find h tm with Some pm => pm_counts pm | None => Ok (0, 0) end) in
      h_scrape_loop tm t (assoc_insert h c acc)
  end.

Definition h_scrape (cfg : hcfg) (tm : tmap) (hashes : list N) : outcome (list (N * (nat * nat))) :=
  h_scrape_loop tm (firstn (Nat.min (length hashes) (hc_max_scrape cfg)) hashes) [].

(* TorrentMap::clean: retain, in order: forbidden -> drop (not cleaned); else clean and keep
   iff a peer remains *)
Fixpoint h_clean_fam (cfg : hcfg) (now : N) (mode : acl_mode) (acl : list N) (tm : tmap) : outcome tmap :=
  match tm with
  | [] => Ok []
  | (h, pm) :: t =>
      if negb (allows mode acl h) then h_clean_fam cfg now mode acl t
      else
        let! (pm', (s, l), _) := pm_clean (hc_cap cfg) false false pm now in
        let! t' := h_clean_fam cfg now mode acl t in
        Ok (if 0 <? s + l then (h, pm') :: t' else t')
  end.

Definition h_step (cfg : hcfg) (s : hstate) (op : hop) : outcome (hstate * hout) :=
  match op with
  | HAnnounce v6 hash key stopped bleft until want o1 o2 =>
      h_announce cfg s v6 hash key stopped bleft until want o1 o2
  | HScrape v6 hashes =>
      let! files := h_scrape cfg (hfam s v6) hashes in Ok (s, HOScrape files)
  | HClean now mode acl =>
      let! tm4 := h_clean_fam cfg now mode acl (h4 s) in
      let! tm6 := h_clean_fam cfg now mode acl (h6 s) in
      Ok (mkH tm4 tm6, HOClean (length tm4) (length tm6))
  end.

Fixpoint h_run (cfg : hcfg) (s : hstate) (ops : list hop) : outcome (hstate * list hout) :=
  match ops with
  | [] => Ok (s, [])
  | op :: t =>
      let! (s', out) := h_step cfg s op in
      let! (s'', outs) := h_run cfg s' t in
      Ok (s'', out :: outs)
  end.
