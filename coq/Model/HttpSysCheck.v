(* Correspondence of the connection-layer model with a RUNNING http tracker (harness suite
   `http-sys`): every reply must be, byte for byte, the frame the model builds in the reused
   response buffer around the model writer's rendering of the reply the client-side parser read;
   its contents must be those of the reference tracker, routed as connection.rs routes them. *)
From Coq Require Export String.
From Aquatic Require Export HttpConn Monitors Literals Consts AccessListFile HttpSwarmRefine.
Local Open Scope N_scope.

Inductive hsys_reply :=
| YAnnounce (complete incomplete interval : N) (peers4 peers6 : list (string * N))
| YScrape (files : list (string * (N * N * N)))
| YFailure (reason : string).

(* [YReload acl ok]: the access list file was rewritten to [acl] (or to an unreadable text when
   [ok] = false) and the tracker was sent SIGUSR1: a failed reload keeps the previous list *)
Inductive hsys_step :=
| YStep (conn : N) (op : option hop) (reply : option (string * hsys_reply)) (closed : bool)
| YReload (acl : list N) (ok : bool).

Definition hsys_case : Type := nat * nat * bool * nat * nat * N * acl_mode * list N * list hsys_step.

Definition le_num (bs : list N) : N := fold_right (fun b acc => b + 256 * acc) 0 bs.
Definition peer_key_of (p : string * N) : N := be_dec (bytes_of_hex (fst p)) * 65536 + snd p.

Definition hout_of (y : hsys_reply) : option hout :=
  match y with
  | YAnnounce c i _ p4 p6 => Some (HOAnnounce (N.to_nat c) (N.to_nat i) (map peer_key_of p4 ++ map peer_key_of p6))
  | YScrape files =>
      Some (HOScrape (map (fun f => (le_num (bytes_of_hex (fst f)),
                                     (N.to_nat (fst (fst (snd f))), N.to_nat (snd (snd f))))) files))
  | YFailure _ => None
  end.

Definition body_of (y : hsys_reply) : list N :=
  match y with
  | YAnnounce c i iv p4 p6 =>
      write_announce c i iv (map (fun p => (bytes_of_hex (fst p), snd p)) p4)
                     (map (fun p => (bytes_of_hex (fst p), snd p)) p6) None
  | YScrape files => write_scrape (map (fun f => (bytes_of_hex (fst f), (fst (fst (snd f)), snd (snd f)))) files)
  | YFailure r => write_failure (bytes_of_hex r)
  end.

Definition downloaded_zero (y : hsys_reply) : bool :=
  match y with YScrape files => forallb (fun f => N.eqb (snd (fst (snd f))) 0) files | _ => true end.

(* which requested hashes a scrape reply covers: connection.rs cuts the list to
   max_scrape_torrents before splitting it ([cut] = true, regenerated from the source), or - in
   a tree without that cut - every swarm worker cuts its own share *)
Definition sys_asked (cut : bool) (k max : nat) (hashes : list N) : list N :=
  if cut then firstn max hashes
  else concat (map (fun j => firstn max (part k j hashes)) (seq 0 k)).

Definition scrape_matches (r : rstate) (v6 : bool) (asked : list N) (files : list (N * (nat * nat))) : bool :=
  nodupb (map fst files) && inclb (map fst files) asked && inclb asked (map fst files)
  && forallb (fun f => let '(s, l) := ref_counts (r v6 (fst f)) in
                       Nat.eqb (fst (snd f)) s && Nat.eqb (snd (snd f)) l) files.

(* [strict] = judge scrapes by the single reference tracker (the property), otherwise by the
   routing the code performs (the faithful model) *)
Definition content_ok (strict cut : bool) (k mp ms : nat) (interval : N) (r : rstate) (op : hop) (y : hsys_reply) : bool :=
  match hout_of y with
  | None => false
  | Some out =>
      match op, out, y with
      | HAnnounce _ _ _ _ _ _ _ _ _, HOAnnounce _ _ _, YAnnounce _ _ iv _ _ =>
          hmon_op 3 mp ms r op out && N.eqb iv interval
      | HScrape v6 hashes, HOScrape files, YScrape _ =>
          if strict then hmon_op 3 mp ms r op out
          else scrape_matches r v6 (sys_asked cut k ms hashes) files
      | _, _, _ => false
      end
  end.

Fixpoint prev_of (conn : N) (st : list (N * list N)) : list N :=
  match st with
  | [] => http_RESPONSE_HEADER_B
  | (c, f) :: t => if N.eqb c conn then f else prev_of conn t
  end.

Definition set_prev (conn : N) (f : list N) (st : list (N * list N)) : list (N * list N) :=
  (conn, f) :: filter (fun e => negb (N.eqb (fst e) conn)) st.

Definition frame_matches (prev : list N) (body : list N) (raw : list N) : bool :=
  match frame_reusing http_RESPONSE_HEADER_A http_RESPONSE_HEADER_B http_RESPONSE_HEADER_C
                      (N.to_nat http_RESPONSE_BUFFER_SIZE) prev body with
  | Framed bytes => bytes_eqb bytes raw
  | ResponseBufferFull => false
  end.

Definition not_allowed_reason : list N :=
  map (fun a => N.of_nat (Ascii.nat_of_ascii a)) (String.list_ascii_of_string "Info hash not allowed").

Definition http_sys_code_gen (strict : bool) (cut : bool) (c : hsys_case) : N :=
  let '(sw, k, ka, ms, mp, interval, mode, acl0, steps) := c in
  let fix go (i : N) (r : rstate) (st : list (N * list N)) (acl : list N) (l : list hsys_step) : N :=
    match l with
    | [] => 0
    | YReload acl' ok :: t => go (N.succ i) r st (if ok then acl' else acl) t
    | YStep conn None reply _ :: t =>
        (match reply with None => go (N.succ i) r (set_prev conn http_RESPONSE_HEADER_B st) acl t | Some _ => N.succ i end)
    | YStep conn (Some op) None _ :: _ => N.succ i
    | YStep conn (Some op) (Some (raw, y)) closed :: t =>
        let body := body_of y in
        (* connection.rs handle_request: an announce for a torrent the access list forbids is
           answered with a failure and never reaches a swarm worker *)
        let forbidden := http_forbidden mode acl op in
        if frame_matches (prev_of conn st) body (bytes_of_hex raw)
           && downloaded_zero y
           && (if forbidden
               then match y with YFailure reason => bytes_eqb (bytes_of_hex reason) not_allowed_reason | _ => false end
               else content_ok strict cut k mp ms interval r op y)
           && Bool.eqb closed (negb ka)
        then go (N.succ i) (if forbidden then r else fst (hr_step r op))
                (set_prev conn (if closed then http_RESPONSE_HEADER_B
                                else length_field http_RESPONSE_HEADER_A http_RESPONSE_HEADER_B http_RESPONSE_HEADER_C
                                                  (N.to_nat http_RESPONSE_BUFFER_SIZE) body) st) acl t
        else N.succ i
    end in
  let bad := go 0 rinit [] acl0 steps in
  let multi := existsb (fun s => match s with YStep _ (Some (HScrape _ hs)) _ _ => Nat.ltb 1 (length (nodup Nat.eq_dec (map (route k) hs))) | _ => false end) steps in
  let unanswered := existsb (fun s => match s with YStep _ None _ _ => true | YReload _ _ => true | _ => false end) steps in
  bad * 4 + (if multi || unanswered then 3 else 1).

Definition http_sys_code := http_sys_code_gen false http_scrape_cut_before_split.
Definition http_sys_mon := http_sys_code_gen true http_scrape_cut_before_split.

(* real-time probe of C10 (harness `http-expiry-probe`): cleaning every [interval] s, max_peer_age
   [age] s, one peer announced 3 s after start; counts scraped at about 8 s and 14.5 s: the peer
   must still be there at 8 s (its deadline is 3 + age > 6 = the first cleaning pass) and gone
   after the pass at 12 s *)
Definition expiry_probe_code (c : N * N * list (Z * Z)) : N :=
  let '(interval, age, obs) := c in
  match obs with
  | [(at8, at14)] => (if Z.eqb at8 1 && Z.eqb at14 0 then 0 else 1) * 4 + 3
  | _ => 4 + 3
  end.
