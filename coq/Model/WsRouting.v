(* The WebTorrent tracker above one swarm worker's storage: the socket worker's per-connection
   bookkeeping (crates/ws/src/workers/socket/connection.rs: ConnectionReader::handle_announce_request,
   handle_scrape_request, ConnectionWriter scrape re-assembly, ConnectionCleanupData::after_close),
   the routing of requests to swarm worker  info_hash[0] % swarm_workers, and the delivery of
   the swarm workers' messages to the connection named (socket worker index, slot-map key) in
   their meta data (swarm/mod.rs handle_request_stream, socket/mod.rs receive_out_messages).
   Sequential semantics: a client action is processed completely before the next one (the
   channels between workers and their interleavings are runtime). *)
From Aquatic Require Export WsSwarm.
Local Open Scope N_scope.

Definition wroute (k : nat) (h : N) : nat := (N.to_nat (h mod 256) mod k)%nat.

Record sconn := mkSconn {
  sc_key : N * N;                   (* (socket worker, connection id) *)
  sc_v6 : bool;
  sc_announced : list (N * N)       (* ConnectionCleanupData.announced_info_hashes: hash -> peer id *)
}.

Record wsys := mkWsys { y_workers : list wstate; y_conns : list sconn }.

Definition yget (ws : list wstate) (j : nat) : wstate := nth j ws winit.
Fixpoint yset (ws : list wstate) (j : nat) (s : wstate) : list wstate :=
  match ws, j with
  | [], _ => []
  | _ :: t, O => s :: t
  | x :: t, S j' => x :: yset t j' s
  end.

Definition find_conn (key : N * N) (cs : list sconn) : option sconn :=
  find (fun c => pair_eqb (sc_key c) key) cs.
Definition drop_conn (key : N * N) (cs : list sconn) : list sconn :=
  filter (fun c => negb (pair_eqb (sc_key c) key)) cs.
Definition put_conn (c : sconn) (cs : list sconn) : list sconn := c :: drop_conn (sc_key c) cs.

Inductive caction :=
| COpen (v6 : bool)
| CAnnounce (rq : wreq)
| CScrape (hashes : option (list N))
| CInvalid
| CClose.

(* what a client connection receives: a swarm worker's message, or an error the socket worker
   answers by itself (1 invalid request, 2 second peer id for a torrent, 3 full scrape) *)
Inductive dmsg := DOut (o : wout) | DErr (consumer conn : N) (kind : N).

Definition wout_dest (o : wout) : N * N :=
  match o with
  | WOffer c k _ _ _ _ | WAnswer c k _ _ _ _ | WError c k _ | WAnnounce c k _ _ _ | WScrape c k _ => (c, k)
  end.
Definition dest (m : dmsg) : N * N := match m with DOut o => wout_dest o | DErr c k _ => (c, k) end.

(* receive_out_messages: a message for a connection that is gone is dropped *)
Definition deliver (cs : list sconn) (outs : list wout) : list dmsg :=
  map DOut (filter (fun o => match find_conn (wout_dest o) cs with Some _ => true | None => false end) outs).

(* after_close: one ConnectionClosed entry per recorded (hash, peer id), to the worker owning the hash *)
Fixpoint close_all (k : nat) (ws : list wstate) (v6 : bool) (announced : list (N * N)) : outcome (list wstate) :=
  match announced with
  | [] => Ok ws
  | (h, pid) :: t =>
      let j := wroute k h in
      let! s' := ws_closed (yget ws j) v6 h pid in
      close_all k (yset ws j s') v6 t
  end.

Definition wpart (k j : nat) (hs : list N) : list N := filter (fun h => Nat.eqb (wroute k h) j) hs.

Fixpoint scrape_collect (cfg : wcfg) (k : nat) (ws : list wstate) (who : N * N) (v6 : bool) (asked : list N) (js : list nat)
  : outcome (list (N * (nat * nat))) :=
  match js with
  | [] => Ok []
  | j :: t =>
      match wpart k j asked with
      | [] => scrape_collect cfg k ws who v6 asked t
      | p =>
          let! outs := ws_scrape cfg (yget ws j) (fst who) (snd who) v6 (Some p) in
          let! rest := scrape_collect cfg k ws who v6 asked t in
          Ok (match outs with [WScrape _ _ files] => files ++ rest | _ => rest end)
      end
  end.

(* the socket worker's announce gate: a torrent the access list forbids is answered with an error
   (kind 4) before any bookkeeping; [wsys_gate] wraps [wsys_step] with it *)
(* [cut]: the scrape list is cut to max_scrape_torrents before it is split among the swarm
   workers; [answer_empty]: a scrape naming no torrent is answered at once (both regenerated
   from connection.rs).  Without [answer_empty] such a scrape parks a pending entry that no
   swarm worker will ever complete: no reply. *)
Definition wsys_step (cfg : wcfg) (cut answer_empty : bool) (k : nat) (y : wsys) (who : N * N) (a : caction)
  : outcome (wsys * list dmsg) :=
  match a with
  | COpen v6 => Ok (mkWsys (y_workers y) (put_conn (mkSconn who v6 []) (y_conns y)), [])
  | _ =>
    match find_conn who (y_conns y) with
    | None => Ok (y, [])
    | Some c =>
      match a with
      | COpen _ => Ok (y, [])
      | CInvalid => Ok (y, [DErr (fst who) (snd who) 1])
      | CClose =>
          let! ws' := close_all k (y_workers y) (sc_v6 c) (sc_announced c) in
          Ok (mkWsys ws' (drop_conn who (y_conns y)), [])
      | CAnnounce rq =>
          let second_id := match aget N.eqb (q_hash rq) (sc_announced c) with
                           | Some pid' => negb (N.eqb pid' (q_pid rq))
                           | None => false
                           end in
          if second_id then
            (* error reply, then the reader fails and the connection is torn down *)
            let! ws' := close_all k (y_workers y) (sc_v6 c) (sc_announced c) in
            Ok (mkWsys ws' (drop_conn who (y_conns y)), [DErr (fst who) (snd who) 2])
          else
            let ann1 := aput N.eqb (q_hash rq) (q_pid rq) (sc_announced c) in
            let ann2 := if q_stopped rq then snd (aswap_remove N.eqb (q_hash rq) ann1) else ann1 in
            let cs' := put_conn (mkSconn who (sc_v6 c) ann2) (y_conns y) in
            let j := wroute k (q_hash rq) in
            let! (s', outs) := ws_announce cfg (yget (y_workers y) j) rq 0 0 0 in
            Ok (mkWsys (yset (y_workers y) j s') cs', deliver cs' outs)
      | CScrape None => Ok (y, [DErr (fst who) (snd who) 3])
      | CScrape (Some hs) =>
          let asked := if cut then firstn (wc_max_scrape cfg) hs else hs in
          match asked with
          | [] => Ok (y, if answer_empty then [DOut (WScrape (fst who) (snd who) [])] else [])
          | _ =>
              let! files := scrape_collect cfg k (y_workers y) who (sc_v6 c) asked (seq 0 k) in
              Ok (y, [DOut (WScrape (fst who) (snd who) files)])
          end
      end
    end
  end.

Definition wsys_init (k : nat) : wsys := mkWsys (repeat winit k) [].

Definition wsys_gate (mode : acl_mode) (acl : list N) (cfg : wcfg) (cut answer_empty : bool) (k : nat) (y : wsys) (who : N * N) (a : caction)
  : outcome (wsys * list dmsg) :=
  match a with
  | CAnnounce rq =>
      match find_conn who (y_conns y) with
      | Some _ => if allows mode acl (q_hash rq) then wsys_step cfg cut answer_empty k y who a
                  else Ok (y, [DErr (fst who) (snd who) 4])
      | None => Ok (y, [])
      end
  | _ => wsys_step cfg cut answer_empty k y who a
  end.
