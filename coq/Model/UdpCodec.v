(* Executable model of the udp wire codec (crates/udp_protocol/src/{request,response}.rs).
   The struct layouts are parameters (record [layouts]): the instance used for the
   correspondence and for the conformance theorems is regenerated from the Rust source
   (Gen/Layouts.v). *)
From Aquatic Require Export Layout.
Local Open Scope N_scope.

Record layouts := mkLayouts {
  L_announce_request : layout;
  L_connect_response : layout;
  L_announce_fixed : layout;
  L_scrape_stats : layout;
  L_peer : layout;
  L_protocol_id : N
}.

Inductive request :=
| RConnect (tid : Z)
| RAnnounce (fields : list fval)                      (* in the order of the AnnounceRequest layout *)
| RScrape (cid tid : Z) (hashes : list (list N)).

Inductive perr :=
| Sendable (cid tid : Z) (kind : N)   (* 1 port 0, 2 full scrape, 3 bad hash list *)
| Unsendable.

Inductive presult (A : Type) := POk (a : A) | PErr (e : perr).
Arguments POk {A} a. Arguments PErr {A} e.

Definition i32_be (z : Z) : list N := be_enc 4 (to_unsigned 4 z).
Definition i64_be (z : Z) : list N := be_enc 8 (to_unsigned 8 z).
Definition rd_i32 (b : list N) : Z := to_signed 4 (be_dec b).
Definition rd_i64 (b : list N) : Z := to_signed 8 (be_dec b).

Fixpoint chunks (fuel n : nat) (l : list N) : list (list N) :=
  match fuel with
  | O => []
  | S f => match l with [] => [] | _ => firstn n l :: chunks f n (skipn n l) end
  end.

Definition field_at (l : layout) (vs : list fval) (name : string) : option fval :=
  let fix go (l : layout) (vs : list fval) :=
    match l, vs with
    | (n, _) :: l', v :: vs' => if String.eqb n name then Some v else go l' vs'
    | _, _ => None
    end in go l vs.

Definition int_of (o : option fval) : Z := match o with Some (VInt z) => z | _ => 0%Z end.

Section Codec.
  Variable L : layouts.

  (* ---------- requests ---------- *)
  Definition write_request (r : request) : list N :=
    match r with
    | RConnect tid => be_enc 8 (L_protocol_id L) ++ i32_be 0 ++ i32_be tid
    | RAnnounce vs => enc_struct (L_announce_request L) vs
    | RScrape cid tid hashes => i64_be cid ++ i32_be 2 ++ i32_be tid ++ concat hashes
    end.

  Definition parse_request (bytes : list N) (max_scrape : nat) : presult request :=
    if (length bytes <? 12)%nat then PErr Unsendable       (* bytes.get(8..12) *)
    else
      let action := rd_i32 (firstn 4 (skipn 8 bytes)) in
      if Z.eqb action 0 then
        (* Cursor reads: i64, i32, i32 *)
        if (length bytes <? 16)%nat then PErr Unsendable
        else if N.eqb (be_dec (firstn 8 bytes)) (L_protocol_id L)
             then POk (RConnect (rd_i32 (firstn 4 (skipn 12 bytes))))
             else PErr Unsendable
      else if Z.eqb action 1 then
        match dec_prefix 4 (L_announce_request L) bytes with
        | None => PErr Unsendable
        | Some (vs, _rest) =>
            let port := int_of (field_at (L_announce_request L) vs "port") in
            if Z.eqb port 0
            then PErr (Sendable (int_of (field_at (L_announce_request L) vs "connection_id"))
                                (int_of (field_at (L_announce_request L) vs "transaction_id")) 1)
            else POk (RAnnounce vs)
        end
      else if Z.eqb action 2 then
        if (length bytes <? 16)%nat then PErr Unsendable
        else
          let cid := rd_i64 (firstn 8 bytes) in
          let tid := rd_i32 (firstn 4 (skipn 12 bytes)) in
          let rest := skipn 16 bytes in
          match rest with
          | [] => PErr (Sendable cid tid 2)
          | _ =>
              if negb (Nat.eqb (length rest mod 20) 0) then PErr (Sendable cid tid 3)
              else
                let hs := chunks (length rest) 20 rest in
                POk (RScrape cid tid (firstn (Nat.min max_scrape (length hs)) hs))
          end
      else PErr Unsendable.

  (* ---------- responses ---------- *)
  Inductive response :=
  | SConnect (fields : list fval)                       (* transaction_id, connection_id *)
  | SAnnounce (v6 : bool) (fixed : list fval) (peers : list (list fval))
  | SScrape (tid : Z) (stats : list (list fval))
  | SError (tid : Z) (message : list N).                (* UTF-8 bytes of the message *)

  Definition ipw (v6 : bool) : nat := if v6 then 16%nat else 4%nat.

  Definition write_response (r : response) : list N :=
    match r with
    | SConnect vs => i32_be 0 ++ enc_struct (L_connect_response L) vs
    | SAnnounce v6 fixed peers =>
        i32_be 1 ++ enc_struct (L_announce_fixed L) fixed ++ concat (map (enc_struct (L_peer L)) peers)
    | SScrape tid stats => i32_be 2 ++ i32_be tid ++ concat (map (enc_struct (L_scrape_stats L)) stats)
    | SError tid msg => i32_be 3 ++ i32_be tid ++ msg
    end.

  (* <[T]>::ref_from_bytes: the length must be a multiple of size_of::<T>() *)
  Definition dec_array (w : nat) (l : layout) (bytes : list N) : option (list (list fval)) :=
    let size := layout_size w l in
    if Nat.eqb size 0 then None
    else if negb (Nat.eqb (length bytes mod size) 0) then None
    else
      let fix go (cs : list (list N)) : option (list (list fval)) :=
        match cs with
        | [] => Some []
        | c :: t => match dec_prefix w l c, go t with
                    | Some (vs, _), Some r => Some (vs :: r)
                    | _, _ => None
                    end
        end in go (chunks (length bytes) size bytes).

  (* parse_bytes(bytes, ipv4); the error message is compared as raw bytes by the harness when it
     is valid UTF-8 (lossy decoding is the identity there) *)
  Definition parse_response (bytes : list N) (v6 : bool) : option response :=
    if (length bytes <? 4)%nat then None
    else
      let action := rd_i32 (firstn 4 bytes) in
      let body := skipn 4 bytes in
      if Z.eqb action 0 then
        (* read_from_bytes: exact size *)
        if Nat.eqb (length body) (layout_size 4 (L_connect_response L)) then
          match dec_prefix 4 (L_connect_response L) body with
          | Some (vs, _) => Some (SConnect vs)
          | None => None
          end
        else None
      else if Z.eqb action 1 then
        match dec_prefix 4 (L_announce_fixed L) body with
        | None => None
        | Some (fixed, rest) =>
            match dec_array (ipw v6) (L_peer L) rest with
            | Some peers => Some (SAnnounce v6 fixed peers)
            | None => None
            end
        end
      else if Z.eqb action 2 then
        if (length body <? 4)%nat then None
        else match dec_array 4 (L_scrape_stats L) (skipn 4 body) with
             | Some stats => Some (SScrape (rd_i32 (firstn 4 body)) stats)
             | None => None
             end
      else if Z.eqb action 3 then
        if (length body <? 4)%nat then None
        else Some (SError (rd_i32 (firstn 4 body)) (skipn 4 body))
      else None.
End Codec.
