(* Access list decisions (crates/common/src/access_list.rs, `AccessList::allows`).
   Info hashes are numbers < 2^160; the set is a list. *)
From Aquatic Require Export Outcome.

Inductive acl_mode := AclAllow | AclDeny | AclOff.

Definition mem (h : N) (l : list N) : bool := existsb (N.eqb h) l.

Definition allows (mode : acl_mode) (l : list N) (h : N) : bool :=
  match mode with
  | AclAllow => mem h l
  | AclDeny => negb (mem h l)
  | AclOff => true
  end.
