(* The watchdog at the end of run() in crates/{udp,http,ws}/src/lib.rs:

     loop {
         for (i, (_, handle)) in join_handles.iter().enumerate() {
             if handle.is_finished() {
                 let (worker_type, handle) = join_handles.remove(i);
                 match handle.join() {
                     Ok(Ok(()))   => return Err("<worker> stopped"),
                     Ok(Err(err)) => return Err(err.context("<worker> stopped")),
                     Err(_)       => return Err("<worker> panicked"),
                 }
             }
         }
         sleep(Duration::from_secs(PERIOD));
     }

   A worker thread is finished once its closure has returned or unwound.  Time is counted in
   milliseconds from the first scan; scan number n happens at n * period (the scan itself and
   thread scheduling are not modelled). *)
From Coq Require Export List NArith Bool Lia String.
Export ListNotations.
Local Open Scope N_scope.

Inductive wkind := WSocket | WSwarm | WCleaning | WStatistics | WSignals | WPrometheus.
Inductive tracker := TUdp | THttp | TWs.

(* how a worker thread ended *)
Inductive ending := ReturnedOk | ReturnedErr | Panicked.

(* a worker: its kind and, if it ever ends, when (ms) and how *)
Record worker := mkWorker { wk_kind : wkind; wk_end : option (N * ending) }.

Definition finished_at (now : N) (w : worker) : option ending :=
  match wk_end w with
  | Some (t, e) => if t <=? now then Some e else None
  | None => None
  end.

(* one pass over the join handles, in list order *)
Fixpoint scan (now : N) (ws : list worker) : option (wkind * ending) :=
  match ws with
  | [] => None
  | w :: t => match finished_at now w with
              | Some e => Some (wk_kind w, e)
              | None => scan now t
              end
  end.

(* run()'s return: every ending is mapped to an Err *)
Inductive run_result := RunErrStopped (k : wkind) | RunErrPanicked (k : wkind).
Definition to_result (x : wkind * ending) : run_result :=
  match snd x with
  | ReturnedOk | ReturnedErr => RunErrStopped (fst x)
  | Panicked => RunErrPanicked (fst x)
  end.

(* the loop, for at most [fuel] scans: when and what run() returns *)
Fixpoint watchdog (period : N) (ws : list worker) (n : N) (fuel : nat) : option (N * run_result) :=
  match fuel with
  | O => None
  | S f => match scan (n * period) ws with
           | Some x => Some (n * period, to_result x)
           | None => watchdog period ws (n + 1) f
           end
  end.

(* ---- correspondence (harness suite `watchdog`): one injected fault per case ---- *)
Inductive wd_obs :=
| WdObs (k : wkind) (panic : bool) (after : nat) (fired returned is_err named_as_expected : bool) (latency_ms : N) (text : string).

Definition wd_case : Type := tracker * nat * nat * bool * list wd_obs.

(* scheduling slack granted on top of the scan period *)
Definition slack_ms : N := 4000.

Definition wd_obs_ok (period_s : N) (o : wd_obs) : bool :=
  match o with
  | WdObs _ _ _ fired returned is_err _ latency _ =>
      if fired then returned && is_err && (latency <=? period_s * 1000 + slack_ms) else true
  end.
