(* C18: reply lengths against the fixed buffers.  Constants and the presence of the start-up
   validations are regenerated from the source (Gen/Consts.v). *)
From Aquatic Require Export HttpResp.
From Aquatic Require Import Consts Literals.
Local Open Scope N_scope.

(* ---- udp ---- *)
Definition udp_announce_len (v6 : bool) (n : N) : N := 20 + n * (if v6 then 18 else 6).
Definition udp_scrape_len (n : N) : N := 8 + 12 * n.
Definition udp_connect_len : N := 16.
Definition udp_error_len (msg_len : N) : N := 8 + msg_len.

(* what aquatic_udp::run accepts (transcribed; a validation that is not in the source any more
   makes the corresponding conjunct vacuous and the theorems unprovable) *)
Definition udp_accepted (max_response_peers : N) : Prop :=
  if udp_validates_max_response_peers then max_response_peers <= udp_MAX_RESPONSE_PEERS_LIMIT else True.
Definition uring_accepted (max_response_peers : N) : Prop :=
  udp_accepted max_response_peers
  /\ (if uring_validates_max_response_peers then max_response_peers <= uring_MAX_RESPONSE_PEERS_LIMIT else True).

(* how many info hashes a scrape datagram of at most [buf] payload bytes can carry *)
Definition udp_hashes_in (buf : N) : N := (buf - 16) / 20.

(* ---- http ---- *)
Definition http_accepted (max_peers : N) : Prop :=
  if http_validates_max_peers then max_peers <= http_MAX_PEERS_LIMIT else True.

Definition http_header_len : N :=
  N.of_nat (length http_RESPONSE_HEADER_A + length http_RESPONSE_HEADER_B + length http_RESPONSE_HEADER_C).

(* a scrape request line needs "info_hash=" (10 bytes), at least 20 bytes of value and a
   separator for every hash *)
Definition http_hashes_in (buf : N) : N := buf / 31.
