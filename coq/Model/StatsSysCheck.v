(* C20 at system level (harness suite `udp-stats`): the report the statistics worker of a running
   udp tracker writes, against the reference: torrents = torrents holding a peer, peers = stored
   entries, and for every client name the number of DISTINCT peer ids stored anywhere. *)
From Coq Require Export List NArith Bool String.
From Aquatic Require Import AccessListFile.
Export ListNotations.
Local Open Scope N_scope.

Definition stats_phase : Type := list (N * N * bool) * N * N * list (string * N).
Definition stats_case : Type := list string * list stats_phase.

Definition pair_eq (a b : N * N) : bool := N.eqb (fst a) (fst b) && N.eqb (snd a) (snd b).

Definition apply_op (st : list (N * N)) (op : N * N * bool) : list (N * N) :=
  let '(t, pi, stop) := op in
  let rest := filter (fun e => negb (pair_eq e (t, pi))) st in
  if stop then rest else (t, pi) :: rest.

Fixpoint dedup (l : list N) : list N :=
  match l with [] => [] | x :: t => x :: filter (fun y => negb (N.eqb y x)) (dedup t) end.

Definition expected_rows (names : list string) (st : list (N * N)) : list (string * N) :=
  let ids := dedup (map snd st) in
  let name_of := fun pi => nth (N.to_nat pi) names ""%string in
  let all_names := names in
  let fix uniq (l : list string) : list string :=
    match l with [] => [] | x :: t => x :: filter (fun y => negb (String.eqb y x)) (uniq t) end in
  filter (fun r => negb (N.eqb (snd r) 0))
         (map (fun nm => (nm, N.of_nat (length (filter (fun pi => String.eqb (name_of pi) nm) ids)))) (uniq all_names)).

Definition rows_eqb (a b : list (string * N)) : bool :=
  Nat.eqb (length a) (length b)
  && forallb (fun r => existsb (fun r' => String.eqb (fst r) (fst r') && N.eqb (snd r) (snd r')) b) a.

Definition hexname (s : string) : string := s.

Definition stats_code (c : stats_case) : N :=
  let '(names_hex, phases) := c in
  let names := names_hex in
  let fix go (i : N) (st : list (N * N)) (l : list stats_phase) : N :=
    match l with
    | [] => 0
    | (ops, torrents, peers, rows) :: t =>
        let st' := fold_left apply_op ops st in
        let exp_t := N.of_nat (length (dedup (map fst st'))) in
        let exp_p := N.of_nat (length st') in
        if N.eqb torrents exp_t && N.eqb peers exp_p && rows_eqb (expected_rows names st') rows
        then go (N.succ i) st' t else N.succ i
    end in
  go 0 [] phases * 4
  + (if existsb (fun ph => existsb (fun op => snd op) (fst (fst (fst ph)))) phases then 3 else 1).
