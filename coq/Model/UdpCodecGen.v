(* The udp codec instantiated with the layouts and constants regenerated from the Rust source,
   and the correspondence check of the harness suite `udp-codec`. *)
From Aquatic Require Export UdpCodec Layouts Consts AccessListFile.
Local Open Scope N_scope.

Definition gen_layouts : layouts :=
  mkLayouts layout_AnnounceRequest layout_ConnectResponse layout_AnnounceResponseFixedData
            layout_TorrentScrapeStatistics layout_ResponsePeer udp_PROTOCOL_IDENTIFIER.

Definition fval_eqb (a b : fval) : bool :=
  match a, b with
  | VInt x, VInt y => Z.eqb x y
  | VBytes x, VBytes y => bytes_eqb x y
  | _, _ => false
  end.

Fixpoint leqb {A} (eqb : A -> A -> bool) (a b : list A) : bool :=
  match a, b with
  | [], [] => true
  | x :: a', y :: b' => eqb x y && leqb eqb a' b'
  | _, _ => false
  end.

Definition request_eqb (a b : request) : bool :=
  match a, b with
  | RConnect x, RConnect y => Z.eqb x y
  | RAnnounce x, RAnnounce y => leqb fval_eqb x y
  | RScrape c t h, RScrape c' t' h' => Z.eqb c c' && Z.eqb t t' && leqb bytes_eqb h h'
  | _, _ => false
  end.

Definition response_eqb (a b : response) : bool :=
  match a, b with
  | SConnect x, SConnect y => leqb fval_eqb x y
  | SAnnounce f x p, SAnnounce f' x' p' => Bool.eqb f f' && leqb fval_eqb x x' && leqb (leqb fval_eqb) p p'
  | SScrape t s, SScrape t' s' => Z.eqb t t' && leqb (leqb fval_eqb) s s'
  | SError t m, SError t' m' => Z.eqb t t' && bytes_eqb m m'
  | _, _ => false
  end.

(* what the implementation did with a request datagram *)
Inductive ireq :=
| IReqOk (r : request) (rewritten : string)     (* parsed value and its write_bytes *)
| IReqSendable (cid tid : Z) (kind : N)
| IReqUnsendable.

Inductive iresp :=
| IRespOk (r : response) (rewritten : string)
| IRespErr.

Inductive codec_case :=
| CReq (bytes : string) (max_scrape : nat) (impl : ireq)
| CResp (bytes : string) (v6 : bool) (impl : iresp).

Definition codec_case_ok (LY : layouts) (c : codec_case) : bool :=
  match c with
  | CReq hex max impl =>
      match parse_request LY (bytes_of_hex hex) max, impl with
      | POk r, IReqOk r' w => request_eqb r r' && bytes_eqb (write_request LY r) (bytes_of_hex w)
      | PErr (Sendable c t k), IReqSendable c' t' k' => Z.eqb c c' && Z.eqb t t' && N.eqb k k'
      | PErr Unsendable, IReqUnsendable => true
      | _, _ => false
      end
  | CResp hex v6 impl =>
      match parse_response LY (bytes_of_hex hex) v6, impl with
      | Some r, IRespOk r' w => response_eqb r r' && bytes_eqb (write_response LY r) (bytes_of_hex w)
      | None, IRespErr => true
      | _, _ => false
      end
  end.

Definition case_accepting (c : codec_case) : bool :=
  match c with CReq _ _ (IReqOk _ _) | CResp _ _ (IRespOk _ _) => true | _ => false end.

Definition udp_codec_code_for (LY : layouts) (c : bool * list codec_case) : N :=
  let '(_, cs) := c in
  let fix go (i : N) (l : list codec_case) : N :=
    match l with
    | [] => 0
    | x :: t => if codec_case_ok LY x then go (N.succ i) t else N.succ i
    end in
  (go 0 cs * 4 + (if existsb case_accepting cs && existsb (fun x => negb (case_accepting x)) cs then 3 else 1))%N.

(* against the layouts regenerated from the source: model-vs-code correspondence *)
Definition udp_codec_code := udp_codec_code_for gen_layouts.
