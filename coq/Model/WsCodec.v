(* Executable model of the WebTorrent JSON codec at tree level
   (crates/ws_protocol/src/{common,incoming/*,outgoing/*}.rs): 20-byte identifiers as strings of
   20 characters U+0000..U+00FF, and the serde-derive shape of every message (renames,
   skip_serializing_if, Option fields accepting missing and null, unknown fields ignored, untagged
   enums tried in declaration order).  The text layer (serde_json's printer, simd-json's
   tokenizer) is not modelled: the correspondence bridges it with serde_json::Value. *)
From Coq Require Import String Ascii.
From Aquatic Require Export Outcome Bytes.
Local Open Scope N_scope.

Inductive jv :=
| JNull
| JBool (b : bool)
| JNum (n : N)
| JStr (s : list N)                (* Unicode scalar values *)
| JArr (l : list jv)
| JObj (fields : list (string * jv)).

(* ---- identifiers ---- *)
Definition enc20 (bytes : list N) : list N := bytes.   (* char::from(byte): the code point IS the byte *)

(* TwentyByteVisitor::visit_str: exactly 20 characters, each <= U+00FF *)
Fixpoint take_bytes (n : nat) (s : list N) : option (list N * list N) :=
  match n with
  | O => Some ([], s)
  | S n' =>
      match s with
      | [] => None
      | c :: t => if 255 <? c then None
                  else match take_bytes n' t with Some (bs, r) => Some (c :: bs, r) | None => None end
      end
  end.

Definition dec20 (s : list N) : option (list N) :=
  match take_bytes 20 s with
  | Some (bs, []) => Some bs
  | _ => None                        (* too short, a character above U+00FF, or leftover characters *)
  end.

Local Open Scope string_scope.

(* ---- messages ---- *)
Inductive wevent := WEvStarted | WEvStopped | WEvCompleted | WEvUpdate.

Record woffer := mkWoffer { wo_sdp : list N; wo_id : list N }.

Record wannounce := mkWann {
  wa_info_hash : list N; wa_peer_id : list N; wa_left : option N; wa_event : option wevent;
  wa_offers : option (list woffer); wa_numwant : option N;
  wa_answer : option (list N); wa_to_peer_id : option (list N); wa_offer_id : option (list N)
}.

Inductive whashes := WSingle (h : list N) | WMultiple (hs : list (list N)).

Inductive inmsg :=
| InAnnounce (a : wannounce)
| InScrape (hashes : option whashes).

Inductive erraction := ErrAnnounce | ErrScrape.

Inductive outmsg :=
| OutOffer (peer_id info_hash : list N) (sdp : list N) (offer_id : list N)
| OutAnswer (peer_id info_hash : list N) (sdp : list N) (offer_id : list N)
| OutAnnounce (info_hash : list N) (complete incomplete interval : N)
| OutScrape (files : list (list N * (N * N * N)))          (* complete, incomplete, downloaded *)
| OutError (reason : list N) (action : option erraction) (info_hash : option (list N)).

Definition jstr (s : string) : jv := JStr (map (fun c => N_of_ascii c) (list_ascii_of_string s)).
Definition opt_json {A} (f : A -> jv) (o : option A) : jv := match o with Some a => f a | None => JNull end.
Definition jid (b : list N) : jv := JStr (enc20 b).

Definition event_str (e : wevent) : string :=
  match e with WEvStarted => "started" | WEvStopped => "stopped" | WEvCompleted => "completed" | WEvUpdate => "update" end.

Definition offer_json (o : woffer) : jv :=
  JObj [("offer", JObj [("type", jstr "offer"); ("sdp", JStr (wo_sdp o))]); ("offer_id", jid (wo_id o))].

Definition announce_json (a : wannounce) : jv :=
  JObj ([("action", jstr "announce"); ("info_hash", jid (wa_info_hash a)); ("peer_id", jid (wa_peer_id a));
         ("left", opt_json JNum (wa_left a))]
        ++ match wa_event a with Some e => [("event", jstr (event_str e))] | None => [] end
        ++ [("offers", opt_json (fun os => JArr (map offer_json os)) (wa_offers a));
            ("numwant", opt_json JNum (wa_numwant a));
            ("answer", opt_json (fun s => JObj [("type", jstr "answer"); ("sdp", JStr s)]) (wa_answer a));
            ("to_peer_id", opt_json jid (wa_to_peer_id a));
            ("offer_id", opt_json jid (wa_offer_id a))]).

Definition hashes_json (h : whashes) : jv :=
  match h with WSingle x => jid x | WMultiple hs => JArr (map jid hs) end.

Definition in_json (m : inmsg) : jv :=
  match m with
  | InAnnounce a => announce_json a
  | InScrape hs => JObj [("action", jstr "scrape"); ("info_hash", opt_json hashes_json hs)]
  end.

Definition out_json (m : outmsg) : jv :=
  match m with
  | OutOffer pid ih sdp oid =>
      JObj [("action", jstr "announce"); ("peer_id", jid pid); ("info_hash", jid ih);
            ("offer", JObj [("type", jstr "offer"); ("sdp", JStr sdp)]); ("offer_id", jid oid)]
  | OutAnswer pid ih sdp oid =>
      JObj [("action", jstr "announce"); ("peer_id", jid pid); ("info_hash", jid ih);
            ("answer", JObj [("type", jstr "answer"); ("sdp", JStr sdp)]); ("offer_id", jid oid)]
  | OutAnnounce ih c i iv =>
      JObj [("action", jstr "announce"); ("info_hash", jid ih); ("complete", JNum c); ("incomplete", JNum i); ("interval", JNum iv)]
  | OutScrape files =>
      JObj [("action", jstr "scrape");
            ("files", JObj (map (fun f => (string_of_list_ascii (map (fun b => ascii_of_N b) (fst f)),     (* keys: see jobj_idkey below *)
                                          JObj [("complete", JNum (fst (fst (snd f)))); ("incomplete", JNum (snd (fst (snd f))));
                                                ("downloaded", JNum (snd (snd f)))])) files))]
  | OutError reason action ih =>
      JObj ([("failure reason", JStr reason)]
            ++ match action with Some ErrAnnounce => [("action", jstr "announce")] | Some ErrScrape => [("action", jstr "scrape")] | None => [] end
            ++ match ih with Some h => [("info_hash", jid h)] | None => [] end)
  end.

(* ---- deserialisation (serde derive) ---- *)
Fixpoint jget (k : string) (fs : list (string * jv)) : option jv :=
  match fs with
  | [] => None
  | (k', v) :: t => if String.eqb k' k then Some v else jget k t
  end.

Definition str_is (v : jv) (s : string) : bool :=
  match v, jstr s with JStr a, JStr b => bytes_eqb a b | _, _ => false end.

Definition get_id (v : jv) : option (list N) := match v with JStr s => dec20 s | _ => None end.

(* Option<T> field: missing or null -> None *)
Definition opt_field {A} (f : jv -> option A) (o : option jv) : option (option A) :=
  match o with
  | None | Some JNull => Some None
  | Some v => match f v with Some a => Some (Some a) | None => None end
  end.

Definition usize_max : N := 18446744073709551615.
Definition get_num (v : jv) : option N := match v with JNum n => if (n <=? usize_max)%N then Some n else None | _ => None end.
Definition get_str (v : jv) : option (list N) := match v with JStr s => Some s | _ => None end.

Definition get_event (v : jv) : option wevent :=
  if str_is v "started" then Some WEvStarted else if str_is v "stopped" then Some WEvStopped
  else if str_is v "completed" then Some WEvCompleted else if str_is v "update" then Some WEvUpdate else None.

(* {"type": <tag>, "sdp": string} *)
Definition get_rtc (tag : string) (v : jv) : option (list N) :=
  match v with
  | JObj fs =>
      match jget "type" fs, jget "sdp" fs with
      | Some t, Some (JStr s) => if str_is t tag then Some s else None
      | _, _ => None
      end
  | _ => None
  end.

Definition get_offer (v : jv) : option woffer :=
  match v with
  | JObj fs =>
      match jget "offer" fs, jget "offer_id" fs with
      | Some o, Some i =>
          match get_rtc "offer" o, get_id i with
          | Some sdp, Some id => Some (mkWoffer sdp id)
          | _, _ => None
          end
      | _, _ => None
      end
  | _ => None
  end.

Fixpoint all_some {A B} (f : A -> option B) (l : list A) : option (list B) :=
  match l with
  | [] => Some []
  | x :: t => match f x, all_some f t with Some y, Some r => Some (y :: r) | _, _ => None end
  end.

Definition get_offers (v : jv) : option (list woffer) :=
  match v with JArr l => all_some get_offer l | _ => None end.

Definition of_announce (v : jv) : option wannounce :=
  match v with
  | JObj fs =>
      match jget "action" fs, jget "info_hash" fs, jget "peer_id" fs with
      | Some act, Some ih, Some pid =>
          if negb (str_is act "announce") then None else
          match get_id ih, get_id pid,
                opt_field get_num (jget "left" fs), opt_field get_event (jget "event" fs),
                opt_field get_offers (jget "offers" fs), opt_field get_num (jget "numwant" fs),
                opt_field (get_rtc "answer") (jget "answer" fs),
                opt_field get_id (jget "to_peer_id" fs), opt_field get_id (jget "offer_id" fs) with
          | Some ih', Some pid', Some l, Some e, Some o, Some n, Some a, Some t, Some oi =>
              Some (mkWann ih' pid' l e o n a t oi)
          | _, _, _, _, _, _, _, _, _ => None
          end
      | _, _, _ => None
      end
  | _ => None
  end.

(* untagged ScrapeRequestInfoHashes: Single, then Multiple *)
Definition get_hashes (v : jv) : option whashes :=
  match get_id v with
  | Some h => Some (WSingle h)
  | None => match v with JArr l => option_map WMultiple (all_some get_id l) | _ => None end
  end.

Definition of_scrape (v : jv) : option (option whashes) :=
  match v with
  | JObj fs =>
      match jget "action" fs with
      | Some act => if str_is act "scrape" then opt_field get_hashes (jget "info_hash" fs) else None
      | None => None
      end
  | _ => None
  end.

(* untagged InMessage: AnnounceRequest, then ScrapeRequest *)
Definition of_in_json (v : jv) : option inmsg :=
  match of_announce v with
  | Some a => Some (InAnnounce a)
  | None => option_map InScrape (of_scrape v)
  end.
