(* Byte-exact model of the http reply writers (crates/http_protocol/src/response.rs:
   `AnnounceResponse::write_bytes`, `ScrapeResponse::write_bytes`, `FailureResponse::write_bytes`)
   and of the response framing of crates/http/src/workers/socket/connection.rs `write_response`. *)
From Coq Require Import String Ascii.
From Aquatic Require Export Outcome Bytes.
Local Open Scope N_scope.

(* ASCII bytes of a literal *)
Fixpoint str (s : string) : list N :=
  match s with
  | EmptyString => []
  | String c t => N_of_ascii c :: str t
  end.

(* itoa: decimal digits; 20 digits suffice for every u64 / usize *)
Fixpoint itoa_f (fuel : nat) (n : N) : list N :=
  match fuel with
  | O => []
  | S f => if n <? 10 then [48 + n] else itoa_f f (n / 10) ++ [48 + n mod 10]
  end.
Definition itoa (n : N) : list N := itoa_f 20 n.

(* a peer entry: ip octets (4 or 16, big endian as u32/u128::to_be_bytes) ++ port big endian *)
Definition peer_bytes (p : list N * N) : list N := fst p ++ be_enc 2 (snd p).

Definition write_announce (complete incomplete interval : N) (peers4 peers6 : list (list N * N))
           (warning : option (list N)) : list N :=
  str "d8:completei" ++ itoa complete
  ++ str "e10:incompletei" ++ itoa incomplete
  ++ str "e8:intervali" ++ itoa interval
  ++ str "e5:peers" ++ itoa (N.of_nat (length peers4) * 6) ++ str ":" ++ concat (map peer_bytes peers4)
  ++ str "6:peers6" ++ itoa (N.of_nat (length peers6) * 18) ++ str ":" ++ concat (map peer_bytes peers6)
  ++ match warning with
     | Some w => str "15:warning message" ++ itoa (N.of_nat (length w)) ++ str ":" ++ w
     | None => []
     end
  ++ str "e".

(* files in the BTreeMap's order (ascending info hash bytes): the caller passes them sorted *)
Definition write_scrape_entry (f : list N * (N * N)) : list N :=
  str "20:" ++ fst f ++ str "d8:completei" ++ itoa (fst (snd f))
  ++ str "e10:downloadedi0e10:incompletei" ++ itoa (snd (snd f)) ++ str "ee".

Definition write_scrape (files : list (list N * (N * N))) : list N :=
  str "d5:filesd" ++ concat (map write_scrape_entry files) ++ str "ee".

Definition write_failure (reason : list N) : list N :=
  str "d14:failure reason" ++ itoa (N.of_nat (length reason)) ++ str ":" ++ reason ++ str "e".

(* ---- framing (connection.rs write_response) over a buffer with arbitrary previous content ----
   header = A ++ B ++ C (regenerated literals); the body is written behind it with
   `Write for &mut [u8]`, i.e. truncated at the end of the buffer; then CRLF; then the 8 header
   bytes are blanked and the decimal Content-Length written over them. *)
Section Framing.
  Variables (HA HB HC : list N) (buf_size : nat).

  Definition header_len : nat := (length HA + length HB + length HC)%nat.

  Inductive frame_result := Framed (bytes : list N) | ResponseBufferFull.

  Definition frame_response (body : list N) : frame_result :=
    let cap := (buf_size - header_len)%nat in
    let written := Nat.min (length body) cap in          (* short writes into the slice *)
    let position := (header_len + written)%nat in
    if (buf_size <? position + 2)%nat then ResponseBufferFull
    else
      let content_len := itoa (N.of_nat (written + 2)%nat) in
      let value := content_len ++ skipn (length content_len) HB in   (* digits over the blanks *)
      Framed (HA ++ value ++ HC ++ firstn written body ++ [13; 10]).
End Framing.
