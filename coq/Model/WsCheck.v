(* Correspondence checker for the ws swarm storage. *)
From Aquatic Require Export WsSwarm UdpCheck.

Definition nn_eqb (a b : N * (nat * nat)) : bool :=
  N.eqb (fst a) (fst b) && Nat.eqb (fst (snd a)) (fst (snd b)) && Nat.eqb (snd (snd a)) (snd (snd b)).

Definition wout_eqb (a b : wout) : bool :=
  match a, b with
  | WOffer c k h p o s, WOffer c' k' h' p' o' s' =>
      N.eqb c c' && N.eqb k k' && N.eqb h h' && N.eqb p p' && N.eqb o o' && N.eqb s s'
  | WAnswer c k h p o s, WAnswer c' k' h' p' o' s' =>
      N.eqb c c' && N.eqb k k' && N.eqb h h' && N.eqb p p' && N.eqb o o' && N.eqb s s'
  | WError c k h, WError c' k' h' => N.eqb c c' && N.eqb k k' && N.eqb h h'
  | WAnnounce c k h a b, WAnnounce c' k' h' a' b' =>
      N.eqb c c' && N.eqb k k' && N.eqb h h' && Nat.eqb a a' && Nat.eqb b b'
  | WScrape c k f, WScrape c' k' f' => N.eqb c c' && N.eqb k k' && perm_eqb nn_eqb f f'
  | _, _ => false
  end.

Definition wcheck_op (strict : bool) (cfg : wcfg) (s : wstate) (op : wop) (impl : list wout) : option wstate :=
  match ws_step_gen strict cfg s op with
  | Ok (s', outs) =>
      if list_eqb wout_eqb outs impl then Some s'
      else
        match op with
        | WOpAnnounce rq now _ _ =>
            let n := S (length (wt_peers (wm_get (q_hash rq) (wfam s (q_v6 rq))))) in
            let cands := seq 0 n in
            (* the state after the step depends on the offsets (who is expected to answer):
               take the state of the first offset pair that reproduces the messages *)
            let fix find (ps : list (nat * nat)) : option wstate :=
              match ps with
              | [] => None
              | (a, b) :: t =>
                  match ws_step_gen strict cfg s (WOpAnnounce rq now a b) with
                  | Ok (s2, outs2) => if list_eqb wout_eqb outs2 impl then Some s2 else find t
                  | Panic => find t
                  end
              end in
            find (flat_map (fun a => map (fun b => (a, b)) cands) cands)
        | _ => None
        end
  | Panic => None
  end.

Definition has_offer (l : list wout) : bool := existsb (fun o => match o with WOffer _ _ _ _ _ _ => true | _ => false end) l.
Definition has_answer (l : list wout) : bool := existsb (fun o => match o with WAnswer _ _ _ _ _ _ => true | _ => false end) l.

Fixpoint wcheck_history (strict : bool) (cfg : wcfg) (s : wstate) (i : N) (off ans : bool) (h : list (wop * list wout)) : option N * bool * bool :=
  match h with
  | [] => (None, off, ans)
  | (op, impl) :: t =>
      match wcheck_op strict cfg s op impl with
      | None => (Some i, off, ans)
      | Some s' => wcheck_history strict cfg s' (N.succ i) (off || has_offer impl) (ans || has_answer impl) t
      end
  end.

(* code: bit 0 = an offer was forwarded, bit 1 = an answer was forwarded *)
Definition ws_code_gen (strict : bool) (c : nat * nat * N * N * list (wop * list wout)) : N :=
  let '(max_offers, max_scrape, peer_age, offer_age, h) := c in
  let '(f, off, ans) := wcheck_history strict (mkWcfg max_offers max_scrape peer_age offer_age) winit 0%N false false h in
  (match f with None => 0 | Some i => N.succ i end * 4 + (if off then 1 else 0) + (if ans then 2 else 0))%N.

Definition ws_code := ws_code_gen false.
(* property monitor: the trace judged against the intended (strict-ownership) semantics *)
Definition ws_mon := ws_code_gen true.

(* known-finding class present in a history: an announce uses a stored peer id from a connection
   of ANOTHER socket worker whose connection id coincides with the owner's *)
Fixpoint ws_collision (cfg : wcfg) (s : wstate) (h : list (wop * list wout)) : bool :=
  match h with
  | [] => false
  | (op, impl) :: t =>
      let here :=
        match op with
        | WOpAnnounce rq _ _ _ =>
            match aget N.eqb (q_pid rq) (wt_peers (wm_get (q_hash rq) (wfam s (q_v6 rq)))) with
            | Some p => N.eqb (q_conn rq) (w_conn p) && negb (N.eqb (q_consumer rq) (w_consumer p))
            | None => false
            end
        | _ => false
        end in
      here || match wcheck_op false cfg s op impl with Some s' => ws_collision cfg s' t | None => false end
  end.

Definition ws_class_code (c : nat * nat * N * N * list (wop * list wout)) : N :=
  let '(max_offers, max_scrape, peer_age, offer_age, h) := c in
  ((if ws_collision (mkWcfg max_offers max_scrape peer_age offer_age) winit h then 1 else 0) * 4)%N.
