(* Correspondence of the interleaving model with the real shared TorrentMaps driven by the
   probe scheduler (harness suite `udp-conc`), and the linearizability monitor. *)
From Aquatic Require Export UdpConcurrent Consts.
Local Open Scope N_scope.

Definition conc_case : Type := list cop * list nat * nat * list (list event).

Fixpoint perm_n (a b : list N) : bool :=
  match a with
  | [] => match b with [] => true | _ => false end
  | x :: a' =>
      (fix rm (l acc : list N) : bool :=
         match l with
         | [] => false
         | y :: l' => if N.eqb x y then perm_n a' (rev_append acc l') else rm l' (y :: acc)
         end) b []
  end.

Definition event_eqb (a b : event) : bool :=
  match a, b with
  | EAnnounce s l p, EAnnounce s' l' p' => Nat.eqb s s' && Nat.eqb l l' && perm_n p p'
  | EScrape s l, EScrape s' l' => Nat.eqb s s' && Nat.eqb l l'
  | EScrapeEnd, EScrapeEnd => true
  | ECleaned s l, ECleaned s' l' => Nat.eqb s s' && Nat.eqb l l'
  | _, _ => false
  end.

Fixpoint events_eqb (a b : list event) : bool :=
  match a, b with
  | [], [] => true
  | x :: a', y :: b' => event_eqb x y && events_eqb a' b'
  | _, _ => false
  end.

(* what thread [t] can observe: its replies (the per-torrent results of cleaning are internal) *)
Definition of_thread (t : nat) (evs : list (nat * event)) : list event :=
  map snd (filter (fun e => Nat.eqb (fst e) t && match snd e with ECleaned _ _ => false | _ => true end) evs).

Definition all_done (s : cstate) : bool := forallb (fun t => match t_code t with [] => true | _ => false end) (cs_threads s).

Definition matches_observed (n : nat) (evs : list (nat * event)) (obs : list (list event)) : bool :=
  forallb (fun t => events_eqb (of_thread t evs) (nth t obs [])) (seq 0 n).

Definition cap_now : nat := N.to_nat udp_small_cap.

(* faithful: the schedule the harness really ran, segment by segment *)
Definition conc_code (c : conc_case) : N :=
  let '(ops, sched, prefix, obs) := c in
  let ok := match run_segments cap_now udp_clean_keeps_shared_arc (cinit ops) sched with
            | Panic => false
            | Ok (s, evs) => all_done s && matches_observed (length ops) evs obs
            end in
  (if ok then 0 else 1) * 4
  + (if existsb (fun o => match o with OCl _ _ => true | _ => false end) (skipn prefix ops)
        && existsb (fun o => match o with OAnn _ _ => true | _ => false end) (skipn prefix ops) then 3 else 1).

(* ---- the property: the observed replies are those of SOME sequential order of the
   operations (prefix first, in order; the final scrape last) ---- *)
Fixpoint insert_all {A} (x : A) (l : list A) : list (list A) :=
  match l with
  | [] => [[x]]
  | y :: t => (x :: l) :: map (cons y) (insert_all x t)
  end.
Fixpoint perms {A} (l : list A) : list (list A) :=
  match l with
  | [] => [[]]
  | x :: t => concat (map (insert_all x) (perms t))
  end.

Definition seq_schedule (order : list nat) : list nat := concat (map (fun t => repeat t 12) order).

Definition lin_code (c : conc_case) : N :=
  let '(ops, _, prefix, obs) := c in
  let n := length ops in
  let middle := seq prefix (n - prefix - 1) in
  let orders := map (fun m => seq 0 prefix ++ m ++ [(n - 1)%nat]) (perms middle) in
  let ok := existsb (fun order =>
              match run_segments cap_now true (cinit ops) (seq_schedule order) with
              | Panic => false
              | Ok (s, evs) => all_done s && matches_observed n evs obs
              end) orders in
  (if ok then 0 else 1) * 4 + 3.
