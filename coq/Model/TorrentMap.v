(* Torrent maps (info hash -> peer map) as association lists; shared by the udp and http
   swarm models.  `tm_get` of an absent torrent is the empty inline map, which is what
   `entry().or_default()` creates and what the reference tracker cannot tell from absence. *)
From Aquatic Require Export PeerMap.

Definition tmap := list (N * pmap).

Definition tm_find (h : N) (tm : tmap) : option pmap :=
  option_map snd (find (fun e => N.eqb (fst e) h) tm).

Definition tm_get (h : N) (tm : tmap) : pmap :=
  match tm_find h tm with Some pm => pm | None => Small [] end.

Fixpoint tm_set (h : N) (pm : pmap) (tm : tmap) : tmap :=
  match tm with
  | [] => [(h, pm)]
  | (h', pm') :: t => if N.eqb h' h then (h', pm) :: t else (h', pm') :: tm_set h pm t
  end.

