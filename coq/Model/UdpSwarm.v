(* Executable sequential model of aquatic_udp's swarm state (crates/udp/src/swarm.rs:
   `TorrentMaps`, `TorrentMapShards::{announce,scrape,clean_and_get_statistics}`).
   The 16 shards and their hashbrown maps collapse into one association list per address
   family (sequentially the shard function is unobservable; the order of the list only shows
   in the order of export lines and statistics messages, which the correspondence compares
   as multisets).  Concurrency is the subject of Model/UdpConcurrent.v (C04). *)
From Aquatic Require Export PeerMap AccessList TorrentMap.

Record ustate := mkU { u4 : tmap; u6 : tmap }.
Definition uinit : ustate := mkU [] [].
Definition ufam (s : ustate) (v6 : bool) : tmap := if v6 then u6 s else u4 s.
Definition uset (s : ustate) (v6 : bool) (tm : tmap) : ustate :=
  if v6 then mkU (u4 s) tm else mkU tm (u6 s).

Record ucfg := mkUcfg {
  c_cap : nat;            (* SMALL_PEER_MAP_CAPACITY *)
  c_max_resp : nat;       (* protocol.max_response_peers *)
  c_peer_clients : bool   (* statistics.peer_clients *)
}.

(* AnnounceEvent on the wire: 0 none, 1 completed, 2 started, 3 stopped *)
Definition ev_stopped : N := 3.

(* PeerStatus::from_event_and_bytes_left; bytes_left is a signed 64-bit number *)
Definition status_of (ev : N) (bleft : Z) : status :=
  if N.eqb ev ev_stopped then Stopped
  else if Z.eqb bleft 0 then Seeding else Leeching.

Inductive uop :=
| UAnnounce (v6 : bool) (hash key : N) (ev : N) (bleft : Z) (pid until : N) (want : Z) (o1 o2 : nat)
| UScrape (v6 : bool) (hashes : list N)
| UClean (now : N) (mode : acl_mode) (acl : list N).

Inductive uout :=
| OAnnounce (seeders leechers : Z) (peers : list N) (msgs : list statmsg)
| OScrape (stats : list (Z * Z))
| OClean (t4 p4 t6 p6 : nat) (msgs : list statmsg) (lines : list (bool * N * nat * nat)).

Definition u_announce (cfg : ucfg) (s : ustate) v6 hash key ev bleft pid until want o1 o2
  : outcome (ustate * uout) :=
  let tm := ufam s v6 in
  let st := status_of ev bleft in
  let take := limit_udp want (c_max_resp cfg) in
  let! (pm', rep, removed) := pm_announce (c_cap cfg) (tm_get hash tm) key st pid until take o1 o2 in
  Ok (uset s v6 (tm_set hash pm' tm),
      OAnnounce (clamp_i32 (r_seeders rep)) (clamp_i32 (r_leechers rep)) (r_peers rep)
                (announce_msgs (c_peer_clients cfg) st pid removed)).

Fixpoint u_scrape (tm : tmap) (hashes : list N) : outcome (list (Z * Z)) :=
  match hashes with
  | [] => Ok []
  | h :: t =>
      let! (s, l) := (match tm_find h tm with Some pm => pm_counts pm | None => Ok (0, 0) end) in
      let! rest := u_scrape tm t in
      Ok ((clamp_i32 s, clamp_i32 l) :: rest)
  end.

(* phase 1 of clean_and_get_statistics: clean every peer map, count, export *)
Fixpoint clean_phase1 (cfg : ucfg) (v6 : bool) (now : N) (tm : tmap)
  : outcome (tmap * nat * list statmsg * list (bool * N * nat * nat)) :=
  match tm with
  | [] => Ok ([], 0, [], [])
  | (h, pm) :: t =>
      let! (pm', (s, l), msgs) := pm_clean (c_cap cfg) true (c_peer_clients cfg) pm now in
      let! (t', total, msgs', lines) := clean_phase1 cfg v6 now t in
      let n := s + l in
      Ok ((h, pm') :: t', n + total, msgs ++ msgs',
          if n =? 0 then lines else (v6, h, s, l) :: lines)
  end.

(* phase 2: drop forbidden torrents and (sequentially: Arc::get_mut always succeeds) empty ones *)
Definition clean_phase2 (mode : acl_mode) (acl : list N) (tm : tmap) : tmap :=
  filter (fun e => allows mode acl (fst e) && negb (pm_is_empty (snd e))) tm.

Definition u_clean_fam (cfg : ucfg) v6 now mode acl (tm : tmap)
  : outcome (tmap * (nat * nat) * list statmsg * list (bool * N * nat * nat)) :=
  let! (tm1, peers, msgs, lines) := clean_phase1 cfg v6 now tm in
  let tm2 := clean_phase2 mode acl tm1 in
  Ok (tm2, (length tm2, peers), msgs, lines).

Definition u_clean (cfg : ucfg) (s : ustate) now mode acl : outcome (ustate * uout) :=
  let! (tm4, (t4, p4), m4, l4) := u_clean_fam cfg false now mode acl (u4 s) in
  let! (tm6, (t6, p6), m6, l6) := u_clean_fam cfg true now mode acl (u6 s) in
  Ok (mkU tm4 tm6, OClean t4 p4 t6 p6 (m4 ++ m6) (l4 ++ l6)).

Definition u_step (cfg : ucfg) (s : ustate) (op : uop) : outcome (ustate * uout) :=
  match op with
  | UAnnounce v6 hash key ev bleft pid until want o1 o2 =>
      u_announce cfg s v6 hash key ev bleft pid until want o1 o2
  | UScrape v6 hashes =>
      let! stats := u_scrape (ufam s v6) hashes in Ok (s, OScrape stats)
  | UClean now mode acl => u_clean cfg s now mode acl
  end.

Fixpoint u_run (cfg : ucfg) (s : ustate) (ops : list uop) : outcome (ustate * list uout) :=
  match ops with
  | [] => Ok (s, [])
  | op :: t =>
      let! (s', out) := u_step cfg s op in
      let! (s'', outs) := u_run cfg s' t in
      Ok (s'', out :: outs)
  end.
