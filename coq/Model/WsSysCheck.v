(* Correspondence of the routing model with a RUNNING WebTorrent tracker (harness suite `ws-sys`):
   after every client action, what EVERY client connection received must be what the model
   delivers to it - nothing to anybody else, nothing missing. *)
From Aquatic Require Export WsRouting WsCheck Consts.
Local Open Scope N_scope.

(* [WSysBurst]: several messages written to the connection back to back (pipelined) before anything
   is read; the model processes them in order, the replies are compared per connection as MULTISETS
   (parts from different swarm workers may overtake each other) *)
Inductive wsys_step_obs :=
| WSysStep (who : N * N) (a : caction) (observed : list dmsg)
| WSysBurst (who : N * N) (acts : list caction) (observed : list dmsg)
(* the access list file was rewritten to [acl] (unreadable when [ok] = false) and the process got
   SIGUSR1: a failed reload keeps the previous list *)
| WSysReload (acl : list N) (ok : bool).

Definition wsys_case : Type := nat * nat * nat * nat * acl_mode * list N * list wsys_step_obs.

Definition files_eqb (a b : list (N * (nat * nat))) : bool :=
  perm_eqb (fun x y => N.eqb (fst x) (fst y) && Nat.eqb (fst (snd x)) (fst (snd y)) && Nat.eqb (snd (snd x)) (snd (snd y))) a b.

Definition wout_sys_eqb (a b : wout) : bool :=
  match a, b with
  | WScrape c k f, WScrape c' k' f' => N.eqb c c' && N.eqb k k' && files_eqb f f'
  | _, _ => wout_eqb a b
  end.

Definition dmsg_eqb (a b : dmsg) : bool :=
  match a, b with
  | DOut x, DOut y => wout_sys_eqb x y
  | DErr c k e, DErr c' k' e' => N.eqb c c' && N.eqb k k' && N.eqb e e'
  | _, _ => false
  end.

Fixpoint dlist_eqb (a b : list dmsg) : bool :=
  match a, b with
  | [], [] => true
  | x :: a', y :: b' => dmsg_eqb x y && dlist_eqb a' b'
  | _, _ => false
  end.

Definition for_conn (key : N * N) (l : list dmsg) : list dmsg := filter (fun m => pair_eqb (dest m) key) l.

(* every connection known before or after the step sees exactly the model's messages, in order;
   nothing is observed for any other connection *)
Definition obs_matches (keys : list (N * N)) (model observed : list dmsg) : bool :=
  forallb (fun key => dlist_eqb (for_conn key model) (for_conn key observed)) keys
  && forallb (fun m => existsb (pair_eqb (dest m)) keys) observed.

(* [lenient2]: the error reply to a second peer id may be missing (the reader's failure tears the
   connection down before the writer task sends it - a recorded finding) *)
Definition drop_err2 (l : list dmsg) : list dmsg :=
  filter (fun m => match m with DErr _ _ 2 => false | _ => true end) l.

Definition obs_matches_perm (keys : list (N * N)) (model observed : list dmsg) : bool :=
  forallb (fun key => perm_eqb dmsg_eqb (for_conn key model) (for_conn key observed)) keys
  && forallb (fun m => existsb (pair_eqb (dest m)) keys) observed.

Fixpoint run_burst (mode : acl_mode) (acl : list N) (cfg : wcfg) (cut ae : bool) (k : nat) (y : wsys) (who : N * N) (acts : list caction)
  : outcome (wsys * list dmsg) :=
  match acts with
  | [] => Ok (y, [])
  | a :: t =>
      let! (y1, m1) := wsys_gate mode acl cfg cut ae k y who a in
      let! (y2, m2) := run_burst mode acl cfg cut ae k y1 who t in
      Ok (y2, m1 ++ m2)
  end.

Definition ws_sys_code_gen (lenient2 cut answer_empty : bool) (c : wsys_case) : N :=
  let '(sw, k, max_scrape, max_offers, mode, acl0, steps) := c in
  let cfg := mkWcfg max_offers max_scrape 1000 1000 in
  let fix go (i : N) (y : wsys) (acl : list N) (l : list wsys_step_obs) : N :=
    match l with
    | [] => 0
    | WSysReload acl' ok :: t => go (N.succ i) y (if ok then acl' else acl) t
    | WSysStep who a observed :: t =>
        match wsys_gate mode acl cfg cut answer_empty k y who a with
        | Panic => N.succ i
        | Ok (y', model) =>
            let keys := who :: map sc_key (y_conns y) ++ map sc_key (y_conns y') in
            if obs_matches keys (if lenient2 then drop_err2 model else model) (if lenient2 then drop_err2 observed else observed)
            then go (N.succ i) y' acl t else N.succ i
        end
    | WSysBurst who acts observed :: t =>
        match run_burst mode acl cfg cut answer_empty k y who acts with
        | Panic => N.succ i
        | Ok (y', model) =>
            let keys := who :: map sc_key (y_conns y) ++ map sc_key (y_conns y') in
            if obs_matches_perm keys (if lenient2 then drop_err2 model else model) (if lenient2 then drop_err2 observed else observed)
            then go (N.succ i) y' acl t else N.succ i
        end
    end in
  let bad := go 0 (wsys_init k) acl0 steps in
  let relayed := existsb (fun s => match s with WSysStep who _ obs | WSysBurst who _ obs => existsb (fun m => negb (pair_eqb (dest m) who)) obs | WSysReload _ _ => false end) steps in
  let closed := existsb (fun s => match s with WSysStep _ CClose _ => true | _ => false end) steps in
  bad * 4 + (if relayed && closed then 3 else 1).

Definition ws_sys_code := ws_sys_code_gen true ws_scrape_cut_before_split ws_scrape_empty_answered.
(* the property: as if the cut and the empty-scrape reply were in place *)
Definition ws_sys_mon := ws_sys_code_gen false true true.
