(* Executable model of the per-torrent peer map shared by aquatic_udp (crates/udp/src/swarm.rs,
   `PeerMap`, `SmallPeerMap`, `LargePeerMap`) and aquatic_http
   (crates/http/src/workers/swarm/storage.rs, `TorrentData`, ...).  Definitions only - no proofs
   here, so that the model still evaluates when a proof breaks.

   Keys are natural numbers [N] (the harness encodes (ip, port) injectively into one number);
   an IndexMap / ArrayVec is a list in storage order.  Parameters:
     cap     SMALL_PEER_MAP_CAPACITY (2 in udp, 4 in http; regenerated into Gen/Consts.v)
     shrink  whether a cleaning pass converts a heap map with <= cap entries back (udp: yes, http: no)
   The two random offsets drawn by `extract_response_peers` are explicit arguments [o1 o2]
   and reduced modulo the range the code computes: theorems quantify over all of them. *)
From Aquatic Require Export Outcome.

Record peer := mkPeer { p_id : N; p_seeder : bool; p_until : N }.
Definition entries := list (N * peer).

Inductive pmap :=
| Small (l : entries)
| Large (l : entries) (ns : nat).

Inductive status := Seeding | Leeching | Stopped.
Inductive statmsg := PeerAdded (pid : N) | PeerRemoved (pid : N).

Definition is_stopped (st : status) : bool := match st with Stopped => true | _ => false end.
Definition is_seeding (st : status) : bool := match st with Seeding => true | _ => false end.

Definition pm_entries (pm : pmap) : entries :=
  match pm with Small l => l | Large l _ => l end.

Definition keys (l : entries) : list N := map fst l.

Definition count_seeders (l : entries) : nat :=
  length (filter (fun e => p_seeder (snd e)) l).

(* SmallPeerMap::remove - linear scan, ArrayVec::remove(i) shifts the tail left *)
Fixpoint small_remove (k : N) (l : entries) : option peer * entries :=
  match l with
  | [] => (None, [])
  | (k', p) :: t =>
      if N.eqb k' k then (Some p, t)
      else let '(r, t') := small_remove k t in (r, (k', p) :: t')
  end.

(* IndexMap::swap_remove - the last element moves into the hole *)
Fixpoint im_swap_remove (k : N) (l : entries) : option peer * entries :=
  match l with
  | [] => (None, [])
  | (k', p) :: t =>
      if N.eqb k' k
      then (Some p, match t with [] => [] | _ :: _ => last t (k', p) :: removelast t end)
      else let '(r, t') := im_swap_remove k t in (r, (k', p) :: t')
  end.

(* IndexMap::insert - replace the value in place when the key exists, else append *)
Fixpoint im_insert (k : N) (p : peer) (l : entries) : entries :=
  match l with
  | [] => [(k, p)]
  | (k', p') :: t => if N.eqb k' k then (k', p) :: t else (k', p') :: im_insert k p t
  end.

(* IndexMap::get_range(a..b) - None when b > len or a > b *)
Definition im_range {A} (a b : nat) (l : list A) : option (list A) :=
  if (a <=? b) && (b <=? length l) then Some (firstn (b - a) (skipn a l)) else None.

Definition opt_list {A} (o : option (list A)) : list A :=
  match o with Some l => l | None => [] end.

(* SmallPeerMap::extract_response_peers *)
Definition extract_small (take : nat) (l : entries) : list N := keys (firstn take l).

(* LargePeerMap::extract_response_peers (identical text in udp and http).
   rng.random_range(from..to) panics on an empty range; [to1 >= 1] and [to2 >= middle + 1]
   by the usize::max, so that cannot happen; the subtractions are checked. *)
Definition extract_large (take : nat) (l : entries) (o1 o2 : nat) : outcome (list N) :=
  let len := length l in
  if len <=? take then Ok (keys l)
  else
    let middle := len / 2 in
    let half := take / 2 in
    let! d1 := checked_sub middle half in
    let to1 := Nat.max 1 d1 in
    let off1 := o1 mod to1 in
    let! d2 := checked_sub len half in
    let to2 := Nat.max (middle + 1) d2 in
    let off2 := middle + o2 mod (to2 - middle) in
    Ok (keys (opt_list (im_range off1 (off1 + half) l))
        ++ keys (opt_list (im_range off2 (off2 + half) l))).

Record areply := mkReply { r_seeders : nat; r_leechers : nat; r_peers : list N }.

(* PeerMap::announce / TorrentData::upsert_peer_and_get_response_peers.
   Returns the new map, the reply (counts before clamping to i32) and the removed entry. *)
Definition pm_announce (cap : nat) (pm : pmap) (key : N) (st : status) (pid until : N)
           (take o1 o2 : nat) : outcome (pmap * areply * option peer) :=
  let! (pm1, rep, removed) :=
    match pm with
    | Small l =>
        let '(removed, l1) := small_remove key l in
        let s := count_seeders l1 in
        let! le := checked_sub (length l1) s in
        let peers := extract_small take l1 in
        let pm1 := if (length l1 =? cap) && negb (is_stopped st)
                   then Large l1 (count_seeders l1) else Small l1 in
        Ok (pm1, mkReply s le peers, removed)
    | Large l ns =>
        let '(removed, l1) := im_swap_remove key l in
        let! ns1 := match removed with
                    | Some p => if p_seeder p then checked_pred ns else Ok ns
                    | None => Ok ns
                    end in
        let! le := checked_sub (length l1) ns1 in
        let! peers := extract_large take l1 o1 o2 in
        let pm1 := if is_stopped st && (length l1 <=? cap) then Small l1 else Large l1 ns1 in
        Ok (pm1, mkReply ns1 le peers, removed)
    end in
  match st with
  | Stopped => Ok (pm1, rep, removed)
  | _ =>
      let p := mkPeer pid (is_seeding st) until in
      match pm1 with
      | Small l =>
          (* ArrayVec::push panics when the vector is full *)
          if length l <? cap then Ok (Small (l ++ [(key, p)]), rep, removed) else Panic
      | Large l ns =>
          Ok (Large (im_insert key p l) (if is_seeding st then S ns else ns), rep, removed)
      end
  end.

(* statistics messages sent by the udp announce when statistics.peer_clients is on *)
Definition announce_msgs (pc : bool) (st : status) (pid : N) (removed : option peer) : list statmsg :=
  if pc then
    match st, removed with
    | Stopped, Some _ => [PeerRemoved pid]
    | Stopped, None => []
    | _, None => [PeerAdded pid]
    | _, Some _ => []
    end
  else [].

(* (seeders, leechers) as scrape reports them *)
Definition pm_counts (pm : pmap) : outcome (nat * nat) :=
  match pm with
  | Small l => let s := count_seeders l in let! le := checked_sub (length l) s in Ok (s, le)
  | Large l ns => let! le := checked_sub (length l) ns in Ok (ns, le)
  end.

Definition peer_valid (now : N) (e : N * peer) : bool := N.ltb now (p_until (snd e)).

(* num_seeders -= 1 for every expired seeder, in storage order, each step checked *)
Fixpoint dec_expired_seeders (now : N) (l : entries) (ns : nat) : outcome nat :=
  match l with
  | [] => Ok ns
  | e :: t =>
      let! ns' := (if negb (peer_valid now e) && p_seeder (snd e) then checked_pred ns else Ok ns) in
      dec_expired_seeders now t ns'
  end.

Definition removed_msgs (pc : bool) (now : N) (l : entries) : list statmsg :=
  if pc then map (fun e => PeerRemoved (p_id (snd e))) (filter (fun e => negb (peer_valid now e)) l)
  else [].

(* {Small,Large}PeerMap::clean_and_get_num_peers (+ try_shrink in udp) *)
Definition pm_clean (cap : nat) (shrink pc : bool) (pm : pmap) (now : N)
  : outcome (pmap * (nat * nat) * list statmsg) :=
  match pm with
  | Small l =>
      let l' := filter (peer_valid now) l in
      let s := count_seeders l' in
      let! le := checked_sub (length l') s in
      Ok (Small l', (s, le), removed_msgs pc now l)
  | Large l ns =>
      let! ns' := dec_expired_seeders now l ns in
      let l' := filter (peer_valid now) l in
      let! le := checked_sub (length l') ns' in
      let pm' := if shrink && (length l' <=? cap) then Small l' else Large l' ns' in
      Ok (pm', (ns', le), removed_msgs pc now l)
  end.

Definition pm_is_empty (pm : pmap) : bool :=
  match pm_entries pm with [] => true | _ => false end.

(* limit computations *)
(* udp: peers_wanted <= 0 -> configured maximum, else min; the `try_into().unwrap()` of a
   positive i32 into usize cannot fail on the supported 64-bit targets *)
Definition limit_udp (want : Z) (cfg : nat) : nat :=
  (* the minimum is taken on binary numbers: [Z.to_nat] of a large request must never be
     materialised as a unary number when the model is evaluated *)
  if (want <=? 0)%Z then cfg else Z.to_nat (Z.min (Z.of_nat cfg) want).

(* http: numwant None | Some 0 -> configured maximum *)
Definition limit_http (want : option nat) (cfg : nat) : nat :=
  match want with
  | None => cfg
  | Some 0 => cfg
  | Some n => Nat.min n cfg
  end.

(* counts as sent on the udp wire: usize -> i32 with saturation *)
Definition clamp_i32 (n : nat) : Z := Z.min (Z.of_nat n) 2147483647.
