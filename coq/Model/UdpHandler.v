(* The udp socket worker's datagram handler: crates/udp/src/workers/socket/mio/socket.rs
   `read_and_handle_requests` + mio/mod.rs `WorkerSharedData::handle_request`, and the io_uring
   duplicate uring/mod.rs `handle_recv_cqe` + `SocketWorker::handle_request` (same decision tree;
   uring/recv_helper.rs performs the port-0 test and the canonicalisation).

   One received datagram yields AT MOST ONE reply by construction of both handlers (they return
   Option<Response>; the reply is addressed with the canonical source).  The model makes that a
   function  state -> source -> bytes -> state * option response.

   The swarm is abstract here (Section variables [do_announce] / [do_scrape]) so that the reply
   contract is proved for ANY swarm implementation; [UdpTracker] below instantiates it with the
   swarm model of UdpSwarm.v. *)
From Aquatic Require Export UdpCodec Validator Addr AccessList.
Local Open Scope N_scope.

Definition sa_octets (a : sockaddr) : list N := match a with SA o _ => o end.
Definition sa_port (a : sockaddr) : N := match a with SA _ p => p end.

(* ConnectionId(i64::from_ne_bytes(id)) written big-endian: on a little-endian host the wire
   bytes are the validator's 8 id bytes reversed (trusted-base item: x86-64 / little endian) *)
Definition id_of_wire (cid : Z) : list N := rev (be_enc 8 (to_unsigned 8 cid)).
Definition wire_of_id (id : list N) : Z := to_signed 8 (be_dec (rev id)).

Definition str_bytes (s : string) : list N :=
  map (fun a => N.of_nat (Ascii.nat_of_ascii a)) (String.list_ascii_of_string s).

(* RequestParseError::Sendable kinds of UdpCodec.parse_request: 1 port 0, 2 empty scrape,
   3 bad hash list *)
Definition err_text (kind : N) : list N :=
  if kind =? 1 then str_bytes "Port can't be 0"
  else if kind =? 2 then str_bytes "Full scrapes are not allowed"
  else str_bytes "Invalid info hash list".

Definition not_allowed_text : list N := str_bytes "Info hash not allowed".

Record hconf := mkHconf {
  hc_max_scrape : nat;        (* protocol.max_scrape_torrents *)
  hc_age : N;                 (* cleaning.max_connection_age *)
  hc_acl_mode : acl_mode;
  hc_acl : list N
}.

Section Handler.
  Variable L : layouts.
  Variable mac : list N -> N.
  Variable St : Type.
  (* TorrentMaps::announce / scrape: the reply they build for an accepted request *)
  Variable do_announce : St -> sockaddr -> list fval -> outcome (St * response).
  Variable do_scrape : St -> sockaddr -> Z -> list (list N) -> outcome response.

  Definition areq_field (vs : list fval) (name : string) : option fval :=
    field_at (L_announce_request L) vs name.

  Definition bytes_of (o : option fval) : list N := match o with Some (VBytes b) => b | _ => [] end.

  Definition id_valid (cfg : hconf) (now : N) (src : sockaddr) (cid : Z) : bool :=
    valid mac now (hc_age cfg) (sa_octets src) (id_of_wire cid).

  Definition handle (cfg : hconf) (now : N) (st : St) (from : sockaddr) (bytes : list N)
    : outcome (St * option response) :=
    let src := canonical from in
    if sa_port from =? 0 then Ok (st, None)
    else
      match parse_request L bytes (hc_max_scrape cfg) with
      | POk (RConnect tid) =>
          Ok (st, Some (SConnect [VInt tid; VInt (wire_of_id (create mac now (sa_octets src)))]))
      | POk (RAnnounce vs) =>
          if id_valid cfg now src (int_of (areq_field vs "connection_id")) then
            if allows (hc_acl_mode cfg) (hc_acl cfg) (be_dec (bytes_of (areq_field vs "info_hash")))
            then
              let! (st', r) := do_announce st src vs in Ok (st', Some r)
            else Ok (st, Some (SError (int_of (areq_field vs "transaction_id")) not_allowed_text))
          else Ok (st, None)
      | POk (RScrape cid tid hs) =>
          if id_valid cfg now src cid then
            let! r := do_scrape st src tid hs in Ok (st, Some r)
          else Ok (st, None)
      | PErr (Sendable cid tid k) =>
          if id_valid cfg now src cid then Ok (st, Some (SError tid (err_text k))) else Ok (st, None)
      | PErr Unsendable => Ok (st, None)
      end.

  (* what an observer of the request can read off it *)
  Definition carried_id (cfg : hconf) (bytes : list N) : option Z :=
    match parse_request L bytes (hc_max_scrape cfg) with
    | POk (RConnect _) => None
    | POk (RAnnounce vs) => Some (int_of (areq_field vs "connection_id"))
    | POk (RScrape cid _ _) => Some cid
    | PErr (Sendable cid _ _) => Some cid
    | PErr Unsendable => None
    end.

  Definition response_tid (r : response) : Z :=
    match r with
    | SConnect vs => int_of (field_at (L_connect_response L) vs "transaction_id")
    | SAnnounce _ fixed _ => int_of (field_at (L_announce_fixed L) fixed "transaction_id")
    | SScrape tid _ => tid
    | SError tid _ => tid
    end.
End Handler.

(* ---- what reaches the handler ----
   mio: recv_from into the BUFFER_SIZE-byte buffer silently cuts a longer datagram;
   io_uring: each multishot recvmsg buffer of REQUEST_BUF_LEN bytes holds the 16-byte
   io_uring_recvmsg_out header, the source sockaddr (16 bytes on the v4 socket, 28 on the v6
   socket) and the payload; a datagram whose payload does not fit is flagged truncated and
   dropped (recv_helper.rs: RecvMsgTruncated). *)
Inductive backend :=
| Mio (buffer_size : nat)
| Uring (request_buf_len : nat) (v6_socket : bool).

Definition uring_capacity (request_buf_len : nat) (v6_socket : bool) : nat :=
  (request_buf_len - 16 - (if v6_socket then 28 else 16))%nat.

Definition received (b : backend) (bytes : list N) : option (list N) :=
  match b with
  | Mio size => Some (firstn size bytes)
  | Uring len v6s => if (uring_capacity len v6s <? length bytes)%nat then None else Some bytes
  end.

Definition serve (L : layouts) (mac : list N -> N) (St : Type)
    (do_announce : St -> sockaddr -> list fval -> outcome (St * response))
    (do_scrape : St -> sockaddr -> Z -> list (list N) -> outcome response)
    (b : backend) (cfg : hconf) (now : N) (st : St) (from : sockaddr) (bytes : list N)
  : outcome (St * option response) :=
  match received b bytes with
  | None => Ok (st, None)
  | Some bytes' => handle L mac St do_announce do_scrape cfg now st from bytes'
  end.

(* the transaction id every parseable request carries at bytes 12..16 *)
Definition request_tid (bytes : list N) : Z := rd_i32 (firstn 4 (skipn 12 bytes)).
