(* Interleaving model of the shared udp swarm state (crates/udp/src/swarm.rs TorrentMapShards:
   announce / scrape / clean_and_get_statistics) at lock-acquisition granularity.

   Shared: per info hash the cell (Arc<RwLock<PeerMap>>) its shard maps it to, and the cells'
   contents.  A thread holds at most one Arc clone at a time ([held]).  Every instruction below
   runs entirely under one lock (shard lock, or cell lock, or shard lock with a nested cell
   read), so it is atomic with respect to the others; between instructions no lock is held.

     announce h :  IAnn1 h   shard upgradable read (upgrade on a miss): get or create the cell,
                             clone the Arc
                   IAnn2 h   cell write lock: PeerMap::announce, build the reply, drop the clone
     scrape hs  :  IScr h    shard read + nested cell read: the counts        (one per hash)
     clean      :  ICl1 h    shard read: clone the Arc of the torrent           (phase 1)
                   ICl2 h    cell write lock: remove expired peers, shrink
                   IDrop     the clone goes out of scope
                   ICl3 h    shard write lock, retain: drop the torrent if it is empty AND
                             nobody else holds its Arc (Arc::get_mut)           (phase 2)

   The model lets the instructions of different hashes interleave freely (finer than the real
   per-shard locking: a sound over-approximation of the schedules).  [IProbe] / [IProbeIfHeld]
   mark where the hook probes sit (they have no effect on the state): the correspondence harness
   runs a thread from probe to probe. *)
From Aquatic Require Export PeerMap TorrentMap RefTracker.
Local Open Scope N_scope.

Record aargs := mkAargs { a_key : N; a_st : status; a_pid : N; a_until : N; a_take : nat; a_o1 : nat; a_o2 : nat }.

Inductive instr :=
| IAnn1 (h : N) | IAnn2 (h : N) (a : aargs)
| IScr (h : N) | IScrEnd
| ICl1 (h : N) | ICl2 (h : N) (now : N) | IDrop | ICl3 (h : N)
| IProbe | IProbeIfHeld.

Inductive cop := OAnn (h : N) (a : aargs) | OScr (hs : list N) | OCl (now : N) (hs : list N).

Definition prog_of (o : cop) : list instr :=
  match o with
  | OAnn h a => [IAnn1 h; IProbe; IAnn2 h a]
  | OScr hs => concat (map (fun h => [IScr h; IProbe]) hs) ++ [IScrEnd]
  | OCl now hs => concat (map (fun h => [ICl1 h; IProbeIfHeld; ICl2 h now; IProbeIfHeld; IDrop]) hs)
                  ++ [IProbe] ++ map ICl3 hs ++ [IProbe]
  end.

Record thread := mkThread { t_code : list instr; t_held : option (N * N) }.   (* (hash, cell id) *)

Record cstate := mkCstate {
  cs_map : list (N * N);          (* hash -> cell id *)
  cs_cells : list (N * pmap);     (* cell id -> contents *)
  cs_next : N;
  cs_threads : list thread
}.

Inductive event :=
| EAnnounce (seeders leechers : nat) (peers : list N)
| EScrape (seeders leechers : nat)
| EScrapeEnd
| ECleaned (seeders leechers : nat).

Fixpoint lookup {V} (k : N) (l : list (N * V)) : option V :=
  match l with [] => None | (k', v) :: t => if N.eqb k' k then Some v else lookup k t end.
Fixpoint update {V} (k : N) (v : V) (l : list (N * V)) : list (N * V) :=
  match l with
  | [] => [(k, v)]
  | (k', v') :: t => if N.eqb k' k then (k', v) :: t else (k', v') :: update k v t
  end.
Definition remove_key {V} (k : N) (l : list (N * V)) : list (N * V) := filter (fun e => negb (N.eqb (fst e) k)) l.

Definition cell_of (s : cstate) (c : N) : pmap := match lookup c (cs_cells s) with Some pm => pm | None => Small [] end.

(* what the shared state says about torrent h *)
Definition abs_pm (s : cstate) (h : N) : pmap :=
  match lookup h (cs_map s) with Some c => cell_of s c | None => Small [] end.

Definition holds (c : N) (t : thread) : bool :=
  match t_held t with Some (_, c') => N.eqb c' c | None => false end.

(* Arc strong count minus the map's own reference: the threads holding a clone of cell c *)
Definition holders (s : cstate) (c : N) : nat := length (filter (holds c) (cs_threads s)).

Section Exec.
  Variable cap : nat.
  (* [guard] = phase 2 keeps a torrent whose Arc is shared (Arc::get_mut), regenerated from the source *)
  Variable guard : bool.

  (* one instruction of thread [me] (its code already popped): new shared parts, new held, event *)
  Definition exec (s : cstate) (me : nat) (held : option (N * N)) (i : instr)
    : outcome (list (N * N) * list (N * pmap) * N * option (N * N) * list event) :=
    let keep := Ok (cs_map s, cs_cells s, cs_next s, held, []) in
    match i with
    | IAnn1 h =>
        match lookup h (cs_map s) with
        | Some c => Ok (cs_map s, cs_cells s, cs_next s, Some (h, c), [])
        | None =>
            let c := cs_next s in
            Ok (update h c (cs_map s), update c (Small []) (cs_cells s), c + 1, Some (h, c), [])
        end
    | IAnn2 h a =>
        match held with
        | Some (_, c) =>
            let! (pm', rep, _) := pm_announce cap (cell_of s c) (a_key a) (a_st a) (a_pid a) (a_until a) (a_take a) (a_o1 a) (a_o2 a) in
            Ok (cs_map s, update c pm' (cs_cells s), cs_next s, None,
                [EAnnounce (r_seeders rep) (r_leechers rep) (r_peers rep)])
        | None => Panic
        end
    | IScr h =>
        let! (se, le) := pm_counts (abs_pm s h) in
        Ok (cs_map s, cs_cells s, cs_next s, held, [EScrape se le])
    | IScrEnd => Ok (cs_map s, cs_cells s, cs_next s, held, [EScrapeEnd])
    | ICl1 h =>
        Ok (cs_map s, cs_cells s, cs_next s,
            match lookup h (cs_map s) with Some c => Some (h, c) | None => None end, [])
    | ICl2 h now =>
        match held with
        | Some (_, c) =>
            let! (pm', (se, le), _) := pm_clean cap true false (cell_of s c) now in
            Ok (cs_map s, update c pm' (cs_cells s), cs_next s, held, [ECleaned se le])
        | None => keep
        end
    | IDrop => Ok (cs_map s, cs_cells s, cs_next s, None, [])
    | ICl3 h =>
        match lookup h (cs_map s) with
        | Some c =>
            if pm_is_empty (cell_of s c) && (negb guard || Nat.eqb (holders s c) 0)
            then Ok (remove_key h (cs_map s), cs_cells s, cs_next s, held, [])
            else keep
        | None => keep
        end
    | IProbe | IProbeIfHeld => keep
    end.

  Fixpoint set_thread (ts : list thread) (me : nat) (t : thread) : list thread :=
    match ts, me with
    | [], _ => []
    | _ :: r, O => t :: r
    | x :: r, S m => x :: set_thread r m t
    end.

  (* one micro-step of thread [me]; None = that thread has finished (the schedule entry is void) *)
  Definition micro (s : cstate) (me : nat) : option (outcome (cstate * list event)) :=
    match nth_error (cs_threads s) me with
    | Some (mkThread (i :: code) held) =>
        Some (let! (m, cells, nx, held', ev) := exec s me held i in
              Ok (mkCstate m cells nx (set_thread (cs_threads s) me (mkThread code held')), ev))
    | _ => None
    end.

  (* a schedule is a list of thread indices, one micro-step each *)
  Fixpoint run_micro (s : cstate) (sched : list nat) : outcome (cstate * list (nat * event)) :=
    match sched with
    | [] => Ok (s, [])
    | t :: r =>
        match micro s t with
        | None => run_micro s r
        | Some Panic => Panic
        | Some (Ok (s', ev)) =>
            let! (s'', evs) := run_micro s' r in Ok (s'', map (fun e => (t, e)) ev ++ evs)
        end
    end.

  (* does the probe at the head of thread [me]'s code fire? *)
  Definition probe_fires (t : thread) : option bool :=
    match t_code t with
    | IProbe :: _ => Some true
    | IProbeIfHeld :: _ => Some (match t_held t with Some _ => true | None => false end)
    | _ => None
    end.

  (* the harness runs thread [me] until its next firing probe (consumed) or its end *)
  Fixpoint run_segment (fuel : nat) (s : cstate) (me : nat) : outcome (cstate * list event) :=
    match fuel with
    | O => Ok (s, [])
    | S f =>
        match nth_error (cs_threads s) me with
        | Some t =>
            match t_code t with
            | [] => Ok (s, [])
            | _ =>
                let fired := probe_fires t in
                match micro s me with
                | Some (Ok (s', ev)) =>
                    match fired with
                    | Some true => Ok (s', ev)
                    | _ => let! (s'', ev') := run_segment f s' me in Ok (s'', ev ++ ev')
                    end
                | Some Panic => Panic
                | None => Ok (s, [])
                end
            end
        | None => Ok (s, [])
        end
    end.

  Fixpoint run_segments (s : cstate) (sched : list nat) : outcome (cstate * list (nat * event)) :=
    match sched with
    | [] => Ok (s, [])
    | t :: r =>
        let! (s', ev) := run_segment 200 s t in
        let! (s'', evs) := run_segments s' r in
        Ok (s'', map (fun e => (t, e)) ev ++ evs)
    end.
End Exec.

Definition cinit (ops : list cop) : cstate :=
  mkCstate [] [] 0 (map (fun o => mkThread (prog_of o) None) ops).
