(* Correspondence checker for the udp swarm: replays a history through the model and compares
   every observable output with what the real `TorrentMaps` produced.  The two random offsets
   of a heap-map selection are not known to the harness; the checker searches the offsets the
   model allows for a pair that reproduces the implementation's peer list (the state after an
   announce does not depend on them). *)
From Aquatic Require Export UdpSwarm.

Fixpoint list_eqb {A} (eqb : A -> A -> bool) (a b : list A) : bool :=
  match a, b with
  | [], [] => true
  | x :: a', y :: b' => eqb x y && list_eqb eqb a' b'
  | _, _ => false
  end.

Fixpoint remove_one {A} (eqb : A -> A -> bool) (x : A) (l : list A) : option (list A) :=
  match l with
  | [] => None
  | y :: t => if eqb x y then Some t
              else match remove_one eqb x t with Some t' => Some (y :: t') | None => None end
  end.

(* multiset equality *)
Fixpoint perm_eqb {A} (eqb : A -> A -> bool) (a b : list A) : bool :=
  match a with
  | [] => match b with [] => true | _ => false end
  | x :: a' => match remove_one eqb x b with Some b' => perm_eqb eqb a' b' | None => false end
  end.

Definition statmsg_eqb (a b : statmsg) : bool :=
  match a, b with
  | PeerAdded x, PeerAdded y => N.eqb x y
  | PeerRemoved x, PeerRemoved y => N.eqb x y
  | _, _ => false
  end.

Definition line_eqb (a b : bool * N * nat * nat) : bool :=
  let '(f1, h1, s1, l1) := a in
  let '(f2, h2, s2, l2) := b in
  Bool.eqb f1 f2 && N.eqb h1 h2 && Nat.eqb s1 s2 && Nat.eqb l1 l2.

Definition zz_eqb (a b : Z * Z) : bool := Z.eqb (fst a) (fst b) && Z.eqb (snd a) (snd b).

(* which observables a check compares: bit 0 counts (announce and scrape), bit 1 reply peer
   lists, bit 2 statistics messages, bit 3 clean totals, bit 4 export lines *)
Definition asp (mask : N) (bit : N) (b : bool) : bool := if N.testbit mask bit then b else true.

Definition uout_eqb (mask : N) (m i : uout) : bool :=
  match m, i with
  | OAnnounce s l p ms, OAnnounce s' l' p' ms' =>
      asp mask 0 (Z.eqb s s' && Z.eqb l l') && asp mask 1 (list_eqb N.eqb p p')
      && asp mask 2 (list_eqb statmsg_eqb ms ms')
  | OScrape a, OScrape b => asp mask 0 (list_eqb zz_eqb a b)
  | OClean t4 p4 t6 p6 ms ls, OClean t4' p4' t6' p6' ms' ls' =>
      asp mask 3 (Nat.eqb t4 t4' && Nat.eqb p4 p4' && Nat.eqb t6 t6' && Nat.eqb p6 p6')
      && asp mask 2 (perm_eqb statmsg_eqb ms ms') && asp mask 4 (perm_eqb line_eqb ls ls')
  | _, _ => false
  end.

Definition is_large (pm : pmap) : bool := match pm with Large _ _ => true | Small _ => false end.

(* Which peer lists may a heap-map selection return?  Every offset pair below the map's length
   is tried (the model reduces offsets modulo its ranges, so this covers every outcome the model
   allows).  Only the selection is re-evaluated, not the whole step. *)
Definition large_rest (pm : pmap) (key : N) : option entries :=
  match pm with
  | Large l _ => Some (snd (im_swap_remove key l))
  | Small _ => None
  end.

Definition peers_possible (take : nat) (pm : pmap) (key : N) (impl_peers : list N) : bool :=
  match large_rest pm key with
  | None => false
  | Some l1 =>
      let cands := seq 0 (S (length l1)) in
      existsb (fun a => existsb (fun b =>
        match extract_large take l1 a b with
        | Ok p => list_eqb N.eqb p impl_peers
        | Panic => false
        end) cands) cands
  end.

Definition impl_peers_of (o : uout) : list N :=
  match o with OAnnounce _ _ p _ => p | _ => [] end.

(* Run one op of the history. *)
Definition check_op (mask : N) (cfg : ucfg) (s : ustate) (op : uop) (impl : uout) : option ustate :=
  match u_step cfg s op with
  | Ok (s', out) =>
      if uout_eqb mask out impl then Some s'
      else
        match op with
        | UAnnounce v6 hash key _ _ _ _ want _ _ =>
            (* everything but the peer list must agree, and the peer list must be one the
               model allows under some offsets *)
            if uout_eqb (N.land mask 29) out impl
               && peers_possible (limit_udp want (c_max_resp cfg)) (tm_get hash (ufam s v6)) key (impl_peers_of impl)
            then Some s' else None
        | _ => None
        end
  | Panic => None
  end.

Definition any_large (s : ustate) : bool :=
  existsb (fun e => is_large (snd e)) (u4 s) || existsb (fun e => is_large (snd e)) (u6 s).

(* result: index of the first disagreeing op (None = all agree), and whether the history
   drove some torrent into the heap representation and later out of it again *)
Fixpoint check_history (mask : N) (cfg : ucfg) (s : ustate) (i : N) (was_large went_back : bool)
         (h : list (uop * uout)) : option N * bool * bool :=
  match h with
  | [] => (None, was_large, went_back)
  | (op, impl) :: t =>
      match check_op mask cfg s op impl with
      | None => (Some i, was_large, went_back)
      | Some s' =>
          let lg := any_large s' in
          check_history mask cfg s' (N.succ i) (was_large || lg) (went_back || (any_large s && negb lg)) t
      end
  end.

Definition check_case (mask : N) (cap : nat) (c : nat * bool * list (uop * uout)) : option N * bool * bool :=
  let '(max_resp, pc, h) := c in
  check_history mask (mkUcfg cap max_resp pc) uinit 0%N false false h.

(* result code for the driver: code / 4 = 0 (agreement) or 1 + index of the first disagreeing
   op; bit 0 = the history crossed inline -> heap and bit 1 = heap -> inline *)
Definition udp_code (mask : N) (cap : N) (c : nat * bool * list (uop * uout)) : N :=
  let '(f, up, down) := check_case mask (N.to_nat cap) c in
  (match f with None => 0 | Some i => N.succ i end * 4 + (if up then 1 else 0) + (if down then 2 else 0))%N.
