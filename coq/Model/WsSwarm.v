(* Executable model of one aquatic_ws swarm worker's storage
   (crates/ws/src/workers/swarm/storage.rs) - transcribed branch by branch.
   Identifiers (info hash, peer id, offer id, sdp texts) are numbers.  A connection is named by
   (consumer = index of its socket worker, conn = that worker's slot-map key): keys of different
   socket workers may coincide.  The clock sample [now] is an explicit argument (the storage
   reads ServerStartInstant itself).  The two random offsets of the receiver selection are
   explicit arguments [o1 o2]. *)
From Aquatic Require Export Outcome AccessList Expiry.

Record wpeer := mkWpeer {
  w_consumer : N;
  w_conn : N;
  w_seeder : bool;
  w_until : N;
  w_expect : list ((N * N) * N)     (* IndexMap<ExpectingAnswer{from_peer_id, offer_id}, ValidUntil> *)
}.

Record wtorrent := mkWt { wt_peers : list (N * wpeer); wt_ns : nat }.
Definition wt_empty : wtorrent := mkWt [] 0.

Definition wmap := list (N * wtorrent).
Record wstate := mkW { w4 : wmap; w6 : wmap }.
Definition winit : wstate := mkW [] [].
Definition wfam (s : wstate) (v6 : bool) : wmap := if v6 then w6 s else w4 s.
Definition wset (s : wstate) (v6 : bool) (m : wmap) : wstate := if v6 then mkW (w4 s) m else mkW m (w6 s).

Record wcfg := mkWcfg {
  wc_max_offers : nat;
  wc_max_scrape : nat;
  wc_max_peer_age : N;
  wc_max_offer_age : N
}.

(* ---- association lists with IndexMap semantics, polymorphic in the value ---- *)
Section Assoc.
  Context {K V : Type}.
  Variable keqb : K -> K -> bool.

  Fixpoint aget (k : K) (l : list (K * V)) : option V :=
    match l with
    | [] => None
    | (k', v) :: t => if keqb k' k then Some v else aget k t
    end.

  (* insert / update in place, else append *)
  Fixpoint aput (k : K) (v : V) (l : list (K * V)) : list (K * V) :=
    match l with
    | [] => [(k, v)]
    | (k', v') :: t => if keqb k' k then (k', v) :: t else (k', v') :: aput k v t
    end.

  (* IndexMap::swap_remove *)
  Fixpoint aswap_remove (k : K) (l : list (K * V)) : option V * list (K * V) :=
    match l with
    | [] => (None, [])
    | (k', v) :: t =>
        if keqb k' k
        then (Some v, match t with [] => [] | _ :: _ => last t (k', v) :: removelast t end)
        else let '(r, t') := aswap_remove k t in (r, (k', v) :: t')
    end.
End Assoc.

Definition pair_eqb (a b : N * N) : bool := N.eqb (fst a) (fst b) && N.eqb (snd a) (snd b).

Definition wm_get (h : N) (m : wmap) : wtorrent :=
  match aget N.eqb h m with Some t => t | None => wt_empty end.

(* ---- messages from the swarm worker to socket workers ---- *)
Inductive wout :=
| WOffer (consumer conn : N) (hash from_pid offer_id sdp : N)
| WAnswer (consumer conn : N) (hash from_pid offer_id sdp : N)
| WError (consumer conn : N) (hash : N)
| WAnnounce (consumer conn : N) (hash : N) (complete incomplete : nat)
| WScrape (consumer conn : N) (files : list (N * (nat * nat))).

Inductive wstatus := WSeeding | WLeeching | WStopped.

(* PeerStatus::from_event_and_bytes_left: only Some(0) means seeder *)
Definition wstatus_of (stopped : bool) (bleft : option N) : wstatus :=
  if stopped then WStopped
  else match bleft with Some 0%N => WSeeding | _ => WLeeching end.

(* extract_response_peers (filters the sender; `+ 1` per half; pop down to max) *)
Definition im_range' {A} (a b : nat) (l : list A) : list A :=
  if (a <=? b) && (b <=? length l) then firstn (b - a) (skipn a l) else [].

Definition ws_extract (peers : list (N * wpeer)) (max : nat) (sender : N) (o1 o2 : nat)
  : outcome (list (N * wpeer)) :=
  let len := length peers in
  let not_sender := fun e : N * wpeer => negb (N.eqb (fst e) sender) in
  if len <=? max + 1 then
    let ps := filter not_sender peers in
    Ok (if max <? length ps then removelast ps else ps)
  else
    let middle := len / 2 in
    let half := max / 2 + 1 in
    let! d1 := checked_sub middle half in
    let to1 := Nat.max 1 d1 in
    let off1 := o1 mod to1 in
    let! d2 := checked_sub len half in
    let to2 := Nat.max (middle + 1) d2 in
    let off2 := middle + o2 mod (to2 - middle) in
    let ps := filter not_sender (im_range' off1 (off1 + half) peers)
              ++ filter not_sender (im_range' off2 (off2 + half) peers) in
    Ok (firstn max ps).

Record wreq := mkWreq {
  q_consumer : N; q_conn : N; q_v6 : bool;
  q_hash : N; q_pid : N; q_stopped : bool; q_left : option N;
  q_offers : option (list (N * N));          (* (offer_id, sdp) *)
  q_answer : option (N * N * N)              (* (to_peer_id, offer_id, sdp), all three present *)
}.

(* insert_or_update_peer *)
Definition ws_upsert (t : wtorrent) (rq : wreq) (until : N) (st : wstatus) : outcome wtorrent :=
  match aget N.eqb (q_pid rq) (wt_peers t) with
  | Some p =>
      match st with
      | WLeeching =>
          let! ns := (if w_seeder p then checked_pred (wt_ns t) else Ok (wt_ns t)) in
          Ok (mkWt (aput N.eqb (q_pid rq) (mkWpeer (w_consumer p) (w_conn p) false until (w_expect p)) (wt_peers t)) ns)
      | WSeeding =>
          let ns := if w_seeder p then wt_ns t else S (wt_ns t) in
          Ok (mkWt (aput N.eqb (q_pid rq) (mkWpeer (w_consumer p) (w_conn p) true until (w_expect p)) (wt_peers t)) ns)
      | WStopped =>
          let '(_, ps) := aswap_remove N.eqb (q_pid rq) (wt_peers t) in
          let! ns := (if w_seeder p then checked_pred (wt_ns t) else Ok (wt_ns t)) in
          Ok (mkWt ps ns)
      end
  | None =>
      match st with
      | WLeeching => Ok (mkWt (wt_peers t ++ [(q_pid rq, mkWpeer (q_consumer rq) (q_conn rq) false until [])]) (wt_ns t))
      | WSeeding => Ok (mkWt (wt_peers t ++ [(q_pid rq, mkWpeer (q_consumer rq) (q_conn rq) true until [])]) (S (wt_ns t)))
      | WStopped => Ok t
      end
  end.

(* handle_offers: zip offers with receivers; record expectation at the SENDER; emit offers *)
Fixpoint ws_zip_offers (hash sender : N) (offer_until : N) (offers : list (N * N)) (recv : list (N * wpeer))
         (expect : list ((N * N) * N)) : list ((N * N) * N) * list wout :=
  match offers, recv with
  | (oid, sdp) :: ot, (rpid, rp) :: rt =>
      let expect' := aput pair_eqb (rpid, oid) offer_until expect in
      let '(e, outs) := ws_zip_offers hash sender offer_until ot rt expect' in
      (e, WOffer (w_consumer rp) (w_conn rp) hash sender oid sdp :: outs)
  | _, _ => (expect, [])
  end.

Definition ws_handle_offers (cfg : wcfg) (t : wtorrent) (rq : wreq) (now : N) (offers : list (N * N)) (o1 o2 : nat)
  : outcome (wtorrent * list wout) :=
  let max := Nat.min (length offers) (wc_max_offers cfg) in
  let! recv := ws_extract (wt_peers t) max (q_pid rq) o1 o2 in
  match aget N.eqb (q_pid rq) (wt_peers t) with
  | Some p =>
      let '(e, outs) := ws_zip_offers (q_hash rq) (q_pid rq) (valid_until_new now (wc_max_offer_age cfg)) offers recv (w_expect p) in
      Ok (mkWt (aput N.eqb (q_pid rq) (mkWpeer (w_consumer p) (w_conn p) (w_seeder p) (w_until p) e) (wt_peers t)) (wt_ns t), outs)
  | None => Ok (t, [])
  end.

(* handle_answer *)
Definition ws_handle_answer (t : wtorrent) (rq : wreq) (to_pid oid sdp : N) : wtorrent * list wout :=
  match aget N.eqb to_pid (wt_peers t) with
  | Some r =>
      match aswap_remove pair_eqb (q_pid rq, oid) (w_expect r) with
      | (Some _, e) =>
          (mkWt (aput N.eqb to_pid (mkWpeer (w_consumer r) (w_conn r) (w_seeder r) (w_until r) e) (wt_peers t)) (wt_ns t),
           [WAnswer (w_consumer r) (w_conn r) (q_hash rq) (q_pid rq) oid sdp])
      | (None, _) => (t, [WError (q_consumer rq) (q_conn rq) (q_hash rq)])
      end
  | None => (t, [])
  end.

(* TorrentMap::handle_announce_request.  Note: `entry().or_default()` creates the torrent
   before the ownership test. *)
(* [strict] = false is the code as written (the ownership test compares the connection id only);
   [strict] = true is the intended test (socket worker index AND connection id): the reference
   against which the property monitors judge a trace *)
Definition ws_announce_gen (strict : bool) (cfg : wcfg) (s : wstate) (rq : wreq) (now : N) (o1 o2 : nat) : outcome (wstate * list wout) :=
  let m := wfam s (q_v6 rq) in
  let t := wm_get (q_hash rq) m in
  let foreign := match aget N.eqb (q_pid rq) (wt_peers t) with
                 | Some p => negb (N.eqb (q_conn rq) (w_conn p) && (negb strict || N.eqb (q_consumer rq) (w_consumer p)))
                 | None => false
                 end in
  if foreign then Ok (wset s (q_v6 rq) (aput N.eqb (q_hash rq) t m), [])
  else
    let st := wstatus_of (q_stopped rq) (q_left rq) in
    let! t1 := ws_upsert t rq (valid_until_new now (wc_max_peer_age cfg)) st in
    let! (t2, outs1) :=
      (match st, q_offers rq with
       | WStopped, _ => Ok (t1, [])
       | _, Some offers => ws_handle_offers cfg t1 rq now offers o1 o2
       | _, None => Ok (t1, [])
       end) in
    let '(t3, outs2) :=
      match st, q_answer rq with
      | WStopped, _ => (t2, [])
      | _, Some (to_pid, oid, sdp) => ws_handle_answer t2 rq to_pid oid sdp
      | _, None => (t2, [])
      end in
    let! incomplete := checked_sub (length (wt_peers t3)) (wt_ns t3) in
    Ok (wset s (q_v6 rq) (aput N.eqb (q_hash rq) t3 m),
        outs1 ++ outs2 ++ [WAnnounce (q_consumer rq) (q_conn rq) (q_hash rq) (wt_ns t3) incomplete]).

Definition ws_announce := ws_announce_gen false.

(* handle_scrape_request: only torrents present in the map are listed *)
Fixpoint ws_scrape_loop (m : wmap) (hs : list N) (acc : list (N * (nat * nat))) : outcome (list (N * (nat * nat))) :=
  match hs with
  | [] => Ok acc
  | h :: t =>
      match aget N.eqb h m with
      | Some tor =>
          let! inc := checked_sub (length (wt_peers tor)) (wt_ns tor) in
          ws_scrape_loop m t (aput N.eqb h (wt_ns tor, inc) acc)
      | None => ws_scrape_loop m t acc
      end
  end.

Definition ws_scrape (cfg : wcfg) (s : wstate) (consumer conn : N) (v6 : bool) (hashes : option (list N))
  : outcome (list wout) :=
  match hashes with
  | None => Ok []
  | Some hs =>
      let! files := ws_scrape_loop (wfam s v6) (firstn (Nat.min (length hs) (wc_max_scrape cfg)) hs) [] in
      Ok [WScrape consumer conn files]
  end.

(* handle_connection_closed: removal BY PEER ID, no ownership test *)
Definition ws_closed (s : wstate) (v6 : bool) (hash pid : N) : outcome wstate :=
  let m := wfam s v6 in
  match aget N.eqb hash m with
  | None => Ok s
  | Some t =>
      match aswap_remove N.eqb pid (wt_peers t) with
      | (Some p, ps) =>
          let! ns := (if w_seeder p then checked_pred (wt_ns t) else Ok (wt_ns t)) in
          Ok (wset s v6 (aput N.eqb hash (mkWt ps ns) m))
      | (None, _) => Ok s
      end
  end.

(* TorrentData::clean_and_get_num_peers *)
Fixpoint ws_clean_peers (now : N) (ps : list (N * wpeer)) (ns : nat) : outcome (list (N * wpeer) * nat) :=
  match ps with
  | [] => Ok ([], ns)
  | (pid, p) :: t =>
      let p' := mkWpeer (w_consumer p) (w_conn p) (w_seeder p) (w_until p)
                        (filter (fun e => vu_valid (snd e) now) (w_expect p)) in
      let keep := vu_valid (w_until p) now in
      let! ns1 := (if negb keep && w_seeder p then checked_pred ns else Ok ns) in
      let! (t', ns2) := ws_clean_peers now t ns1 in
      Ok (if keep then (pid, p') :: t' else t', ns2)
  end.

Fixpoint ws_clean_fam (now : N) (mode : acl_mode) (acl : list N) (m : wmap) : outcome wmap :=
  match m with
  | [] => Ok []
  | (h, t) :: r =>
      if negb (allows mode acl h) then ws_clean_fam now mode acl r
      else
        let! (ps, ns) := ws_clean_peers now (wt_peers t) (wt_ns t) in
        let! r' := ws_clean_fam now mode acl r in
        Ok (match ps with [] => r' | _ => (h, mkWt ps ns) :: r' end)
  end.

Inductive wop :=
| WOpAnnounce (rq : wreq) (now : N) (o1 o2 : nat)
| WOpScrape (consumer conn : N) (v6 : bool) (hashes : option (list N))
| WOpClosed (v6 : bool) (hash pid : N)
| WOpClean (now : N) (mode : acl_mode) (acl : list N).

Definition ws_step_gen (strict : bool) (cfg : wcfg) (s : wstate) (op : wop) : outcome (wstate * list wout) :=
  match op with
  | WOpAnnounce rq now o1 o2 => ws_announce_gen strict cfg s rq now o1 o2
  | WOpScrape c k v6 hs => let! outs := ws_scrape cfg s c k v6 hs in Ok (s, outs)
  | WOpClosed v6 h pid => let! s' := ws_closed s v6 h pid in Ok (s', [])
  | WOpClean now mode acl =>
      let! m4 := ws_clean_fam now mode acl (w4 s) in
      let! m6 := ws_clean_fam now mode acl (w6 s) in
      Ok (mkW m4 m6, [])
  end.

Definition ws_step := ws_step_gen false.
