(* Deadlines (crates/common/src/lib.rs: `ValidUntil`, `SecondsSinceServerStart`).
   The clock is the whole-second u32 sample of the handling worker. *)
From Aquatic Require Export Outcome.

Definition u32_max : N := 4294967295.

(* ValidUntil::new / new_with_now: sample + age, saturating at u32::MAX *)
Definition valid_until_new (sample age : N) : N := N.min (sample + age) u32_max.

(* ValidUntil::valid *)
Definition vu_valid (until now : N) : bool := N.ltb now until.

(* correspondence code for the harness suite `valid-until` *)
Definition vu_code (c : N * N * bool * list (N * bool)) : N :=
  let '(sample, age, _, obs) := c in
  let u := valid_until_new sample age in
  let fix go (i : N) (l : list (N * bool)) : N :=
    match l with
    | [] => 0%N
    | (now, v) :: t => if Bool.eqb (vu_valid u now) v then go (N.succ i) t else N.succ i
    end in
  (go 0%N obs * 4 + (if N.leb (sample + age) u32_max then 1 else 3))%N.
