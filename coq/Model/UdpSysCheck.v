(* Correspondence of the handler model with a RUNNING udp tracker (harness suite `udp-sys`, both
   socket backends).  The harness brackets every test datagram with two marker connects from the
   same client socket; the markers' replies give the tracker's clock (first half of the
   connection id) before and after, and everything the client socket received in between is the
   reply list of the step.  The keyed hash is observed as a table from all connect replies; for
   inputs never observed the table answers [dflt], a value the harness chose different from the
   hash half of every id it sent (so that a forged id is valid only with the 2^-32 chance the
   real hash gives it).
   The swarm is an oracle here (the reply the tracker actually sent, parsed): this function
   checks the REPLY CONTRACT (C06); reply contents are judged by the reference tracker through
   the C01/C02 monitors at the end. *)
From Aquatic Require Export UdpHandler UdpCodecGen Monitors.
From Aquatic Require Import Bep15 UdpCodecFacts.
Local Open Scope N_scope.

Inductive sys_step :=
| SysStep (ip : string) (port now0 now1 : N) (dgram : string) (replies : list string) (strays : N)
(* the access list file was rewritten so that the case's listed torrents are [acl] (an unreadable
   line added when [ok] = false) and the process got SIGUSR1 *)
| SysReload (acl : list string) (ok : bool).

Definition sys_case : Type :=
  bool * nat * nat * N * acl_mode * list string * Z * N * list (string * N) * list sys_step.

Fixpoint table_mac_d (dflt : N) (tbl : list (string * N)) (input : list N) : N :=
  match tbl with
  | [] => dflt
  | (k, v) :: t => if bytes_eqb (bytes_of_hex k) input then v else table_mac_d dflt t input
  end.

Fixpoint table_functional (tbl : list (string * N)) : bool :=
  match tbl with
  | [] => true
  | (k, v) :: t => forallb (fun kv => negb (String.eqb (fst kv) k) || N.eqb (snd kv) v) t && table_functional t
  end.

Notation LY := bep15_layouts.

Definition fixed_field (fixed : list fval) (name : string) : Z := int_of (field_at bep15_announce_fixed fixed name).

(* the boolean form of UdpHandlerFacts.reply_kind_ok + transaction id echo + announce interval *)
Definition reply_okb (interval : Z) (from : sockaddr) (bytes : list N) (rq : presult request) (r : response) : bool :=
  Z.eqb (response_tid LY r) (request_tid bytes)
  && match rq, r with
     | POk (UdpCodec.RConnect _), SConnect _ => true
     | POk (UdpCodec.RAnnounce _), SAnnounce v6 fixed _ =>
         Bool.eqb v6 (negb (is_v4 (canonical from))) && Z.eqb (fixed_field fixed "announce_interval") interval
     | POk (UdpCodec.RAnnounce _), SError _ m => bytes_eqb m not_allowed_text
     | POk (UdpCodec.RScrape _ _ hs), SScrape _ stats => Nat.eqb (length stats) (length hs)
     | PErr (Sendable _ _ k), SError _ m => bytes_eqb m (err_text k)
     | _, _ => false
     end.

Definition backend_of (uring : bool) (ip : list N) : backend :=
  if uring then Uring (N.to_nat uring_REQUEST_BUF_LEN) (Nat.eqb (length ip) 16) else Mio (N.to_nat udp_BUFFER_SIZE).

Definition step_ok_at (uring : bool) (cfg : hconf) (mac : list N -> N) (interval : Z) (s : sys_step) (now : N) : bool :=
  match s with
  | SysReload _ _ => true
  | SysStep ip port _ _ dgram replies strays =>
      let from := SA (bytes_of_hex ip) port in
      let bytes := bytes_of_hex dgram in
      let v6 := negb (is_v4 (canonical from)) in
      let observed := match replies with [b] => parse_response LY (bytes_of_hex b) v6 | _ => None end in
      let o_announce := fun (_ : unit) (_ : sockaddr) (_ : list fval) =>
        match observed with Some (SAnnounce f x p) => Ok (tt, SAnnounce f x p) | _ => Ok (tt, SError 0 []) end in
      let o_scrape := fun (_ : unit) (_ : sockaddr) (_ : Z) (_ : list (list N)) =>
        match observed with Some (SScrape t st) => Ok (SScrape t st) | _ => Ok (SError 0 []) end in
      N.eqb strays 0 &&
      match serve LY mac unit o_announce o_scrape (backend_of uring (bytes_of_hex ip)) cfg now tt from bytes with
      | Ok (_, None) => match replies with [] => true | _ => false end
      | Ok (_, Some r) =>
          match replies with
          | [b] => bytes_eqb (write_response LY r) (bytes_of_hex b)
                   && reply_okb interval from bytes (parse_request LY (firstn (N.to_nat udp_BUFFER_SIZE) bytes) (hc_max_scrape cfg)) r
          | _ => false
          end
      | Panic => false
      end
  end.

(* the tracker's clock is known to lie between the two markers *)
Definition step_ok uring cfg mac interval (s : sys_step) : bool :=
  match s with
  | SysReload _ _ => true
  | SysStep _ _ now0 now1 _ _ _ => step_ok_at uring cfg mac interval s now0 || step_ok_at uring cfg mac interval s now1
  end.

(* ---- reply contents: the accepted announces and scrapes as a swarm history ---- *)
Definition peer_key (ip : list N) (port : Z) : N := be_dec ip * 65536 + Z.to_N port.

Definition step_swarm_op (cfg : hconf) (s : sys_step) : option (uop * uout) :=
  match s with
  | SysStep ip port _ _ dgram [b] _ =>
      let from := canonical (SA (bytes_of_hex ip) port) in
      let v6 := negb (is_v4 from) in
      let bytes := firstn (N.to_nat udp_BUFFER_SIZE) (bytes_of_hex dgram) in
      match parse_request LY bytes (hc_max_scrape cfg), parse_response LY (bytes_of_hex b) v6 with
      | POk (UdpCodec.RAnnounce vs), Some (SAnnounce _ fixed peers) =>
          let f := fun name => field_at bep15_announce_request vs name in
          Some (UAnnounce v6 (be_dec (bytes_of (f "info_hash"))) (peer_key (sa_octets from) (int_of (f "port")))
                          (Z.to_N (int_of (f "event"))) (int_of (f "bytes_left")) (be_dec (bytes_of (f "peer_id"))) 0
                          (int_of (f "peers_wanted")) 0 0,
                OAnnounce (fixed_field fixed "seeders") (fixed_field fixed "leechers")
                          (map (fun p => peer_key (bytes_of (field_at bep15_peer p "ip_address")) (int_of (field_at bep15_peer p "port"))) peers)
                          [])
      | POk (UdpCodec.RScrape _ _ hs), Some (SScrape _ stats) =>
          Some (UScrape v6 (map be_dec hs),
                OScrape (map (fun st => (int_of (field_at bep15_scrape_stats st "seeders"),
                                         int_of (field_at bep15_scrape_stats st "leechers"))) stats))
      | _, _ => None
      end
  | _ => None
  end.

Fixpoint swarm_history (cfg : hconf) (steps : list sys_step) : list (N * (uop * uout)) :=
  let fix go (i : N) (l : list sys_step) :=
    match l with
    | [] => []
    | s :: t => match step_swarm_op cfg s with Some x => (i, x) :: go (N.succ i) t | None => go (N.succ i) t end
    end in go 0 steps.

Fixpoint mon_indexed (max_resp : nat) (r : rstate) (h : list (N * (uop * uout))) : option N :=
  match h with
  | [] => None
  | (i, (op, out)) :: t =>
      if mon_op 3 max_resp r op out then mon_indexed max_resp (fst (r_step r op)) t else Some i
  end.

Definition answered (s : sys_step) : bool := match s with SysStep _ _ _ _ _ [] _ => false | SysReload _ _ => false | _ => true end.
Definition is_connect (s : sys_step) : bool :=
  match s with
  | SysStep _ _ _ _ d _ _ =>
    match parse_request LY (bytes_of_hex d) 1 with POk (UdpCodec.RConnect _) => true | _ => false end
  | SysReload _ _ => false
  end.

(* code / 4: 0 = agreement, else 1 + index of the first step that breaks the contract (or whose
   reply contents differ from the reference tracker's); flags 3 = the case has an answered
   non-connect datagram and an unanswered one *)
Definition udp_sys_code (c : sys_case) : N :=
  let '(uring, max_scrape, max_resp, age, mode, acl, interval, dflt, tbl, steps) := c in
  let cfg := mkHconf max_scrape age mode (map (fun h => be_dec (bytes_of_hex h)) acl) in
  let mac := table_mac_d dflt tbl in
  let fix go (i : N) (cfg : hconf) (l : list sys_step) : N :=
    match l with
    | [] => 0
    | SysReload acl' ok :: t =>
        go (N.succ i) (if ok then mkHconf max_scrape age mode (map (fun h => be_dec (bytes_of_hex h)) acl') else cfg) t
    | s :: t => if step_ok uring cfg mac interval s then go (N.succ i) cfg t else N.succ i
    end in
  let contract := if table_functional tbl && table_injective tbl then go 0 cfg steps else 1 in
  let bad := if N.eqb contract 0
             then match mon_indexed max_resp rinit (swarm_history cfg steps) with None => 0 | Some i => N.succ i end
             else contract in
  bad * 4 + (if existsb (fun s => answered s && negb (is_connect s)) steps && existsb (fun s => negb (answered s)) steps then 3 else 1).

(* harness `udp-quiet`: on a tracker that receives nothing for longer than max_connection_age
   (plus one clock-refresh period), an id issued before must be answered before and NOT after *)
Definition quiet_code (c : bool * list (bool * bool)) : N :=
  let '(_, obs) := c in
  (if forallb (fun o => fst o && negb (snd o)) obs then 0 else 1) * 4 + 3.
