(* Executable model of the http request codec (crates/http_protocol/src/{request,utils}.rs).
   A query string is a list of Unicode scalar values (the code slices a &str at the byte
   positions of '=' and '&', which are ASCII, so character positions give the same slices).
   `urlencoding::decode` (used for the optional `key` parameter only) is a Section variable. *)
From Coq Require Import String Ascii.
From Aquatic Require Export Outcome Bytes HttpResp.
Local Open Scope N_scope.

Definition ch_eq : N := 61.   (* '=' *)
Definition ch_amp : N := 38.  (* '&' *)
Definition ch_pct : N := 37.  (* '%' *)

Definition hexv (b : N) : option N :=
  if (48 <=? b) && (b <=? 57) then Some (b - 48)
  else if (97 <=? b) && (b <=? 102) then Some (b - 87)
  else if (65 <=? b) && (b <=? 70) then Some (b - 55)
  else None.

Definition hexd (v : N) : N := if v <? 10 then 48 + v else 87 + v.   (* lower case, as `hex` *)

(* urlencode_20_bytes: "%hh" for every byte *)
Definition urlencode (bs : list N) : list N :=
  flat_map (fun b => [ch_pct; hexd (b / 16); hexd (b mod 16)]) bs.

(* urldecode_20_bytes: exactly [n] output bytes; a character above U+00FF is an error; after '%'
   the next two characters are cast `as u8` (truncated to their low byte) and hex-decoded *)
Fixpoint urldecode_n (n : nat) (s : list N) : option (list N * list N) :=
  match n with
  | O => Some ([], s)
  | S n' =>
      match s with
      | [] => None
      | c :: t =>
          if 255 <? c then None
          else if N.eqb c ch_pct then
            match t with
            | h1 :: h2 :: t' =>
                match hexv (h1 mod 256), hexv (h2 mod 256) with
                | Some a, Some b =>
                    match urldecode_n n' t' with
                    | Some (bs, rest) => Some (a * 16 + b :: bs, rest)
                    | None => None
                    end
                | _, _ => None
                end
            | _ => None
            end
          else
            match urldecode_n n' t with
            | Some (bs, rest) => Some (c :: bs, rest)
            | None => None
            end
      end
  end.

Definition urldecode20 (s : list N) : option (list N) :=
  match urldecode_n 20 s with
  | Some (bs, []) => Some bs
  | _ => None
  end.

(* str::parse::<usize / u16>: optional '+', at least one ASCII digit, no overflow *)
Fixpoint parse_digits (acc : N) (s : list N) : option N :=
  match s with
  | [] => Some acc
  | c :: t => if (48 <=? c) && (c <=? 57) then parse_digits (acc * 10 + (c - 48)) t else None
  end.
Definition parse_uint (max : N) (s : list N) : option N :=
  let s' := match s with 43 :: t => t | _ => s end in
  match s' with
  | [] => None
  | _ => match parse_digits 0 s' with
         | Some v => if v <=? max then Some v else None
         | None => None
         end
  end.

Definition usize_max : N := 18446744073709551615.

Definition utf8_len (c : N) : nat := if c <? 128 then 1 else if c <? 2048 then 2 else if c <? 65536 then 3 else 4.
Definition utf8_length (s : list N) : nat := fold_right (fun c acc => (utf8_len c + acc)%nat) 0%nat s.

Inductive aevent := EvStarted | EvStopped | EvCompleted | EvEmpty.

Record areq := mkAreq {
  a_info_hash : list N; a_peer_id : list N; a_port : N;
  a_uploaded : N; a_downloaded : N; a_left : N;
  a_event : aevent; a_numwant : option N; a_key : option (list N)
}.

Inductive hrequest := HReqAnnounce (r : areq) | HReqScrape (hashes : list (list N)).

Fixpoint positions_of (c : N) (i : nat) (s : list N) : list nat :=
  match s with
  | [] => []
  | x :: t => if N.eqb x c then i :: positions_of c (S i) t else positions_of c (S i) t
  end.

Definition slice {A} (a b : nat) (s : list A) : list A := firstn (b - a) (skipn a s).

Section Parse.
  Variable url_decode : list N -> option (list N).     (* urlencoding::decode *)

  Definition seq_eqb (a : list N) (s : string) : bool := bytes_eqb a (str s).

  Record acc := mkAcc {
    o_info_hash : option (list N); o_peer_id : option (list N); o_port : option N;
    o_left : option N; o_uploaded : option N; o_downloaded : option N;
    o_event : aevent; o_numwant : option N; o_key : option (list N)
  }.
  Definition acc0 : acc := mkAcc None None None None None None EvEmpty None None.

  Definition announce_kv (a : acc) (key value : list N) : option acc :=
    if seq_eqb key "info_hash" then
      match urldecode20 value with Some v => Some (mkAcc (Some v) (o_peer_id a) (o_port a) (o_left a) (o_uploaded a) (o_downloaded a) (o_event a) (o_numwant a) (o_key a)) | None => None end
    else if seq_eqb key "peer_id" then
      match urldecode20 value with Some v => Some (mkAcc (o_info_hash a) (Some v) (o_port a) (o_left a) (o_uploaded a) (o_downloaded a) (o_event a) (o_numwant a) (o_key a)) | None => None end
    else if seq_eqb key "port" then
      match parse_uint 65535 value with Some v => Some (mkAcc (o_info_hash a) (o_peer_id a) (Some v) (o_left a) (o_uploaded a) (o_downloaded a) (o_event a) (o_numwant a) (o_key a)) | None => None end
    else if seq_eqb key "left" then
      match parse_uint usize_max value with Some v => Some (mkAcc (o_info_hash a) (o_peer_id a) (o_port a) (Some v) (o_uploaded a) (o_downloaded a) (o_event a) (o_numwant a) (o_key a)) | None => None end
    else if seq_eqb key "uploaded" then
      match parse_uint usize_max value with Some v => Some (mkAcc (o_info_hash a) (o_peer_id a) (o_port a) (o_left a) (Some v) (o_downloaded a) (o_event a) (o_numwant a) (o_key a)) | None => None end
    else if seq_eqb key "downloaded" then
      match parse_uint usize_max value with Some v => Some (mkAcc (o_info_hash a) (o_peer_id a) (o_port a) (o_left a) (o_uploaded a) (Some v) (o_event a) (o_numwant a) (o_key a)) | None => None end
    else if seq_eqb key "event" then
      let ev := if seq_eqb value "started" then Some EvStarted else if seq_eqb value "stopped" then Some EvStopped
                else if seq_eqb value "completed" then Some EvCompleted else if seq_eqb value "empty" then Some EvEmpty else None in
      match ev with Some e => Some (mkAcc (o_info_hash a) (o_peer_id a) (o_port a) (o_left a) (o_uploaded a) (o_downloaded a) e (o_numwant a) (o_key a)) | None => None end
    else if seq_eqb key "compact" then (if seq_eqb value "1" then Some a else None)
    else if seq_eqb key "numwant" then
      match parse_uint usize_max value with Some v => Some (mkAcc (o_info_hash a) (o_peer_id a) (o_port a) (o_left a) (o_uploaded a) (o_downloaded a) (o_event a) (Some v) (o_key a)) | None => None end
    else if seq_eqb key "key" then
      if (100 <? utf8_length value)%nat then None
      else match url_decode value with Some k => Some (mkAcc (o_info_hash a) (o_peer_id a) (o_port a) (o_left a) (o_uploaded a) (o_downloaded a) (o_event a) (o_numwant a) (Some k)) | None => None end
    else Some a.

  (* the lock-step walk over the '=' and '&' positions (parse_query_string of both request kinds) *)
  Fixpoint walk {S : Type} (kv : S -> list N -> list N -> option S) (s : list N) (eqs amps : list nat) (position : nat) (st : S)
    : option S :=
    match eqs with
    | [] => Some st
    | e :: eqs' =>
        let '(seg_end, amps') := match amps with a :: t => (a, t) | [] => (length s, []) end in
        if (e <? position)%nat then None                           (* key = s.get(position..eq) *)
        else if (seg_end <? e + 1)%nat then None                   (* value = s.get(eq+1..segment_end) *)
        else
          match kv st (slice position e s) (slice (e + 1) seg_end s) with
          | None => None
          | Some st' => if Nat.eqb seg_end (length s) then Some st' else walk kv s eqs' amps' (seg_end + 1) st'
          end
    end.

  Definition parse_query {S} (kv : S -> list N -> list N -> option S) (s : list N) (st : S) : option S :=
    walk kv s (positions_of ch_eq 0 s) (positions_of ch_amp 0 s) 0 st.

  Definition parse_announce_query (s : list N) : option areq :=
    match parse_query announce_kv s acc0 with
    | Some a =>
        match o_info_hash a, o_peer_id a, o_port a, o_uploaded a, o_downloaded a, o_left a with
        | Some ih, Some pid, Some port, Some up, Some down, Some lft =>
            Some (mkAreq ih pid port up down lft (o_event a) (o_numwant a) (o_key a))
        | _, _, _, _, _, _ => None
        end
    | None => None
    end.

  Definition scrape_kv (hs : list (list N)) (key value : list N) : option (list (list N)) :=
    if seq_eqb key "info_hash" then
      match urldecode20 value with Some v => Some (hs ++ [v]) | None => None end
    else Some hs.

  Definition parse_scrape_query (s : list N) : option (list (list N)) :=
    match parse_query scrape_kv s [] with
    | Some [] => None             (* "No info hashes sent" *)
    | r => r
    end.

  (* parse_http_get_path: splitn(2, '?') *)
  Fixpoint split_q (cur : list N) (s : list N) : option (list N * list N) :=
    match s with
    | [] => None
    | c :: t => if N.eqb c 63 then Some (rev cur, t) else split_q (c :: cur) t
    end.

  Definition parse_path (path : list N) : option hrequest :=
    match split_q [] path with
    | None => None
    | Some (loc, q) =>
        if seq_eqb loc "/announce" then option_map HReqAnnounce (parse_announce_query q)
        else if seq_eqb loc "/scrape" then option_map HReqScrape (parse_scrape_query q)
        else None
    end.

  (* ---- writers (the path part of AnnounceRequest::write_bytes / ScrapeRequest::write_bytes) ---- *)
  Variable url_encode : list N -> list N.             (* urlencoding::encode *)

  Definition write_announce_path (suffix : list N) (r : areq) : list N :=
    str "/announce" ++ suffix ++ str "?info_hash=" ++ urlencode (a_info_hash r)
    ++ str "&peer_id=" ++ urlencode (a_peer_id r)
    ++ str "&port=" ++ itoa (a_port r)
    ++ str "&uploaded=" ++ itoa (a_uploaded r)
    ++ str "&downloaded=" ++ itoa (a_downloaded r)
    ++ str "&left=" ++ itoa (a_left r)
    ++ match a_event r with
       | EvStarted => str "&event=started" | EvStopped => str "&event=stopped"
       | EvCompleted => str "&event=completed" | EvEmpty => []
       end
    ++ match a_numwant r with Some n => str "&numwant=" ++ itoa n | None => [] end
    ++ match a_key r with Some k => str "&key=" ++ url_encode k | None => [] end
    ++ str "&compact=1".

  Fixpoint join_hashes (hs : list (list N)) : list N :=
    match hs with
    | [] => []
    | [h] => str "info_hash=" ++ urlencode h
    | h :: t => str "info_hash=" ++ urlencode h ++ [ch_amp] ++ join_hashes t
    end.

  Definition write_scrape_path (suffix : list N) (hs : list (list N)) : list N :=
    str "/scrape" ++ suffix ++ str "?" ++ join_hashes hs.
End Parse.
