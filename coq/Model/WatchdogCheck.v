(* harness suite `watchdog` judged with the scan periods regenerated from the three lib.rs *)
From Aquatic Require Export Watchdog Consts.
Local Open Scope N_scope.

Definition period_of (t : tracker) : N :=
  match t with TUdp => udp_watchdog_period | THttp => http_watchdog_period | TWs => ws_watchdog_period end.

(* code / 4 = 0, or 1 + index of the first observation that breaks the property; flags 3 = the
   fault fired (the scenario was exercised) *)
Definition wd_code (c : wd_case) : N :=
  let '(t, _, _, _, obs) := c in
  let fix go (i : N) (l : list wd_obs) : N :=
    match l with
    | [] => 0
    | o :: r => if wd_obs_ok (period_of t) o then go (N.succ i) r else N.succ i
    end in
  go 0 obs * 4 + (if existsb (fun o => match o with WdObs _ _ _ fired _ _ _ _ _ => fired end) obs then 3 else 1).
