(* UDP connection ids (crates/udp/src/workers/socket/validator.rs).
   An id is 8 bytes: the issue time (whole seconds, u32, native = little endian byte order) and
   the first 4 bytes of a keyed BLAKE3 hash of (those 4 bytes ++ the octets of the source IP).
   The keyed hash is a Section variable: every theorem holds for ANY function. *)
From Aquatic Require Export Outcome Bytes.
Local Open Scope N_scope.

Definition le32 (n : N) : list N :=
  [n mod 256; (n / 256) mod 256; (n / 65536) mod 256; (n / 16777216) mod 256].

Definition u32_of (bs : list N) : N :=
  match bs with
  | [a; b; c; d] => a + 256 * b + 65536 * c + 16777216 * d
  | _ => 0
  end.

Definition two32 : N := 4294967296.
Definition two64 : N := 18446744073709551616.

Section Validator.
  (* keyed BLAKE3 in XOF mode, first 32 bits of output, as a number *)
  Variable mac : list N -> N.

  Definition tag (input : list N) : list N := le32 (mac input mod two32).

  (* create_connection_id at clock [now] for the source address with octets [ip] *)
  Definition create (now : N) (ip : list N) : list N :=
    le32 now ++ tag (le32 now ++ ip).

  (* connection_id_valid; the two sums are u64 additions (written with the wrap-around) *)
  Definition valid (now age : N) (ip : list N) (id : list N) : bool :=
    let e := firstn 4 id in
    let t := skipn 4 id in
    if negb (bytes_eqb t (tag (e ++ ip))) then false
    else
      let client_elapsed := u32_of e in
      let expiration := (client_elapsed + age) mod two64 in
      let not_expired := now <? expiration in
      let not_far_future := client_elapsed <=? (now + 60) mod two64 in
      not_expired && not_far_future.
End Validator.

(* ---- correspondence (harness suite `validator`): the keyed hash is observed from the
   implementation as a table (input bytes as hex string |-> 32-bit tag) ---- *)
From Coq Require Import String.
From Aquatic Require Import AccessListFile.

Fixpoint table_mac (tbl : list (string * N)) (input : list N) : N :=
  match tbl with
  | [] => 0
  | (k, v) :: t => if bytes_eqb (bytes_of_hex k) input then v else table_mac t input
  end.

(* distinct inputs must carry distinct tags (a 2^-32 event otherwise): catches a MAC that
   ignores part of its input *)
Fixpoint table_injective (tbl : list (string * N)) : bool :=
  match tbl with
  | [] => true
  | (k, v) :: t => forallb (fun kv => negb (N.eqb (snd kv) v) || String.eqb (fst kv) k) t && table_injective t
  end.

(* case: (age, table, [ (now, ip hex, id hex, impl says valid) ]) ; every issued id in the case
   was produced by the implementation, forged/altered ones by the harness *)
Definition validator_code (c : N * list (string * N) * list (N * string * string * bool)) : N :=
  let '(age, tbl, qs) := c in
  let fix go (i : N) (l : list (N * string * string * bool)) : N :=
    match l with
    | [] => 0
    | (now, ip, id, v) :: t =>
        if Bool.eqb (valid (table_mac tbl) now age (bytes_of_hex ip) (bytes_of_hex id)) v then go (N.succ i) t else N.succ i
    end in
  let r := go 0 qs in
  ((if table_injective tbl then r else 1) * 4 + (if existsb (fun q => snd q) qs && existsb (fun q => negb (snd q)) qs then 3 else 1))%N.
