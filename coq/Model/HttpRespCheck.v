(* correspondence for the harness suites `http-resp` and `config-refusal` *)
From Coq Require Import String.
From Aquatic Require Export HttpResp AccessListFile.
From Aquatic Require Import Consts.
Local Open Scope N_scope.

Definition hx := bytes_of_hex.

Inductive resp_case :=
| RAnn (complete incomplete interval : N) (p4 p6 : list (string * N)) (warning : option string) (impl : string)
| RScr (files : list (string * (N * N))) (impl : string)
| RFail (reason : string) (impl : string).

Definition resp_case_ok (c : resp_case) : bool :=
  match c with
  | RAnn co inc iv p4 p6 w impl =>
      bytes_eqb (write_announce co inc iv (map (fun p => (hx (fst p), snd p)) p4) (map (fun p => (hx (fst p), snd p)) p6)
                                (option_map hx w)) (hx impl)
  | RScr files impl => bytes_eqb (write_scrape (map (fun f => (hx (fst f), snd f)) files)) (hx impl)
  | RFail reason impl => bytes_eqb (write_failure (hx reason)) (hx impl)
  end.

Definition http_resp_code (c : bool * list resp_case) : N :=
  let '(_, cs) := c in
  let fix go (i : N) (l : list resp_case) : N :=
    match l with [] => 0 | x :: t => if resp_case_ok x then go (N.succ i) t else N.succ i end in
  (go 0 cs * 4 + 3)%N.

(* (tracker 0 = udp / 2 = http, value tried, refused by run()?): a value above the limit the
   source declares must be refused *)
Definition refusal_code (c : bool * list (N * N * bool)) : N :=
  let '(_, cs) := c in
  let ok (x : N * N * bool) : bool :=
    let '(which, v, refused) := x in
    let limit := if N.eqb which 0 then udp_MAX_RESPONSE_PEERS_LIMIT else http_MAX_PEERS_LIMIT in
    Bool.eqb refused (N.ltb limit v) in
  ((if forallb ok cs then 0 else 1) * 4 + 3)%N.
