(* correspondence for the harness suite `ws-codec` *)
From Coq Require Import String Ascii.
From Aquatic Require Export WsCodec.
Local Open Scope N_scope.

(* transport form of a JSON tree: keys as code-point lists *)
Inductive jraw :=
| RNull | RBool (b : bool) | RNum (n : N) | ROther            (* ROther: negative / fractional number *)
| RStr (s : list N) | RArr (l : list jraw) | RObj (fields : list (list N * jraw)).

Definition key_string (k : list N) : string := string_of_list_ascii (map ascii_of_N k).

Fixpoint of_raw (r : jraw) : jv :=
  match r with
  | RNull => JNull
  | RBool b => JBool b
  | RNum n => JNum n
  | ROther => JBool false          (* any non-number: every numeric field rejects it *)
  | RStr s => JStr s
  | RArr l => JArr (map of_raw l)
  | RObj fs => JObj (map (fun f => (key_string (fst f), of_raw (snd f))) fs)
  end.

(* tree equality modulo the order of object fields *)
Fixpoint jv_eqb (a b : jv) {struct a} : bool :=
  match a, b with
  | JNull, JNull => true
  | JBool x, JBool y => Bool.eqb x y
  | JNum x, JNum y => N.eqb x y
  | JStr x, JStr y => bytes_eqb x y
  | JArr x, JArr y =>
      (fix go (l1 : list jv) (l2 : list jv) : bool :=
         match l1, l2 with
         | [], [] => true
         | p :: l1', q :: l2' => jv_eqb p q && go l1' l2'
         | _, _ => false
         end) x y
  | JObj x, JObj y =>
      Nat.eqb (length x) (length y)
      && (fix go (l1 : list (string * jv)) : bool :=
            match l1 with
            | [] => true
            | (k, v) :: l1' => match jget k y with Some w => jv_eqb v w | None => false end && go l1'
            end) x
  | _, _ => false
  end.

Definition oN_eqb (a b : option N) := match a, b with Some x, Some y => N.eqb x y | None, None => true | _, _ => false end.
Definition oL_eqb (a b : option (list N)) := match a, b with Some x, Some y => bytes_eqb x y | None, None => true | _, _ => false end.
Definition ev_eqb (a b : option wevent) :=
  match a, b with
  | Some WEvStarted, Some WEvStarted | Some WEvStopped, Some WEvStopped | Some WEvCompleted, Some WEvCompleted
  | Some WEvUpdate, Some WEvUpdate | None, None => true
  | _, _ => false
  end.
Fixpoint offers_eqb (a b : list woffer) :=
  match a, b with
  | [], [] => true
  | x :: a', y :: b' => bytes_eqb (wo_sdp x) (wo_sdp y) && bytes_eqb (wo_id x) (wo_id y) && offers_eqb a' b'
  | _, _ => false
  end.
Fixpoint ids_eqb (a b : list (list N)) :=
  match a, b with [], [] => true | x :: a', y :: b' => bytes_eqb x y && ids_eqb a' b' | _, _ => false end.

Definition inmsg_eqb (a b : option inmsg) : bool :=
  match a, b with
  | None, None => true
  | Some (InAnnounce x), Some (InAnnounce y) =>
      bytes_eqb (wa_info_hash x) (wa_info_hash y) && bytes_eqb (wa_peer_id x) (wa_peer_id y)
      && oN_eqb (wa_left x) (wa_left y) && ev_eqb (wa_event x) (wa_event y)
      && match wa_offers x, wa_offers y with Some p, Some q => offers_eqb p q | None, None => true | _, _ => false end
      && oN_eqb (wa_numwant x) (wa_numwant y) && oL_eqb (wa_answer x) (wa_answer y)
      && oL_eqb (wa_to_peer_id x) (wa_to_peer_id y) && oL_eqb (wa_offer_id x) (wa_offer_id y)
  | Some (InScrape None), Some (InScrape None) => true
  | Some (InScrape (Some (WSingle x))), Some (InScrape (Some (WSingle y))) => bytes_eqb x y
  | Some (InScrape (Some (WMultiple x))), Some (InScrape (Some (WMultiple y))) => ids_eqb x y
  | _, _ => false
  end.

Inductive ws_codec_case :=
| WIn (m : inmsg) (text_tree : jraw) (parsed_back : bool)     (* to_ws_message: tree of the text; both Text and Binary parse back to m *)
| WParse (tree : jraw) (impl : option inmsg)                 (* from_ws_message of a hand-built text *)
| WOut (m : outmsg) (text_tree : jraw) (parsed_back : bool).

Definition ws_codec_case_ok (c : ws_codec_case) : bool :=
  match c with
  | WIn m t back => jv_eqb (in_json m) (of_raw t) && back && inmsg_eqb (of_in_json (of_raw t)) (Some m)
  | WParse t impl => inmsg_eqb (of_in_json (of_raw t)) impl
  | WOut m t back => jv_eqb (out_json m) (of_raw t) && back
  end.

Definition ws_codec_code (c : bool * list ws_codec_case) : N :=
  let '(_, cs) := c in
  let fix go (i : N) (l : list ws_codec_case) : N :=
    match l with [] => 0 | x :: t => if ws_codec_case_ok x then go (N.succ i) t else N.succ i end in
  (go 0 cs * 4
   + (if existsb (fun x => match x with WParse _ (Some _) => true | _ => false end) cs
         && existsb (fun x => match x with WParse _ None => true | _ => false end) cs then 3 else 1))%N.
