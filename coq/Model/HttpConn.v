(* The http tracker above one swarm worker's storage (crates/http/src/workers/socket/connection.rs):
   - requests are routed to swarm worker  info_hash[0] % swarm_workers
     (calculate_request_consumer_index); a scrape is cut to max_scrape_torrents, split by worker
     in request order, the partial replies are merged in a BTreeMap (wait_for_scrape_responses);
   - the reply is framed in a buffer that is REUSED for every reply of the connection: the eight
     Content-Length bytes are blanked and rewritten each time (write_response).
   Identifiers are numbers whose lowest byte is the first byte of the 20-byte string (the
   harness encoding `id20`), so the routing byte is  h mod 256. *)
From Aquatic Require Export HttpSwarm HttpResp.

Definition route (k : nat) (h : N) : nat := (N.to_nat (h mod 256) mod k)%nat.

Definition wget (ws : list hstate) (j : nat) : hstate := nth j ws hinit.

Fixpoint wset (ws : list hstate) (j : nat) (s : hstate) : list hstate :=
  match ws, j with
  | [], _ => []
  | _ :: t, O => s :: t
  | x :: t, S j' => x :: wset t j' s
  end.

Definition part (k j : nat) (hashes : list N) : list N := filter (fun h => Nat.eqb (route k h) j) hashes.

(* one partial scrape per worker, in worker order (a BTreeMap<usize, Vec<InfoHash>>) *)
Fixpoint scrape_parts (cfg : hcfg) (k : nat) (ws : list hstate) (v6 : bool) (asked : list N) (js : list nat)
  : outcome (list (N * (nat * nat))) :=
  match js with
  | [] => Ok []
  | j :: t =>
      let! files := h_scrape cfg (hfam (wget ws j) v6) (part k j asked) in
      let! rest := scrape_parts cfg k ws v6 asked t in
      Ok (files ++ rest)
  end.

Fixpoint clean_all (cfg : hcfg) (now : N) (mode : acl_mode) (acl : list N) (ws : list hstate)
  : outcome (list hstate * (nat * nat)) :=
  match ws with
  | [] => Ok ([], (0, 0)%nat)
  | s :: t =>
      let! (s', out) := h_step cfg s (HClean now mode acl) in
      let! (t', (a, b)) := clean_all cfg now mode acl t in
      match out with
      | HOClean t4 t6 => Ok (s' :: t', (t4 + a, t6 + b)%nat)
      | _ => Panic
      end
  end.

(* the whole tracker: k swarm workers *)
(* [cut]: is the scrape's hash list cut to max_scrape_torrents before it is split (a fact
   regenerated from connection.rs)?  Without the cut every worker caps only its own share. *)
Definition sys_step (cfg : hcfg) (cut : bool) (k : nat) (ws : list hstate) (op : hop) : outcome (list hstate * hout) :=
  match op with
  | HAnnounce v6 hash _ _ _ _ _ _ _ =>
      let j := route k hash in
      let! (s', out) := h_step cfg (wget ws j) op in
      Ok (wset ws j s', out)
  | HScrape v6 hashes =>
      let asked := if cut then firstn (hc_max_scrape cfg) hashes else hashes in
      let! files := scrape_parts cfg k ws v6 asked (seq 0 k) in
      Ok (ws, HOScrape files)
  | HClean now mode acl =>
      let! (ws', (a, b)) := clean_all cfg now mode acl ws in
      Ok (ws', HOClean a b)
  end.

Fixpoint sys_run (cfg : hcfg) (cut : bool) (k : nat) (ws : list hstate) (ops : list hop) : outcome (list hstate * list hout) :=
  match ops with
  | [] => Ok (ws, [])
  | op :: t =>
      let! (ws', out) := sys_step cfg cut k ws op in
      let! (ws'', outs) := sys_run cfg cut k ws' t in
      Ok (ws'', out :: outs)
  end.

Definition sys_init (k : nat) : list hstate := repeat hinit k.

(* connection.rs handle_request, the announce gate: a torrent the access list forbids is answered
   with a failure by the socket worker; the request never reaches a swarm worker *)
Definition http_forbidden (mode : acl_mode) (acl : list N) (op : hop) : bool :=
  match op with
  | HAnnounce _ hash _ _ _ _ _ _ _ => negb (allows mode acl hash)
  | _ => false
  end.

Inductive greply := GOut (o : hout) | GFailureNotAllowed.

Definition sys_gate (mode : acl_mode) (acl : list N) (cfg : hcfg) (cut : bool) (k : nat) (ws : list hstate) (op : hop)
  : outcome (list hstate * greply) :=
  if http_forbidden mode acl op then Ok (ws, GFailureNotAllowed)
  else let! (ws', out) := sys_step cfg cut k ws op in Ok (ws', GOut out).

(* ---- framing in the reused response buffer ---- *)
Section Reuse.
  Variables (HA HB HC : list N) (buf_size : nat).

  (* slice[start..start+len(src)].copy_from_slice(src) at the start of a region *)
  Definition overwrite (src region : list N) : list N := src ++ skipn (length src) region.

  (* [prev] = what the eight Content-Length bytes held after the previous reply *)
  Definition patch_length (prev : list N) (content_len : list N) : list N :=
    overwrite content_len (overwrite HB prev).

  Definition frame_reusing (prev : list N) (body : list N) : frame_result :=
    let cap := (buf_size - header_len HA HB HC)%nat in
    let written := Nat.min (length body) cap in
    let position := (header_len HA HB HC + written)%nat in
    if (buf_size <? position + 2)%nat then ResponseBufferFull
    else Framed (HA ++ patch_length prev (itoa (N.of_nat (written + 2)%nat)) ++ HC ++ firstn written body ++ [13%N; 10%N]).

  (* the Content-Length bytes a framed reply leaves behind *)
  Definition length_field (body : list N) : list N :=
    overwrite (itoa (N.of_nat (Nat.min (length body) (buf_size - header_len HA HB HC) + 2)%nat)) HB.
End Reuse.
