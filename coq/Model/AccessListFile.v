(* Access-list files (crates/common/src/access_list.rs): `AccessList::create_from_path`,
   `parse_info_hash`, `update_access_list`.  A file is a list of bytes.
   Not modelled: Rust's `str::trim` also strips non-ASCII Unicode white space and `lines()`
   fails on invalid UTF-8; the model treats every byte >= 0x80 as making the reload fail, and
   the correspondence generator only places such bytes where the real code fails as well. *)
From Aquatic Require Export AccessList.
Local Open Scope N_scope.

Definition is_ws (b : N) : bool :=
  N.eqb b 32 || (N.leb 9 b && N.leb b 13).

(* BufRead::lines: split at '\n'; a final line without newline counts; a trailing "\r" of a
   line is stripped (it is white space anyway and would be trimmed) *)
Fixpoint split_lines_aux (cur : list N) (bytes : list N) : list (list N) :=
  match bytes with
  | [] => match cur with [] => [] | _ => [rev cur] end
  | b :: t => if N.eqb b 10 then rev cur :: split_lines_aux [] t else split_lines_aux (b :: cur) t
  end.
Definition split_lines (bytes : list N) : list (list N) := split_lines_aux [] bytes.

Fixpoint drop_ws (l : list N) : list N :=
  match l with
  | b :: t => if is_ws b then drop_ws t else l
  | [] => []
  end.
Definition trim (l : list N) : list N := rev (drop_ws (rev (drop_ws l))).

Definition hex_val (b : N) : option N :=
  if N.leb 48 b && N.leb b 57 then Some (b - 48)
  else if N.leb 97 b && N.leb b 102 then Some (b - 87)
  else if N.leb 65 b && N.leb b 70 then Some (b - 55)
  else None.

(* hex::decode_to_slice into a 20-byte array: odd length, wrong length or a non-hex character
   are all errors *)
Fixpoint decode_hex (l : list N) : option (list N) :=
  match l with
  | [] => Some []
  | a :: b :: t =>
      match hex_val a, hex_val b, decode_hex t with
      | Some x, Some y, Some r => Some (x * 16 + y :: r)
      | _, _, _ => None
      end
  | [_] => None
  end.

Definition parse_line (l : list N) : option (list N) :=
  match decode_hex l with
  | Some bs => if Nat.eqb (length bs) 20%nat then Some bs else None
  | None => None
  end.

(* the loop of create_from_path over trimmed lines; blank lines are skipped *)
Fixpoint parse_lines (ls : list (list N)) : option (list (list N)) :=
  match ls with
  | [] => Some []
  | l :: t =>
      match l with
      | [] => parse_lines t
      | _ => match parse_line l, parse_lines t with
             | Some h, Some r => Some (h :: r)
             | _, _ => None
             end
      end
  end.

Definition ascii_only (bytes : list N) : bool := forallb (fun b => N.ltb b 128) bytes.

Definition parse_file (bytes : list N) : option (list (list N)) :=
  if ascii_only bytes then parse_lines (map trim (split_lines bytes)) else None.

(* the identifier encoding used by the state-machine models: bytes as a little-endian number *)
Fixpoint le_num (bs : list N) : N :=
  match bs with [] => 0 | b :: t => b + 256 * le_num t end.

(* AccessListArcSwap::update via update_access_list: the new list is stored only after the whole
   file was read and parsed; with mode off the file is not even opened.  [io] = None: the file
   cannot be opened / read. *)
Definition reload (mode : acl_mode) (cur : list N) (io : option (list N)) : list N * bool :=
  match mode with
  | AclOff => (cur, true)
  | _ =>
      match io with
      | None => (cur, false)
      | Some bytes =>
          match parse_file bytes with
          | Some hs => (map le_num hs, true)
          | None => (cur, false)
          end
      end
  end.

(* ---- correspondence (harness suite `access-list`) ---- *)
From Coq Require Import String Ascii.

Definition hexchar_val (c : ascii) : N :=
  let n := N_of_ascii c in
  if N.leb 97 n then n - 87 else n - 48.

Fixpoint bytes_of_hex (s : string) : list N :=
  match s with
  | String a (String b t) => (hexchar_val a * 16 + hexchar_val b)%N :: bytes_of_hex t
  | _ => []
  end.

(* one step: reload from [io] under [mode], result flag, then the answers of
   allows(allow/deny/off, h) for each probe hash *)
Definition acl_step_ok (cur : list N) (mode : acl_mode) (io : option string) (ok : bool)
           (probes : list (N * bool * bool * bool)) : option (list N) :=
  let '(cur', ok') := reload mode cur (option_map bytes_of_hex io) in
  if Bool.eqb ok ok'
     && forallb (fun p => let '(h, a, d, o) := p in
                          Bool.eqb a (allows AclAllow cur' h) && Bool.eqb d (allows AclDeny cur' h)
                          && Bool.eqb o (allows AclOff cur' h)) probes
  then Some cur' else None.

Fixpoint acl_check (cur : list N) (i : N) (steps : list (acl_mode * option string * bool * list (N * bool * bool * bool))) : N :=
  match steps with
  | [] => 0%N
  | (mode, io, ok, probes) :: t =>
      match acl_step_ok cur mode io ok probes with
      | Some cur' => acl_check cur' (N.succ i) t
      | None => N.succ i
      end
  end.

Definition acl_code (c : bool * list (acl_mode * option string * bool * list (N * bool * bool * bool))) : N :=
  let '(has_failed_reload, steps) := c in
  (acl_check [] 0%N steps * 4 + (if has_failed_reload then 3 else 1))%N.

(* a two-line example file: padding, mixed case, CRLF, a blank line, a tab and a space at the end *)
Definition example_file : list N :=
  bytes_of_hex "20616130303030303030303030303030303030303030303030303030303030303030303030303030300d0a0a424230303030303030303030303030303030303030303030303030303030303030303030303030300920".
