(* C20: the statistics worker's per-client tally and the scrape-export file protocol
   (crates/udp/src/workers/statistics/mod.rs; crates/udp/src/swarm.rs
   `clean_and_update_statistics`). *)
From Aquatic Require Export PeerMap.

(* ---- tally: IndexMap<PeerId, count>; PeerAdded +1 (insert at 0 first); PeerRemoved -1 on a
   present id, dropping the entry at 0; PeerRemoved of an absent id is ignored ---- *)
Definition tally := list (N * nat).

Fixpoint tally_count (t : tally) (pid : N) : nat :=
  match t with
  | [] => 0
  | (p, c) :: r => if N.eqb p pid then c else tally_count r pid
  end.

Fixpoint tally_add (pid : N) (t : tally) : tally :=
  match t with
  | [] => [(pid, 1)]
  | (p, c) :: r => if N.eqb p pid then (p, S c) :: r else (p, c) :: tally_add pid r
  end.

Fixpoint tally_remove (pid : N) (t : tally) : tally :=
  match t with
  | [] => []
  | (p, c) :: r =>
      if N.eqb p pid then (if c =? 1 then r else (p, c - 1) :: r)
      else (p, c) :: tally_remove pid r
  end.

Definition tally_step (t : tally) (m : statmsg) : tally :=
  match m with
  | PeerAdded pid => tally_add pid t
  | PeerRemoved pid => tally_remove pid t
  end.

Definition tally_run (msgs : list statmsg) : tally := fold_left tally_step msgs [].

(* ---- the export protocol as file-system steps.  Two names matter: the configured path and
   the temporary path (same name with extension "tmp").  A BufWriter holds written lines in
   memory until they are flushed; a crash loses the buffer. ---- *)
Inductive fstep :=
| FCreateTmp                     (* File::create(tmp): create or truncate *)
| FWriteLine (line : list N)     (* writeln! into the BufWriter (may or may not reach the file) *)
| FFlush                         (* w.flush() *)
| FClose                         (* drop(w) *)
| FRename.                       (* fs::rename(tmp, path): atomic replace *)

Record fs := mkFs {
  f_path : option (list (list N));   (* lines of the file at the configured path *)
  f_tmp : option (list (list N));    (* lines that reached the temporary file *)
  f_buf : list (list N)              (* lines still in the BufWriter *)
}.

(* [spill]: how many buffered lines the BufWriter happens to write through on this step (its
   8 KiB buffer fills up) - any number, chosen by an oracle *)
Definition fs_step (spill : nat) (s : fs) (st : fstep) : fs :=
  match st with
  | FCreateTmp => mkFs (f_path s) (Some []) []
  | FWriteLine l =>
      let buf := f_buf s ++ [l] in
      let k := Nat.min spill (length buf) in
      mkFs (f_path s) (option_map (fun t => t ++ firstn k buf) (f_tmp s)) (skipn k buf)
  | FFlush => mkFs (f_path s) (option_map (fun t => t ++ f_buf s) (f_tmp s)) []
  | FClose => s
  | FRename => match f_tmp s with
               | Some t => mkFs (Some t) None (f_buf s)
               | None => s
               end
  end.

Definition export_steps (lines : list (list N)) : list fstep :=
  FCreateTmp :: map FWriteLine lines ++ [FFlush; FClose; FRename].

Fixpoint fs_run (spills : nat -> nat) (i : nat) (s : fs) (steps : list fstep) : fs :=
  match steps with
  | [] => s
  | st :: r => fs_run spills (S i) (fs_step (spills i) s st) r
  end.

(* the file system a reader (or a restarted tracker) finds after a crash following the first k
   steps: buffers are gone, the files are what they are *)
Definition crash_view (spills : nat -> nat) (old : option (list (list N))) (lines : list (list N)) (k : nat)
  : option (list (list N)) :=
  f_path (fs_run spills 0 (mkFs old None []) (firstn k (export_steps lines))).

(* correspondence code for the harness suite `export-crash`: the child process was aborted
   after the k-th export step; status 0 = the path holds the previous complete file (or nothing
   when there was none), 1 = the new complete file, 2 = anything else *)
Definition export_code (c : nat * bool * nat * list (bool * N)) : N :=
  let '(n, had_old, k, obs) := c in
  let old := if had_old then Some [[0%N]] else None in
  let lines := map (fun i => [N.of_nat (S i)]) (seq 0 n) in
  let expect : N :=
    match crash_view (fun _ => 0) old lines k, old with
    | None, None => 0%N
    | Some [[0%N]], Some _ => 0%N
    | _, _ => 1%N
    end in
  match obs with
  | [(_, status)] => ((if N.eqb status expect then 0 else 1) * 4 + (if Nat.ltb 0 k && Nat.leb k (n + 3) then 3 else 1))%N
  | _ => 4%N
  end.
