(* Source addresses (crates/common/src/lib.rs `CanonicalSocketAddr::new`, crates/ws/src/common.rs
   `IpVersion::canonical_from_ip`, crates/http/src/workers/socket/{request,connection}.rs).
   An address is its octet list (4 or 16) and a port. *)
From Aquatic Require Export Outcome Bytes.
Local Open Scope N_scope.

Inductive sockaddr := SA (octets : list N) (port : N).

(* [0,0,0,0,0,0,0,0,0,0,0xff,0xff,a,b,c,d] *)
Definition mapped_prefix : list N := [0; 0; 0; 0; 0; 0; 0; 0; 0; 0; 255; 255].

Definition mapped_v4 (o : list N) : option (list N) :=
  if Nat.eqb (length o) 16 && bytes_eqb (firstn 12 o) mapped_prefix then Some (skipn 12 o) else None.

Definition canonical (a : sockaddr) : sockaddr :=
  match a with
  | SA o p => match mapped_v4 o with Some v4 => SA v4 p | None => SA o p end
  end.

Definition is_v4 (a : sockaddr) : bool := match a with SA o _ => Nat.eqb (length o) 4 end.

(* IpVersion::canonical_from_ip: true = V6 *)
Definition ws_is_v6 (o : list N) : bool :=
  if Nat.eqb (length o) 4 then false else match mapped_v4 o with Some _ => false | None => true end.

(* the key under which the udp / http swarm stores a peer: canonical source ip, REQUEST port.
   The request's own ip field is an argument that is dropped. *)
Definition peer_key (src : sockaddr) (req_port : N) (req_ip_field : list N) : list N * N :=
  match canonical src with SA o _ => (o, req_port) end.

(* ---- HTTP behind a reverse proxy ---- *)
Section Forwarded.
  (* str::parse::<IpAddr> on UTF-8 text, not modelled: any function *)
  Variable parse_ip : list N -> option (list N).

  Definition is_http_ws (b : N) : bool := N.eqb b 32 || (N.leb 9 b && N.leb b 13).
  Fixpoint drop_ws' (l : list N) : list N :=
    match l with b :: t => if is_http_ws b then drop_ws' t else l | [] => [] end.
  Definition trim' (l : list N) : list N := rev (drop_ws' (rev (drop_ws' l))).

  (* str::split(',').last() *)
  Fixpoint last_piece_aux (cur : list N) (l : list N) : list N :=
    match l with
    | [] => rev cur
    | b :: t => if N.eqb b 44 then last_piece_aux [] t else last_piece_aux (b :: cur) t
    end.
  Definition last_piece (v : list N) : list N := last_piece_aux [] v.

  (* parse_forwarded_header: scan the headers from the END; the first whose name equals the
     configured name exactly decides (no fall-through to earlier ones when it does not parse) *)
  Fixpoint forwarded_rev (name : list N) (hs_rev : list (list N * list N)) : option (option (list N)) :=
    match hs_rev with
    | [] => None                                   (* header not present *)
    | (n, v) :: t => if bytes_eqb n name then Some (parse_ip (trim' (last_piece v))) else forwarded_rev name t
    end.
  Definition forwarded (name : list N) (hs : list (list N * list N)) : option (option (list N)) :=
    forwarded_rev name (rev hs).

  (* the address a request is attributed to; None = the request is not served (the code panics
     by design when the proxy header is missing or unparsable) *)
  Definition http_peer_addr (behind_proxy : bool) (name : list N) (tcp_remote : sockaddr) (hs : list (list N * list N))
    : option sockaddr :=
    if behind_proxy then
      match forwarded name hs with
      | Some (Some ip) => Some (canonical (SA ip (match tcp_remote with SA _ p => p end)))
      | _ => None
      end
    else Some (canonical tcp_remote).
End Forwarded.

(* ---- correspondence (harness suite `addr`) ---- *)
From Coq Require Import String.
From Aquatic Require Import AccessListFile.

Definition octets_eqb := bytes_eqb.

Fixpoint table_parse (tbl : list (string * option string)) (text : list N) : option (list N) :=
  match tbl with
  | [] => None
  | (k, v) :: t => if bytes_eqb (bytes_of_hex k) text then option_map bytes_of_hex v else table_parse t text
  end.

Inductive addr_case :=
| ACanon (octets : string) (port : N) (impl_octets : string) (impl_port : N) (impl_ws_v6 : bool)
| AHeader (behind : bool) (name : string) (remote : string) (remote_port : N)
          (headers : list (string * string)) (tbl : list (string * option string))
          (impl : option (string * N)).          (* attributed (octets, port); None = rejected *)

Definition addr_case_ok (c : addr_case) : bool :=
  match c with
  | ACanon o p io ip wsv6 =>
      match canonical (SA (bytes_of_hex o) p) with
      | SA o' p' => bytes_eqb o' (bytes_of_hex io) && N.eqb p' ip && Bool.eqb (ws_is_v6 (bytes_of_hex o)) wsv6
      end
  | AHeader behind name remote rport hs tbl impl =>
      let r := http_peer_addr (table_parse tbl) behind (bytes_of_hex name) (SA (bytes_of_hex remote) rport)
                              (map (fun h => (bytes_of_hex (fst h), bytes_of_hex (snd h))) hs) in
      match r, impl with
      | Some (SA o p), Some (io, ip) => bytes_eqb o (bytes_of_hex io) && N.eqb p ip
      | None, None => true
      | _, _ => false
      end
  end.

Definition addr_code (c : bool * list addr_case) : N :=
  let '(_, cs) := c in
  let fix go (i : N) (l : list addr_case) : N :=
    match l with [] => 0 | x :: t => if addr_case_ok x then go (N.succ i) t else N.succ i end in
  (go 0 cs * 4 + 3)%N.
