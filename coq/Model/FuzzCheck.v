(* C12, testing part: the fuzz stream's oracle.  Each item is (kind of input, input length,
   largest number of bytes any one parser call requested from the allocator).  The claim checked
   is the allocation clause of C12 with explicit constants: bytes requested <= alloc_factor * len
   + alloc_base.  (Panics are caught by the harness and reported by the driver.) *)
From Coq Require Export List NArith Bool.
Export ListNotations.
Local Open Scope N_scope.

Definition alloc_factor : N := 128.
Definition alloc_base : N := 8192.

Definition alloc_ok (len used : N) : bool := used <=? alloc_factor * len + alloc_base.

Fixpoint first_bad (i : N) (items : list (N * N * N)) : N :=
  match items with
  | [] => 0
  | (_, len, used) :: t => if alloc_ok len used then first_bad (i + 1) t else i + 1
  end.

(* code: 4 * (1 + index of the first item over the bound) + flags; flags 3 = the case mixes
   unstructured (kind 0) and structure-aware inputs *)
Definition fuzz_code (c : bool * list (N * N * N)) : N :=
  let items := snd c in
  let has0 := existsb (fun it => N.eqb (fst (fst it)) 0) items in
  let hasS := existsb (fun it => negb (N.eqb (fst (fst it)) 0)) items in
  4 * first_bad 0 items + (if has0 && hasS then 3 else 1).
