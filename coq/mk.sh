#!/bin/bash
# dev helper: full build with a time limit; prints errors, or TIMEOUT / OK explicitly
cd /verif/coq
out=$(timeout ${1:-600} make -j16 2>&1); rc=$?
echo "$out" | grep -B2 -A25 "Error" | grep -v "^Closed" | head -${2:-40}
if [ $rc -eq 124 ]; then echo "TIMEOUT (still compiling: $(ps aux | grep '[c]oqc' | grep -o '[A-Za-z/0-9]*\.v' | sort -u | tr '\n' ' '))"; pkill -f "coqc -q" ; elif [ $rc -eq 0 ]; then echo "BUILD OK"; else echo "BUILD FAILED rc=$rc"; fi
