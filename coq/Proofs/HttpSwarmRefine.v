(* C07: the http swarm storage model refines the reference tracker, for every history. *)
From Aquatic Require Import RefSwarm HttpSwarm PeerMapFacts Selection PeerMapRefine SwarmCommon.

(* reference behaviour of the http operations over the same reference state *)
Inductive hrout :=
| HRAnnounce (complete incomplete : nat)
| HRScrape
| HRClean.

Definition hr_step (r : rstate) (op : hop) : rstate * hrout :=
  match op with
  | HAnnounce v6 hash key stopped bleft until want _ _ =>
      let '(e', (s, l)) := ref_announce (r v6 hash) key (hstatus_of stopped bleft) 0%N until in
      (rset r v6 hash e', HRAnnounce s l)
  | HScrape _ _ => (r, HRScrape)
  | HClean now mode acl =>
      (fun f h => if allows mode acl h then ref_clean now (r f h) else [], HRClean)
  end.

Fixpoint hr_final (r : rstate) (ops : list hop) : rstate :=
  match ops with [] => r | op :: t => hr_final (fst (hr_step r op)) t end.

Lemma assoc_insert_keys {V} k (v : V) l :
  map fst (assoc_insert k v l) = if existsb (N.eqb k) (map fst l) then map fst l else map fst l ++ [k].
Proof.
  induction l as [|[k' v'] t IH]; cbn; [reflexivity|].
  rewrite (N.eqb_sym k k'). destruct (N.eqb_spec k' k) as [->|Hne]; cbn; [reflexivity|].
  rewrite IH. destruct (existsb (N.eqb k) (map fst t)); reflexivity.
Qed.

Lemma assoc_insert_nodup {V} k (v : V) l : NoDup (map fst l) -> NoDup (map fst (assoc_insert k v l)).
Proof.
  intros H. rewrite assoc_insert_keys. destruct (existsb (N.eqb k) (map fst l)) eqn:E; [exact H|].
  apply NoDup_app_snoc; [exact H|]. intros Hin.
  assert (existsb (N.eqb k) (map fst l) = true) by (apply existsb_exists; exists k; split; [exact Hin|apply N.eqb_refl]).
  congruence.
Qed.

Lemma assoc_insert_in {V} k (v : V) l x w :
  In (x, w) (assoc_insert k v l) -> (x = k /\ w = v) \/ In (x, w) l.
Proof.
  induction l as [|[k' v'] t IH]; cbn.
  - intros [H|[]]. inversion H; auto.
  - destruct (N.eqb_spec k' k) as [->|Hne]; cbn.
    + intros [H|H]; [inversion H; auto|auto].
    + intros [H|H]; [auto|]. destruct (IH H); auto.
Qed.

Lemma assoc_insert_key_in {V} k (v : V) l x :
  In x (map fst (assoc_insert k v l)) <-> x = k \/ In x (map fst l).
Proof.
  rewrite assoc_insert_keys. destruct (existsb (N.eqb k) (map fst l)) eqn:E.
  - apply existsb_exists in E. destruct E as [y [Hy Heq]]. apply N.eqb_eq in Heq. subst y.
    split; [auto|]. intros [->|H]; assumption.
  - rewrite in_app_iff. cbn. split; [intros [H|[H|[]]]; auto|intros [H|H]; auto].
Qed.

Section Http.
  Variable cfg : hcfg.
  Let cap := hc_cap cfg.
  Notation fam_rel := (fam_rel cap false).
  Notation pm_clean_pure := (pm_clean_pure cap false).
  Notation clean_entry := (clean_entry cap false).

  Definition HR (s : hstate) (r : rstate) : Prop := forall v6, fam_rel (hfam s v6) (r v6).

  Lemma HR_init : HR hinit rinit.
  Proof.
    intros v6. split; [destruct v6; constructor|]. intros h.
    destruct v6; cbn; (split; [apply small_nil_inv|constructor]).
  Qed.

  Lemma hfam_hset_same s v6 tm : hfam (hset s v6 tm) v6 = tm.
  Proof. destruct v6; reflexivity. Qed.

  Lemma hfam_hset_other s v6 tm : hfam (hset s v6 tm) (negb v6) = hfam s (negb v6).
  Proof. destruct v6; reflexivity. Qed.

  (* what a scrape reply must look like: one entry per distinct requested hash among the first
     max_scrape_torrents, carrying the reference counts (zeros when the reference holds nothing) *)
  Definition scrape_ok (r : rstate) (v6 : bool) (hashes : list N) (files : list (N * (nat * nat))) : Prop :=
    let asked := firstn (Nat.min (length hashes) (hc_max_scrape cfg)) hashes in
    NoDup (map fst files)
    /\ (forall h, In h (map fst files) <-> In h asked)
    /\ (forall h c, In (h, c) files -> c = ref_counts (r v6 h)).

  Definition hobs_ok (r : rstate) (op : hop) (out : hout) : Prop :=
    match op, out, snd (hr_step r op) with
    | HAnnounce v6 hash key _ _ _ want _ _, HOAnnounce s l peers, HRAnnounce s' l' =>
        s = s' /\ l = l'
        /\ selection_ok key (ref_remove key (r v6 hash)) (limit_http want (hc_max_peers cfg)) peers
    | HScrape v6 hashes, HOScrape files, HRScrape => scrape_ok r v6 hashes files
    | HClean _ _ _, HOClean _ _, HRClean => True
    | _, _, _ => False
    end.

  Lemma scrape_loop_spec tm rf hs : forall acc,
    fam_rel tm rf ->
    NoDup (map fst acc) -> (forall h c, In (h, c) acc -> c = ref_counts (rf h)) ->
    exists files, h_scrape_loop tm hs acc = Ok files
      /\ NoDup (map fst files)
      /\ (forall h, In h (map fst files) <-> In h (map fst acc) \/ In h hs)
      /\ (forall h c, In (h, c) files -> c = ref_counts (rf h)).
  Proof.
    induction hs as [|h t IH]; intros acc Hrel Hnd Hval; cbn [h_scrape_loop].
    - exists acc. split; [reflexivity|]. split; [exact Hnd|]. split; [|exact Hval].
      intros x. cbn. tauto.
    - destruct Hrel as [Hwf Hrel']. destruct (Hrel' h) as [Hinv Href]. unfold tm_get in Hinv, Href.
      assert (Hc : (match tm_find h tm with Some pm => pm_counts pm | None => Ok (0, 0) end) = Ok (ref_counts (rf h))).
      { destruct (tm_find h tm) as [pm|].
        - apply (pm_counts_refines cap false); assumption.
        - unfold pm_refines in Href; cbn in Href. apply Permutation_nil in Href. rewrite Href. reflexivity. }
      rewrite Hc. cbn [obind].
      destruct (IH (assoc_insert h (ref_counts (rf h)) acc) (conj Hwf Hrel')) as (files & Hf & Hnd' & Hkeys & Hvals).
      + apply assoc_insert_nodup, Hnd.
      + intros x c Hin. apply assoc_insert_in in Hin. destruct Hin as [[-> ->]|Hin]; [reflexivity|apply Hval, Hin].
      + exists files. split; [exact Hf|]. split; [exact Hnd'|]. split; [|exact Hvals].
        intros x. rewrite Hkeys, assoc_insert_key_in. cbn. intuition congruence.
  Qed.

  (* ---------- clean ---------- *)
  Lemma h_clean_fam_spec now mode acl tm :
    Forall (fun e => pmap_inv cap false (snd e)) tm ->
    h_clean_fam cfg now mode acl tm
    = Ok (filter (fun e => negb (pm_is_empty (snd e)))
                 (map (clean_entry now) (filter (fun e => allows mode acl (fst e)) tm))).
  Proof.
    induction 1 as [|[h pm] t Hpm _ IH]; cbn [h_clean_fam filter map]; [reflexivity|].
    cbn [fst snd] in *. destruct (allows mode acl h); cbn [negb].
    - destruct (pm_clean_ok cap false false pm now Hpm) as (Hc & _ & Hent).
      fold cap. rewrite Hc. unfold ref_counts. cbn [obind]. rewrite IH. cbn [obind map filter].
      change (clean_entry now (h, pm)) with (h, pm_clean_pure now pm). cbn [fst snd]. unfold pm_is_empty. rewrite Hent.
      pose proof (count_seeders_le (filter (peer_valid now) (pm_entries pm))) as Hle.
      destruct (filter (peer_valid now) (pm_entries pm)) as [|e l'] eqn:E; cbn [negb length].
      + unfold count_seeders; cbn. reflexivity.
      + match goal with |- context [?a <? ?b] => destruct (Nat.ltb_spec a b) end; [reflexivity|].
        exfalso. cbn [length] in *. lia.
    - exact IH.
  Qed.

  Lemma clean_fam_refines now mode acl tm rf :
    fam_rel tm rf ->
    exists tm2,
      h_clean_fam cfg now mode acl tm = Ok tm2
      /\ fam_rel tm2 (fun h => if allows mode acl h then ref_clean now (rf h) else [])
      /\ Forall (fun e => pm_is_empty (snd e) = false) tm2.
  Proof.
    intros Hrel. pose proof (fam_rel_forall cap false _ _ Hrel) as Hall. destruct Hrel as [Hwf Hrel].
    rewrite (h_clean_fam_spec now mode acl tm Hall).
    eexists. split; [reflexivity|].
    set (f := fun e : N * pmap => allows mode acl (fst e)).
    assert (Hwf0 : tm_wf (filter f tm)) by (apply filter_wf, Hwf).
    assert (Hwf1 : tm_wf (map (clean_entry now) (filter f tm))) by (unfold tm_wf; rewrite map_clean_keys; exact Hwf0).
    split; [split; [apply filter_wf, Hwf1|]|].
    - intros h. unfold tm_get.
      rewrite (tm_find_filter _ h _ Hwf1), tm_find_map_clean, (tm_find_filter f h _ Hwf).
      destruct (Hrel h) as [Hinv Href]. unfold tm_get in Hinv, Href.
      destruct (tm_find h tm) as [pm|]; cbn [option_map].
      + subst f. cbn [fst]. destruct (allows mode acl h); cbn [option_map].
        * destruct (pm_clean_ok cap false false pm now Hinv) as (_ & Hinv' & Hent).
          cbn [snd]. unfold pm_is_empty. rewrite Hent.
          assert (Hp : Permutation (filter (peer_valid now) (pm_entries pm)) (ref_clean now (rf h))) by (apply filter_perm, Href).
          destruct (filter (peer_valid now) (pm_entries pm)) eqn:E; cbn [negb].
          -- split; [apply small_nil_inv|exact Hp].
          -- split; [exact Hinv'|]. unfold pm_refines. rewrite Hent. exact Hp.
        * split; [apply small_nil_inv|constructor].
      + split; [apply small_nil_inv|].
        unfold pm_refines in *. cbn in *. apply Permutation_nil in Href. rewrite Href. cbn.
        destruct (allows mode acl h); constructor.
    - apply Forall_forall. intros e Hin. apply filter_In in Hin. destruct Hin as [_ Hne].
      destruct (pm_is_empty (snd e)); [discriminate|reflexivity].
  Qed.

  (* ---------- one step ---------- *)
  Theorem hstep_refines s r op :
    HR s r ->
    exists s' out, h_step cfg s op = Ok (s', out) /\ HR s' (fst (hr_step r op)) /\ hobs_ok r op out.
  Proof.
    intros HRs. destruct op as [v6 hash key stopped bleft until want o1 o2|v6 hashes|now mode acl].
    - cbn [h_step]. unfold h_announce.
      destruct (HRs v6) as [Hwf Hrel]. destruct (Hrel hash) as [Hinv Href].
      destruct (pm_announce_refines cap false _ _ key (hstatus_of stopped bleft) 0%N until
                  (limit_http want (hc_max_peers cfg)) o1 o2 Hinv Href)
        as (pm' & rep & removed & Ha & Hinv' & Href' & Hcnt & _ & Hsel).
      fold cap. rewrite Ha. cbn [obind].
      do 2 eexists. split; [reflexivity|]. split.
      + intros f. cbn [hr_step].
        destruct (ref_announce (r v6 hash) key (hstatus_of stopped bleft) 0%N until) as [e' [s0 l0]] eqn:Er.
        cbn [fst snd] in *.
        destruct (Bool.eqb_spec f v6) as [->|Hf].
        * rewrite hfam_hset_same. split; [apply tm_set_wf, Hwf|].
          intros h. unfold rset. rewrite Bool.eqb_reflx. cbn [andb].
          destruct (N.eqb_spec h hash) as [->|Hne].
          -- rewrite tm_get_set_same. split; assumption.
          -- rewrite tm_get_set_other by exact Hne. apply Hrel.
        * assert (f = negb v6) by (destruct f, v6; try reflexivity; exfalso; apply Hf; reflexivity). subst f.
          rewrite hfam_hset_other. destruct (HRs (negb v6)) as [Hwf2 Hrel2]. split; [exact Hwf2|].
          intros h. unfold rset. destruct (Bool.eqb_spec (negb v6) v6) as [E|_]; [destruct v6; discriminate|].
          cbn [andb]. apply Hrel2.
      + unfold hobs_ok. cbn [hr_step].
        destruct (ref_announce (r v6 hash) key (hstatus_of stopped bleft) 0%N until) as [e' [s0 l0]] eqn:Er.
        cbn [fst snd] in *. inversion Hcnt; subst. split; [reflexivity|]. split; [reflexivity|exact Hsel].
    - cbn [h_step]. unfold h_scrape.
      destruct (scrape_loop_spec (hfam s v6) (r v6)
                  (firstn (Nat.min (length hashes) (hc_max_scrape cfg)) hashes) [] (HRs v6))
        as (files & Hf & Hnd & Hk & Hv); [constructor|intros ? ? []|].
      rewrite Hf. cbn [obind]. do 2 eexists. split; [reflexivity|]. split; [exact HRs|].
      unfold hobs_ok, scrape_ok. cbn. split; [exact Hnd|]. split; [|exact Hv].
      intros h. rewrite Hk. cbn. tauto.
    - cbn [h_step].
      destruct (clean_fam_refines now mode acl _ _ (HRs false)) as (tm4 & H4 & R4 & _).
      destruct (clean_fam_refines now mode acl _ _ (HRs true)) as (tm6 & H6 & R6 & _).
      cbn [hfam] in H4, H6. rewrite H4. cbn [obind]. rewrite H6. cbn [obind].
      do 2 eexists. split; [reflexivity|]. split; [|unfold hobs_ok; cbn; exact I].
      intros f. cbn [hr_step fst]. destruct f; cbn [hfam h4 h6]; assumption.
  Qed.

  Fixpoint htrace_ok (r : rstate) (ops : list hop) (outs : list hout) : Prop :=
    match ops, outs with
    | [], [] => True
    | op :: ops', out :: outs' => hobs_ok r op out /\ htrace_ok (fst (hr_step r op)) ops' outs'
    | _, _ => False
    end.

  Theorem hrun_refines ops : forall s r,
    HR s r ->
    exists s' outs, h_run cfg s ops = Ok (s', outs) /\ HR s' (hr_final r ops) /\ htrace_ok r ops outs.
  Proof.
    induction ops as [|op t IH]; intros s r HRs; cbn [h_run hr_final].
    - do 2 eexists. split; [reflexivity|]. split; [exact HRs|exact I].
    - destruct (hstep_refines s r op HRs) as (s1 & out & Hs & HR1 & Hobs).
      rewrite Hs. cbn [obind].
      destruct (IH s1 _ HR1) as (s2 & outs & Hr & HR2 & Htr).
      rewrite Hr. cbn [obind].
      do 2 eexists. split; [reflexivity|]. split; [exact HR2|]. cbn [htrace_ok]. split; assumption.
  Qed.

  (* after a cleaning pass no stored torrent is empty *)
  Theorem clean_drops_empty s now mode acl s' out :
    (exists r, HR s r) -> h_step cfg s (HClean now mode acl) = Ok (s', out) ->
    forall v6, Forall (fun e => pm_is_empty (snd e) = false) (hfam s' v6).
  Proof.
    intros [r HRs] Hstep v6. cbn [h_step] in Hstep.
    destruct (clean_fam_refines now mode acl _ _ (HRs false)) as (tm4 & H4 & _ & E4).
    destruct (clean_fam_refines now mode acl _ _ (HRs true)) as (tm6 & H6 & _ & E6).
    cbn [hfam] in H4, H6. rewrite H4 in Hstep. cbn [obind] in Hstep. rewrite H6 in Hstep. cbn [obind] in Hstep.
    inversion Hstep; subst. destruct v6; cbn; assumption.
  Qed.
End Http.
