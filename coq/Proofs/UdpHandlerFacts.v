(* C06: the reply contract of the udp datagram handler, for any keyed hash, any swarm
   implementation, any state, any source and ANY byte string. *)
From Coq Require Import Zify ZifyN ZifyBool.
From Aquatic Require Import Layout LayoutFacts UdpCodec Bep15 UdpCodecFacts UdpHandler.
Local Open Scope N_scope.

(* ---------- where a field of a decoded struct sits in the bytes ---------- *)
Fixpoint field_offset (ipw : nat) (l : layout) (name : string) (off : nat) : option (nat * fty) :=
  match l with
  | [] => None
  | (n, t) :: l' => if String.eqb n name then Some (off, t) else field_offset ipw l' name (off + fwidth ipw t)
  end.

Lemma dec_prefix_field ipw l : forall bytes vs rest name off0 off t,
  dec_prefix ipw l bytes = Some (vs, rest) ->
  field_offset ipw l name off0 = Some (off, t) ->
  field_at l vs name = dec_field ipw t (firstn (fwidth ipw t) (skipn (off - off0) bytes)).
Proof.
  induction l as [|[n ty] l IH]; intros bytes vs rest name off0 off t Hd Hf; cbn [field_offset] in Hf; [discriminate|].
  cbn [dec_prefix] in Hd.
  destruct (length bytes <? fwidth ipw ty)%nat eqn:Hlen; [discriminate|].
  destruct (dec_field ipw ty (firstn (fwidth ipw ty) bytes)) as [v|] eqn:Ev; [|discriminate].
  destruct (dec_prefix ipw l (skipn (fwidth ipw ty) bytes)) as [[vs' rest']|] eqn:Er; [|discriminate].
  injection Hd as <- <-.
  unfold field_at. cbn [fst snd].
  destruct (String.eqb n name) eqn:En.
  - injection Hf as <- <-. rewrite Nat.sub_diag. cbn [skipn]. symmetry. exact Ev.
  - specialize (IH _ _ _ _ _ _ _ Er Hf). unfold field_at in IH. rewrite IH.
    assert (Hoff : (off0 + fwidth ipw ty <= off)%nat).
    { clear -Hf. revert Hf. generalize (off0 + fwidth ipw ty)%nat as o. induction l as [|[n' t'] l IHl]; intros o Hf; cbn in Hf; [discriminate|].
      destruct (String.eqb n' name); [injection Hf as <- _; lia|]. apply IHl in Hf. lia. }
    rewrite <- skipn_add. f_equal. f_equal. f_equal. lia.
Qed.

Notation L := bep15_layouts.

Lemma announce_tid_at_12 bytes vs rest :
  dec_prefix 4 bep15_announce_request bytes = Some (vs, rest) ->
  int_of (field_at bep15_announce_request vs "transaction_id") = request_tid bytes.
Proof.
  intros H. rewrite (dec_prefix_field 4 _ _ _ _ "transaction_id"%string 0%nat 12%nat FI32 H eq_refl).
  reflexivity.
Qed.

(* what a parse result says about the bytes *)
Definition parse_facts (bytes : list N) (rq : presult request) : Prop :=
  match rq with
  | POk (RConnect tid) => tid = request_tid bytes
  | POk (RAnnounce vs) => exists rest, dec_prefix 4 bep15_announce_request bytes = Some (vs, rest)
  | POk (RScrape _ tid _) => tid = request_tid bytes
  | PErr (Sendable _ tid k) =>
      (k = 1 /\ exists vs rest, dec_prefix 4 bep15_announce_request bytes = Some (vs, rest)
                               /\ tid = int_of (field_at bep15_announce_request vs "transaction_id"))
      \/ ((k = 2 \/ k = 3) /\ tid = request_tid bytes)
  | PErr Unsendable => True
  end.

Lemma parse_cases bytes max : parse_facts bytes (parse_request L bytes max).
Proof.
  unfold parse_request.
  destruct (length bytes <? 12)%nat; [exact I|].
  destruct (Z.eqb _ 0).
  { destruct (length bytes <? 16)%nat; [exact I|]. destruct (N.eqb _ _); [reflexivity|exact I]. }
  destruct (Z.eqb _ 1).
  { cbn [L_announce_request bep15_layouts].
    destruct (dec_prefix 4 bep15_announce_request bytes) as [[vs rest]|] eqn:Ed; [|exact I].
    destruct (Z.eqb _ 0).
    - left. split; [reflexivity|]. exists vs, rest. split; [first [exact Ed|reflexivity]|reflexivity].
    - exists rest. first [exact Ed|reflexivity]. }
  destruct (Z.eqb _ 2); [|exact I].
  destruct (length bytes <? 16)%nat; [exact I|].
  destruct (skipn 16 bytes) as [|b0 rest1].
  { right. split; [left; reflexivity|reflexivity]. }
  destruct (negb _).
  - right. split; [right; reflexivity|reflexivity].
  - reflexivity.
Qed.

Section Contract.
  Variable mac : list N -> N.
  Variable St : Type.
  Variable do_announce : St -> sockaddr -> list fval -> outcome (St * response).
  Variable do_scrape : St -> sockaddr -> Z -> list (list N) -> outcome response.

  Notation handle := (handle L mac St do_announce do_scrape).
  Notation carried := (carried_id L).

  (* datagrams from source port 0 are ignored *)
  Lemma port_zero_ignored cfg now st o bytes : handle cfg now st (SA o 0) bytes = Ok (st, None).
  Proof. reflexivity. Qed.

  (* whatever is sent back is either the connect reply to a well-formed connect request, or
     was caused by a request carrying a connection id valid for that (canonical) source *)
  Lemma reply_needs_connect_or_valid_id cfg now st from bytes st' r :
    handle cfg now st from bytes = Ok (st', Some r) ->
    (exists tid, parse_request L bytes (hc_max_scrape cfg) = POk (RConnect tid) /\ st' = st
                 /\ r = SConnect [VInt tid; VInt (wire_of_id (create mac now (sa_octets (canonical from))))])
    \/ (exists cid, carried cfg bytes = Some cid /\ id_valid mac cfg now (canonical from) cid = true).
  Proof.
    unfold UdpHandler.handle, carried_id. intros H.
    destruct (sa_port from =? 0); [discriminate|].
    destruct (parse_request L bytes (hc_max_scrape cfg)) as [[tid|vs|cid tid hs]|[cid tid k|]].
    - left. exists tid. injection H as <- <-. auto.
    - right. destruct (id_valid _ _ _ _ _) eqn:Ev; [|discriminate]. eauto.
    - right. destruct (id_valid _ _ _ _ _) eqn:Ev; [|discriminate]. eauto.
    - right. destruct (id_valid _ _ _ _ _) eqn:Ev; [|discriminate]. eauto.
    - discriminate.
  Qed.

  (* the connect reply is 16 bytes and the request that caused it is at least as long *)
  Lemma connect_reply_not_larger bytes max tid c :
    parse_request L bytes max = POk (RConnect tid) ->
    length (write_response L (SConnect [VInt tid; VInt c])) = 16%nat /\ (16 <= length bytes)%nat.
  Proof.
    intros H. split.
    - cbn [write_response L_connect_response bep15_layouts]. rewrite app_length, i32_be_length.
      cbn [bep15_connect_response enc_struct enc_field]. rewrite !app_length, !be_enc_length. reflexivity.
    - unfold parse_request in H.
      destruct (length bytes <? 12)%nat; [discriminate|].
      destruct (Z.eqb _ 0).
      + destruct (length bytes <? 16)%nat eqn:E; [discriminate|]. lia.
      + destruct (Z.eqb _ 1).
        * destruct (dec_prefix _ _ _) as [[vs r]|]; [|discriminate]. destruct (Z.eqb _ 0); discriminate.
        * destruct (Z.eqb _ 2); [|discriminate]. destruct (length bytes <? 16)%nat; [discriminate|].
          destruct (skipn 16 bytes); [discriminate|]. destruct (negb _); discriminate.
  Qed.

  (* state changes only through an accepted announce: malformed input, requests with a bad id,
     connects, scrapes and forbidden torrents leave the tracker state as it was *)
  Lemma state_changes_only_by_accepted_announce cfg now st from bytes st' o :
    handle cfg now st from bytes = Ok (st', o) ->
    st' = st
    \/ (exists vs r, parse_request L bytes (hc_max_scrape cfg) = POk (RAnnounce vs)
                   /\ id_valid mac cfg now (canonical from) (int_of (areq_field L vs "connection_id")) = true
                   /\ allows (hc_acl_mode cfg) (hc_acl cfg) (be_dec (bytes_of (areq_field L vs "info_hash"))) = true
                   /\ do_announce st (canonical from) vs = Ok (st', r) /\ o = Some r).
  Proof.
    unfold UdpHandler.handle. intros H.
    destruct (sa_port from =? 0); [injection H as <- _; auto|].
    destruct (parse_request L bytes (hc_max_scrape cfg)) as [[tid|vs|cid tid hs]|[cid tid k|]].
    - injection H as <- _; auto.
    - destruct (id_valid _ _ _ _ _) eqn:Ev; [|injection H as <- _; auto].
      destruct (allows _ _ _) eqn:Ea; [|injection H as <- _; auto].
      destruct (do_announce _ _ _) as [[s1 r]|] eqn:Ed; [|discriminate].
      cbn in H. injection H as <- <-. right. exists vs, r. auto.
    - destruct (id_valid _ _ _ _ _); [|injection H as <- _; auto].
      destruct (do_scrape _ _ _ _); [|discriminate]. cbn in H. injection H as <- _; auto.
    - destruct (id_valid _ _ _ _ _); injection H as <- _; auto.
    - injection H as <- _; auto.
  Qed.

  Lemma rejected_input_leaves_state cfg now st from bytes e st' o :
    parse_request L bytes (hc_max_scrape cfg) = PErr e ->
    handle cfg now st from bytes = Ok (st', o) -> st' = st.
  Proof.
    intros Hp H. destruct (state_changes_only_by_accepted_announce _ _ _ _ _ _ _ H) as [E|(vs & r & Hp' & _)]; [exact E|].
    rewrite Hp in Hp'. discriminate.
  Qed.

  (* exactly one reply for a well-formed connect request *)
  Lemma connect_always_answered cfg now st from bytes tid :
    sa_port from <> 0 -> parse_request L bytes (hc_max_scrape cfg) = POk (RConnect tid) ->
    exists c, handle cfg now st from bytes = Ok (st, Some (SConnect [VInt tid; VInt c])).
  Proof.
    intros Hp H. unfold UdpHandler.handle. apply N.eqb_neq in Hp. rewrite Hp, H. eauto.
  Qed.

  (* ... and for anything parseable that carries a valid connection id (the swarm calls are
     total on reachable states: C01) *)
  Lemma valid_id_always_answered cfg now st from bytes cid :
    sa_port from <> 0 -> carried cfg bytes = Some cid -> id_valid mac cfg now (canonical from) cid = true ->
    (forall vs, exists st' r, do_announce st (canonical from) vs = Ok (st', r)) ->
    (forall tid hs, exists r, do_scrape st (canonical from) tid hs = Ok r) ->
    exists st' r, handle cfg now st from bytes = Ok (st', Some r).
  Proof.
    intros Hp Hc Hv Ha Hs. unfold UdpHandler.handle, carried_id in *. apply N.eqb_neq in Hp. rewrite Hp.
    destruct (parse_request L bytes (hc_max_scrape cfg)) as [[tid|vs|c tid hs]|[c tid k|]]; try discriminate;
      injection Hc as Hc; subst cid; rewrite Hv.
    - destruct (allows _ _ _); [|eauto]. destruct (Ha vs) as (s1 & r & E). rewrite E. cbn. eauto.
    - destruct (Hs tid hs) as (r & E). rewrite E. cbn. eauto.
    - eauto.
  Qed.

  (* nothing but a connect is answered without a valid id *)
  Lemma invalid_id_unanswered cfg now st from bytes cid :
    carried cfg bytes = Some cid -> id_valid mac cfg now (canonical from) cid = false ->
    handle cfg now st from bytes = Ok (st, None).
  Proof.
    intros Hc Hv. unfold UdpHandler.handle, carried_id in *.
    destruct (sa_port from =? 0); [reflexivity|].
    destruct (parse_request L bytes (hc_max_scrape cfg)) as [[tid|vs|c tid hs]|[c tid k|]]; try discriminate;
      injection Hc as Hc; subst cid; rewrite Hv; reflexivity.
  Qed.

  Lemma unparseable_unanswered cfg now st from bytes :
    parse_request L bytes (hc_max_scrape cfg) = PErr Unsendable -> handle cfg now st from bytes = Ok (st, None).
  Proof. intros H. unfold UdpHandler.handle. destruct (sa_port from =? 0); [reflexivity|]. rewrite H. reflexivity. Qed.

  (* the reply carries the request's transaction id and is of the kind the request calls for,
     provided the swarm echoes the id and answers with its own kinds (discharged for the swarm
     model below) *)
  Hypothesis announce_echo : forall st src vs st' r,
    do_announce st src vs = Ok (st', r) ->
    exists fixed peers, r = SAnnounce (negb (is_v4 src)) fixed peers
      /\ int_of (field_at bep15_announce_fixed fixed "transaction_id") = int_of (field_at bep15_announce_request vs "transaction_id").
  Hypothesis scrape_echo : forall st src tid hs r,
    do_scrape st src tid hs = Ok r -> exists stats, r = SScrape tid stats /\ length stats = length hs.

  Definition reply_kind_ok (from : sockaddr) (rq : presult request) (r : response) : Prop :=
    match rq, r with
    | POk (RConnect _), SConnect _ => True
    | POk (RAnnounce _), SAnnounce v6 _ _ => v6 = negb (is_v4 (canonical from))
    | POk (RAnnounce _), SError _ m => m = not_allowed_text
    | POk (RScrape _ _ hs), SScrape _ stats => length stats = length hs
    | PErr (Sendable _ _ k), SError _ m => m = err_text k
    | _, _ => False
    end.

  Lemma reply_echoes_tid_and_kind cfg now st from bytes st' r :
    handle cfg now st from bytes = Ok (st', Some r) ->
    response_tid L r = request_tid bytes
    /\ reply_kind_ok from (parse_request L bytes (hc_max_scrape cfg)) r.
  Proof.
    unfold UdpHandler.handle. intros H.
    pose proof (parse_cases bytes (hc_max_scrape cfg)) as Hf.
    destruct (sa_port from =? 0); [discriminate|].
    destruct (parse_request L bytes (hc_max_scrape cfg)) as [[tid|vs|cid tid hs]|[cid tid k|]]; cbn [parse_facts] in Hf.
    - (* connect *) injection H as _ <-. split; [exact Hf|exact I].
    - (* announce *)
      destruct Hf as (rest & Ed).
      destruct (id_valid _ _ _ _ _); [|discriminate].
      destruct (allows _ _ _).
      + destruct (do_announce _ _ _) as [[s1 r1]|] eqn:Ea; [|discriminate]. cbn in H. injection H as _ <-.
        destruct (announce_echo _ _ _ _ _ Ea) as (fixed & peers & -> & Ht). split.
        * cbn [response_tid L_announce_fixed bep15_layouts]. rewrite Ht. apply (announce_tid_at_12 _ _ _ Ed).
        * reflexivity.
      + injection H as _ <-. split; [|reflexivity]. cbn [response_tid]. apply (announce_tid_at_12 _ _ _ Ed).
    - (* scrape *)
      destruct (id_valid _ _ _ _ _); [|discriminate].
      destruct (do_scrape _ _ _ _) as [r1|] eqn:Es; [|discriminate]. cbn in H. injection H as _ <-.
      destruct (scrape_echo _ _ _ _ _ Es) as (stats & -> & Hl). split; [exact Hf|exact Hl].
    - (* sendable parse errors *)
      destruct (id_valid _ _ _ _ _); [|discriminate]. injection H as _ <-. split; [|reflexivity].
      cbn [response_tid].
      destruct Hf as [(_ & vs & rest & Ed & ->)|(_ & ->)]; [apply (announce_tid_at_12 _ _ _ Ed)|reflexivity].
    - discriminate.
  Qed.
End Contract.

(* ---------- what reaches the handler: receive buffers ---------- *)
Section Serve.
  Variable mac : list N -> N.
  Variable St : Type.
  Variable do_announce : St -> sockaddr -> list fval -> outcome (St * response).
  Variable do_scrape : St -> sockaddr -> Z -> list (list N) -> outcome response.
  Notation handle := (handle L mac St do_announce do_scrape).
  Notation serve := (serve L mac St do_announce do_scrape).

  Definition fits (b : backend) (bytes : list N) : Prop :=
    match b with
    | Mio size => (length bytes <= size)%nat
    | Uring len v6s => (length bytes <= uring_capacity len v6s)%nat
    end.

  (* a datagram that fits the backend's receive buffer is handled as it is *)
  Lemma serve_is_handle_when_fits b cfg now st from bytes :
    fits b bytes -> serve b cfg now st from bytes = handle cfg now st from bytes.
  Proof.
    unfold UdpHandler.serve, received, fits. destruct b as [size|len v6s]; intros H.
    - rewrite firstn_all2 by exact H. reflexivity.
    - destruct (Nat.ltb_spec (uring_capacity len v6s) (length bytes)); [lia|reflexivity].
  Qed.

  (* at most one reply and never more than the handler would give: serving is handling some
     prefix of the datagram, or dropping it *)
  Lemma serve_is_handle_of_prefix_or_drop b cfg now st from bytes :
    serve b cfg now st from bytes = Ok (st, None)
    \/ exists n, serve b cfg now st from bytes = handle cfg now st from (firstn n bytes).
  Proof.
    unfold UdpHandler.serve, received. destruct b as [size|len v6s].
    - right. exists size. reflexivity.
    - destruct (uring_capacity len v6s <? length bytes)%nat; [left; reflexivity|].
      right. exists (length bytes). rewrite firstn_all. reflexivity.
  Qed.

  (* the io_uring backend drops EVERY datagram longer than its request buffers leave room for,
     whatever it contains *)
  Lemma uring_drops_long_datagrams len v6s cfg now st from bytes :
    (uring_capacity len v6s < length bytes)%nat -> serve (Uring len v6s) cfg now st from bytes = Ok (st, None).
  Proof.
    unfold UdpHandler.serve, received. intros H.
    destruct (Nat.ltb_spec (uring_capacity len v6s) (length bytes)); [reflexivity|lia].
  Qed.
End Serve.

(* a well-formed scrape request naming n torrents is 16 + 20 n bytes long and parses *)
Lemma scrape_request_length cid tid hs :
  Forall (fun h => length h = 20%nat) hs -> length (write_request L (UdpCodec.RScrape cid tid hs)) = (16 + 20 * length hs)%nat.
Proof.
  intros H. unfold write_request. rewrite !app_length, i64_be_length, !i32_be_length, (concat_length_20 _ H). lia.
Qed.
