(* C15: identifier strings are exact; every incoming message survives the JSON tree mapping. *)
From Coq Require Import String Ascii.
From Aquatic Require Import WsCodec.
Local Open Scope N_scope.

Lemma take_bytes_sound n : forall s bs rest,
  take_bytes n s = Some (bs, rest) -> s = bs ++ rest /\ length bs = n /\ Forall (fun c => c <= 255) bs.
Proof.
  induction n as [|n IH]; intros s bs rest; cbn [take_bytes].
  - intros H. inversion H; subst. repeat split. constructor.
  - destruct s as [|c t]; [discriminate|].
    destruct (N.ltb_spec 255 c) as [Hgt|Hle]; [discriminate|].
    destruct (take_bytes n t) as [[bs' r]|] eqn:E; [|discriminate].
    intros H. inversion H; subst. destruct (IH _ _ _ E) as (-> & Hl & Hb).
    repeat split; [cbn; lia|constructor; assumption].
Qed.

Lemma take_bytes_complete bs : forall rest,
  Forall (fun c => c <= 255) bs -> take_bytes (length bs) (bs ++ rest) = Some (bs, rest).
Proof.
  induction bs as [|b t IH]; intros rest H; cbn [length app take_bytes]; [reflexivity|].
  inversion H as [|? ? Hb Ht]; subst. destruct (N.ltb_spec 255 b); [lia|]. rewrite (IH rest Ht). reflexivity.
Qed.

Lemma take_bytes_spec n s bs rest :
  take_bytes n s = Some (bs, rest) <-> s = bs ++ rest /\ length bs = n /\ Forall (fun c => c <= 255) bs.
Proof.
  split; [apply take_bytes_sound|]. intros (-> & <- & Hb). apply take_bytes_complete, Hb.
Qed.

(* exactly the strings of exactly 20 characters U+0000..U+00FF are accepted - no shorter, no
   longer, no other characters - and they decode to their own code points *)
Theorem dec20_exact s bs :
  dec20 s = Some bs <-> length s = 20%nat /\ Forall (fun c => c <= 255) s /\ bs = s.
Proof.
  unfold dec20. split.
  - destruct (take_bytes 20 s) as [[b r]|] eqn:E; [|discriminate]. destruct r; [|discriminate].
    intros H. inversion H; subst. apply take_bytes_spec in E. destruct E as (-> & Hl & Hb).
    rewrite app_nil_r. repeat split; assumption.
  - intros (Hl & Hb & ->). assert (E : take_bytes 20 s = Some (s, [])).
    { apply take_bytes_spec. rewrite app_nil_r. repeat split; assumption. }
    rewrite E. reflexivity.
Qed.

Theorem dec20_enc20 b : length b = 20%nat -> Forall (fun c => c <= 255) b -> dec20 (enc20 b) = Some b.
Proof. intros Hl Hb. apply dec20_exact. repeat split; assumption. Qed.

Corollary dec20_rejects_other_lengths s : length s <> 20%nat -> dec20 s = None.
Proof. intros H. destruct (dec20 s) eqn:E; [|reflexivity]. apply dec20_exact in E. tauto. Qed.

Corollary dec20_rejects_wide_char s c : In c s -> 255 < c -> dec20 s = None.
Proof.
  intros Hin Hc. destruct (dec20 s) eqn:E; [|reflexivity]. apply dec20_exact in E. destruct E as (_ & Hb & _).
  rewrite Forall_forall in Hb. specialize (Hb c Hin). lia.
Qed.

(* ---- tree round trip of incoming messages ---- *)
Definition id_ok (b : list N) : Prop := length b = 20%nat /\ Forall (fun c => c <= 255) b.

Definition offer_ok (o : woffer) : Prop := id_ok (wo_id o).

Definition oid_ok (o : option (list N)) : Prop := match o with Some b => id_ok b | None => True end.
Definition onum_ok (o : option N) : Prop := match o with Some n => n <= usize_max | None => True end.

Definition announce_ok (a : wannounce) : Prop :=
  id_ok (wa_info_hash a) /\ id_ok (wa_peer_id a) /\ onum_ok (wa_left a) /\ onum_ok (wa_numwant a)
  /\ match wa_offers a with Some os => Forall offer_ok os | None => True end
  /\ oid_ok (wa_to_peer_id a) /\ oid_ok (wa_offer_id a).

Lemma get_id_jid b : id_ok b -> get_id (jid b) = Some b.
Proof. intros [Hl Hb]. unfold get_id, jid. apply dec20_enc20; assumption. Qed.

Lemma get_offer_json o : offer_ok o -> get_offer (offer_json o) = Some o.
Proof.
  intros H. unfold get_offer, offer_json. cbn [jget String.eqb Ascii.eqb Bool.eqb].
  replace (get_rtc "offer" (JObj [("type"%string, jstr "offer"); ("sdp"%string, JStr (wo_sdp o))])) with (Some (wo_sdp o)) by reflexivity.
  rewrite (get_id_jid _ H). destruct o; reflexivity.
Qed.

Lemma get_offers_json os : Forall offer_ok os -> get_offers (JArr (map offer_json os)) = Some os.
Proof.
  intros H. unfold get_offers. induction H as [|o t Ho _ IH]; cbn [map all_some]; [reflexivity|].
  rewrite (get_offer_json o Ho), IH. reflexivity.
Qed.

Lemma opt_field_num o : onum_ok o -> opt_field get_num (Some (opt_json JNum o)) = Some o.
Proof.
  destruct o as [n|]; cbn; [|reflexivity]. intros H. destruct (N.leb_spec n usize_max); [reflexivity|lia].
Qed.

Lemma opt_field_id o : oid_ok o -> opt_field get_id (Some (opt_json jid o)) = Some o.
Proof.
  destruct o as [b|]; cbn [opt_json opt_field oid_ok]; [|reflexivity]. intros H.
  change (jid b) with (JStr (enc20 b)). cbn [opt_field]. change (JStr (enc20 b)) with (jid b). rewrite (get_id_jid b H). reflexivity.
Qed.

Theorem announce_tree_roundtrip a : announce_ok a -> of_in_json (in_json (InAnnounce a)) = Some (InAnnounce a).
Proof.
  intros (Hih & Hpid & Hl & Hn & Hos & Hto & Hoi).
  unfold of_in_json, in_json, of_announce, announce_json.
  destruct a as [ih pid lft ev offers nw ans topid oid]. cbn [wa_info_hash wa_peer_id wa_left wa_event wa_offers wa_numwant wa_answer wa_to_peer_id wa_offer_id] in *.
  assert (Hev : forall rest,
            jget "event" (match ev with Some e => [("event"%string, jstr (event_str e))] | None => [] end ++ rest)
            = match ev with Some e => Some (jstr (event_str e)) | None => jget "event" rest end).
  { intros rest. destruct ev; reflexivity. }
  assert (Hother : forall k rest, k <> "event"%string ->
            jget k (match ev with Some e => [("event"%string, jstr (event_str e))] | None => [] end ++ rest) = jget k rest).
  { intros k rest Hk. destruct ev; [|reflexivity]. cbn [app jget]. destruct (String.eqb_spec "event" k); [congruence|reflexivity]. }
  cbn [app jget String.eqb Ascii.eqb Bool.eqb].
  replace (str_is (jstr "announce") "announce") with true by reflexivity. cbn [negb].
  rewrite (get_id_jid ih Hih), (get_id_jid pid Hpid).
  rewrite Hev. rewrite !Hother by discriminate.
  cbn [jget String.eqb Ascii.eqb Bool.eqb].
  rewrite (opt_field_num lft Hl), (opt_field_num nw Hn), (opt_field_id topid Hto), (opt_field_id oid Hoi).
  assert (He : opt_field get_event (match ev with Some e => Some (jstr (event_str e)) | None => None end) = Some ev)
    by (destruct ev as [[]|]; reflexivity).
  rewrite He.
  assert (Ho : opt_field get_offers (Some (opt_json (fun os => JArr (map offer_json os)) offers)) = Some offers).
  { destruct offers as [os|]; cbn [opt_json opt_field]; [|reflexivity]. rewrite (get_offers_json os Hos). reflexivity. }
  rewrite Ho.
  assert (Ha : opt_field (get_rtc "answer") (Some (opt_json (fun s => JObj [("type"%string, jstr "answer"); ("sdp"%string, JStr s)]) ans)) = Some ans)
    by (destruct ans; reflexivity).
  rewrite Ha. reflexivity.
Qed.

Definition hashes_ok (h : option whashes) : Prop :=
  match h with
  | Some (WSingle x) => id_ok x
  | Some (WMultiple xs) => Forall id_ok xs
  | None => True
  end.

Lemma all_some_ids xs : Forall id_ok xs -> all_some get_id (map jid xs) = Some xs.
Proof. induction 1 as [|x t Hx _ IH]; cbn [map all_some]; [reflexivity|]. rewrite (get_id_jid x Hx), IH. reflexivity. Qed.

Theorem scrape_tree_roundtrip h : hashes_ok h -> of_in_json (in_json (InScrape h)) = Some (InScrape h).
Proof.
  intros H. unfold of_in_json, in_json.
  assert (Hann : of_announce (JObj [("action"%string, jstr "scrape"); ("info_hash"%string, opt_json hashes_json h)]) = None).
  { unfold of_announce. cbn [jget String.eqb Ascii.eqb Bool.eqb]. reflexivity. }
  rewrite Hann. unfold of_scrape. cbn [jget String.eqb Ascii.eqb Bool.eqb].
  replace (str_is (jstr "scrape") "scrape") with true by reflexivity.
  destruct h as [[x|xs]|]; cbn [opt_json hashes_json opt_field hashes_ok] in *.
  - change (jid x) with (JStr (enc20 x)). cbn [opt_field]. change (JStr (enc20 x)) with (jid x).
    unfold get_hashes. rewrite (get_id_jid x H). reflexivity.
  - unfold get_hashes. cbn [get_id]. rewrite (all_some_ids xs H). reflexivity.
  - reflexivity.
Qed.
