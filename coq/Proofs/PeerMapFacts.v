(* Lemmas about the list-level operations of the peer-map model. *)
From Aquatic Require Import RefTracker.

Lemma keys_app a b : keys (a ++ b) = keys a ++ keys b.
Proof. unfold keys; apply map_app. Qed.

Lemma keys_length l : length (keys l) = length l.
Proof. unfold keys; apply map_length. Qed.

Lemma keys_perm l l' : Permutation l l' -> Permutation (keys l) (keys l').
Proof. unfold keys; apply Permutation_map. Qed.

Lemma filter_perm {A} (f : A -> bool) l l' :
  Permutation l l' -> Permutation (filter f l) (filter f l').
Proof.
  induction 1 as [|x l l' _ IH|x y l|l l' l'' _ IH1 _ IH2]; simpl.
  - constructor.
  - destruct (f x); [constructor|]; exact IH.
  - destruct (f x), (f y); try apply Permutation_refl. apply perm_swap.
  - eapply Permutation_trans; eassumption.
Qed.

Lemma count_seeders_perm l l' : Permutation l l' -> count_seeders l = count_seeders l'.
Proof. intros H; unfold count_seeders; apply Permutation_length, filter_perm, H. Qed.

Lemma count_seeders_cons e l :
  count_seeders (e :: l) = (if p_seeder (snd e) then 1 else 0) + count_seeders l.
Proof. unfold count_seeders; simpl; destruct (p_seeder (snd e)); reflexivity. Qed.

Lemma filter_len_le {A} (f : A -> bool) l : length (filter f l) <= length l.
Proof. induction l as [|x t IH]; simpl; [lia|]. destruct (f x); simpl; lia. Qed.

Lemma count_seeders_le l : count_seeders l <= length l.
Proof. unfold count_seeders; apply filter_len_le. Qed.

Lemma count_seeders_filter_le (f : N * peer -> bool) l : count_seeders (filter f l) <= count_seeders l.
Proof.
  induction l as [|x t IH]; simpl; [lia|].
  destruct (f x); rewrite ?count_seeders_cons; lia.
Qed.

Lemma count_seeders_app a b : count_seeders (a ++ b) = count_seeders a + count_seeders b.
Proof. unfold count_seeders; rewrite filter_app, app_length; reflexivity. Qed.


Lemma ref_remove_perm k l l' : Permutation l l' -> Permutation (ref_remove k l) (ref_remove k l').
Proof. apply filter_perm. Qed.

Lemma ref_remove_notin k l : ~ In k (keys l) -> ref_remove k l = l.
Proof.
  induction l as [|[k' p] t IH]; simpl; intros H; [reflexivity|].
  destruct (N.eqb_spec k' k) as [->|Hne]; simpl.
  - exfalso; apply H; left; reflexivity.
  - f_equal; apply IH; intros Hin; apply H; right; exact Hin.
Qed.

Lemma ref_remove_keys k l : keys (ref_remove k l) = filter (fun x => negb (N.eqb x k)) (keys l).
Proof.
  induction l as [|[k' p] t IH]; simpl; [reflexivity|].
  destruct (N.eqb k' k); simpl; rewrite IH; reflexivity.
Qed.

Lemma ref_remove_not_in k l : ~ In k (keys (ref_remove k l)).
Proof.
  rewrite ref_remove_keys; intros H; apply filter_In in H; destruct H as [_ H].
  rewrite N.eqb_refl in H; discriminate.
Qed.

Lemma NoDup_filter {A} (f : A -> bool) l : NoDup l -> NoDup (filter f l).
Proof.
  induction 1 as [|x l Hx _ IH]; simpl; [constructor|].
  destruct (f x); [constructor|]; auto.
  intros Hin; apply Hx; apply filter_In in Hin; tauto.
Qed.

Lemma ref_remove_nodup k l : NoDup (keys l) -> NoDup (keys (ref_remove k l)).
Proof. rewrite ref_remove_keys; apply NoDup_filter. Qed.

Lemma ref_remove_incl k l : incl (keys (ref_remove k l)) (keys l).
Proof. rewrite ref_remove_keys; intros x H; apply filter_In in H; tauto. Qed.

Lemma ref_remove_in k l x : In x (keys l) -> x <> k -> In x (keys (ref_remove k l)).
Proof.
  rewrite ref_remove_keys; intros H Hne; apply filter_In; split; [exact H|].
  destruct (N.eqb_spec x k); [contradiction|reflexivity].
Qed.

Lemma filter_keys_nodup (f : N * peer -> bool) l : NoDup (keys l) -> NoDup (keys (filter f l)).
Proof.
  induction l as [|e t IH]; simpl; intros H; [constructor|].
  inversion H as [|? ? Hx Ht]; subst.
  destruct (f e); simpl; [constructor|]; auto.
  intros Hin; apply Hx. unfold keys in *. apply in_map_iff in Hin.
  destruct Hin as [y [Hy Hin]]; apply filter_In in Hin; apply in_map_iff; exists y; tauto.
Qed.

Lemma find_key_notin k l : ~ In k (keys l) -> find_key k l = None.
Proof.
  unfold find_key; induction l as [|[k' p] t IH]; simpl; intros H; [reflexivity|].
  destruct (N.eqb_spec k' k) as [->|Hne]; [exfalso; apply H; left; reflexivity|].
  apply IH; intros Hin; apply H; right; exact Hin.
Qed.

(* ---- SmallPeerMap::remove ---- *)
Lemma small_remove_spec k l :
  NoDup (keys l) -> small_remove k l = (find_key k l, ref_remove k l).
Proof.
  unfold find_key; induction l as [|[k' p] t IH]; simpl; intros H; [reflexivity|].
  inversion H as [|? ? Hx Ht]; subst.
  destruct (N.eqb_spec k' k) as [->|Hne]; simpl.
  - rewrite ref_remove_notin by exact Hx; reflexivity.
  - rewrite IH by exact Ht; reflexivity.
Qed.

(* ---- IndexMap::swap_remove ---- *)
Lemma last_removelast_perm {A} (t : list A) d :
  t <> [] -> Permutation (last t d :: removelast t) t.
Proof.
  intros Ht. rewrite (app_removelast_last d Ht) at 3.
  apply Permutation_cons_append.
Qed.

Lemma swap_remove_spec k l :
  NoDup (keys l) ->
  fst (im_swap_remove k l) = find_key k l /\ Permutation (snd (im_swap_remove k l)) (ref_remove k l).
Proof.
  unfold find_key; induction l as [|[k' p] t IH]; simpl; intros H; [split; [reflexivity|constructor]|].
  inversion H as [|? ? Hx Ht]; subst.
  destruct (N.eqb_spec k' k) as [->|Hne]; simpl.
  - split; [reflexivity|]. rewrite ref_remove_notin by exact Hx.
    destruct t as [|e t']; [constructor|]. apply last_removelast_perm; discriminate.
  - destruct (IH Ht) as [IH1 IH2]. destruct (im_swap_remove k t) as [r t'] eqn:E; simpl in *.
    split; [exact IH1|]. constructor; exact IH2.
Qed.

Lemma swap_remove_length k l :
  NoDup (keys l) -> length (snd (im_swap_remove k l)) = length (ref_remove k l).
Proof. intros H; apply Permutation_length, swap_remove_spec, H. Qed.

(* ---- IndexMap::insert ---- *)
Lemma im_insert_absent k p l : ~ In k (keys l) -> im_insert k p l = l ++ [(k, p)].
Proof.
  induction l as [|[k' p'] t IH]; simpl; intros H; [reflexivity|].
  destruct (N.eqb_spec k' k) as [->|Hne]; [exfalso; apply H; left; reflexivity|].
  f_equal; apply IH; intros Hin; apply H; right; exact Hin.
Qed.

(* ---- seeder bookkeeping ---- *)
Definition seeder_weight (o : option peer) : nat :=
  match o with Some p => if p_seeder p then 1 else 0 | None => 0 end.

Lemma count_seeders_remove k l :
  NoDup (keys l) -> count_seeders l = count_seeders (ref_remove k l) + seeder_weight (find_key k l).
Proof.
  unfold find_key; induction l as [|[k' p] t IH]; simpl; intros H; [reflexivity|].
  inversion H as [|? ? Hx Ht]; subst.
  rewrite count_seeders_cons; simpl.
  destruct (N.eqb_spec k' k) as [->|Hne]; simpl.
  - rewrite ref_remove_notin by exact Hx. destruct (p_seeder p); simpl; lia.
  - rewrite count_seeders_cons; simpl. rewrite (IH Ht). lia.
Qed.

Lemma length_remove k l :
  NoDup (keys l) -> length l = length (ref_remove k l) + (match find_key k l with Some _ => 1 | None => 0 end).
Proof.
  unfold find_key; induction l as [|[k' p] t IH]; simpl; intros H; [reflexivity|].
  inversion H as [|? ? Hx Ht]; subst.
  destruct (N.eqb_spec k' k) as [->|Hne]; simpl.
  - rewrite ref_remove_notin by exact Hx. lia.
  - rewrite (IH Ht). lia.
Qed.

(* ---- cleaning ---- *)
Lemma dec_expired_spec now l ns :
  count_seeders l <= ns ->
  dec_expired_seeders now l ns = Ok (ns - (count_seeders l - count_seeders (filter (peer_valid now) l))).
Proof.
  revert ns; induction l as [|e t IH]; intros ns H.
  - cbn. f_equal. unfold count_seeders; simpl; lia.
  - cbn [dec_expired_seeders filter].
    rewrite count_seeders_cons in H |- *.
    pose proof (count_seeders_filter_le (peer_valid now) t) as Hf.
    destruct (peer_valid now e) eqn:Ev; cbn [negb andb obind].
    + rewrite count_seeders_cons. rewrite IH by lia. f_equal. lia.
    + destruct (p_seeder (snd e)) eqn:Es; cbn [negb andb obind].
      * unfold checked_pred. rewrite checked_sub_ok by lia. cbn [obind].
        rewrite IH by lia. f_equal. lia.
      * rewrite IH by lia. f_equal.
Qed.

Lemma NoDup_app_snoc {A} (l : list A) x : NoDup l -> ~ In x l -> NoDup (l ++ [x]).
Proof.
  induction l as [|y t IH]; simpl; intros Hnd Hx; [constructor; [tauto|constructor]|].
  inversion Hnd as [|? ? Hy Ht]; subst. constructor.
  - intros Hin. apply in_app_or in Hin. destruct Hin as [Hin|[Heq|[]]]; [tauto|]. subst. apply Hx; left; reflexivity.
  - apply IH; [exact Ht|]. intros Hin; apply Hx; right; exact Hin.
Qed.
