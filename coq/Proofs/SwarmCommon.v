(* Facts shared by the udp and http swarm refinements, parametric in the inline capacity
   [cap] and in [shrink] (does a cleaning pass convert a small heap map back?). *)
From Aquatic Require Import RefTracker TorrentMap PeerMapFacts Selection PeerMapRefine.

Definition tm_wf (tm : tmap) : Prop := NoDup (map fst tm).

Lemma tm_find_set_same h pm tm : tm_find h (tm_set h pm tm) = Some pm.
Proof.
  unfold tm_find. induction tm as [|[h' pm'] t IH]; simpl.
  - rewrite N.eqb_refl. reflexivity.
  - destruct (N.eqb_spec h' h) as [->|Hne]; simpl.
    + rewrite N.eqb_refl. reflexivity.
    + destruct (N.eqb_spec h' h); [contradiction|]. exact IH.
Qed.

Lemma tm_find_set_other h h' pm tm : h' <> h -> tm_find h' (tm_set h pm tm) = tm_find h' tm.
Proof.
  intros Hne. unfold tm_find. induction tm as [|[h2 pm2] t IH]; simpl.
  - destruct (N.eqb_spec h h'); [congruence|reflexivity].
  - destruct (N.eqb_spec h2 h) as [->|Hne2]; simpl.
    + destruct (N.eqb_spec h h'); [congruence|reflexivity].
    + destruct (N.eqb_spec h2 h'); [reflexivity|exact IH].
Qed.

Lemma tm_get_set_same h pm tm : tm_get h (tm_set h pm tm) = pm.
Proof. unfold tm_get. rewrite tm_find_set_same. reflexivity. Qed.

Lemma tm_get_set_other h h' pm tm : h' <> h -> tm_get h' (tm_set h pm tm) = tm_get h' tm.
Proof. intros H. unfold tm_get. rewrite tm_find_set_other by exact H. reflexivity. Qed.

Lemma tm_set_keys h pm tm :
  map fst (tm_set h pm tm) = if existsb (N.eqb h) (map fst tm) then map fst tm else map fst tm ++ [h].
Proof.
  induction tm as [|[h' pm'] t IH]; simpl; [reflexivity|].
  rewrite (N.eqb_sym h h').
  destruct (N.eqb_spec h' h) as [->|Hne]; simpl; [reflexivity|].
  rewrite IH. destruct (existsb (N.eqb h) (map fst t)); reflexivity.
Qed.

Lemma tm_set_wf h pm tm : tm_wf tm -> tm_wf (tm_set h pm tm).
Proof.
  unfold tm_wf. rewrite tm_set_keys. intros H.
  destruct (existsb (N.eqb h) (map fst tm)) eqn:E; [exact H|].
  apply NoDup_app_snoc; [exact H|].
  intros Hin. assert (existsb (N.eqb h) (map fst tm) = true).
  { apply existsb_exists. exists h. split; [exact Hin|apply N.eqb_refl]. }
  congruence.
Qed.

Lemma tm_find_in h pm tm : tm_find h tm = Some pm -> In (h, pm) tm.
Proof.
  unfold tm_find. induction tm as [|[h' pm'] t IH]; simpl; [discriminate|].
  destruct (N.eqb_spec h' h) as [->|Hne]; simpl.
  - intros H; inversion H; left; reflexivity.
  - intros H; right; apply IH, H.
Qed.

Lemma tm_find_none h tm : tm_find h tm = None -> ~ In h (map fst tm).
Proof.
  unfold tm_find. induction tm as [|[h' pm'] t IH]; simpl; [tauto|].
  destruct (N.eqb_spec h' h) as [->|Hne]; simpl; [discriminate|].
  intros H [Heq|Hin]; [congruence|]. apply IH; assumption.
Qed.

(* ---------- scrape counts ---------- *)Section Common.
  Variable cap : nat.
  Variable shrink : bool.

  Lemma pm_counts_refines pm r :
    pmap_inv cap shrink pm -> pm_refines pm r -> pm_counts pm = Ok (ref_counts r).
  Proof.
    intros [Hnd Hrep] Href. unfold pm_refines in Href. unfold ref_counts.
    rewrite <- (count_seeders_perm _ _ Href), <- (Permutation_length Href).
    destruct pm as [l|l ns]; cbn [pm_entries pm_counts] in *.
    - rewrite checked_sub_ok by apply count_seeders_le. reflexivity.
    - destruct Hrep as [-> _]. rewrite checked_sub_ok by apply count_seeders_le. reflexivity.
  Qed.

  Lemma small_nil_inv : pmap_inv cap shrink (Small []).
  Proof. split; cbn; [constructor|lia]. Qed.

  (* ---------- one peer map, cleaning ---------- *)
  Lemma pm_clean_refines pc pm r now :
    pmap_inv cap shrink pm -> pm_refines pm r ->
    exists pm' msgs,
      pm_clean cap shrink pc pm now = Ok (pm', ref_counts (ref_clean now r), msgs)
      /\ pmap_inv cap shrink pm' /\ pm_refines pm' (ref_clean now r)
      /\ pm_entries pm' = filter (peer_valid now) (pm_entries pm)
      /\ msgs = removed_msgs pc now (pm_entries pm).
  Proof.
    intros [Hnd Hrep] Href. unfold pm_refines in Href.
    assert (Hp : Permutation (filter (peer_valid now) (pm_entries pm)) (ref_clean now r))
      by (apply filter_perm, Href).
    assert (Hnd' : NoDup (keys (filter (peer_valid now) (pm_entries pm)))) by (apply filter_keys_nodup, Hnd).
    assert (Hc : ref_counts (ref_clean now r) = ref_counts (filter (peer_valid now) (pm_entries pm)))
      by (symmetry; apply ref_counts_perm, Hp).
    rewrite Hc. unfold ref_counts.
    destruct pm as [l|l ns]; cbn [pm_entries pm_clean] in *.
    - rewrite checked_sub_ok by apply count_seeders_le. cbn [obind].
      do 2 eexists. split; [reflexivity|]. split; [|split; [exact Hp|split; reflexivity]].
      split; [exact Hnd'|]. cbn. pose proof (filter_len_le (peer_valid now) l). lia.
    - destruct Hrep as [-> Hlen].
      rewrite dec_expired_spec by lia. cbn [obind].
      set (l' := filter (peer_valid now) l) in *.
      pose proof (count_seeders_filter_le (peer_valid now) l) as Hle. fold l' in Hle.
      replace (count_seeders l - (count_seeders l - count_seeders l')) with (count_seeders l') by lia.
      rewrite checked_sub_ok by apply count_seeders_le. cbn [obind].
      destruct shrink; cbn [andb].
      + destruct (Nat.leb_spec (length l') cap) as [Hsm|Hlg].
        * do 2 eexists. split; [reflexivity|]. split; [|split; [exact Hp|split; reflexivity]].
          split; [exact Hnd'|exact Hsm].
        * do 2 eexists. split; [reflexivity|]. split; [|split; [exact Hp|split; reflexivity]].
          split; [exact Hnd'|]. split; [reflexivity|]. intros _; exact Hlg.
      + do 2 eexists. split; [reflexivity|]. split; [|split; [exact Hp|split; reflexivity]].
        split; [exact Hnd'|]. split; [reflexivity|]. intros Hf; discriminate.
  Qed.

  (* ---------- state relation ---------- *)
  Definition fam_rel (tm : tmap) (rf : N -> entries) : Prop :=
    tm_wf tm /\ forall h, pmap_inv cap shrink (tm_get h tm) /\ pm_refines (tm_get h tm) (rf h).

  Definition pm_clean_pure (now : N) (pm : pmap) : pmap :=
    match pm with
    | Small l => Small (filter (peer_valid now) l)
    | Large l _ =>
        let l' := filter (peer_valid now) l in
        if shrink && (length l' <=? cap) then Small l' else Large l' (count_seeders l')
    end.

  Lemma pm_clean_ok pc pm now :
    pmap_inv cap shrink pm ->
    pm_clean cap shrink pc pm now
    = Ok (pm_clean_pure now pm, ref_counts (filter (peer_valid now) (pm_entries pm)), removed_msgs pc now (pm_entries pm))
    /\ pmap_inv cap shrink (pm_clean_pure now pm)
    /\ pm_entries (pm_clean_pure now pm) = filter (peer_valid now) (pm_entries pm).
  Proof.
    intros Hinv.
    destruct (pm_clean_refines pc pm (pm_entries pm) now Hinv (Permutation_refl _)) as (pm' & msgs & Hc & Hinv' & _ & Hent & Hm).
    assert (pm' = pm_clean_pure now pm).
    { destruct pm as [l|l ns]; cbn [pm_clean pm_clean_pure pm_entries] in *.
      - destruct (checked_sub _ _); cbn [obind] in Hc; [|discriminate]. inversion Hc; reflexivity.
      - destruct Hinv as [_ [-> _]].
        rewrite dec_expired_spec in Hc by lia. cbn [obind] in Hc.
        destruct (checked_sub _ _); cbn [obind] in Hc; [|discriminate].
        pose proof (count_seeders_filter_le (peer_valid now) l).
        replace (count_seeders l - (count_seeders l - count_seeders (filter (peer_valid now) l)))
          with (count_seeders (filter (peer_valid now) l)) in Hc by lia.
        inversion Hc; reflexivity. }
    subst pm'. rewrite Hc, Hm. unfold ref_clean. auto.
  Qed.

  Definition clean_entry (now : N) (e : N * pmap) : N * pmap := (fst e, pm_clean_pure now (snd e)).

  Lemma tm_find_map_clean now h tm :
    tm_find h (map (clean_entry now) tm) = option_map (pm_clean_pure now) (tm_find h tm).
  Proof.
    unfold tm_find. induction tm as [|[h' pm] t IH]; cbn; [reflexivity|].
    destruct (N.eqb h' h); cbn; [reflexivity|exact IH].
  Qed.

  Lemma tm_find_filter (f : N * pmap -> bool) h tm :
    tm_wf tm ->
    tm_find h (filter f tm) = match tm_find h tm with
                              | Some pm => if f (h, pm) then Some pm else None
                              | None => None end.
  Proof.
    unfold tm_wf, tm_find. induction tm as [|[h' pm] t IH]; cbn; intros Hwf; [reflexivity|].
    inversion Hwf as [|? ? Hnotin Hwf_t]; subst.
    destruct (N.eqb_spec h' h) as [->|Hne]; cbn.
    - destruct (f (h, pm)) eqn:Ef; cbn.
      + rewrite N.eqb_refl. reflexivity.
      + rewrite (IH Hwf_t).
        destruct (find (fun e => N.eqb (fst e) h) t) as [[h2 pm2]|] eqn:E; cbn; [|reflexivity].
        exfalso. apply find_some in E. destruct E as [Hin Heq]. cbn in Heq. apply N.eqb_eq in Heq. subst h2.
        apply Hnotin. apply in_map_iff. exists (h, pm2). split; [reflexivity|exact Hin].
    - destruct (f (h', pm)); cbn.
      + destruct (N.eqb_spec h' h); [contradiction|]. apply IH, Hwf_t.
      + apply IH, Hwf_t.
  Qed.

  Lemma fam_rel_forall tm rf : fam_rel tm rf -> Forall (fun e => pmap_inv cap shrink (snd e)) tm.
  Proof.
    intros [Hwf Hrel]. apply Forall_forall. intros [h pm] Hin. cbn.
    destruct (Hrel h) as [Hinv _]. unfold tm_get in Hinv.
    assert (tm_find h tm = Some pm).
    { clear Hrel Hinv. unfold tm_wf, tm_find in *. induction tm as [|[h' pm'] t IH]; [contradiction|].
      inversion Hwf as [|? ? Hnotin Hwf_t]; subst. cbn.
      destruct Hin as [Heq|Hin].
      - inversion Heq; subst. rewrite N.eqb_refl. reflexivity.
      - destruct (N.eqb_spec h' h) as [->|Hne]; cbn.
        + exfalso. apply Hnotin. apply in_map_iff. exists (h, pm). split; [reflexivity|exact Hin].
        + apply IH; assumption. }
    rewrite H in Hinv. exact Hinv.
  Qed.

  Lemma filter_wf (f : N * pmap -> bool) tm : tm_wf tm -> tm_wf (filter f tm).
  Proof.
    unfold tm_wf. induction tm as [|e t IH]; cbn; intros H; [constructor|].
    inversion H as [|? ? Hx Ht]; subst. destruct (f e); cbn; [constructor|]; auto.
    intros Hin. apply Hx. apply in_map_iff in Hin. destruct Hin as [y [Hy Hin]].
    apply filter_In in Hin. apply in_map_iff. exists y. tauto.
  Qed.

  Lemma map_clean_keys now tm : map fst (map (clean_entry now) tm) = map fst tm.
  Proof. rewrite map_map. reflexivity. Qed.

End Common.
