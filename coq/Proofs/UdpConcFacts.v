(* C04: the interleaving model of the shared udp swarm state refines the sequential reference
   tracker under EVERY schedule of ANY number of threads: each instruction is either a stutter
   or the one atomic effect (linearization point) of its operation. *)
From Coq Require Import Zify ZifyN ZifyBool Permutation.
From Aquatic Require Import RefSwarm PeerMapFacts Selection PeerMapRefine SwarmCommon UdpConcurrent.
Local Open Scope N_scope.

(* ---------- association lists ---------- *)
Lemma lookup_update_same {V} k (v : V) l : lookup k (update k v l) = Some v.
Proof.
  induction l as [|[k' v'] t IH]; cbn; [rewrite N.eqb_refl; reflexivity|].
  destruct (N.eqb_spec k' k) as [->|H]; cbn; [rewrite N.eqb_refl; reflexivity|].
  destruct (N.eqb_spec k' k); [contradiction|exact IH].
Qed.

Lemma lookup_update_other {V} k k' (v : V) l : k' <> k -> lookup k' (update k v l) = lookup k' l.
Proof.
  intros Hne. induction l as [|[k0 v0] t IH]; cbn.
  - destruct (N.eqb_spec k k'); [congruence|reflexivity].
  - destruct (N.eqb_spec k0 k) as [->|H]; cbn.
    + destruct (N.eqb_spec k k'); [congruence|reflexivity].
    + destruct (N.eqb_spec k0 k'); [reflexivity|exact IH].
Qed.

Lemma lookup_remove_same {V} k (l : list (N * V)) : lookup k (remove_key k l) = None.
Proof.
  induction l as [|[k' v'] t IH]; cbn; [reflexivity|].
  destruct (N.eqb_spec k' k) as [->|H]; cbn; [exact IH|].
  destruct (N.eqb_spec k' k); [contradiction|exact IH].
Qed.

Lemma lookup_remove_other {V} k k' (l : list (N * V)) : k' <> k -> lookup k' (remove_key k l) = lookup k' l.
Proof.
  intros Hne. induction l as [|[k0 v0] t IH]; cbn; [reflexivity|].
  destruct (N.eqb_spec k0 k) as [->|H]; cbn.
  - destruct (N.eqb_spec k k'); [congruence|exact IH].
  - destruct (N.eqb_spec k0 k'); [reflexivity|exact IH].
Qed.

(* ---------- threads ---------- *)
Lemma set_thread_nth ts me t i : (me < length ts)%nat ->
  nth_error (set_thread ts me t) i = if Nat.eqb i me then Some t else nth_error ts i.
Proof.
  revert me i. induction ts as [|x r IH]; intros me i H; cbn in H; [lia|].
  destruct me; cbn.
  - destruct i; reflexivity.
  - destruct i; cbn; [reflexivity|]. apply IH. lia.
Qed.

Lemma in_set_thread ts me t x : In x (set_thread ts me t) -> x = t \/ In x ts.
Proof.
  revert me. induction ts as [|y r IH]; intros me H; cbn in H; [destruct me; contradiction|].
  destruct me; cbn in H.
  - destruct H as [<-|H]; [left; reflexivity|right; right; exact H].
  - destruct H as [<-|H]; [right; left; reflexivity|]. destruct (IH _ H); [left; assumption|right; right; assumption].
Qed.

Lemma holders_zero s c : holders s c = 0%nat -> forall t, In t (cs_threads s) -> holds c t = false.
Proof.
  unfold holders. intros H t Hin. destruct (holds c t) eqn:E; [|reflexivity].
  assert (In t (filter (holds c) (cs_threads s))) by (apply filter_In; auto).
  destruct (filter (holds c) (cs_threads s)); [contradiction|discriminate].
Qed.

Section Conc.
  Variable cap : nat.
  Notation pinv := (pmap_inv cap true).

  Definition rupd (r : N -> entries) (h : N) (e : entries) : N -> entries := fun h' => if N.eqb h' h then e else r h'.

  (* ---------- invariants ---------- *)
  Definition Inv (s : cstate) : Prop :=
    (forall t h c, In t (cs_threads s) -> t_held t = Some (h, c) -> lookup h (cs_map s) = Some c)
    /\ (forall h c, lookup h (cs_map s) = Some c -> c < cs_next s)
    /\ (forall h1 h2 c, lookup h1 (cs_map s) = Some c -> lookup h2 (cs_map s) = Some c -> h1 = h2).

  Definition Sim (s : cstate) (r : N -> entries) : Prop :=
    forall h, pinv (abs_pm s h) /\ pm_refines (abs_pm s h) (r h).

  (* what one instruction does to the reference tracker and what it may reply: the sequential
     semantics of the operation it belongs to, or nothing *)
  Definition lin (r : N -> entries) (held : option (N * N)) (i : instr) (ev : list event) (r' : N -> entries) : Prop :=
    match i, held with
    | IAnn2 _ a, Some (h, _) =>
        let '(e', (se, le)) := ref_announce (r h) (a_key a) (a_st a) (a_pid a) (a_until a) in
        (forall x, r' x = rupd r h e' x)
        /\ exists peers, ev = [EAnnounce se le peers]
             /\ selection_ok (a_key a) (ref_remove (a_key a) (r h)) (a_take a) peers
    | IScr h, _ => (forall x, r' x = r x) /\ ev = [EScrape (fst (ref_counts (r h))) (snd (ref_counts (r h)))]
    | ICl2 _ now, Some (h, _) =>
        (forall x, r' x = rupd r h (ref_clean now (r h)) x)
        /\ ev = [ECleaned (fst (ref_counts (ref_clean now (r h)))) (snd (ref_counts (ref_clean now (r h))))]
    | IScrEnd, _ => (forall x, r' x = r x) /\ ev = [EScrapeEnd]
    | _, _ => (forall x, r' x = r x) /\ ev = []
    end.

  Lemma Sim_ext s r r' : (forall x, r' x = r x) -> Sim s r -> Sim s r'.
  Proof. intros E H h. rewrite E. apply H. Qed.

  (* the shared parts after an instruction, as a state *)
  Definition with_parts (s : cstate) (m : list (N * N)) (cells : list (N * pmap)) (nx : N) (ts : list thread) : cstate :=
    mkCstate m cells nx ts.

  Lemma abs_after_cell_update s c pm' h0 ts :
    (forall h1 h2 c0, lookup h1 (cs_map s) = Some c0 -> lookup h2 (cs_map s) = Some c0 -> h1 = h2) ->
    lookup h0 (cs_map s) = Some c ->
    forall h, abs_pm (mkCstate (cs_map s) (update c pm' (cs_cells s)) (cs_next s) ts) h
              = if N.eqb h h0 then pm' else abs_pm s h.
  Proof.
    intros Hinj Hm h. unfold abs_pm, cell_of. cbn [cs_map cs_cells].
    destruct (N.eqb_spec h h0) as [->|Hne].
    - rewrite Hm, lookup_update_same. reflexivity.
    - destruct (lookup h (cs_map s)) as [c'|] eqn:El; [|reflexivity].
      rewrite lookup_update_other; [reflexivity|]. intros ->. apply Hne. eapply Hinj; eassumption.
  Qed.

  Lemma Inv_same_map s ts' held' me code :
    Inv s ->
    nth_error (cs_threads s) me <> None ->
    ts' = set_thread (cs_threads s) me (mkThread code held') ->
    (forall h c, held' = Some (h, c) -> lookup h (cs_map s) = Some c) ->
    forall cells, Inv (mkCstate (cs_map s) cells (cs_next s) ts').
  Proof.
    intros (I1 & I2 & I3) Hme -> Hh cells. split; [|split; assumption].
    intros t h c Hin Ht. cbn [cs_threads cs_map] in *. apply in_set_thread in Hin. destruct Hin as [->|Hin].
    - apply Hh. exact Ht.
    - eapply I1; eassumption.
  Qed.

  (* ---------- program shape: an IAnn2 is only ever reached holding a cell ---------- *)
  Fixpoint wf_code (b : bool) (code : list instr) : bool :=
    match code with
    | [] => true
    | IAnn1 _ :: t => wf_code true t
    | IAnn2 _ _ :: t => b && wf_code false t
    | ICl1 _ :: t | IDrop :: t => wf_code false t
    | _ :: t => wf_code b t
    end.

  Definition shaped (t : thread) : Prop :=
    exists b, (b = true -> t_held t <> None) /\ wf_code b (t_code t) = true.

  Definition is_ann2 (i : instr) : bool := match i with IAnn2 _ _ => true | _ => false end.

  Lemma wf_no_ann2 code : forallb (fun i => negb (is_ann2 i)) code = true -> forall b, wf_code b code = true.
  Proof.
    induction code as [|i t IH]; intros H b; [reflexivity|]. cbn in H. apply andb_prop in H. destruct H as [Hi Ht].
    destruct i; cbn in *; try (apply IH; exact Ht). discriminate.
  Qed.

  Lemma prog_shaped o : wf_code false (prog_of o) = true.
  Proof.
    destruct o as [h a|hs|now hs]; cbn [prog_of]; [reflexivity| |]; apply wf_no_ann2.
    - rewrite forallb_app. apply andb_true_intro. split; [|reflexivity].
      induction hs as [|h t IH]; cbn; [reflexivity|exact IH].
    - rewrite !forallb_app. repeat (apply andb_true_intro; split); try reflexivity.
      + induction hs as [|h t IH]; cbn; [reflexivity|exact IH].
      + induction hs as [|h t IH]; cbn; [reflexivity|exact IH].
  Qed.

  Definition AllShaped (s : cstate) : Prop := forall t, In t (cs_threads s) -> shaped t.

  Lemma cinit_shaped ops : AllShaped (cinit ops).
  Proof.
    intros t Hin. cbn in Hin. apply in_map_iff in Hin. destruct Hin as (o & <- & _).
    exists false. split; [discriminate|apply prog_shaped].
  Qed.

  (* the thread after executing its head instruction keeps its shape *)
  Lemma shaped_step i code held held' :
    shaped (mkThread (i :: code) held) ->
    (match i with
     | IAnn1 _ => held' <> None
     | IAnn2 _ _ | IDrop | ICl1 _ => True
     | _ => held' = held
     end) ->
    shaped (mkThread code held').
  Proof.
    intros (b & Hb & Hw) Hh. cbn [t_code t_held] in *.
    destruct i; cbn [wf_code] in Hw.
    - exists true. split; [intros _; exact Hh|exact Hw].
    - apply andb_prop in Hw. exists false. split; [discriminate|apply Hw].
    - exists b. subst held'. split; assumption.
    - exists b. subst held'. split; assumption.
    - exists false. split; [discriminate|exact Hw].
    - exists b. subst held'. split; assumption.
    - exists false. split; [discriminate|exact Hw].
    - exists b. subst held'. split; assumption.
    - exists b. subst held'. split; assumption.
    - exists b. subst held'. split; assumption.
  Qed.

  (* ---------- one micro-step ---------- *)
  Theorem micro_simulates s r me res :
    Inv s -> AllShaped s -> Sim s r -> micro cap true s me = Some res ->
    exists s' ev, res = Ok (s', ev) /\ Inv s' /\ AllShaped s'
      /\ exists t i, nth_error (cs_threads s) me = Some t /\ hd_error (t_code t) = Some i
           /\ exists r', lin r (t_held t) i ev r' /\ Sim s' r'.
  Proof.
    intros HI HSh HS Hm. unfold micro in Hm.
    destruct (nth_error (cs_threads s) me) as [[code held]|] eqn:Et; [|discriminate].
    destruct code as [|i code]; [discriminate|]. injection Hm as <-.
    assert (Hme : nth_error (cs_threads s) me <> None) by (rewrite Et; discriminate).
    assert (Hin : In (mkThread (i :: code) held) (cs_threads s)) by (eapply nth_error_In; exact Et).
    pose proof HI as (I1 & I2 & I3).
    assert (Hheld : forall h c, held = Some (h, c) -> lookup h (cs_map s) = Some c).
    { intros h c E. apply (I1 _ h c Hin). cbn. exact E. }
    pose proof (HSh _ Hin) as Hshape.
    (* shape of all threads after replacing thread me *)
    assert (Hsh' : forall held' m cells nx,
               shaped (mkThread code held') ->
               AllShaped (mkCstate m cells nx (set_thread (cs_threads s) me (mkThread code held')))).
    { intros held' m cells nx H t Hin'. cbn [cs_threads] in Hin'. apply in_set_thread in Hin'.
      destruct Hin' as [->|Hin']; [exact H|apply HSh; exact Hin']. }
    destruct i as [h|h a|h| |h|h now| |h| | ]; cbn [exec].
    - (* IAnn1 *)
      destruct (lookup h (cs_map s)) as [c|] eqn:El; cbn [obind].
      + do 2 eexists. split; [reflexivity|]. split; [|split].
        * apply (Inv_same_map s _ (Some (h, c)) me code HI Hme eq_refl). intros h' c' E. injection E as <- <-. exact El.
        * apply Hsh'. eapply shaped_step; [exact Hshape|]. discriminate.
        * do 2 eexists. split; [reflexivity|]. split; [reflexivity|]. exists r. split; [split; reflexivity|].
          intros x. exact (HS x).
      + do 2 eexists. split; [reflexivity|]. split; [|split].
        * split; [|split]; cbn [cs_map cs_next cs_threads].
          -- intros t h' c' Hin' Ht. apply in_set_thread in Hin'. destruct Hin' as [->|Hin'].
             ++ cbn in Ht. injection Ht as <- <-. apply lookup_update_same.
             ++ destruct (N.eq_dec h' h) as [->|Hne].
                ** rewrite (I1 _ _ _ Hin' Ht) in El. discriminate.
                ** rewrite lookup_update_other by exact Hne. eapply I1; eassumption.
          -- intros h' c' E. destruct (N.eq_dec h' h) as [->|Hne].
             ++ rewrite lookup_update_same in E. injection E as <-. lia.
             ++ rewrite lookup_update_other in E by exact Hne. apply I2 in E. lia.
          -- intros h1 h2 c' E1 E2.
             destruct (N.eq_dec h1 h) as [->|H1], (N.eq_dec h2 h) as [->|H2]; try reflexivity.
             ++ rewrite lookup_update_same in E1. injection E1 as <-. rewrite lookup_update_other in E2 by exact H2.
                apply I2 in E2. lia.
             ++ rewrite lookup_update_same in E2. injection E2 as <-. rewrite lookup_update_other in E1 by exact H1.
                apply I2 in E1. lia.
             ++ rewrite lookup_update_other in E1, E2 by assumption. eapply I3; eassumption.
        * apply Hsh'. eapply shaped_step; [exact Hshape|]. discriminate.
        * do 2 eexists. split; [reflexivity|]. split; [reflexivity|]. exists r. split; [split; reflexivity|].
          intros x. unfold abs_pm, cell_of. cbn [cs_map cs_cells].
          destruct (N.eq_dec x h) as [->|Hne].
          -- rewrite !lookup_update_same. specialize (HS h). unfold abs_pm in HS. rewrite El in HS. exact HS.
          -- rewrite lookup_update_other by exact Hne. specialize (HS x). unfold abs_pm, cell_of in HS.
             destruct (lookup x (cs_map s)) as [c'|] eqn:Ex; [|exact HS].
             rewrite lookup_update_other; [exact HS|]. apply I2 in Ex. lia.
    - (* IAnn2 *)
      destruct held as [[h0 c]|].
      2:{ exfalso. destruct Hshape as (b & Hb & Hw). cbn in Hw, Hb. apply andb_prop in Hw. destruct Hw as [-> _].
          apply Hb; reflexivity. }
      pose proof (Hheld _ _ eq_refl) as Hmap.
      destruct (HS h0) as [Hinv Href]. assert (Eabs : abs_pm s h0 = cell_of s c) by (unfold abs_pm; rewrite Hmap; reflexivity).
      rewrite Eabs in Hinv, Href.
      destruct (pm_announce_refines cap true _ _ (a_key a) (a_st a) (a_pid a) (a_until a) (a_take a) (a_o1 a) (a_o2 a) Hinv Href)
        as (pm' & rep & removed & Ha & Hinv' & Href' & Hcnt & _ & Hsel).
      rewrite Ha. cbn [obind].
      do 2 eexists. split; [reflexivity|]. split; [|split].
      + apply (Inv_same_map s _ None me code HI Hme eq_refl). discriminate.
      + apply Hsh'. eapply shaped_step; [exact Hshape|exact I].
      + do 2 eexists. split; [reflexivity|]. split; [reflexivity|].
        exists (rupd r h0 (fst (ref_announce (r h0) (a_key a) (a_st a) (a_pid a) (a_until a)))).
        split.
        * cbn [lin t_held]. destruct (ref_announce (r h0) (a_key a) (a_st a) (a_pid a) (a_until a)) as [e' [se le]] eqn:Er.
          cbn [fst snd] in *. split; [reflexivity|]. exists (r_peers rep). inversion Hcnt; subst. split; [reflexivity|exact Hsel].
        * intros x. rewrite (abs_after_cell_update s c pm' h0 _ I3 Hmap x). unfold rupd.
          destruct (N.eqb x h0); [split; assumption|exact (HS x)].
    - (* IScr *)
      destruct (HS h) as [Hinv Href]. rewrite (pm_counts_refines cap true _ _ Hinv Href).
      destruct (ref_counts (r h)) as [se le] eqn:Ec. cbn [obind].
      do 2 eexists. split; [reflexivity|]. split; [|split].
      + apply (Inv_same_map s _ held me code HI Hme eq_refl). exact Hheld.
      + apply Hsh'. eapply shaped_step; [exact Hshape|reflexivity].
      + do 2 eexists. split; [reflexivity|]. split; [reflexivity|]. exists r. split.
        * cbn [lin]. rewrite Ec. split; reflexivity.
        * intros x. exact (HS x).
    - (* IScrEnd *)
      do 2 eexists. split; [reflexivity|]. split; [|split].
      + apply (Inv_same_map s _ held me code HI Hme eq_refl). exact Hheld.
      + apply Hsh'. eapply shaped_step; [exact Hshape|reflexivity].
      + do 2 eexists. split; [reflexivity|]. split; [reflexivity|]. exists r. split; [split; reflexivity|]. intros x. exact (HS x).
    - (* ICl1 *)
      do 2 eexists. split; [reflexivity|]. split; [|split].
      + apply (Inv_same_map s _ (match lookup h (cs_map s) with Some c => Some (h, c) | None => None end) me code HI Hme eq_refl). intros h' c' E.
        destruct (lookup h (cs_map s)) as [c0|] eqn:El; [|discriminate]. injection E as <- <-. exact El.
      + apply Hsh'. eapply shaped_step; [exact Hshape|exact I].
      + do 2 eexists. split; [reflexivity|]. split; [reflexivity|]. exists r. split; [split; reflexivity|]. intros x. exact (HS x).
    - (* ICl2 *)
      destruct held as [[h0 c]|].
      2:{ do 2 eexists. split; [reflexivity|]. split; [|split].
          - apply (Inv_same_map s _ None me code HI Hme eq_refl). discriminate.
          - apply Hsh'. eapply shaped_step; [exact Hshape|reflexivity].
          - do 2 eexists. split; [reflexivity|]. split; [reflexivity|]. exists r. split; [split; reflexivity|]. intros x. exact (HS x). }
      pose proof (Hheld _ _ eq_refl) as Hmap.
      destruct (HS h0) as [Hinv Href]. assert (Eabs : abs_pm s h0 = cell_of s c) by (unfold abs_pm; rewrite Hmap; reflexivity).
      rewrite Eabs in Hinv, Href.
      destruct (pm_clean_refines cap true false _ _ now Hinv Href) as (pm' & msgs & Hc & Hinv' & Href' & _ & _).
      rewrite Hc. cbn [obind]. destruct (ref_counts (ref_clean now (r h0))) as [se le] eqn:Ec. cbn [obind].
      do 2 eexists. split; [reflexivity|]. split; [|split].
      + apply (Inv_same_map s _ (Some (h0, c)) me code HI Hme eq_refl). intros h' c' E. injection E as <- <-. exact Hmap.
      + apply Hsh'. eapply shaped_step; [exact Hshape|reflexivity].
      + do 2 eexists. split; [reflexivity|]. split; [reflexivity|].
        exists (rupd r h0 (ref_clean now (r h0))). split.
        * cbn [lin t_held]. rewrite Ec. split; reflexivity.
        * intros x. rewrite (abs_after_cell_update s c pm' h0 _ I3 Hmap x). unfold rupd.
          destruct (N.eqb x h0); [split; assumption|exact (HS x)].
    - (* IDrop *)
      do 2 eexists. split; [reflexivity|]. split; [|split].
      + apply (Inv_same_map s _ None me code HI Hme eq_refl). discriminate.
      + apply Hsh'. eapply shaped_step; [exact Hshape|exact I].
      + do 2 eexists. split; [reflexivity|]. split; [reflexivity|]. exists r. split; [split; reflexivity|]. intros x. exact (HS x).
    - (* ICl3 *)
      destruct (lookup h (cs_map s)) as [c|] eqn:El.
      2:{ do 2 eexists. split; [reflexivity|]. split; [|split].
          - apply (Inv_same_map s _ held me code HI Hme eq_refl). exact Hheld.
          - apply Hsh'. eapply shaped_step; [exact Hshape|reflexivity].
          - do 2 eexists. split; [reflexivity|]. split; [reflexivity|]. exists r. split; [split; reflexivity|]. intros x. exact (HS x). }
      cbn [negb orb]. destruct (pm_is_empty (cell_of s c) && Nat.eqb (holders s c) 0) eqn:Eg.
      2:{ do 2 eexists. split; [reflexivity|]. split; [|split].
          - apply (Inv_same_map s _ held me code HI Hme eq_refl). exact Hheld.
          - apply Hsh'. eapply shaped_step; [exact Hshape|reflexivity].
          - do 2 eexists. split; [reflexivity|]. split; [reflexivity|]. exists r. split; [split; reflexivity|]. intros x. exact (HS x). }
      apply andb_prop in Eg. destruct Eg as [Hempty Hnone]. apply Nat.eqb_eq in Hnone.
      pose proof (holders_zero s c Hnone) as Hnobody.
      do 2 eexists. split; [reflexivity|]. split; [|split].
      + split; [|split]; cbn [cs_map cs_next cs_threads].
        * intros t h' c' Hin' Ht.
          assert (Hold : lookup h' (cs_map s) = Some c').
          { apply in_set_thread in Hin'. destruct Hin' as [->|Hin'].
            - cbn in Ht. apply Hheld. exact Ht.
            - eapply I1; eassumption. }
          destruct (N.eq_dec h' h) as [->|Hne]; [|rewrite lookup_remove_other by exact Hne; exact Hold].
          exfalso. rewrite El in Hold. injection Hold as <-.
          apply in_set_thread in Hin'. destruct Hin' as [->|Hin'].
          -- cbn in Ht. specialize (Hnobody _ Hin). unfold holds in Hnobody. cbn in Hnobody. rewrite Ht, N.eqb_refl in Hnobody. discriminate.
          -- specialize (Hnobody _ Hin'). unfold holds in Hnobody. rewrite Ht, N.eqb_refl in Hnobody. discriminate.
        * intros h' c' E. destruct (N.eq_dec h' h) as [->|Hne]; [rewrite lookup_remove_same in E; discriminate|].
          rewrite lookup_remove_other in E by exact Hne. eapply I2; exact E.
        * intros h1 h2 c' E1 E2.
          destruct (N.eq_dec h1 h) as [->|H1]; [rewrite lookup_remove_same in E1; discriminate|].
          destruct (N.eq_dec h2 h) as [->|H2]; [rewrite lookup_remove_same in E2; discriminate|].
          rewrite lookup_remove_other in E1, E2 by assumption. eapply I3; eassumption.
      + apply Hsh'. eapply shaped_step; [exact Hshape|reflexivity].
      + do 2 eexists. split; [reflexivity|]. split; [reflexivity|]. exists r. split; [split; reflexivity|].
        intros x. unfold abs_pm. cbn [cs_map cs_cells].
        destruct (N.eq_dec x h) as [->|Hne].
        * rewrite lookup_remove_same. destruct (HS h) as [_ Href]. unfold abs_pm in Href. rewrite El in Href.
          unfold pm_refines in *. unfold pm_is_empty in Hempty.
          destruct (pm_entries (cell_of s c)) eqn:Ee; [|discriminate].
          split; [apply small_nil_inv|]. cbn [pm_entries]. exact Href.
        * rewrite lookup_remove_other by exact Hne. exact (HS x).
    - (* IProbe *)
      do 2 eexists. split; [reflexivity|]. split; [|split].
      + apply (Inv_same_map s _ held me code HI Hme eq_refl). exact Hheld.
      + apply Hsh'. eapply shaped_step; [exact Hshape|reflexivity].
      + do 2 eexists. split; [reflexivity|]. split; [reflexivity|]. exists r. split; [split; reflexivity|]. intros x. exact (HS x).
    - (* IProbeIfHeld *)
      do 2 eexists. split; [reflexivity|]. split; [|split].
      + apply (Inv_same_map s _ held me code HI Hme eq_refl). exact Hheld.
      + apply Hsh'. eapply shaped_step; [exact Hshape|reflexivity].
      + do 2 eexists. split; [reflexivity|]. split; [reflexivity|]. exists r. split; [split; reflexivity|]. intros x. exact (HS x).
  Qed.

  (* ---------- any schedule ---------- *)
  Inductive lin_run : (N -> entries) -> list (nat * event) -> (N -> entries) -> Prop :=
  | lr_nil r : lin_run r [] r
  | lr_step r r1 r2 t held i ev evs :
      lin r held i ev r1 -> lin_run r1 evs r2 -> lin_run r (map (fun e => (t, e)) ev ++ evs) r2.

  Theorem run_micro_simulates sched : forall s r,
    Inv s -> AllShaped s -> Sim s r ->
    exists s' evs, run_micro cap true s sched = Ok (s', evs) /\ Inv s' /\ AllShaped s'
      /\ exists r', lin_run r evs r' /\ Sim s' r'.
  Proof.
    induction sched as [|t sched IH]; intros s r HI HSh HS; cbn [run_micro].
    - do 2 eexists. split; [reflexivity|]. split; [exact HI|]. split; [exact HSh|]. exists r. split; [constructor|exact HS].
    - destruct (micro cap true s t) as [res|] eqn:Em; [|apply IH; assumption].
      destruct (micro_simulates s r t res HI HSh HS Em) as (s1 & ev & -> & HI1 & HSh1 & th & i & _ & _ & r1 & Hlin & HS1).
      destruct (IH s1 r1 HI1 HSh1 HS1) as (s2 & evs & Hr & HI2 & HSh2 & r2 & Hl2 & HS2).
      rewrite Hr. cbn [obind]. do 2 eexists. split; [reflexivity|]. split; [exact HI2|]. split; [exact HSh2|].
      exists r2. split; [econstructor; eassumption|exact HS2].
  Qed.

  Lemma cinit_inv ops : Inv (cinit ops).
  Proof.
    split; [|split]; cbn.
    - intros t h c Hin Ht. apply in_map_iff in Hin. destruct Hin as (o & <- & _). discriminate.
    - intros h c E. discriminate.
    - intros h1 h2 c E. discriminate.
  Qed.

  Lemma cinit_sim ops : Sim (cinit ops) (fun _ => []).
  Proof. intros h. unfold abs_pm. cbn. split; [apply small_nil_inv|constructor]. Qed.

  (* every program, every number of threads, every schedule *)
  Theorem linearizable ops sched :
    exists s evs, run_micro cap true (cinit ops) sched = Ok (s, evs) /\ Inv s
      /\ exists r, lin_run (fun _ => []) evs r /\ Sim s r.
  Proof.
    destruct (run_micro_simulates sched (cinit ops) (fun _ => []) (cinit_inv ops) (cinit_shaped ops) (cinit_sim ops))
      as (s & evs & Hr & HI & _ & r & Hl & HS).
    eauto 8.
  Qed.

  (* ---------- no thread ever waits: a thread with code left can always take its step, the step
     does not fail, and it consumes one instruction ---------- *)
  Definition remaining (s : cstate) : nat := fold_right (fun t acc => (length (t_code t) + acc)%nat) 0%nat (cs_threads s).

  Lemma remaining_set_thread ts me i code held held' :
    nth_error ts me = Some (mkThread (i :: code) held) ->
    (fold_right (fun t acc => (length (t_code t) + acc)%nat) 0%nat (set_thread ts me (mkThread code held')) + 1
     = fold_right (fun t acc => (length (t_code t) + acc)%nat) 0%nat ts)%nat.
  Proof.
    revert me. induction ts as [|x r IH]; intros me H; [destruct me; discriminate|].
    destruct me; cbn in *.
    - injection H as ->. cbn. lia.
    - specialize (IH _ H). lia.
  Qed.

  Theorem progress s r me t i code :
    Inv s -> AllShaped s -> Sim s r ->
    nth_error (cs_threads s) me = Some t -> t_code t = i :: code ->
    exists s' ev, micro cap true s me = Some (Ok (s', ev)) /\ (remaining s' + 1 = remaining s)%nat.
  Proof.
    intros HI HSh HS Ht Hc.
    assert (Hsome : exists res, micro cap true s me = Some res).
    { unfold micro. rewrite Ht. destruct t as [c h]. cbn in Hc. subst c. eauto. }
    destruct Hsome as (res & Em).
    destruct (micro_simulates s r me res HI HSh HS Em) as (s' & ev & -> & _).
    exists s', ev. split; [exact Em|].
    unfold micro in Em. rewrite Ht in Em. destruct t as [c h]. cbn in Hc. subst c.
    destruct (exec cap true s me h i) as [[[[[m cells] nx] held'] ev0]|]; [|discriminate].
    cbn [obind] in Em. injection Em as <- _. unfold remaining. cbn [cs_threads].
    apply (remaining_set_thread _ _ _ _ _ _ Ht).
  Qed.
End Conc.
