(* C05: connection ids are bound to the source address and to a time window. *)
From Coq Require Import Zify ZifyN ZifyBool.
From Aquatic Require Import Validator.
Local Open Scope N_scope.

Lemma bytes_eqb_eq a b : bytes_eqb a b = true <-> a = b.
Proof.
  revert b. induction a as [|x a IH]; intros [|y b]; cbn; split; intros H; try reflexivity; try discriminate.
  - apply andb_prop in H. destruct H as [H1 H2]. apply N.eqb_eq in H1. apply IH in H2. congruence.
  - inversion H; subst. rewrite N.eqb_refl. cbn. apply IH. reflexivity.
Qed.

Lemma bytes_eqb_refl a : bytes_eqb a a = true.
Proof. apply bytes_eqb_eq. reflexivity. Qed.

Ltac Zify.zify_post_hook ::= Z.div_mod_to_equations.

Lemma u32_of_le32 n : n < two32 -> u32_of (le32 n) = n.
Proof. unfold two32, u32_of, le32. intros H. lia. Qed.

Lemma le32_length n : length (le32 n) = 4%nat.
Proof. reflexivity. Qed.

Lemma le32_inj a b : a < two32 -> b < two32 -> le32 a = le32 b -> a = b.
Proof. intros Ha Hb H. rewrite <- (u32_of_le32 a Ha), <- (u32_of_le32 b Hb), H. reflexivity. Qed.

Lemma firstn_le32_app n r : firstn 4 (le32 n ++ r) = le32 n.
Proof. reflexivity. Qed.

Lemma skipn_le32_app n r : skipn 4 (le32 n ++ r) = r.
Proof. reflexivity. Qed.

Section Facts.
  Variable mac : list N -> N.

  (* the exact acceptance window of an id issued at t0 for ip, checked for the same ip *)
  Theorem window t0 now age ip :
    t0 < two32 -> now < two32 -> age < two32 ->
    (valid mac now age ip (create mac t0 ip) = true <-> (now < t0 + age /\ t0 <= now + 60)).
  Proof.
    intros H0 Hn Ha. unfold valid, create.
    rewrite firstn_le32_app, skipn_le32_app, bytes_eqb_refl. cbn [negb].
    rewrite (u32_of_le32 t0 H0).
    rewrite !N.mod_small by (unfold two32, two64 in *; lia).
    rewrite andb_true_iff, N.ltb_lt, N.leb_le. tauto.
  Qed.

  (* u64 sums of u32 values never wrap *)
  Theorem no_u64_wrap e now age :
    e < two32 -> now < two32 -> age < two32 ->
    (e + age) mod two64 = e + age /\ (now + 60) mod two64 = now + 60.
  Proof. intros. split; apply N.mod_small; unfold two32, two64 in *; lia. Qed.

  Lemma le32_u32_of bs : length bs = 4%nat -> Forall (fun b => b < 256) bs -> le32 (u32_of bs) = bs.
  Proof.
    intros Hl Hb. destruct bs as [|a [|b [|c [|d [|? ?]]]]]; try discriminate.
    inversion Hb as [|? ? Ha Hb1]; subst. inversion Hb1 as [|? ? Hb' Hb2]; subst.
    inversion Hb2 as [|? ? Hc Hb3]; subst. inversion Hb3 as [|? ? Hd _]; subst.
    unfold le32, u32_of. repeat f_equal; lia.
  Qed.

  Lemma u32_of_lt bs : length bs = 4%nat -> Forall (fun b => b < 256) bs -> u32_of bs < two32.
  Proof.
    intros Hl Hb. destruct bs as [|a [|b [|c [|d [|? ?]]]]]; try discriminate.
    inversion Hb as [|? ? Ha Hb1]; subst. inversion Hb1 as [|? ? Hb' Hb2]; subst.
    inversion Hb2 as [|? ? Hc Hb3]; subst. inversion Hb3 as [|? ? Hd _]; subst.
    unfold u32_of, two32. lia.
  Qed.

  (* the ONLY ids accepted for an address are the ones create would issue for that very address
     at an in-window time: anything else (issued for another address, altered, forged, from
     another key) needs its 4 tag bytes to equal the keyed hash *)
  Theorem accept_characterised now age ip id :
    length id = 8%nat -> Forall (fun b => b < 256) id -> now < two32 -> age < two32 ->
    (valid mac now age ip id = true <->
       id = create mac (u32_of (firstn 4 id)) ip
       /\ now < u32_of (firstn 4 id) + age /\ u32_of (firstn 4 id) <= now + 60).
  Proof.
    intros Hl Hb Hn Ha.
    assert (Hsplit : id = firstn 4 id ++ skipn 4 id) by (symmetry; apply firstn_skipn).
    assert (Hl4 : length (firstn 4 id) = 4%nat) by (rewrite firstn_length; lia).
    assert (Hb4 : Forall (fun b => b < 256) (firstn 4 id)).
    { apply Forall_forall. intros x Hx. rewrite Forall_forall in Hb. apply Hb.
      rewrite Hsplit. apply in_or_app. left. exact Hx. }
    pose proof (u32_of_lt _ Hl4 Hb4) as Hlt.
    unfold valid. destruct (bytes_eqb (skipn 4 id) (tag mac (firstn 4 id ++ ip))) eqn:E; cbn [negb].
    - apply bytes_eqb_eq in E.
      rewrite !N.mod_small by (unfold two32, two64 in *; lia).
      rewrite andb_true_iff, N.ltb_lt, N.leb_le.
      assert (Hid : id = create mac (u32_of (firstn 4 id)) ip).
      { unfold create. rewrite (le32_u32_of _ Hl4 Hb4). rewrite <- E. exact Hsplit. }
      tauto.
    - split; [discriminate|]. intros [Hid _]. exfalso.
      assert (skipn 4 id = tag mac (firstn 4 id ++ ip)).
      { rewrite Hid at 1. unfold create. rewrite skipn_le32_app. rewrite (le32_u32_of _ Hl4 Hb4). reflexivity. }
      rewrite H in E. rewrite bytes_eqb_refl in E. discriminate.
  Qed.

  (* accepted from another address only on a 32-bit collision of the keyed hash *)
  Theorem other_ip_needs_collision t0 now age ip ip' :
    valid mac now age ip' (create mac t0 ip) = true ->
    mac (le32 t0 ++ ip') mod two32 = mac (le32 t0 ++ ip) mod two32.
  Proof.
    unfold valid, create. rewrite firstn_le32_app, skipn_le32_app.
    destruct (bytes_eqb (tag mac (le32 t0 ++ ip)) (tag mac (le32 t0 ++ ip'))) eqn:E; cbn [negb]; [|discriminate].
    intros _. apply bytes_eqb_eq in E. unfold tag in E. symmetry.
    apply le32_inj; [apply N.mod_lt; discriminate|apply N.mod_lt; discriminate|exact E].
  Qed.

  (* the hash input determines time and address: the 4 time bytes are a fixed-length prefix,
     and 4-octet and 16-octet addresses can never be confused *)
  Theorem mac_input_injective t t' ip ip' :
    t < two32 -> t' < two32 -> le32 t ++ ip = le32 t' ++ ip' -> t = t' /\ ip = ip'.
  Proof.
    intros Ht Ht' H.
    assert (H1 : firstn 4 (le32 t ++ ip) = firstn 4 (le32 t' ++ ip')) by (rewrite H; reflexivity).
    assert (H2 : skipn 4 (le32 t ++ ip) = skipn 4 (le32 t' ++ ip')) by (rewrite H; reflexivity).
    rewrite !firstn_le32_app in H1. rewrite !skipn_le32_app in H2.
    split; [apply le32_inj; assumption|exact H2].
  Qed.

  Theorem far_future_rejected now age ip id :
    now < two32 -> now + 60 < u32_of (firstn 4 id) -> valid mac now age ip id = false.
  Proof.
    intros Hn H. unfold valid. destruct (negb _); [reflexivity|].
    rewrite (N.mod_small (now + 60)) by (unfold two32, two64 in *; lia).
    replace (u32_of (firstn 4 id) <=? now + 60) with false by (symmetry; apply N.leb_gt; exact H).
    apply andb_false_r.
  Qed.

  Theorem age_zero_never_valid t0 now ip :
    t0 < two32 -> now < two32 -> t0 <= now -> valid mac now 0 ip (create mac t0 ip) = false.
  Proof.
    intros H0 Hn Hle. destruct (valid mac now 0 ip (create mac t0 ip)) eqn:E; [|reflexivity].
    apply window in E; [|assumption|assumption|unfold two32; lia]. lia.
  Qed.
End Facts.
