(* C03: source-address canonicalisation and the reverse-proxy header rule. *)
From Aquatic Require Import Addr.
Local Open Scope N_scope.

Definition mapped (a b c d : N) : list N := mapped_prefix ++ [a; b; c; d].

Lemma mapped_is_v4 a b c d p : canonical (SA (mapped a b c d) p) = SA [a; b; c; d] p.
Proof. reflexivity. Qed.

Lemma bytes_eqb_true a b : bytes_eqb a b = true -> a = b.
Proof.
  revert b. induction a as [|x a IH]; intros [|y b]; cbn; intros H; try reflexivity; try discriminate.
  apply andb_prop in H. destruct H as [H1 H2]. apply N.eqb_eq in H1. rewrite (IH b H2), H1. reflexivity.
Qed.

Lemma mapped_v4_spec o v : mapped_v4 o = Some v -> exists a b c d, o = mapped a b c d /\ v = [a; b; c; d].
Proof.
  unfold mapped_v4. destruct (Nat.eqb_spec (length o) 16) as [Hl|]; [|discriminate]. cbn [andb].
  destruct (bytes_eqb (firstn 12 o) mapped_prefix) eqn:E; [|discriminate].
  intros H. apply bytes_eqb_true in E.
  assert (Hv : v = skipn 12 o) by congruence. clear H.
  assert (Hs : length (skipn 12 o) = 4%nat) by (rewrite skipn_length; lia).
  rewrite <- Hv in Hs.
  destruct v as [|a [|b [|c [|d [|? ?]]]]]; try discriminate.
  exists a, b, c, d. split; [|reflexivity].
  unfold mapped. rewrite <- E, Hv. symmetry. apply firstn_skipn.
Qed.

Lemma canonical_idempotent a : canonical (canonical a) = canonical a.
Proof.
  destruct a as [o p]. unfold canonical. destruct (mapped_v4 o) as [v|] eqn:E.
  - apply mapped_v4_spec in E. destruct E as (a & b & c & d & -> & ->). reflexivity.
  - rewrite E. reflexivity.
Qed.

Lemma canonical_unmapped o p : mapped_v4 o = None -> canonical (SA o p) = SA o p.
Proof. intros H. unfold canonical. rewrite H. reflexivity. Qed.

(* a host reached as ::ffff:a.b.c.d and as a.b.c.d is one and the same IPv4 peer *)
Lemma dual_stack_same_key a b c d p req_port x y :
  peer_key (SA (mapped a b c d) p) req_port x = peer_key (SA [a; b; c; d] p) req_port y.
Proof. reflexivity. Qed.

(* the in-request address never influences the key; the key's port is the request's *)
Lemma request_ip_ignored src port x y : peer_key src port x = peer_key src port y.
Proof. reflexivity. Qed.

Lemma key_is_canonical_source src port x :
  peer_key src port x = (match canonical src with SA o _ => o end, port).
Proof. unfold peer_key. destruct (canonical src). reflexivity. Qed.

(* the WebTorrent family decision agrees with the canonical address family *)
Lemma ws_family_agrees o p :
  length o = 4%nat \/ length o = 16%nat -> ws_is_v6 o = negb (is_v4 (canonical (SA o p))).
Proof.
  intros [H|H]; unfold ws_is_v6, canonical, is_v4.
  - rewrite H. cbn [Nat.eqb]. destruct (mapped_v4 o) as [v|] eqn:E.
    + apply mapped_v4_spec in E. destruct E as (a & b & c & d & -> & _). discriminate.
    + rewrite H. reflexivity.
  - rewrite H. cbn [Nat.eqb]. destruct (mapped_v4 o) as [v|] eqn:E.
    + apply mapped_v4_spec in E. destruct E as (a & b & c & d & _ & ->). reflexivity.
    + rewrite H. reflexivity.
Qed.

Section Fwd.
  Variable parse_ip : list N -> option (list N).

  Lemma forwarded_rev_last name hs2 : forall v,
    Forall (fun h => bytes_eqb (fst h) name = false) hs2 ->
    forall hs1, forwarded_rev parse_ip name (rev hs2 ++ (name, v) :: hs1) = Some (parse_ip (trim' (last_piece v))).
  Proof.
    intros v H hs1. induction hs2 as [|h t IH] using rev_ind.
    - cbn. assert (E : bytes_eqb name name = true) by (clear; induction name as [|x l IH]; cbn; [reflexivity|rewrite N.eqb_refl; exact IH]).
      rewrite E. reflexivity.
    - rewrite rev_app_distr. cbn [rev app]. apply Forall_app in H. destruct H as [Ht Hh].
      inversion Hh as [|? ? Hhd _]; subst. destruct h as [n v']. cbn [fst] in Hhd. cbn [forwarded_rev]. rewrite Hhd.
      apply IH, Ht.
  Qed.

  (* the LAST occurrence of the configured header decides, whatever comes before it *)
  Theorem forwarded_last_occurrence name hs1 v hs2 :
    Forall (fun h => bytes_eqb (fst h) name = false) hs2 ->
    forwarded parse_ip name (hs1 ++ (name, v) :: hs2) = Some (parse_ip (trim' (last_piece v))).
  Proof.
    intros H. unfold forwarded. rewrite rev_app_distr. cbn [rev]. rewrite <- app_assoc. cbn [app].
    apply forwarded_rev_last, H.
  Qed.

  Lemma last_piece_aux_no_comma cur l : Forall (fun b => b <> 44) l -> last_piece_aux cur l = rev cur ++ l.
  Proof.
    revert cur. induction l as [|b t IH]; intros cur H; cbn.
    - rewrite app_nil_r. reflexivity.
    - inversion H as [|? ? Hb Ht]; subst. destruct (N.eqb_spec b 44); [contradiction|].
      rewrite IH by exact Ht. cbn. rewrite <- app_assoc. reflexivity.
  Qed.

  (* ... and within it the LAST comma-separated element *)
  Theorem last_piece_after_last_comma pre tail :
    Forall (fun b => b <> 44) tail -> last_piece (pre ++ 44 :: tail) = tail.
  Proof.
    intros H. unfold last_piece. generalize (@nil N) as cur.
    induction pre as [|b t IH]; intros cur; cbn.
    - rewrite last_piece_aux_no_comma by exact H. reflexivity.
    - destruct (N.eqb b 44); apply IH.
  Qed.

  Theorem last_piece_no_comma v : Forall (fun b => b <> 44) v -> last_piece v = v.
  Proof. intros H. unfold last_piece. rewrite last_piece_aux_no_comma by exact H. reflexivity. Qed.

  (* not behind a proxy: the TCP peer, canonicalised, whatever the headers say *)
  Theorem http_direct name remote hs : http_peer_addr parse_ip false name remote hs = Some (canonical remote).
  Proof. reflexivity. Qed.

  (* behind a proxy: the header address with the TCP peer's port; header absent or unparsable:
     the request is not served *)
  Theorem http_proxied name o p hs :
    http_peer_addr parse_ip true name (SA o p) hs
    = match forwarded parse_ip name hs with
      | Some (Some ip) => Some (canonical (SA ip p))
      | _ => None
      end.
  Proof. reflexivity. Qed.
End Fwd.
