(* C19: the watchdog loop returns an error at the first scan at or after the moment any worker
   thread ended, whatever the kind of worker, the way it ended, and the moment. *)
From Coq Require Import Arith.
From Aquatic Require Import Watchdog.
Local Open Scope N_scope.

Lemma scan_none_not_finished now ws w t e :
  scan now ws = None -> In w ws -> wk_end w = Some (t, e) -> now < t.
Proof.
  induction ws as [|x ws IH]; intros Hs Hin He; [destruct Hin|].
  cbn [scan] in Hs. destruct (finished_at now x) eqn:Ef; [discriminate|].
  destruct Hin as [->|Hin]; [|apply IH; assumption].
  unfold finished_at in Ef. rewrite He in Ef. destruct (N.leb_spec t now); [discriminate|assumption].
Qed.

Lemma scan_finds_finished now ws w t e :
  In w ws -> wk_end w = Some (t, e) -> t <= now -> exists x, scan now ws = Some x.
Proof.
  induction ws as [|x ws IH]; intros Hin He Ht; [destruct Hin|].
  cbn [scan]. destruct (finished_at now x) eqn:Ef; [eauto|].
  destruct Hin as [->|Hin]; [|apply IH; assumption].
  unfold finished_at in Ef. rewrite He in Ef. destruct (N.leb_spec t now); [discriminate|lia].
Qed.

(* a scan reports a worker that really ended, with its real ending *)
Lemma scan_sound now ws k e : scan now ws = Some (k, e) ->
  exists w t, In w ws /\ wk_kind w = k /\ wk_end w = Some (t, e) /\ t <= now.
Proof.
  induction ws as [|x ws IH]; intros H; [discriminate|].
  cbn [scan] in H. destruct (finished_at now x) eqn:Ef.
  - injection H as <- <-. unfold finished_at in Ef. destruct (wk_end x) as [[t e']|] eqn:Ee; [|discriminate].
    destruct (N.leb_spec t now); [|discriminate]. injection Ef as <-. exists x, t. repeat split; auto. left; reflexivity.
  - destruct (IH H) as (w & t & Hin & Hk & He & Ht). exists w, t. repeat split; auto. right; exact Hin.
Qed.

Lemma watchdog_catches_gen period ws w t e : 0 < period -> In w ws -> wk_end w = Some (t, e) ->
  forall fuel n,
    (n = 0 \/ scan ((n - 1) * period) ws = None) ->
    (1 <= fuel)%nat -> t <= (n + N.of_nat fuel - 1) * period ->
    exists T r, watchdog period ws n fuel = Some (T, r) /\ T < t + period.
Proof.
  intros Hp Hin He. induction fuel as [|fuel IH]; intros n Hprev Hf Hb; [lia|].
  cbn [watchdog]. destruct (scan (n * period) ws) as [x|] eqn:Es.
  - exists (n * period), (to_result x). split; [reflexivity|].
    destruct Hprev as [->|Hprev]; [lia|].
    pose proof (scan_none_not_finished _ _ _ _ _ Hprev Hin He) as Hlt.
    destruct (N.eq_dec n 0) as [->|Hn]; [lia|]. nia.
  - pose proof (scan_none_not_finished _ _ _ _ _ Es Hin He) as Hlt.
    assert (Hfuel : (1 <= fuel)%nat).
    { destruct fuel; [|lia]. exfalso. change (N.of_nat 1) with 1 in Hb. replace (n + 1 - 1) with n in Hb by lia. lia. }
    apply IH; [right; replace (n + 1 - 1) with n by lia; exact Es|exact Hfuel|].
    replace (n + 1 + N.of_nat fuel - 1) with (n + N.of_nat (S fuel) - 1) by lia. exact Hb.
Qed.

Theorem watchdog_catches period ws w t e : 0 < period -> In w ws -> wk_end w = Some (t, e) ->
  exists T r, watchdog period ws 0 (S (N.to_nat (t / period + 1))) = Some (T, r) /\ T < t + period.
Proof.
  intros Hp Hin He. apply (watchdog_catches_gen period ws w t e Hp Hin He); [left; reflexivity|apply le_n_S, le_0_n|].
  rewrite Nat2N.inj_succ, N2Nat.id.
  pose proof (N.mul_succ_div_gt t period ltac:(lia)). nia.
Qed.

(* while every worker runs, run() does not return *)
Theorem watchdog_silent period ws : (forall w, In w ws -> wk_end w = None) ->
  forall fuel n, watchdog period ws n fuel = None.
Proof.
  intros H. assert (Hs : forall now, scan now ws = None).
  { intros now. induction ws as [|x ws IH]; [reflexivity|]. cbn [scan]. unfold finished_at.
    rewrite (H x (or_introl eq_refl)). apply IH. intros w Hw. apply H. right; exact Hw. }
  induction fuel as [|f IH]; intros n; cbn [watchdog]; [reflexivity|]. rewrite Hs. apply IH.
Qed.

(* what run() returns names a worker that really ended, as "panicked" exactly when it unwound *)
Theorem watchdog_sound period ws : forall fuel n T r, watchdog period ws n fuel = Some (T, r) ->
  exists w t e, In w ws /\ wk_end w = Some (t, e) /\ t <= T
    /\ r = match e with Panicked => RunErrPanicked (wk_kind w) | _ => RunErrStopped (wk_kind w) end.
Proof.
  induction fuel as [|f IH]; intros n T r H; [discriminate|]. cbn [watchdog] in H.
  destruct (scan (n * period) ws) as [[k e]|] eqn:Es; [|eapply IH; exact H].
  injection H as <- <-. destruct (scan_sound _ _ _ _ Es) as (w & t & Hin & Hk & He & Ht).
  exists w, t, e. repeat split; auto. unfold to_result. cbn [fst snd]. rewrite Hk. destruct e; reflexivity.
Qed.
