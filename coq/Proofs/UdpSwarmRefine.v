(* C01: the sequential udp swarm model refines the reference tracker, for every history. *)
From Aquatic Require Import RefSwarm PeerMapFacts Selection PeerMapRefine.

(* ---------- association-list facts ---------- *)
Definition tm_wf (tm : tmap) : Prop := NoDup (map fst tm).

Lemma tm_find_set_same h pm tm : tm_find h (tm_set h pm tm) = Some pm.
Proof.
  unfold tm_find. induction tm as [|[h' pm'] t IH]; simpl.
  - rewrite N.eqb_refl. reflexivity.
  - destruct (N.eqb_spec h' h) as [->|Hne]; simpl.
    + rewrite N.eqb_refl. reflexivity.
    + destruct (N.eqb_spec h' h); [contradiction|]. exact IH.
Qed.

Lemma tm_find_set_other h h' pm tm : h' <> h -> tm_find h' (tm_set h pm tm) = tm_find h' tm.
Proof.
  intros Hne. unfold tm_find. induction tm as [|[h2 pm2] t IH]; simpl.
  - destruct (N.eqb_spec h h'); [congruence|reflexivity].
  - destruct (N.eqb_spec h2 h) as [->|Hne2]; simpl.
    + destruct (N.eqb_spec h h'); [congruence|reflexivity].
    + destruct (N.eqb_spec h2 h'); [reflexivity|exact IH].
Qed.

Lemma tm_get_set_same h pm tm : tm_get h (tm_set h pm tm) = pm.
Proof. unfold tm_get. rewrite tm_find_set_same. reflexivity. Qed.

Lemma tm_get_set_other h h' pm tm : h' <> h -> tm_get h' (tm_set h pm tm) = tm_get h' tm.
Proof. intros H. unfold tm_get. rewrite tm_find_set_other by exact H. reflexivity. Qed.

Lemma tm_set_keys h pm tm :
  map fst (tm_set h pm tm) = if existsb (N.eqb h) (map fst tm) then map fst tm else map fst tm ++ [h].
Proof.
  induction tm as [|[h' pm'] t IH]; simpl; [reflexivity|].
  rewrite (N.eqb_sym h h').
  destruct (N.eqb_spec h' h) as [->|Hne]; simpl; [reflexivity|].
  rewrite IH. destruct (existsb (N.eqb h) (map fst t)); reflexivity.
Qed.

Lemma tm_set_wf h pm tm : tm_wf tm -> tm_wf (tm_set h pm tm).
Proof.
  unfold tm_wf. rewrite tm_set_keys. intros H.
  destruct (existsb (N.eqb h) (map fst tm)) eqn:E; [exact H|].
  apply NoDup_app_snoc; [exact H|].
  intros Hin. assert (existsb (N.eqb h) (map fst tm) = true).
  { apply existsb_exists. exists h. split; [exact Hin|apply N.eqb_refl]. }
  congruence.
Qed.

Lemma tm_find_in h pm tm : tm_find h tm = Some pm -> In (h, pm) tm.
Proof.
  unfold tm_find. induction tm as [|[h' pm'] t IH]; simpl; [discriminate|].
  destruct (N.eqb_spec h' h) as [->|Hne]; simpl.
  - intros H; inversion H; left; reflexivity.
  - intros H; right; apply IH, H.
Qed.

Lemma tm_find_none h tm : tm_find h tm = None -> ~ In h (map fst tm).
Proof.
  unfold tm_find. induction tm as [|[h' pm'] t IH]; simpl; [tauto|].
  destruct (N.eqb_spec h' h) as [->|Hne]; simpl; [discriminate|].
  intros H [Heq|Hin]; [congruence|]. apply IH; assumption.
Qed.

(* ---------- scrape counts ---------- *)
Section Swarm.
  Variable cfg : ucfg.
  Let cap := c_cap cfg.

  Lemma pm_counts_refines pm r :
    pmap_inv cap true pm -> pm_refines pm r -> pm_counts pm = Ok (ref_counts r).
  Proof.
    intros [Hnd Hrep] Href. unfold pm_refines in Href. unfold ref_counts.
    rewrite <- (count_seeders_perm _ _ Href), <- (Permutation_length Href).
    destruct pm as [l|l ns]; cbn [pm_entries pm_counts] in *.
    - rewrite checked_sub_ok by apply count_seeders_le. reflexivity.
    - destruct Hrep as [-> _]. rewrite checked_sub_ok by apply count_seeders_le. reflexivity.
  Qed.

  Lemma small_nil_inv : pmap_inv cap true (Small []).
  Proof. split; cbn; [constructor|lia]. Qed.

  (* ---------- one peer map, cleaning ---------- *)
  Lemma pm_clean_refines pc pm r now :
    pmap_inv cap true pm -> pm_refines pm r ->
    exists pm' msgs,
      pm_clean cap true pc pm now = Ok (pm', ref_counts (ref_clean now r), msgs)
      /\ pmap_inv cap true pm' /\ pm_refines pm' (ref_clean now r)
      /\ pm_entries pm' = filter (peer_valid now) (pm_entries pm)
      /\ msgs = removed_msgs pc now (pm_entries pm).
  Proof.
    intros [Hnd Hrep] Href. unfold pm_refines in Href.
    assert (Hp : Permutation (filter (peer_valid now) (pm_entries pm)) (ref_clean now r))
      by (apply filter_perm, Href).
    assert (Hnd' : NoDup (keys (filter (peer_valid now) (pm_entries pm)))) by (apply filter_keys_nodup, Hnd).
    assert (Hc : ref_counts (ref_clean now r) = ref_counts (filter (peer_valid now) (pm_entries pm)))
      by (symmetry; apply ref_counts_perm, Hp).
    rewrite Hc. unfold ref_counts.
    destruct pm as [l|l ns]; cbn [pm_entries pm_clean] in *.
    - rewrite checked_sub_ok by apply count_seeders_le. cbn [obind].
      do 2 eexists. split; [reflexivity|]. split; [|split; [exact Hp|split; reflexivity]].
      split; [exact Hnd'|]. cbn. pose proof (filter_len_le (peer_valid now) l). lia.
    - destruct Hrep as [-> Hlen].
      rewrite dec_expired_spec by lia. cbn [obind].
      set (l' := filter (peer_valid now) l) in *.
      pose proof (count_seeders_filter_le (peer_valid now) l) as Hle. fold l' in Hle.
      replace (count_seeders l - (count_seeders l - count_seeders l')) with (count_seeders l') by lia.
      rewrite checked_sub_ok by apply count_seeders_le. cbn [obind andb].
      destruct (Nat.leb_spec (length l') cap) as [Hsm|Hlg].
      + do 2 eexists. split; [reflexivity|]. split; [|split; [exact Hp|split; reflexivity]].
        split; [exact Hnd'|exact Hsm].
      + do 2 eexists. split; [reflexivity|]. split; [|split; [exact Hp|split; reflexivity]].
        split; [exact Hnd'|]. split; [reflexivity|]. intros _; exact Hlg.
  Qed.

  (* ---------- state relation ---------- *)
  Definition fam_rel (tm : tmap) (rf : N -> entries) : Prop :=
    tm_wf tm /\ forall h, pmap_inv cap true (tm_get h tm) /\ pm_refines (tm_get h tm) (rf h).

  Definition R (s : ustate) (r : rstate) : Prop := forall v6, fam_rel (ufam s v6) (r v6).

  Lemma R_init : R uinit rinit.
  Proof.
    intros v6. split; [destruct v6; constructor|]. intros h.
    destruct v6; cbn; (split; [apply small_nil_inv|constructor]).
  Qed.

  Lemma ufam_uset_same s v6 tm : ufam (uset s v6 tm) v6 = tm.
  Proof. destruct v6; reflexivity. Qed.

  Lemma ufam_uset_other s v6 tm : ufam (uset s v6 tm) (negb v6) = ufam s (negb v6).
  Proof. destruct v6; reflexivity. Qed.

  (* what an observer of an announce reply sees, relative to the reference state before it *)
  Definition obs_ok (r : rstate) (op : uop) (out : uout) : Prop :=
    match op, out, snd (r_step r op) with
    | UAnnounce v6 hash key _ _ _ _ want _ _, OAnnounce s l peers _, RAnnounce s' l' =>
        s = s' /\ l = l'
        /\ selection_ok key (ref_remove key (r v6 hash)) (limit_udp want (c_max_resp cfg)) peers
    | UScrape _ _, OScrape st, RScrape st' => st = st'
    | UClean _ _ _, OClean _ _ _ _ _ _, RClean => True
    | _, _, _ => False
    end.

  Lemma scrape_refines tm rf hashes v6 r :
    fam_rel tm rf -> rf = r v6 ->
    u_scrape tm hashes = Ok (map (r_scrape1 r v6) hashes).
  Proof.
    intros [Hwf Hrel] ->. induction hashes as [|h t IH]; cbn [u_scrape map]; [reflexivity|].
    destruct (Hrel h) as [Hinv Href]. unfold tm_get in Hinv, Href.
    assert (Hc : (match tm_find h tm with Some pm => pm_counts pm | None => Ok (0, 0) end) = Ok (ref_counts (r v6 h))).
    { destruct (tm_find h tm) as [pm|].
      - apply pm_counts_refines; assumption.
      - unfold pm_refines in Href; cbn in Href. apply Permutation_nil in Href. rewrite Href. reflexivity. }
    rewrite Hc. cbn [obind]. rewrite IH. cbn [obind]. unfold r_scrape1.
    destruct (ref_counts (r v6 h)) as [s l]. reflexivity.
  Qed.

  (* ---------- clean, one family ---------- *)
  Definition pm_clean_pure (now : N) (pm : pmap) : pmap :=
    match pm with
    | Small l => Small (filter (peer_valid now) l)
    | Large l _ =>
        let l' := filter (peer_valid now) l in
        if length l' <=? cap then Small l' else Large l' (count_seeders l')
    end.

  Lemma pm_clean_ok pc pm now :
    pmap_inv cap true pm ->
    pm_clean cap true pc pm now
    = Ok (pm_clean_pure now pm, ref_counts (filter (peer_valid now) (pm_entries pm)), removed_msgs pc now (pm_entries pm))
    /\ pmap_inv cap true (pm_clean_pure now pm)
    /\ pm_entries (pm_clean_pure now pm) = filter (peer_valid now) (pm_entries pm).
  Proof.
    intros Hinv.
    destruct (pm_clean_refines pc pm (pm_entries pm) now Hinv (Permutation_refl _)) as (pm' & msgs & Hc & Hinv' & _ & Hent & Hm).
    assert (pm' = pm_clean_pure now pm).
    { destruct pm as [l|l ns]; cbn [pm_clean pm_clean_pure pm_entries] in *.
      - destruct (checked_sub _ _); cbn [obind] in Hc; [|discriminate]. inversion Hc; reflexivity.
      - destruct Hinv as [_ [-> _]].
        rewrite dec_expired_spec in Hc by lia. cbn [obind] in Hc.
        destruct (checked_sub _ _); cbn [obind] in Hc; [|discriminate].
        pose proof (count_seeders_filter_le (peer_valid now) l).
        cbn [andb] in Hc. destruct (length (filter (peer_valid now) l) <=? cap); inversion Hc; try reflexivity.
        f_equal. lia. }
    subst pm'. rewrite Hc, Hm. unfold ref_clean. auto.
  Qed.

  Definition clean_entry (now : N) (e : N * pmap) : N * pmap := (fst e, pm_clean_pure now (snd e)).

  Lemma phase1_ok v6 now tm :
    Forall (fun e => pmap_inv cap true (snd e)) tm ->
    exists total msgs lines,
      clean_phase1 cfg v6 now tm = Ok (map (clean_entry now) tm, total, msgs, lines).
  Proof.
    induction 1 as [|[h pm] t Hpm _ IH]; cbn [clean_phase1 map].
    - do 3 eexists; reflexivity.
    - cbn [snd] in Hpm. destruct (pm_clean_ok (c_peer_clients cfg) pm now Hpm) as (Hc & _ & _).
      fold cap. rewrite Hc. unfold ref_counts. cbn [obind].
      destruct IH as (total & msgs & lines & ->). cbn [obind].
      do 3 eexists; reflexivity.
  Qed.

  Lemma tm_find_map_clean now h tm :
    tm_find h (map (clean_entry now) tm) = option_map (pm_clean_pure now) (tm_find h tm).
  Proof.
    unfold tm_find. induction tm as [|[h' pm] t IH]; cbn; [reflexivity|].
    destruct (N.eqb h' h); cbn; [reflexivity|exact IH].
  Qed.

  Lemma tm_find_filter (f : N * pmap -> bool) h tm :
    tm_wf tm ->
    tm_find h (filter f tm) = match tm_find h tm with
                              | Some pm => if f (h, pm) then Some pm else None
                              | None => None end.
  Proof.
    unfold tm_wf, tm_find. induction tm as [|[h' pm] t IH]; cbn; intros Hwf; [reflexivity|].
    inversion Hwf as [|? ? Hnotin Hwf_t]; subst.
    destruct (N.eqb_spec h' h) as [->|Hne]; cbn.
    - destruct (f (h, pm)) eqn:Ef; cbn.
      + rewrite N.eqb_refl. reflexivity.
      + rewrite (IH Hwf_t).
        destruct (find (fun e => N.eqb (fst e) h) t) as [[h2 pm2]|] eqn:E; cbn; [|reflexivity].
        exfalso. apply find_some in E. destruct E as [Hin Heq]. cbn in Heq. apply N.eqb_eq in Heq. subst h2.
        apply Hnotin. apply in_map_iff. exists (h, pm2). split; [reflexivity|exact Hin].
    - destruct (f (h', pm)); cbn.
      + destruct (N.eqb_spec h' h); [contradiction|]. apply IH, Hwf_t.
      + apply IH, Hwf_t.
  Qed.

  Lemma fam_rel_forall tm rf : fam_rel tm rf -> Forall (fun e => pmap_inv cap true (snd e)) tm.
  Proof.
    intros [Hwf Hrel]. apply Forall_forall. intros [h pm] Hin. cbn.
    destruct (Hrel h) as [Hinv _]. unfold tm_get in Hinv.
    assert (tm_find h tm = Some pm).
    { clear Hrel Hinv. unfold tm_wf, tm_find in *. induction tm as [|[h' pm'] t IH]; [contradiction|].
      inversion Hwf as [|? ? Hnotin Hwf_t]; subst. cbn.
      destruct Hin as [Heq|Hin].
      - inversion Heq; subst. rewrite N.eqb_refl. reflexivity.
      - destruct (N.eqb_spec h' h) as [->|Hne]; cbn.
        + exfalso. apply Hnotin. apply in_map_iff. exists (h, pm). split; [reflexivity|exact Hin].
        + apply IH; assumption. }
    rewrite H in Hinv. exact Hinv.
  Qed.

  Lemma filter_wf (f : N * pmap -> bool) tm : tm_wf tm -> tm_wf (filter f tm).
  Proof.
    unfold tm_wf. induction tm as [|e t IH]; cbn; intros H; [constructor|].
    inversion H as [|? ? Hx Ht]; subst. destruct (f e); cbn; [constructor|]; auto.
    intros Hin. apply Hx. apply in_map_iff in Hin. destruct Hin as [y [Hy Hin]].
    apply filter_In in Hin. apply in_map_iff. exists y. tauto.
  Qed.

  Lemma map_clean_keys now tm : map fst (map (clean_entry now) tm) = map fst tm.
  Proof. rewrite map_map. reflexivity. Qed.

  Lemma clean_fam_refines v6 now mode acl tm rf :
    fam_rel tm rf ->
    exists tm2 tot msgs lines,
      u_clean_fam cfg v6 now mode acl tm = Ok (tm2, tot, msgs, lines)
      /\ fam_rel tm2 (fun h => if allows mode acl h then ref_clean now (rf h) else []).
  Proof.
    intros Hrel. pose proof (fam_rel_forall _ _ Hrel) as Hall. destruct Hrel as [Hwf Hrel].
    unfold u_clean_fam.
    destruct (phase1_ok v6 now tm Hall) as (total & msgs & lines & ->). cbn [obind].
    do 4 eexists. split; [reflexivity|].
    assert (Hwf1 : tm_wf (map (clean_entry now) tm)) by (unfold tm_wf; rewrite map_clean_keys; exact Hwf).
    split; [apply filter_wf, Hwf1|].
    intros h. unfold tm_get, clean_phase2.
    rewrite (tm_find_filter _ h _ Hwf1), tm_find_map_clean.
    destruct (Hrel h) as [Hinv Href]. unfold tm_get in Hinv, Href.
    destruct (tm_find h tm) as [pm|]; cbn [option_map].
    - destruct (pm_clean_ok false pm now Hinv) as (_ & Hinv' & Hent).
      cbn [fst snd]. destruct (allows mode acl h); cbn [andb].
      + unfold pm_is_empty. rewrite Hent.
        assert (Hp : Permutation (filter (peer_valid now) (pm_entries pm)) (ref_clean now (rf h))) by (apply filter_perm, Href).
        destruct (filter (peer_valid now) (pm_entries pm)) eqn:E; cbn [negb].
        * split; [apply small_nil_inv|exact Hp].
        * split; [exact Hinv'|]. unfold pm_refines. rewrite Hent. exact Hp.
      + split; [apply small_nil_inv|constructor].
    - split; [apply small_nil_inv|].
      unfold pm_refines in *. cbn in *. apply Permutation_nil in Href. rewrite Href. cbn.
      destruct (allows mode acl h); constructor.
  Qed.

  (* ---------- one step ---------- *)
  Theorem step_refines s r op :
    R s r ->
    exists s' out, u_step cfg s op = Ok (s', out) /\ R s' (fst (r_step r op)) /\ obs_ok r op out.
  Proof.
    intros HR. destruct op as [v6 hash key ev bleft pid until want o1 o2|v6 hashes|now mode acl].
    - (* announce *)
      cbn [u_step]. unfold u_announce.
      destruct (HR v6) as [Hwf Hrel]. destruct (Hrel hash) as [Hinv Href].
      destruct (pm_announce_refines cap true _ _ key (status_of ev bleft) pid until
                  (limit_udp want (c_max_resp cfg)) o1 o2 Hinv Href)
        as (pm' & rep & removed & Ha & Hinv' & Href' & Hcnt & _ & Hsel).
      fold cap. rewrite Ha. cbn [obind].
      do 2 eexists. split; [reflexivity|]. split.
      + intros f. cbn [r_step]. destruct (ref_announce (r v6 hash) key (status_of ev bleft) pid until) as [e' [s0 l0]] eqn:Er.
        cbn [fst snd] in *.
        destruct (Bool.eqb_spec f v6) as [->|Hf].
        * rewrite ufam_uset_same. split; [apply tm_set_wf, Hwf|].
          intros h. unfold rset. rewrite Bool.eqb_reflx. cbn [andb].
          destruct (N.eqb_spec h hash) as [->|Hne].
          -- rewrite tm_get_set_same. split; assumption.
          -- rewrite tm_get_set_other by exact Hne. apply Hrel.
        * assert (f = negb v6) by (destruct f, v6; try reflexivity; exfalso; apply Hf; reflexivity). subst f.
          rewrite ufam_uset_other. destruct (HR (negb v6)) as [Hwf2 Hrel2]. split; [exact Hwf2|].
          intros h. unfold rset. destruct (Bool.eqb_spec (negb v6) v6) as [E|_]; [destruct v6; discriminate|].
          cbn [andb]. apply Hrel2.
      + unfold obs_ok. cbn [r_step].
        destruct (ref_announce (r v6 hash) key (status_of ev bleft) pid until) as [e' [s0 l0]] eqn:Er.
        cbn [fst snd] in *. inversion Hcnt; subst. split; [reflexivity|]. split; [reflexivity|exact Hsel].
    - (* scrape *)
      cbn [u_step]. rewrite (scrape_refines _ _ hashes v6 r (HR v6) eq_refl). cbn [obind].
      do 2 eexists. split; [reflexivity|]. split; [exact HR|]. unfold obs_ok; cbn. reflexivity.
    - (* clean *)
      cbn [u_step]. unfold u_clean.
      destruct (clean_fam_refines false now mode acl _ _ (HR false)) as (tm4 & [t4 p4] & m4 & l4 & H4 & R4).
      destruct (clean_fam_refines true now mode acl _ _ (HR true)) as (tm6 & [t6 p6] & m6 & l6 & H6 & R6).
      cbn [ufam] in H4, H6. rewrite H4. cbn [obind]. rewrite H6. cbn [obind].
      do 2 eexists. split; [reflexivity|]. split; [|unfold obs_ok; cbn; exact I].
      intros f. cbn [r_step fst]. destruct f; cbn [ufam u4 u6]; assumption.
  Qed.

  (* ---------- every history ---------- *)
  Fixpoint trace_ok (r : rstate) (ops : list uop) (outs : list uout) : Prop :=
    match ops, outs with
    | [], [] => True
    | op :: ops', out :: outs' => obs_ok r op out /\ trace_ok (fst (r_step r op)) ops' outs'
    | _, _ => False
    end.

  Theorem run_refines ops : forall s r,
    R s r ->
    exists s' outs, u_run cfg s ops = Ok (s', outs) /\ R s' (r_final r ops) /\ trace_ok r ops outs.
  Proof.
    induction ops as [|op t IH]; intros s r HR; cbn [u_run r_final].
    - do 2 eexists. split; [reflexivity|]. split; [exact HR|exact I].
    - destruct (step_refines s r op HR) as (s1 & out & Hs & HR1 & Hobs).
      rewrite Hs. cbn [obind].
      destruct (IH s1 _ HR1) as (s2 & outs & Hr & HR2 & Htr).
      rewrite Hr. cbn [obind].
      do 2 eexists. split; [reflexivity|]. split; [exact HR2|]. cbn [trace_ok]. split; assumption.
  Qed.
End Swarm.
