(* C01: the sequential udp swarm model refines the reference tracker, for every history. *)
From Aquatic Require Import RefSwarm PeerMapFacts Selection PeerMapRefine SwarmCommon.

Section Swarm.
  Variable cfg : ucfg.
  Let cap := c_cap cfg.
  Notation fam_rel := (fam_rel cap true).
  Notation pm_clean_pure := (pm_clean_pure cap true).
  Notation clean_entry := (clean_entry cap true).
  Notation pm_counts_refines := (pm_counts_refines cap true).
  Notation small_nil_inv := (small_nil_inv cap true).
  Notation pm_clean_ok := (pm_clean_ok cap true).
  Notation tm_find_map_clean := (tm_find_map_clean cap true).
  Notation fam_rel_forall := (fam_rel_forall cap true).
  Notation map_clean_keys := (map_clean_keys cap true).

  Definition R (s : ustate) (r : rstate) : Prop := forall v6, fam_rel (ufam s v6) (r v6).

  Lemma R_init : R uinit rinit.
  Proof.
    intros v6. split; [destruct v6; constructor|]. intros h.
    destruct v6; cbn; (split; [apply small_nil_inv|constructor]).
  Qed.

  Lemma ufam_uset_same s v6 tm : ufam (uset s v6 tm) v6 = tm.
  Proof. destruct v6; reflexivity. Qed.

  Lemma ufam_uset_other s v6 tm : ufam (uset s v6 tm) (negb v6) = ufam s (negb v6).
  Proof. destruct v6; reflexivity. Qed.

  (* what an observer of an announce reply sees, relative to the reference state before it *)
  Definition obs_ok (r : rstate) (op : uop) (out : uout) : Prop :=
    match op, out, snd (r_step r op) with
    | UAnnounce v6 hash key _ _ _ _ want _ _, OAnnounce s l peers _, RAnnounce s' l' =>
        s = s' /\ l = l'
        /\ selection_ok key (ref_remove key (r v6 hash)) (limit_udp want (c_max_resp cfg)) peers
    | UScrape _ _, OScrape st, RScrape st' => st = st'
    | UClean _ _ _, OClean _ _ _ _ _ _, RClean => True
    | _, _, _ => False
    end.

  Lemma scrape_refines tm rf hashes v6 r :
    fam_rel tm rf -> rf = r v6 ->
    u_scrape tm hashes = Ok (map (r_scrape1 r v6) hashes).
  Proof.
    intros [Hwf Hrel] ->. induction hashes as [|h t IH]; cbn [u_scrape map]; [reflexivity|].
    destruct (Hrel h) as [Hinv Href]. unfold tm_get in Hinv, Href.
    assert (Hc : (match tm_find h tm with Some pm => pm_counts pm | None => Ok (0, 0) end) = Ok (ref_counts (r v6 h))).
    { destruct (tm_find h tm) as [pm|].
      - apply pm_counts_refines; assumption.
      - unfold pm_refines in Href; cbn in Href. apply Permutation_nil in Href. rewrite Href. reflexivity. }
    rewrite Hc. cbn [obind]. rewrite IH. cbn [obind]. unfold r_scrape1.
    destruct (ref_counts (r v6 h)) as [s l]. reflexivity.
  Qed.

  (* ---------- clean, one family ---------- *)
  Lemma phase1_ok v6 now tm :
    Forall (fun e => pmap_inv cap true (snd e)) tm ->
    exists total msgs lines,
      clean_phase1 cfg v6 now tm = Ok (map (clean_entry now) tm, total, msgs, lines).
  Proof.
    induction 1 as [|[h pm] t Hpm _ IH]; cbn [clean_phase1 map].
    - do 3 eexists; reflexivity.
    - cbn [snd] in Hpm. destruct (pm_clean_ok (c_peer_clients cfg) pm now Hpm) as (Hc & _ & _).
      fold cap. rewrite Hc. unfold ref_counts. cbn [obind].
      destruct IH as (total & msgs & lines & ->). cbn [obind].
      do 3 eexists; reflexivity.
  Qed.

  Lemma clean_fam_refines v6 now mode acl tm rf :
    fam_rel tm rf ->
    exists tm2 tot msgs lines,
      u_clean_fam cfg v6 now mode acl tm = Ok (tm2, tot, msgs, lines)
      /\ fam_rel tm2 (fun h => if allows mode acl h then ref_clean now (rf h) else []).
  Proof.
    intros Hrel. pose proof (fam_rel_forall _ _ Hrel) as Hall. destruct Hrel as [Hwf Hrel].
    unfold u_clean_fam.
    destruct (phase1_ok v6 now tm Hall) as (total & msgs & lines & ->). cbn [obind].
    do 4 eexists. split; [reflexivity|].
    assert (Hwf1 : tm_wf (map (clean_entry now) tm)) by (unfold tm_wf; rewrite map_clean_keys; exact Hwf).
    split; [apply filter_wf, Hwf1|].
    intros h. unfold tm_get, clean_phase2.
    rewrite (tm_find_filter _ h _ Hwf1), tm_find_map_clean.
    destruct (Hrel h) as [Hinv Href]. unfold tm_get in Hinv, Href.
    destruct (tm_find h tm) as [pm|]; cbn [option_map].
    - destruct (pm_clean_ok false pm now Hinv) as (_ & Hinv' & Hent).
      cbn [fst snd]. destruct (allows mode acl h); cbn [andb].
      + unfold pm_is_empty. rewrite Hent.
        assert (Hp : Permutation (filter (peer_valid now) (pm_entries pm)) (ref_clean now (rf h))) by (apply filter_perm, Href).
        destruct (filter (peer_valid now) (pm_entries pm)) eqn:E; cbn [negb].
        * split; [apply small_nil_inv|exact Hp].
        * split; [exact Hinv'|]. unfold pm_refines. rewrite Hent. exact Hp.
      + split; [apply small_nil_inv|constructor].
    - split; [apply small_nil_inv|].
      unfold pm_refines in *. cbn in *. apply Permutation_nil in Href. rewrite Href. cbn.
      destruct (allows mode acl h); constructor.
  Qed.

  (* ---------- one step ---------- *)
  Theorem step_refines s r op :
    R s r ->
    exists s' out, u_step cfg s op = Ok (s', out) /\ R s' (fst (r_step r op)) /\ obs_ok r op out.
  Proof.
    intros HR. destruct op as [v6 hash key ev bleft pid until want o1 o2|v6 hashes|now mode acl].
    - (* announce *)
      cbn [u_step]. unfold u_announce.
      destruct (HR v6) as [Hwf Hrel]. destruct (Hrel hash) as [Hinv Href].
      destruct (pm_announce_refines cap true _ _ key (status_of ev bleft) pid until
                  (limit_udp want (c_max_resp cfg)) o1 o2 Hinv Href)
        as (pm' & rep & removed & Ha & Hinv' & Href' & Hcnt & _ & Hsel).
      fold cap. rewrite Ha. cbn [obind].
      do 2 eexists. split; [reflexivity|]. split.
      + intros f. cbn [r_step]. destruct (ref_announce (r v6 hash) key (status_of ev bleft) pid until) as [e' [s0 l0]] eqn:Er.
        cbn [fst snd] in *.
        destruct (Bool.eqb_spec f v6) as [->|Hf].
        * rewrite ufam_uset_same. split; [apply tm_set_wf, Hwf|].
          intros h. unfold rset. rewrite Bool.eqb_reflx. cbn [andb].
          destruct (N.eqb_spec h hash) as [->|Hne].
          -- rewrite tm_get_set_same. split; assumption.
          -- rewrite tm_get_set_other by exact Hne. apply Hrel.
        * assert (f = negb v6) by (destruct f, v6; try reflexivity; exfalso; apply Hf; reflexivity). subst f.
          rewrite ufam_uset_other. destruct (HR (negb v6)) as [Hwf2 Hrel2]. split; [exact Hwf2|].
          intros h. unfold rset. destruct (Bool.eqb_spec (negb v6) v6) as [E|_]; [destruct v6; discriminate|].
          cbn [andb]. apply Hrel2.
      + unfold obs_ok. cbn [r_step].
        destruct (ref_announce (r v6 hash) key (status_of ev bleft) pid until) as [e' [s0 l0]] eqn:Er.
        cbn [fst snd] in *. inversion Hcnt; subst. split; [reflexivity|]. split; [reflexivity|exact Hsel].
    - (* scrape *)
      cbn [u_step]. rewrite (scrape_refines _ _ hashes v6 r (HR v6) eq_refl). cbn [obind].
      do 2 eexists. split; [reflexivity|]. split; [exact HR|]. unfold obs_ok; cbn. reflexivity.
    - (* clean *)
      cbn [u_step]. unfold u_clean.
      destruct (clean_fam_refines false now mode acl _ _ (HR false)) as (tm4 & [t4 p4] & m4 & l4 & H4 & R4).
      destruct (clean_fam_refines true now mode acl _ _ (HR true)) as (tm6 & [t6 p6] & m6 & l6 & H6 & R6).
      cbn [ufam] in H4, H6. rewrite H4. cbn [obind]. rewrite H6. cbn [obind].
      do 2 eexists. split; [reflexivity|]. split; [|unfold obs_ok; cbn; exact I].
      intros f. cbn [r_step fst]. destruct f; cbn [ufam u4 u6]; assumption.
  Qed.

  (* ---------- every history ---------- *)
  Fixpoint trace_ok (r : rstate) (ops : list uop) (outs : list uout) : Prop :=
    match ops, outs with
    | [], [] => True
    | op :: ops', out :: outs' => obs_ok r op out /\ trace_ok (fst (r_step r op)) ops' outs'
    | _, _ => False
    end.

  Theorem run_refines ops : forall s r,
    R s r ->
    exists s' outs, u_run cfg s ops = Ok (s', outs) /\ R s' (r_final r ops) /\ trace_ok r ops outs.
  Proof.
    induction ops as [|op t IH]; intros s r HR; cbn [u_run r_final].
    - do 2 eexists. split; [reflexivity|]. split; [exact HR|exact I].
    - destruct (step_refines s r op HR) as (s1 & out & Hs & HR1 & Hobs).
      rewrite Hs. cbn [obind].
      destruct (IH s1 _ HR1) as (s2 & outs & Hr & HR2 & Htr).
      rewrite Hr. cbn [obind].
      do 2 eexists. split; [reflexivity|]. split; [exact HR2|]. cbn [trace_ok]. split; assumption.
  Qed.
End Swarm.