(* C12: totality of the handlers (no panic point is reachable, whatever the field values), and
   linear size bounds for what the parsers allocate. *)
From Coq Require Import Zify ZifyN ZifyBool.
From Aquatic Require Import Outcome Layout UdpCodec HttpCodec RefSwarm UdpSwarm HttpSwarm WsSwarm
  UdpSwarmRefine HttpSwarmRefine AssocFacts WsFacts.
Ltac Zify.zify_post_hook ::= Z.div_mod_to_equations.

(* ---------- handlers ---------- *)
Lemma u_run_total cfg ops : exists s outs, u_run cfg uinit ops = Ok (s, outs).
Proof. destruct (run_refines cfg ops uinit rinit (R_init cfg)) as (s & outs & H & _). eauto. Qed.

Lemma h_run_total cfg ops : exists s outs, h_run cfg hinit ops = Ok (s, outs).
Proof. destruct (hrun_refines cfg ops hinit rinit (HR_init cfg)) as (s & outs & H & _). eauto. Qed.

Fixpoint ws_run (strict : bool) (cfg : wcfg) (s : wstate) (ops : list wop) : outcome (wstate * list (list wout)) :=
  match ops with
  | [] => Ok (s, [])
  | op :: t =>
      match ws_step_gen strict cfg s op with
      | Panic => Panic
      | Ok (s', o) => match ws_run strict cfg s' t with
                      | Panic => Panic
                      | Ok (s'', os) => Ok (s'', o :: os)
                      end
      end
  end.

Lemma ws_run_total strict cfg ops : forall s, wstate_ok s ->
  exists s' outs, ws_run strict cfg s ops = Ok (s', outs) /\ wstate_ok s'.
Proof.
  induction ops as [|op t IH]; intros s Hs; cbn [ws_run]; [eauto|].
  destruct (ws_step_ok strict cfg s op Hs) as (s1 & o & E & H1). rewrite E.
  destruct (IH s1 H1) as (s2 & os & E2 & H2). rewrite E2. eauto.
Qed.

(* ---------- allocation: udp ---------- *)
Lemma chunks_nil fuel n : chunks fuel n [] = [].
Proof. destruct fuel; reflexivity. Qed.

Lemma chunks_count fuel n : forall l, (0 < n)%nat -> (n * length (chunks fuel n l) <= length l + n - 1)%nat.
Proof.
  induction fuel as [|f IH]; intros l Hn; cbn [chunks length]; [lia|].
  destruct l as [|x l']; [cbn [length]; lia|].
  set (l := x :: l') in *. cbn [length].
  destruct (Nat.le_gt_cases n (length l)) as [Hge|Hlt].
  - specialize (IH (skipn n l) Hn). rewrite skipn_length in IH. lia.
  - rewrite (skipn_all2 l) by lia. rewrite chunks_nil. cbn [length]. subst l. cbn [length] in *. lia.
Qed.

Lemma chunks_each fuel n : forall l, Forall (fun c => length c <= n)%nat (chunks fuel n l).
Proof.
  induction fuel as [|f IH]; intros l; cbn [chunks]; [constructor|].
  destruct l as [|x l']; constructor; [|apply IH].
  rewrite firstn_length. lia.
Qed.

Section Udp.
  Variable L : layouts.

  (* a scrape request holds at most max_scrape_torrents hashes and never more than the datagram
     carried: 20 bytes of input per stored hash *)
  Lemma udp_scrape_alloc bytes max cid tid hs :
    parse_request L bytes max = POk (UdpCodec.RScrape cid tid hs) ->
    (length hs <= max)%nat /\ (20 * length hs <= length bytes)%nat /\ Forall (fun h => length h <= 20)%nat hs.
  Proof.
    unfold parse_request. intros H.
    destruct (length bytes <? 12)%nat eqn:E12; [discriminate|].
    destruct (Z.eqb _ 0).
    { destruct (length bytes <? 16)%nat; [discriminate|]. destruct (N.eqb _ _); discriminate. }
    destruct (Z.eqb _ 1).
    { destruct (dec_prefix _ _ _) as [[vs r]|]; [|discriminate]. destruct (Z.eqb _ 0); discriminate. }
    destruct (Z.eqb _ 2); [|discriminate].
    destruct (length bytes <? 16)%nat eqn:E16; [discriminate|].
    destruct (skipn 16 bytes) as [|r0 rest'] eqn:Er; [discriminate|].
    rewrite <- Er in H.
    destruct (negb _) eqn:Em; [discriminate|].
    injection H as _ _ Hhs. subst hs.
    assert (Hlen : length (skipn 16 bytes) = (length bytes - 16)%nat) by apply skipn_length.
    pose proof (chunks_count (length (skipn 16 bytes)) 20 (skipn 16 bytes) ltac:(lia)) as Hc.
    pose proof (chunks_each (length (skipn 16 bytes)) 20 (skipn 16 bytes)) as He.
    set (cs := chunks _ 20 _) in *. clearbody cs.
    apply Bool.negb_false_iff, Nat.eqb_eq in Em. apply Nat.mod_divides in Em; [|lia]. destruct Em as [q Hq].
    rewrite firstn_length. split; [lia|]. split; [lia|].
    apply Forall_forall. intros h Hin. rewrite Forall_forall in He. apply He.
    rewrite <- (firstn_skipn (Nat.min max (length cs)) cs). apply in_or_app. left. exact Hin.
  Qed.
End Udp.

(* ---------- allocation: http ---------- *)
Lemma positions_of_length c : forall s i, (length (positions_of c i s) <= length s)%nat.
Proof.
  induction s as [|x s IH]; intros i; cbn [positions_of length]; [lia|].
  destruct (N.eqb x c); cbn [length]; specialize (IH (S i)); lia.
Qed.

Section Http.

  Lemma walk_measure {St : Type} (kv : St -> list N -> list N -> option St) (m : St -> nat) :
    (forall st k v st', kv st k v = Some st' -> (m st' <= m st + 1)%nat) ->
    forall s eqs amps pos st st',
      walk kv s eqs amps pos st = Some st' -> (m st' <= m st + length eqs)%nat.
  Proof.
    intros Hkv s eqs. induction eqs as [|e eqs IH]; intros amps pos st st' H; cbn [walk length] in *.
    - injection H as <-. lia.
    - destruct amps as [|a amps'].
      + destruct (e <? pos)%nat; [discriminate|]. destruct (length s <? e + 1)%nat; [discriminate|].
        destruct (kv st _ _) as [st1|] eqn:E; [|discriminate]. apply Hkv in E.
        rewrite Nat.eqb_refl in H. injection H as <-. lia.
      + destruct (e <? pos)%nat; [discriminate|]. destruct (a <? e + 1)%nat; [discriminate|].
        destruct (kv st _ _) as [st1|] eqn:E; [|discriminate]. apply Hkv in E.
        destruct (Nat.eqb a (length s)).
        * injection H as <-. lia.
        * apply IH in H. lia.
  Qed.

  (* a scrape query never yields more hashes than it has '=' signs, hence than it has bytes *)
  Lemma http_scrape_alloc s hs :
    parse_scrape_query s = Some hs -> (length hs <= length s)%nat.
  Proof.
    unfold parse_scrape_query, parse_query. intros H.
    destruct (walk _ _ _ _ _ _) as [r|] eqn:E; [|destruct hs; discriminate].
    assert (Hr : r = hs) by (destruct r; [discriminate|injection H as <-; reflexivity]). subst r.
    apply (walk_measure scrape_kv (@length (list N))) in E.
    - pose proof (positions_of_length ch_eq s 0). cbn [length] in E. lia.
    - intros st k v st' Hk. unfold scrape_kv in Hk. destruct (seq_eqb _ _).
      + destruct (urldecode20 v); [|discriminate]. injection Hk as <-. rewrite app_length. cbn. lia.
      + injection Hk as <-. lia.
  Qed.
End Http.
