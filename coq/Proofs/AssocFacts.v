(* Facts about association lists with IndexMap semantics (Model/WsSwarm.v, Section Assoc),
   for keys in N. *)
From Aquatic Require Import WsSwarm.
From Coq Require Import Permutation.

Section AssocN.
  Context {V : Type}.
  Notation akeys := (map (@fst N V)).

  Lemma aget_aput_same k v (l : list (N * V)) : aget N.eqb k (aput N.eqb k v l) = Some v.
  Proof.
    induction l as [|[k' v'] t IH]; cbn.
    - rewrite N.eqb_refl. reflexivity.
    - destruct (N.eqb_spec k' k) as [->|Hne]; cbn.
      + rewrite N.eqb_refl. reflexivity.
      + destruct (N.eqb_spec k' k); [contradiction|exact IH].
  Qed.

  Lemma aget_aput_other k k' v (l : list (N * V)) : k' <> k -> aget N.eqb k' (aput N.eqb k v l) = aget N.eqb k' l.
  Proof.
    intros Hne. induction l as [|[k2 v2] t IH]; cbn.
    - destruct (N.eqb_spec k k'); [congruence|reflexivity].
    - destruct (N.eqb_spec k2 k) as [->|Hne2]; cbn.
      + destruct (N.eqb_spec k k'); [congruence|reflexivity].
      + destruct (N.eqb_spec k2 k'); [reflexivity|exact IH].
  Qed.

  Lemma aget_none_notin k (l : list (N * V)) : aget N.eqb k l = None <-> ~ In k (akeys l).
  Proof.
    induction l as [|[k' v'] t IH]; cbn; [tauto|].
    destruct (N.eqb_spec k' k) as [->|Hne]; split; intros H; try discriminate.
    - exfalso. apply H. left. reflexivity.
    - intros [E|Hin]; [congruence|]. apply IH in H. contradiction.
    - apply IH. intros Hin. apply H. right. exact Hin.
  Qed.

  Lemma aget_some_in k v (l : list (N * V)) : aget N.eqb k l = Some v -> In (k, v) l.
  Proof.
    induction l as [|[k' v'] t IH]; cbn; [discriminate|].
    destruct (N.eqb_spec k' k) as [->|Hne]; intros H; [inversion H; left; reflexivity|right; apply IH, H].
  Qed.

  Lemma in_aget k v (l : list (N * V)) : NoDup (akeys l) -> In (k, v) l -> aget N.eqb k l = Some v.
  Proof.
    induction l as [|[k' v'] t IH]; cbn; intros Hnd Hin; [contradiction|].
    inversion Hnd as [|? ? Hx Ht]; subst. destruct Hin as [E|Hin].
    - inversion E; subst. rewrite N.eqb_refl. reflexivity.
    - destruct (N.eqb_spec k' k) as [->|Hne]; [|apply IH; assumption].
      exfalso. apply Hx. apply in_map_iff. exists (k, v). split; [reflexivity|exact Hin].
  Qed.

  Lemma aput_keys k v (l : list (N * V)) :
    akeys (aput N.eqb k v l) = if existsb (N.eqb k) (akeys l) then akeys l else akeys l ++ [k].
  Proof.
    induction l as [|[k' v'] t IH]; cbn; [reflexivity|].
    rewrite (N.eqb_sym k k'). destruct (N.eqb_spec k' k) as [->|Hne]; cbn; [reflexivity|].
    rewrite IH. destruct (existsb (N.eqb k) (akeys t)); reflexivity.
  Qed.

  Lemma aput_nodup k v (l : list (N * V)) : NoDup (akeys l) -> NoDup (akeys (aput N.eqb k v l)).
  Proof.
    intros H. rewrite aput_keys. destruct (existsb (N.eqb k) (akeys l)) eqn:E; [exact H|].
    assert (~ In k (akeys l)).
    { intros Hin. assert (existsb (N.eqb k) (akeys l) = true) by (apply existsb_exists; exists k; split; [exact Hin|apply N.eqb_refl]). congruence. }
    clear E. induction (akeys l) as [|x t IH]; cbn; [constructor; [tauto|constructor]|].
    inversion H as [|? ? Hx Ht]; subst. constructor.
    - intros Hin. apply in_app_or in Hin. destruct Hin as [Hin|[E|[]]]; [tauto|]. subst. apply H0. left. reflexivity.
    - apply IH; [exact Ht|]. intros Hin. apply H0. right. exact Hin.
  Qed.

  Lemma aput_in_keys k v (l : list (N * V)) x : In x (akeys (aput N.eqb k v l)) <-> x = k \/ In x (akeys l).
  Proof.
    rewrite aput_keys. destruct (existsb (N.eqb k) (akeys l)) eqn:E.
    - apply existsb_exists in E. destruct E as [y [Hy Heq]]. apply N.eqb_eq in Heq. subst y.
      split; [auto|]. intros [->|H]; assumption.
    - rewrite in_app_iff. cbn. split; [intros [H|[H|[]]]; auto|intros [H|H]; auto].
  Qed.

  (* updating an existing key keeps order and length *)
  Lemma aput_present_length k v (l : list (N * V)) : In k (akeys l) -> length (aput N.eqb k v l) = length l.
  Proof.
    induction l as [|[k' v'] t IH]; cbn; intros H; [contradiction|].
    destruct (N.eqb_spec k' k) as [->|Hne]; cbn; [reflexivity|].
    f_equal. apply IH. destruct H; [congruence|assumption].
  Qed.

  Lemma aput_absent k v (l : list (N * V)) : ~ In k (akeys l) -> aput N.eqb k v l = l ++ [(k, v)].
  Proof.
    induction l as [|[k' v'] t IH]; cbn; intros H; [reflexivity|].
    destruct (N.eqb_spec k' k) as [->|Hne]; [exfalso; apply H; left; reflexivity|].
    f_equal. apply IH. intros Hin. apply H. right. exact Hin.
  Qed.

  Definition aremove (k : N) (l : list (N * V)) : list (N * V) := filter (fun e => negb (N.eqb (fst e) k)) l.

  Lemma aremove_notin k (l : list (N * V)) : ~ In k (akeys l) -> aremove k l = l.
  Proof.
    induction l as [|[k' v'] t IH]; cbn; intros H; [reflexivity|].
    destruct (N.eqb_spec k' k) as [->|Hne]; cbn; [exfalso; apply H; left; reflexivity|].
    f_equal. apply IH. intros Hin. apply H. right. exact Hin.
  Qed.

  Lemma aswap_remove_spec k (l : list (N * V)) :
    NoDup (akeys l) ->
    fst (aswap_remove N.eqb k l) = aget N.eqb k l
    /\ Permutation (snd (aswap_remove N.eqb k l)) (aremove k l).
  Proof.
    induction l as [|[k' v'] t IH]; cbn; intros H; [split; [reflexivity|constructor]|].
    inversion H as [|? ? Hx Ht]; subst.
    destruct (N.eqb_spec k' k) as [->|Hne]; cbn.
    - split; [reflexivity|]. fold (aremove k t). rewrite aremove_notin by exact Hx.
      destruct t as [|e t']; [constructor|].
      rewrite (app_removelast_last (k, v') (l := e :: t')) at 3 by discriminate.
      apply Permutation_cons_append.
    - destruct (IH Ht) as [A B]. destruct (aswap_remove N.eqb k t) as [r t'] eqn:E. cbn in *.
      split; [exact A|constructor; exact B].
  Qed.

  Lemma aremove_keys k (l : list (N * V)) : akeys (aremove k l) = filter (fun x => negb (N.eqb x k)) (akeys l).
  Proof.
    unfold aremove. induction l as [|[k' v'] t IH]; cbn; [reflexivity|].
    destruct (N.eqb k' k); cbn; rewrite IH; reflexivity.
  Qed.

  Lemma aremove_nodup k (l : list (N * V)) : NoDup (akeys l) -> NoDup (akeys (aremove k l)).
  Proof.
    rewrite aremove_keys. intros H. induction H as [|x t Hx _ IH]; cbn; [constructor|].
    destruct (negb (N.eqb x k)); [constructor|]; auto.
    intros Hin. apply Hx. apply filter_In in Hin. tauto.
  Qed.

  Lemma aremove_not_in k (l : list (N * V)) : ~ In k (akeys (aremove k l)).
  Proof.
    rewrite aremove_keys. intros H. apply filter_In in H. destruct H as [_ H]. rewrite N.eqb_refl in H. discriminate.
  Qed.
  Lemma aget_in_keys' k v (l : list (N * V)) : aget N.eqb k l = Some v -> In k (akeys l).
  Proof. intros H. apply aget_some_in in H. apply in_map_iff. exists (k, v). auto. Qed.
End AssocN.

Lemma NoDup_app_snoc' {A} (l : list A) x : NoDup l -> ~ In x l -> NoDup (l ++ [x]).
Proof.
  induction l as [|y t IH]; cbn; intros Hnd Hx; [constructor; [tauto|constructor]|].
  inversion Hnd as [|? ? Hy Ht]; subst. constructor.
  - intros Hin. apply in_app_or in Hin. destruct Hin as [Hin|[Heq|[]]]; [tauto|]. subst. apply Hx; left; reflexivity.
  - apply IH; [exact Ht|]. intros Hin; apply Hx; right; exact Hin.
Qed.

Lemma NoDup_filter' {A} (f : A -> bool) l : NoDup l -> NoDup (filter f l).
Proof.
  induction 1 as [|x l Hx _ IH]; cbn; [constructor|].
  destruct (f x); [constructor|]; auto.
  intros Hin; apply Hx; apply filter_In in Hin; tauto.
Qed.
