(* C13: the udp codec model over the BEP 15 layouts: round trips, acceptance of conforming
   datagrams, rejections. *)
From Coq Require Import Zify ZifyN ZifyBool.
From Aquatic Require Import Layout LayoutFacts UdpCodec Bep15.
Local Open Scope N_scope.

Definition bep15_layouts : layouts :=
  mkLayouts bep15_announce_request bep15_connect_response bep15_announce_fixed bep15_scrape_stats bep15_peer
            bep15_protocol_id.

Notation L := bep15_layouts.

(* ---------- list plumbing ---------- *)
Lemma skipn_add {A} a b (l : list A) : skipn (a + b) l = skipn b (skipn a l).
Proof.
  revert l. induction a as [|a IH]; intros l; cbn; [reflexivity|].
  destruct l; [destruct b; reflexivity|apply IH].
Qed.

Lemma i32_be_length z : length (i32_be z) = 4%nat. Proof. apply be_enc_length. Qed.
Lemma i64_be_length z : length (i64_be z) = 8%nat. Proof. apply be_enc_length. Qed.

Lemma rd_i32_be z : signed_ok 4 z -> rd_i32 (i32_be z) = z.
Proof. intros H. unfold rd_i32, i32_be. rewrite be_dec_enc by apply to_unsigned_lt. apply signed_roundtrip, H. Qed.

Lemma rd_i64_be z : signed_ok 8 z -> rd_i64 (i64_be z) = z.
Proof. intros H. unfold rd_i64, i64_be. rewrite be_dec_enc by apply to_unsigned_lt. apply signed_roundtrip, H. Qed.

Lemma signed_ok_small w z : (0 < w)%nat -> (0 <= z < 128)%Z -> signed_ok w z.
Proof.
  intros Hw Hz. unfold signed_ok, zpow256. destruct w as [|w]; [lia|].
  rewrite pow256_S. pose proof (pow256_pos w). lia.
Qed.

Lemma match_ne {A B} (l : list A) (a b : B) : l <> [] -> match l with [] => a | _ :: _ => b end = b.
Proof. destruct l; [congruence|reflexivity]. Qed.

Lemma skipn_12 {A} (a b r : list A) : length a = 8%nat -> length b = 4%nat -> skipn 12 (a ++ b ++ r) = r.
Proof. intros Ha Hb. rewrite app_assoc. apply skipn_app_exact. rewrite app_length. lia. Qed.

Lemma skipn_16 {A} (a b c r : list A) :
  length a = 8%nat -> length b = 4%nat -> length c = 4%nat -> skipn 16 (a ++ b ++ c ++ r) = r.
Proof. intros Ha Hb Hc. rewrite !app_assoc. apply skipn_app_exact. rewrite !app_length. lia. Qed.

(* ---------- connect ---------- *)
Theorem roundtrip_connect tid max :
  signed_ok 4 tid -> parse_request L (write_request L (RConnect tid)) max = POk (RConnect tid).
Proof.
  intros H. unfold parse_request, write_request. cbn [L_protocol_id bep15_layouts].
  set (A := be_enc 8 bep15_protocol_id). set (B := i32_be 0). set (C := i32_be tid).
  assert (HA : length A = 8%nat) by apply be_enc_length.
  assert (HB : length B = 4%nat) by apply i32_be_length.
  assert (HC : length C = 4%nat) by apply i32_be_length.
  assert (Hlen : length (A ++ B ++ C) = 16%nat) by (rewrite !app_length; lia).
  rewrite Hlen. cbn [Nat.ltb Nat.leb].
  rewrite (skipn_app_exact A (B ++ C) 8 HA), (firstn_app_exact B C 4 HB).
  unfold B at 1. rewrite rd_i32_be by (apply signed_ok_small; lia). cbn [Z.eqb Pos.eqb].
  rewrite (firstn_app_exact A (B ++ C) 8 HA). unfold A at 1.
  rewrite be_dec_enc by (vm_compute; reflexivity). rewrite N.eqb_refl.
  rewrite (skipn_12 A B C HA HB).
  rewrite <- (app_nil_r C), (firstn_app_exact C [] 4 HC). unfold C. rewrite rd_i32_be by exact H. reflexivity.
Qed.

(* ---------- announce ---------- *)
Definition announce_wf (vs : list fval) : Prop := wf_vals 4 bep15_announce_request vs.

Lemma wf_vals_cons ipw n t l vs :
  wf_vals ipw ((n, t) :: l) vs -> exists v vs', vs = v :: vs' /\ wf_field ipw t v /\ wf_vals ipw l vs'.
Proof. destruct vs; cbn; [tauto|]. intros [A B]. eauto. Qed.

Lemma wf_vals_nil ipw vs : wf_vals ipw [] vs -> vs = [].
Proof. destruct vs; cbn; tauto. Qed.

Ltac split_wf_vals H :=
  repeat (apply wf_vals_cons in H; let v := fresh "v" in let vs := fresh "vs" in let Hf := fresh "Hf" in
          destruct H as (v & vs & -> & Hf & H));
  apply wf_vals_nil in H; subst;
  repeat match goal with
         | Hf : wf_field _ _ ?v |- _ => destruct v; cbn [wf_field] in Hf; try contradiction
         end.

Lemma announce_shape vs : announce_wf vs ->
  exists cid tid ih pid dl lf ul ev ip key want port,
    vs = [VInt cid; VInt 1; VInt tid; VBytes ih; VBytes pid; VInt dl; VInt lf; VInt ul; VInt ev; VBytes ip; VInt key; VInt want; VInt port].
Proof.
  unfold announce_wf, bep15_announce_request. intros H.
  split_wf_vals H.
  match goal with Hx : signed_ok 4 _ /\ enum_valid bep15_announce_action ?z = true |- _ =>
    destruct Hx as [_ E]; assert (z = 1%Z) by (unfold enum_valid, bep15_announce_action in E; cbn [existsb snd] in E; rewrite orb_false_r in E; apply Z.eqb_eq in E; congruence); subst z end.
  do 12 eexists. reflexivity.
Qed.

Lemma enc_struct_ge_12 vs : announce_wf vs -> length (enc_struct bep15_announce_request vs) = 98%nat.
Proof. intros H. rewrite (enc_struct_length 4 _ _ H). reflexivity. Qed.

Lemma announce_action_bytes vs ext : announce_wf vs ->
  rd_i32 (firstn 4 (skipn 8 (enc_struct bep15_announce_request vs ++ ext))) = 1%Z.
Proof.
  intros H. destruct (announce_shape vs H) as (cid & tid & ih & pid & dl & lf & ul & ev & ip & key & want & port & ->).
  cbn [enc_struct bep15_announce_request enc_field]. rewrite <- !app_assoc.
  rewrite skipn_app_exact by apply be_enc_length.
  rewrite firstn_app_exact by apply be_enc_length.
  fold (i32_be 1). apply rd_i32_be. apply signed_ok_small; lia.
Qed.

(* every conforming announce datagram - optionally followed by extension bytes - is accepted and
   every field gets its value; all four events *)
Theorem accepts_conforming_announce vs ext max :
  announce_wf vs -> int_of (field_at bep15_announce_request vs "port") <> 0%Z ->
  parse_request L (enc_struct bep15_announce_request vs ++ ext) max = POk (RAnnounce vs).
Proof.
  intros H Hport. unfold parse_request. cbn [L_announce_request bep15_layouts].
  rewrite app_length, (enc_struct_ge_12 vs H).
  destruct (Nat.ltb_spec (98 + length ext) 12) as [Hlt|_]; [lia|].
  rewrite (announce_action_bytes vs ext H). cbn [Z.eqb Pos.eqb].
  rewrite (dec_enc_struct 4 _ vs ext H).
  destruct (Z.eqb_spec (int_of (field_at bep15_announce_request vs "port")) 0); [contradiction|reflexivity].
Qed.

Theorem roundtrip_announce vs max :
  announce_wf vs -> int_of (field_at bep15_announce_request vs "port") <> 0%Z ->
  parse_request L (write_request L (RAnnounce vs)) max = POk (RAnnounce vs).
Proof.
  intros H Hp. cbn [write_request L_announce_request bep15_layouts].
  rewrite <- (app_nil_r (enc_struct _ vs)). apply accepts_conforming_announce; assumption.
Qed.

Theorem rejects_port_zero vs ext max :
  announce_wf vs -> int_of (field_at bep15_announce_request vs "port") = 0%Z ->
  parse_request L (enc_struct bep15_announce_request vs ++ ext) max
  = PErr (Sendable (int_of (field_at bep15_announce_request vs "connection_id"))
                   (int_of (field_at bep15_announce_request vs "transaction_id")) 1).
Proof.
  intros H Hport. unfold parse_request. cbn [L_announce_request bep15_layouts].
  rewrite app_length, (enc_struct_ge_12 vs H).
  destruct (Nat.ltb_spec (98 + length ext) 12) as [Hlt|_]; [lia|].
  rewrite (announce_action_bytes vs ext H). cbn [Z.eqb Pos.eqb].
  rewrite (dec_enc_struct 4 _ vs ext H). rewrite Hport. reflexivity.
Qed.

(* ---------- generic rejections ---------- *)
Theorem rejects_short bytes max : (length bytes < 12)%nat -> parse_request L bytes max = PErr Unsendable.
Proof. intros H. unfold parse_request. destruct (Nat.ltb_spec (length bytes) 12); [reflexivity|lia]. Qed.

Theorem rejects_unknown_action bytes max :
  let a := rd_i32 (firstn 4 (skipn 8 bytes)) in
  a <> 0%Z -> a <> 1%Z -> a <> 2%Z -> parse_request L bytes max = PErr Unsendable.
Proof.
  intros a H0 H1 H2. unfold parse_request. destruct (length bytes <? 12)%nat; [reflexivity|].
  fold a. destruct (Z.eqb_spec a 0); [contradiction|]. destruct (Z.eqb_spec a 1); [contradiction|].
  destruct (Z.eqb_spec a 2); [contradiction|]. reflexivity.
Qed.

Theorem rejects_short_announce bytes max :
  rd_i32 (firstn 4 (skipn 8 bytes)) = 1%Z -> (length bytes < 98)%nat -> parse_request L bytes max = PErr Unsendable.
Proof.
  intros Ha Hl. unfold parse_request. destruct (length bytes <? 12)%nat; [reflexivity|].
  rewrite Ha. cbn [Z.eqb L_announce_request bep15_layouts].
  rewrite (dec_prefix_short 4 bep15_announce_request bytes); [reflexivity|exact Hl].
Qed.

Theorem rejects_short_connect_or_scrape bytes max :
  let a := rd_i32 (firstn 4 (skipn 8 bytes)) in
  (a = 0%Z \/ a = 2%Z) -> (length bytes < 16)%nat -> parse_request L bytes max = PErr Unsendable.
Proof.
  intros a Ha Hl. unfold parse_request. destruct (length bytes <? 12)%nat; [reflexivity|]. fold a.
  destruct Ha as [-> | ->]; cbn [Z.eqb]; destruct (Nat.ltb_spec (length bytes) 16); try reflexivity; lia.
Qed.

Theorem rejects_wrong_protocol_id bytes max :
  rd_i32 (firstn 4 (skipn 8 bytes)) = 0%Z -> be_dec (firstn 8 bytes) <> bep15_protocol_id ->
  parse_request L bytes max = PErr Unsendable.
Proof.
  intros Ha Hp. unfold parse_request. destruct (length bytes <? 12)%nat; [reflexivity|]. rewrite Ha. cbn [Z.eqb Pos.eqb].
  destruct (length bytes <? 16)%nat; [reflexivity|]. cbn [L_protocol_id bep15_layouts].
  destruct (N.eqb_spec (be_dec (firstn 8 bytes)) bep15_protocol_id); [contradiction|reflexivity].
Qed.

(* an unknown event (or any invalid enum bit pattern) makes the zero-copy read fail *)
Lemma dec_prefix_bad_enum ipw pre name ds post bytes :
  (layout_size ipw pre + 4 <= length bytes)%nat ->
  enum_valid ds (rd_i32 (firstn 4 (skipn (layout_size ipw pre) bytes))) = false ->
  dec_prefix ipw (pre ++ (name, FEnum ds) :: post) bytes = None.
Proof.
  revert bytes. induction pre as [|[n t] pre IH]; intros bytes Hlen Hbad; cbn [app dec_prefix].
  - cbn [layout_size fold_right] in Hlen, Hbad. cbn [skipn] in Hbad. cbn [fwidth]. destruct (Nat.ltb_spec (length bytes) 4); [reflexivity|].
    cbn [dec_field]. unfold rd_i32 in Hbad. rewrite Hbad. reflexivity.
  - cbn [layout_size fold_right snd] in Hlen, Hbad. fold (layout_size ipw pre) in Hlen, Hbad.
    destruct (Nat.ltb_spec (length bytes) (fwidth ipw t)); [reflexivity|].
    rewrite IH.
    + destruct (dec_field ipw t _); reflexivity.
    + rewrite skipn_length. lia.
    + rewrite <- skipn_add. exact Hbad.
Qed.

Definition ann_pre : layout :=
  [("connection_id"%string, FI64); ("action_placeholder"%string, FEnum bep15_announce_action);
   ("transaction_id"%string, FI32); ("info_hash"%string, FBytes 20); ("peer_id"%string, FBytes 20);
   ("bytes_downloaded"%string, FI64); ("bytes_left"%string, FI64); ("bytes_uploaded"%string, FI64)].
Definition ann_post : layout :=
  [("ip_address"%string, FBytes 4); ("key"%string, FI32); ("peers_wanted"%string, FI32); ("port"%string, FU16)].
Lemma ann_split : bep15_announce_request = (ann_pre ++ ("event"%string, FEnum bep15_events) :: ann_post)%list.
Proof. reflexivity. Qed.

Theorem rejects_unknown_event bytes max :
  rd_i32 (firstn 4 (skipn 8 bytes)) = 1%Z -> (98 <= length bytes)%nat ->
  enum_valid bep15_events (rd_i32 (firstn 4 (skipn 80 bytes))) = false ->
  parse_request L bytes max = PErr Unsendable.
Proof.
  intros Ha Hl Hev. unfold parse_request. destruct (Nat.ltb_spec (length bytes) 12); [lia|].
  rewrite Ha. cbn [Z.eqb L_announce_request bep15_layouts].
  rewrite ann_split.
  rewrite dec_prefix_bad_enum; [reflexivity| |].
  - cbn. lia.
  - exact Hev.
Qed.

(* ---------- scrape ---------- *)
Lemma chunks_concat (hs : list (list N)) : forall fuel,
  Forall (fun h => length h = 20%nat) hs -> (length hs <= fuel)%nat -> chunks fuel 20 (concat hs) = hs.
Proof.
  induction hs as [|h t IH]; intros fuel Hall Hf; cbn [concat].
  - destruct fuel; reflexivity.
  - inversion Hall as [|? ? Hh Ht]; subst. destruct fuel as [|fuel]; [cbn in Hf; lia|].
    cbn [chunks]. destruct (h ++ concat t) eqn:E.
    + destruct h; [discriminate|discriminate].
    + rewrite <- E. rewrite (firstn_app_exact h _ 20 Hh), (skipn_app_exact h _ 20 Hh).
      rewrite IH; [reflexivity|exact Ht|cbn in Hf; lia].
Qed.

Lemma concat_length_20 (hs : list (list N)) : Forall (fun h => length h = 20%nat) hs -> length (concat hs) = (20 * length hs)%nat.
Proof.
  induction 1 as [|h t Hh _ IH]; cbn [concat length]; [reflexivity|]. rewrite app_length, Hh, IH. lia.
Qed.

(* a scrape round-trips, cut to the first max_scrape_torrents hashes, in order *)
Theorem roundtrip_scrape cid tid hs max :
  signed_ok 8 cid -> signed_ok 4 tid -> hs <> [] -> Forall (fun h => length h = 20%nat) hs ->
  parse_request L (write_request L (RScrape cid tid hs)) max
  = POk (RScrape cid tid (firstn (Nat.min max (length hs)) hs)).
Proof.
  intros Hc Ht Hne Hall. unfold parse_request, write_request.
  set (A := i64_be cid). set (B := i32_be 2). set (C := i32_be tid). set (D := concat hs).
  assert (HA : length A = 8%nat) by apply i64_be_length.
  assert (HB : length B = 4%nat) by apply i32_be_length.
  assert (HC : length C = 4%nat) by apply i32_be_length.
  assert (HAv : rd_i64 A = cid) by (apply rd_i64_be, Hc).
  assert (HBv : rd_i32 B = 2%Z) by (apply rd_i32_be, signed_ok_small; lia).
  assert (HCv : rd_i32 C = tid) by (apply rd_i32_be, Ht).
  clearbody A B C.
  assert (HD : length D = (20 * length hs)%nat) by apply concat_length_20, Hall.
  assert (Hlen : length (A ++ B ++ C ++ D) = (16 + 20 * length hs)%nat) by (rewrite !app_length; lia).
  rewrite Hlen.
  destruct (Nat.ltb_spec (16 + 20 * length hs) 12); [lia|].
  rewrite (skipn_app_exact A _ 8 HA), (firstn_app_exact B _ 4 HB).
  rewrite HBv. cbn [Z.eqb Pos.eqb].
  destruct (Nat.ltb_spec (16 + 20 * length hs) 16); [lia|].
  rewrite (firstn_app_exact A _ 8 HA). rewrite HAv.
  rewrite (skipn_12 A B _ HA HB).
  rewrite (firstn_app_exact C _ 4 HC). rewrite HCv.
  rewrite (skipn_16 A B C _ HA HB HC).
  assert (HDne : D <> []).
  { intros E. rewrite E in HD. destruct hs; [congruence|]. cbn in HD. lia. }
  assert (HDc : chunks (length D) 20 D = hs) by (unfold D at 2; apply chunks_concat; [exact Hall|rewrite HD; lia]).
  clearbody D.
  rewrite (match_ne D _ _ HDne). rewrite HDc, HD.
  replace ((20 * length hs) mod 20)%nat with 0%nat by (symmetry; rewrite Nat.mul_comm; apply Nat.mod_mul; lia).
  reflexivity.
Qed.

Theorem rejects_empty_scrape cid tid max :
  signed_ok 8 cid -> signed_ok 4 tid ->
  parse_request L (i64_be cid ++ i32_be 2 ++ i32_be tid) max = PErr (Sendable cid tid 2).
Proof.
  intros Hc Ht. unfold parse_request.
  set (A := i64_be cid). set (B := i32_be 2). set (C := i32_be tid).
  assert (HA : length A = 8%nat) by apply i64_be_length.
  assert (HB : length B = 4%nat) by apply i32_be_length.
  assert (HC : length C = 4%nat) by apply i32_be_length.
  assert (HAv : rd_i64 A = cid) by (apply rd_i64_be, Hc).
  assert (HBv : rd_i32 B = 2%Z) by (apply rd_i32_be, signed_ok_small; lia).
  assert (HCv : rd_i32 C = tid) by (apply rd_i32_be, Ht).
  clearbody A B C.
  assert (Hlen : length (A ++ B ++ C) = 16%nat) by (rewrite !app_length; lia).
  rewrite Hlen. cbn [Nat.ltb Nat.leb].
  rewrite (skipn_app_exact A _ 8 HA), (firstn_app_exact B _ 4 HB).
  rewrite HBv. cbn [Z.eqb Pos.eqb].
  rewrite (firstn_app_exact A _ 8 HA). rewrite HAv.
  rewrite (skipn_12 A B _ HA HB).
  rewrite (firstn_all2 (n := 4) C) by lia. rewrite HCv.
  rewrite (skipn_all2 (n := 16) (A ++ B ++ C)) by lia. reflexivity.
Qed.

Theorem rejects_bad_hash_list cid tid rest max :
  signed_ok 8 cid -> signed_ok 4 tid -> rest <> [] -> (length rest mod 20 <> 0)%nat ->
  parse_request L (i64_be cid ++ i32_be 2 ++ i32_be tid ++ rest) max = PErr (Sendable cid tid 3).
Proof.
  intros Hc Ht Hne Hmod. unfold parse_request.
  set (A := i64_be cid). set (B := i32_be 2). set (C := i32_be tid).
  assert (HA : length A = 8%nat) by apply i64_be_length.
  assert (HB : length B = 4%nat) by apply i32_be_length.
  assert (HC : length C = 4%nat) by apply i32_be_length.
  assert (HAv : rd_i64 A = cid) by (apply rd_i64_be, Hc).
  assert (HBv : rd_i32 B = 2%Z) by (apply rd_i32_be, signed_ok_small; lia).
  assert (HCv : rd_i32 C = tid) by (apply rd_i32_be, Ht).
  clearbody A B C.
  assert (Hlen : length (A ++ B ++ C ++ rest) = (16 + length rest)%nat) by (rewrite !app_length; lia).
  rewrite Hlen.
  destruct (Nat.ltb_spec (16 + length rest) 12); [lia|].
  rewrite (skipn_app_exact A _ 8 HA), (firstn_app_exact B _ 4 HB).
  rewrite HBv. cbn [Z.eqb Pos.eqb].
  destruct (Nat.ltb_spec (16 + length rest) 16); [lia|].
  rewrite (firstn_app_exact A _ 8 HA). rewrite HAv.
  rewrite (skipn_12 A B _ HA HB).
  rewrite (firstn_app_exact C _ 4 HC). rewrite HCv.
  rewrite (skipn_16 A B C _ HA HB HC).
  destruct rest as [|r0 rest']; [congruence|].
  destruct (Nat.eqb_spec (length (r0 :: rest') mod 20) 0); [contradiction|reflexivity].
Qed.

(* ---------- responses ---------- *)
Lemma chunks_concat_n n (cs : list (list N)) : forall fuel,
  (0 < n)%nat -> Forall (fun c => length c = n) cs -> (length cs <= fuel)%nat -> chunks fuel n (concat cs) = cs.
Proof.
  induction cs as [|c t IH]; intros fuel Hn Hall Hf; cbn [concat].
  - destruct fuel; reflexivity.
  - inversion Hall as [|? ? Hc Ht]; subst. destruct fuel as [|fuel]; [cbn in Hf; lia|].
    cbn [chunks]. destruct (c ++ concat t) eqn:E.
    + destruct c; [cbn in Hn; lia|discriminate].
    + rewrite <- E. rewrite (firstn_app_exact c _ _ eq_refl), (skipn_app_exact c _ _ eq_refl).
      rewrite IH; [reflexivity|exact Hn|exact Ht|cbn in Hf; lia].
Qed.

Lemma concat_length_n n (cs : list (list N)) : Forall (fun c => length c = n) cs -> length (concat cs) = (n * length cs)%nat.
Proof.
  induction 1 as [|c t Hc _ IH]; cbn [concat length]; [lia|]. rewrite app_length, Hc, IH. lia.
Qed.

Lemma dec_array_roundtrip w l items :
  (0 < layout_size w l)%nat -> Forall (wf_vals w l) items ->
  dec_array w l (concat (map (enc_struct l) items)) = Some items.
Proof.
  intros Hs Hall. unfold dec_array.
  destruct (Nat.eqb_spec (layout_size w l) 0); [lia|].
  assert (Hlens : Forall (fun c => length c = layout_size w l) (map (enc_struct l) items)).
  { apply Forall_forall. intros c Hin. apply in_map_iff in Hin. destruct Hin as [vs [<- Hin]].
    rewrite Forall_forall in Hall. apply enc_struct_length, Hall, Hin. }
  rewrite (concat_length_n _ _ Hlens). rewrite map_length.
  replace ((layout_size w l * length items) mod layout_size w l)%nat with 0%nat
    by (symmetry; rewrite Nat.mul_comm; apply Nat.mod_mul; lia).
  cbn [Nat.eqb negb].
  rewrite chunks_concat_n; [|lia|exact Hlens|rewrite map_length; nia].
  induction Hall as [|vs t Hvs _ IH]; cbn [map]; [reflexivity|].
  rewrite <- (app_nil_r (enc_struct l vs)), (dec_enc_struct w l vs [] Hvs).
  inversion Hlens; subst. rewrite IH by assumption. reflexivity.
Qed.

Theorem roundtrip_connect_response vs v6 :
  wf_vals 4 bep15_connect_response vs ->
  parse_response L (write_response L (SConnect vs)) v6 = Some (SConnect vs).
Proof.
  intros H. unfold parse_response, write_response. cbn [L_connect_response bep15_layouts].
  set (A := i32_be 0). set (B := enc_struct bep15_connect_response vs).
  assert (HA : length A = 4%nat) by apply i32_be_length.
  assert (HB : length B = 12%nat) by (unfold B; rewrite (enc_struct_length 4 _ _ H); reflexivity).
  assert (HAv : rd_i32 A = 0%Z) by (apply rd_i32_be, signed_ok_small; lia).
  assert (HBd : dec_prefix 4 bep15_connect_response B = Some (vs, [])).
  { unfold B. rewrite <- (app_nil_r (enc_struct _ vs)). apply dec_enc_struct, H. }
  clearbody A B.
  rewrite app_length, HA, HB. cbn [Nat.ltb Nat.leb plus].
  rewrite (firstn_app_exact A B 4 HA), (skipn_app_exact A B 4 HA), HAv. cbn [Z.eqb].
  rewrite HB. cbn [layout_size fold_right snd fwidth bep15_connect_response plus Nat.eqb].
  rewrite HBd. reflexivity.
Qed.

Definition peer_layout_size (v6 : bool) : nat := layout_size (ipw v6) bep15_peer.

Theorem roundtrip_announce_response v6 fixed peers :
  wf_vals 4 bep15_announce_fixed fixed -> Forall (wf_vals (ipw v6) bep15_peer) peers ->
  parse_response L (write_response L (SAnnounce v6 fixed peers)) v6 = Some (SAnnounce v6 fixed peers).
Proof.
  intros Hf Hp. unfold parse_response, write_response. cbn [L_announce_fixed L_peer bep15_layouts].
  set (A := i32_be 1). set (B := enc_struct bep15_announce_fixed fixed).
  set (C := concat (map (enc_struct bep15_peer) peers)).
  assert (HA : length A = 4%nat) by apply i32_be_length.
  assert (HAv : rd_i32 A = 1%Z) by (apply rd_i32_be, signed_ok_small; lia).
  assert (HBd : dec_prefix 4 bep15_announce_fixed (B ++ C) = Some (fixed, C)) by (apply dec_enc_struct, Hf).
  assert (HCd : dec_array (ipw v6) bep15_peer C = Some peers).
  { apply dec_array_roundtrip; [destruct v6; cbn; lia|exact Hp]. }
  clearbody A B C.
  rewrite app_length, HA.
  destruct (Nat.ltb_spec (4 + length (B ++ C)) 4); [lia|].
  rewrite (firstn_app_exact A _ 4 HA), (skipn_app_exact A _ 4 HA), HAv. cbn [Z.eqb Pos.eqb].
  rewrite HBd, HCd. reflexivity.
Qed.

Theorem roundtrip_scrape_response tid stats v6 :
  signed_ok 4 tid -> Forall (wf_vals 4 bep15_scrape_stats) stats ->
  parse_response L (write_response L (SScrape tid stats)) v6 = Some (SScrape tid stats).
Proof.
  intros Ht Hs. unfold parse_response, write_response. cbn [L_scrape_stats bep15_layouts].
  set (A := i32_be 2). set (B := i32_be tid). set (C := concat (map (enc_struct bep15_scrape_stats) stats)).
  assert (HA : length A = 4%nat) by apply i32_be_length.
  assert (HB : length B = 4%nat) by apply i32_be_length.
  assert (HAv : rd_i32 A = 2%Z) by (apply rd_i32_be, signed_ok_small; lia).
  assert (HBv : rd_i32 B = tid) by (apply rd_i32_be, Ht).
  assert (HCd : dec_array 4 bep15_scrape_stats C = Some stats) by (apply dec_array_roundtrip; [cbn; lia|exact Hs]).
  clearbody A B C.
  rewrite app_length, HA.
  destruct (Nat.ltb_spec (4 + length (B ++ C)) 4); [lia|].
  rewrite (firstn_app_exact A _ 4 HA), (skipn_app_exact A _ 4 HA), HAv. cbn [Z.eqb Pos.eqb].
  rewrite app_length, HB. destruct (Nat.ltb_spec (4 + length C) 4); [lia|].
  rewrite (firstn_app_exact B _ 4 HB), (skipn_app_exact B _ 4 HB), HBv, HCd. reflexivity.
Qed.

Theorem roundtrip_error_response tid msg v6 :
  signed_ok 4 tid ->
  parse_response L (write_response L (SError tid msg)) v6 = Some (SError tid msg).
Proof.
  intros Ht. unfold parse_response, write_response.
  set (A := i32_be 3). set (B := i32_be tid).
  assert (HA : length A = 4%nat) by apply i32_be_length.
  assert (HB : length B = 4%nat) by apply i32_be_length.
  assert (HAv : rd_i32 A = 3%Z) by (apply rd_i32_be, signed_ok_small; lia).
  assert (HBv : rd_i32 B = tid) by (apply rd_i32_be, Ht).
  clearbody A B.
  rewrite app_length, HA.
  destruct (Nat.ltb_spec (4 + length (B ++ msg)) 4); [lia|].
  rewrite (firstn_app_exact A _ 4 HA), (skipn_app_exact A _ 4 HA), HAv. cbn [Z.eqb Pos.eqb].
  rewrite app_length, HB. destruct (Nat.ltb_spec (4 + length msg) 4); [lia|].
  rewrite (firstn_app_exact B _ 4 HB), (skipn_app_exact B _ 4 HB), HBv. reflexivity.
Qed.

(* the bytes of an announce request ARE the BEP 15 table: field by field, big endian *)
Theorem announce_bytes_are_bep15 cid tid ih pid dl lf ul ev ip key want port :
  write_request L (RAnnounce [VInt cid; VInt 1; VInt tid; VBytes ih; VBytes pid; VInt dl; VInt lf; VInt ul;
                              VInt ev; VBytes ip; VInt key; VInt want; VInt port])
  = i64_be cid ++ i32_be 1 ++ i32_be tid ++ ih ++ pid ++ i64_be dl ++ i64_be lf ++ i64_be ul
    ++ i32_be ev ++ ip ++ i32_be key ++ i32_be want ++ be_enc 2 (Z.to_N port).
Proof. cbn [write_request L_announce_request bep15_layouts bep15_announce_request enc_struct enc_field]. rewrite app_nil_r. reflexivity. Qed.

(* the same datagrams judged against the BEP 15 tables directly (independent of the translator):
   a conformance monitor on the implementation's own bytes *)
From Aquatic Require Import UdpCodecGen.
Definition udp_codec_bep15_code := udp_codec_code_for bep15_layouts.
