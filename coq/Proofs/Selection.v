(* C02: the peer-selection functions are sound, duplicate-free and bounded, for every swarm
   size, every limit and every outcome of the two random offsets. *)
From Aquatic Require Import RefTracker PeerMapFacts.

Lemma skipn_skipn' {A} (x y : nat) (l : list A) : skipn x (skipn y l) = skipn (y + x) l.
Proof.
  revert l; induction y as [|y IH]; intros l; simpl; [reflexivity|].
  destruct l as [|a l]; [destruct x; reflexivity|]. apply IH.
Qed.

Lemma NoDup_app_l {A} (a b : list A) : NoDup (a ++ b) -> NoDup a.
Proof.
  induction a as [|x a IH]; simpl; intros H; [constructor|].
  inversion H as [|? ? Hx Hr]; subst. constructor; [|apply IH, Hr].
  intros Hin; apply Hx, in_or_app; left; exact Hin.
Qed.

Lemma NoDup_app_r {A} (a b : list A) : NoDup (a ++ b) -> NoDup b.
Proof.
  induction a as [|x a IH]; simpl; intros H; [exact H|].
  inversion H; subst; auto.
Qed.

Lemma NoDup_drop_middle {A} (a b c : list A) : NoDup (a ++ b ++ c) -> NoDup (a ++ c).
Proof.
  induction b as [|x b IH]; simpl; intros H; [exact H|].
  apply IH. eapply NoDup_remove_1; exact H.
Qed.

Lemma slices_nodup {A} (L : list A) a n b m :
  NoDup L -> a + n <= b -> NoDup (firstn n (skipn a L) ++ firstn m (skipn b L)).
Proof.
  intros HL Hle.
  set (c := b - (a + n)).
  assert (Hb : skipn b L = skipn c (skipn n (skipn a L))).
  { rewrite !skipn_skipn'. f_equal. unfold c. lia. }
  rewrite Hb.
  set (L1 := skipn a L) in *. set (L2 := skipn n L1) in *. set (L3 := skipn c L2) in *.
  assert (E : L = firstn a L ++ firstn n L1 ++ firstn c L2 ++ firstn m L3 ++ skipn m L3).
  { unfold L3, L2, L1. rewrite !firstn_skipn. reflexivity. }
  rewrite E in HL.
  apply NoDup_app_r in HL.
  apply NoDup_drop_middle in HL.
  rewrite app_assoc in HL. apply NoDup_app_l in HL. exact HL.
Qed.

Lemma slice_incl {A} (L : list A) a n : incl (firstn n (skipn a L)) L.
Proof.
  intros x H. rewrite <- (firstn_skipn a L). apply in_or_app; right.
  rewrite <- (firstn_skipn n (skipn a L)). apply in_or_app; left. exact H.
Qed.

Lemma slice_length {A} (L : list A) a n : a + n <= length L -> length (firstn n (skipn a L)) = n.
Proof. intros H. rewrite firstn_length_le; [reflexivity|]. rewrite skipn_length. lia. Qed.

Lemma keys_slice l a n : keys (firstn n (skipn a l)) = firstn n (skipn a (keys l)).
Proof. unfold keys. rewrite skipn_map, firstn_map. reflexivity. Qed.

Lemma im_range_some {A} (l : list A) a b :
  a <= b -> b <= length l -> im_range a b l = Some (firstn (b - a) (skipn a l)).
Proof.
  intros H1 H2. unfold im_range.
  destruct (Nat.leb_spec a b); [|lia]. destruct (Nat.leb_spec b (length l)); [|lia]. reflexivity.
Qed.

(* the arithmetic heart: both ranges are in bounds and disjoint *)
Lemma large_offsets_ok len take o1 o2 :
  take < len ->
  let middle := len / 2 in
  let half := take / 2 in
  let to1 := Nat.max 1 (middle - half) in
  let off1 := o1 mod to1 in
  let to2 := Nat.max (middle + 1) (len - half) in
  let off2 := middle + o2 mod (to2 - middle) in
  half <= middle /\ half <= len /\ off1 + half <= middle /\ middle <= off2 /\ off2 + half <= len.
Proof.
  intros Hlt middle half to1 off1 to2 off2.
  assert (Hh : half <= middle).
  { unfold half, middle. apply Nat.div_le_mono; lia. }
  assert (Hm : middle <= len) by (unfold middle; apply Nat.div_le_upper_bound; lia).
  assert (Hm2 : 2 * middle <= len) by (unfold middle; apply Nat.mul_div_le; lia).
  assert (Hm3 : len < 2 * middle + 2).
  { unfold middle. pose proof (Nat.div_mod len 2 ltac:(lia)). pose proof (Nat.mod_upper_bound len 2 ltac:(lia)). lia. }
  assert (Hh2 : 2 * half <= take) by (unfold half; apply Nat.mul_div_le; lia).
  assert (Ht1 : 0 < to1) by (unfold to1; lia).
  assert (Ho1 : off1 < to1) by (apply Nat.mod_upper_bound; lia).
  assert (Ht2 : 0 < to2 - middle) by (unfold to2; lia).
  assert (Ho2 : o2 mod (to2 - middle) < to2 - middle) by (apply Nat.mod_upper_bound; lia).
  repeat split; lia.
Qed.

Theorem extract_large_spec take l o1 o2 :
  NoDup (keys l) ->
  exists r, extract_large take l o1 o2 = Ok r
    /\ NoDup r /\ incl r (keys l) /\ length r <= take
    /\ (length l <= take -> r = keys l)
    /\ (take < length l -> length r = 2 * (take / 2)).
Proof.
  intros Hnd. unfold extract_large.
  destruct (Nat.leb_spec (length l) take) as [Hle|Hgt].
  - exists (keys l). repeat split; auto.
    + apply incl_refl.
    + rewrite keys_length; exact Hle.
    + intros; lia.
  - destruct (large_offsets_ok (length l) take o1 o2 Hgt) as (H1 & H2 & H3 & H4 & H5).
    cbv zeta in *.
    rewrite (checked_sub_ok _ _ H1). cbn [obind].
    rewrite (checked_sub_ok _ _ H2). cbn [obind].
    set (half := take / 2) in *. set (middle := length l / 2) in *.
    set (off1 := o1 mod Nat.max 1 (middle - half)) in *.
    set (off2 := middle + o2 mod (Nat.max (middle + 1) (length l - half) - middle)) in *.
    assert (Hm : middle <= length l) by (unfold middle; apply Nat.div_le_upper_bound; lia).
    rewrite (im_range_some l off1 (off1 + half)) by lia.
    rewrite (im_range_some l off2 (off2 + half)) by lia.
    replace (off1 + half - off1) with half by lia.
    replace (off2 + half - off2) with half by lia.
    cbn [opt_list]. rewrite !keys_slice.
    eexists; split; [reflexivity|].
    assert (Hh2 : 2 * half <= take) by (unfold half; apply Nat.mul_div_le; lia).
    assert (Hlen : length (firstn half (skipn off1 (keys l)) ++ firstn half (skipn off2 (keys l))) = 2 * half).
    { rewrite app_length, !slice_length by (rewrite keys_length; lia). lia. }
    repeat split.
    + apply slices_nodup; [exact Hnd|lia].
    + apply incl_app; apply slice_incl.
    + lia.
    + intros; lia.
    + intros _. exact Hlen.
Qed.

Lemma extract_small_spec take l :
  NoDup (keys l) ->
  let r := extract_small take l in
  NoDup r /\ incl r (keys l) /\ length r <= take
  /\ (length l <= take -> r = keys l)
  /\ (take < length l -> length r = take).
Proof.
  intros Hnd r. unfold r, extract_small, keys. rewrite <- firstn_map.
  fold (keys l). repeat split.
  - rewrite <- (firstn_skipn take (keys l)) in Hnd. eapply NoDup_app_l; exact Hnd.
  - intros x H. rewrite <- (firstn_skipn take (keys l)). apply in_or_app; left; exact H.
  - apply firstn_le_length.
  - intros H. apply firstn_all2. rewrite keys_length; exact H.
  - intros H. apply firstn_length_le. rewrite keys_length; lia.
Qed.
