(* C16: k swarm workers behind the routing of connection.rs behave, reply for reply, like the
   single reference tracker; the framing in the reused buffer does not depend on its past. *)
From Coq Require Import Zify ZifyN ZifyBool Permutation.
From Aquatic Require Import RefSwarm HttpSwarm PeerMapFacts Selection PeerMapRefine SwarmCommon HttpSwarmRefine HttpResp HttpConn.

(* ---------- the reference tracker seen by worker j ---------- *)
Definition restrict (k j : nat) (r : rstate) : rstate :=
  fun v6 h => if Nat.eqb (route k h) j then r v6 h else [].

Lemma NoDup_app_intro {A} (a b : list A) :
  NoDup a -> NoDup b -> (forall x, In x a -> In x b -> False) -> NoDup (a ++ b).
Proof.
  induction a as [|x a IH]; intros Ha Hb Hd; cbn; [exact Hb|].
  inversion Ha as [|? ? Hx Ha']; subst. constructor.
  - rewrite in_app_iff. intros [H|H]; [contradiction|]. apply (Hd x); [left; reflexivity|exact H].
  - apply IH; [exact Ha'|exact Hb|]. intros y H1 H2. apply (Hd y); [right; exact H1|exact H2].
Qed.

Section Workers.
  Variable cfg : hcfg.
  Variable k : nat.
  Hypothesis k_pos : (0 < k)%nat.

  Notation HR := (HR cfg).

  Lemma HR_ext s r r' : (forall v6 h, r v6 h = r' v6 h) -> HR s r -> HR s r'.
  Proof.
    intros E H v6. destruct (H v6) as [Hwf Hrel]. split; [exact Hwf|]. intros h. rewrite <- E. apply Hrel.
  Qed.

  Lemma route_lt h : (route k h < k)%nat.
  Proof. unfold route. apply Nat.mod_upper_bound. lia. Qed.

  (* every worker's storage refines its share of the reference tracker *)
  Definition SysR (ws : list hstate) (r : rstate) : Prop :=
    length ws = k /\ forall j, (j < k)%nat -> HR (wget ws j) (restrict k j r).

  Lemma wget_wset_same ws j s : (j < length ws)%nat -> wget (wset ws j s) j = s.
  Proof.
    revert j. induction ws as [|x t IH]; intros j H; cbn in *; [lia|].
    destruct j; cbn; [reflexivity|]. apply IH. lia.
  Qed.

  Lemma wget_wset_other ws j i s : i <> j -> wget (wset ws j s) i = wget ws i.
  Proof.
    revert j i. induction ws as [|x t IH]; intros j i H; cbn; [reflexivity|].
    destruct j, i; cbn; try reflexivity; [congruence|]. apply IH. congruence.
  Qed.

  Lemma wset_length ws j s : length (wset ws j s) = length ws.
  Proof. revert j. induction ws as [|x t IH]; intros j; cbn; [reflexivity|]. destruct j; cbn; [reflexivity|]. rewrite IH. reflexivity. Qed.

  Lemma SysR_init : SysR (sys_init k) rinit.
  Proof.
    split; [apply repeat_length|]. intros j Hj. unfold wget, sys_init.
    replace (nth j (repeat hinit k) hinit) with hinit by (symmetry; apply nth_repeat).
    eapply HR_ext; [|apply HR_init]. intros v6 h. unfold restrict, rinit. destruct (Nat.eqb _ _); reflexivity.
  Qed.

  (* ---------- announce ---------- *)
  Lemma hobs_ok_restrict_announce r j v6 hash key stopped bleft until want o1 o2 out :
    route k hash = j ->
    hobs_ok cfg (restrict k j r) (HAnnounce v6 hash key stopped bleft until want o1 o2) out ->
    hobs_ok cfg r (HAnnounce v6 hash key stopped bleft until want o1 o2) out.
  Proof.
    intros Hj. unfold hobs_ok. cbn [hr_step]. unfold restrict. rewrite Hj, Nat.eqb_refl. tauto.
  Qed.

  Lemma announce_refines ws r v6 hash key stopped bleft until want o1 o2 cut :
    SysR ws r ->
    let op := HAnnounce v6 hash key stopped bleft until want o1 o2 in
    exists ws' out, sys_step cfg cut k ws op = Ok (ws', out) /\ SysR ws' (fst (hr_step r op)) /\ hobs_ok cfg r op out.
  Proof.
    intros [Hlen HS] op. set (j := route k hash).
    assert (Hj : (j < k)%nat) by apply route_lt.
    destruct (hstep_refines cfg _ _ op (HS j Hj)) as (s' & out & Hs & HR' & Hobs).
    unfold op in *. clear op. cbn [sys_step]. cbv zeta. fold j. rewrite Hs. cbn [obind].
    do 2 eexists. split; [reflexivity|]. split; [|apply (hobs_ok_restrict_announce r j); [reflexivity|exact Hobs]].
    split; [rewrite wset_length; exact Hlen|]. intros i Hi.
    destruct (Nat.eq_dec i j) as [->|Hne].
    - rewrite wget_wset_same by lia. eapply HR_ext; [|exact HR'].
      assert (Hrh : restrict k j r v6 hash = r v6 hash) by (unfold restrict; fold j; rewrite Nat.eqb_refl; reflexivity).
      intros f h. cbn [hr_step]. rewrite Hrh.
      destruct (ref_announce (r v6 hash) key (hstatus_of stopped bleft) 0%N until) as [e' [s0 l0]].
      cbn [fst]. unfold restrict, rset.
      destruct (Nat.eqb_spec (route k h) j) as [E|E].
      + reflexivity.
      + destruct (Bool.eqb f v6 && N.eqb h hash) eqn:B; [|reflexivity].
        apply andb_prop in B. destruct B as [_ B]. apply N.eqb_eq in B. subst h. contradiction.
    - rewrite wget_wset_other by exact Hne. eapply HR_ext; [|apply (HS i Hi)].
      intros f h. cbn [hr_step].
      destruct (ref_announce (r v6 hash) key (hstatus_of stopped bleft) 0%N until) as [e' [s0 l0]].
      cbn [fst]. unfold restrict, rset.
      destruct (Nat.eqb_spec (route k h) i) as [E|E]; [|reflexivity].
      destruct (Bool.eqb f v6 && N.eqb h hash) eqn:B; [|reflexivity].
      apply andb_prop in B. destruct B as [_ B]. apply N.eqb_eq in B. subst h. fold j in E. congruence.
  Qed.

  (* ---------- scrape ---------- *)
  Lemma part_in j hs h : In h (part k j hs) <-> In h hs /\ route k h = j.
  Proof. unfold part. rewrite filter_In, Nat.eqb_eq. tauto. Qed.

  Lemma part_length j hs : (length (part k j hs) <= length hs)%nat.
  Proof. unfold part. induction hs as [|x t IH]; cbn; [lia|]. destruct (Nat.eqb _ _); cbn; lia. Qed.

  Lemma scrape_parts_spec ws r v6 asked : SysR ws r -> (length asked <= hc_max_scrape cfg)%nat ->
    forall js, (forall j, In j js -> (j < k)%nat) -> NoDup js ->
    exists files, scrape_parts cfg k ws v6 asked js = Ok files
      /\ NoDup (map fst files)
      /\ (forall h, In h (map fst files) <-> In h asked /\ In (route k h) js)
      /\ (forall h c, In (h, c) files -> c = ref_counts (r v6 h)).
  Proof.
    intros [Hlen HS] Hmax js. induction js as [|j t IH]; intros Hjs Hnd; cbn [scrape_parts].
    - exists []. split; [reflexivity|]. split; [constructor|]. split; [intros h; cbn; tauto|intros h c []].
    - assert (Hj : (j < k)%nat) by (apply Hjs; left; reflexivity).
      destruct (hstep_refines cfg _ _ (HScrape v6 (part k j asked)) (HS j Hj)) as (s' & out & Hs & _ & Hobs).
      cbn [h_step] in Hs.
      destruct (h_scrape cfg (hfam (wget ws j) v6) (part k j asked)) as [files|] eqn:Ef; [|discriminate].
      cbn [obind] in Hs. injection Hs as _ <-.
      unfold hobs_ok in Hobs. cbn [hr_step snd] in Hobs. destruct Hobs as (Hnd1 & Hk1 & Hv1).
      assert (Hfull : firstn (Nat.min (length (part k j asked)) (hc_max_scrape cfg)) (part k j asked) = part k j asked).
      { apply firstn_all2. pose proof (part_length j asked). lia. }
      rewrite Hfull in Hk1.
      apply NoDup_cons_iff in Hnd. destruct Hnd as [Hnotin Hnd'].
      destruct (IH (fun i Hi => Hjs i (or_intror Hi)) Hnd') as (rest & Er & Hnd2 & Hk2 & Hv2).
      rewrite Er. cbn [obind]. exists (files ++ rest). split; [reflexivity|]. split; [|split].
      + rewrite map_app. apply NoDup_app_intro; [exact Hnd1|exact Hnd2|].
        intros h H1 H2. apply Hk1, part_in in H1. apply Hk2 in H2. destruct H1 as [_ <-]. destruct H2 as [_ H2]. contradiction.
      + intros h. rewrite map_app, in_app_iff, Hk1, Hk2, part_in. cbn [In]. split.
        * intros [[Ha E]|[Ha Hin]]; auto.
        * intros [Ha [E|Hin]]; auto.
      + intros h c Hin. apply in_app_or in Hin. destruct Hin as [Hin|Hin]; [|eapply Hv2; exact Hin].
        specialize (Hv1 h c Hin). rewrite Hv1. unfold restrict.
        assert (Hr : route k h = j).
        { assert (In h (map fst files)) by (apply in_map_iff; exists (h, c); auto). apply Hk1, part_in in H. tauto. }
        rewrite Hr, Nat.eqb_refl. reflexivity.
  Qed.

  Lemma scrape_refines ws r v6 hashes :
    SysR ws r ->
    let op := HScrape v6 hashes in
    exists out, sys_step cfg true k ws op = Ok (ws, out) /\ hobs_ok cfg r op out.
  Proof.
    intros HS op. unfold op. clear op. cbn [sys_step]. cbv beta iota zeta.
    destruct (scrape_parts_spec ws r v6 (firstn (hc_max_scrape cfg) hashes) HS
                ltac:(rewrite firstn_length; lia) (seq 0 k)
                ltac:(intros j Hj; apply in_seq in Hj; lia) (seq_NoDup k 0))
      as (files & Ef & Hnd & Hk & Hv).
    rewrite Ef. cbn [obind]. eexists. split; [reflexivity|].
    unfold hobs_ok, scrape_ok. cbn [hr_step snd]. split; [exact Hnd|]. split; [|exact Hv].
    intros h. rewrite Hk.
    assert (E : firstn (Nat.min (length hashes) (hc_max_scrape cfg)) hashes = firstn (hc_max_scrape cfg) hashes).
    { destruct (Nat.le_ge_cases (length hashes) (hc_max_scrape cfg)) as [H|H].
      - rewrite Nat.min_l by exact H. rewrite !firstn_all2 by lia. reflexivity.
      - rewrite Nat.min_r by exact H. reflexivity. }
    rewrite E. split; [tauto|]. intros H. split; [exact H|]. apply in_seq. pose proof (route_lt h). lia.
  Qed.

  (* ---------- cleaning ---------- *)
  Lemma clean_all_refines now mode acl r : forall ws js,
    length ws = length js ->
    (forall i, (i < length ws)%nat -> HR (nth i ws hinit) (restrict k (nth i js 0%nat) r)) ->
    exists ws' cnt, clean_all cfg now mode acl ws = Ok (ws', cnt) /\ length ws' = length ws
      /\ forall i, (i < length ws)%nat ->
           HR (nth i ws' hinit) (restrict k (nth i js 0%nat) (fst (hr_step r (HClean now mode acl)))).
  Proof.
    induction ws as [|s t IH]; intros js Hl H; cbn [clean_all].
    - do 2 eexists. split; [reflexivity|]. split; [reflexivity|]. intros i Hi. cbn in Hi. lia.
    - destruct js as [|j js']; [discriminate|]. cbn [length] in Hl.
      destruct (hstep_refines cfg _ _ (HClean now mode acl) (H 0%nat ltac:(cbn; lia))) as (s' & out & Hs & HR' & _).
      cbn [nth] in Hs, HR'. rewrite Hs. cbn [obind].
      destruct (IH js' ltac:(lia) (fun i Hi => H (S i) ltac:(cbn; lia))) as (t' & [a b] & Et & Hlt & Ht).
      rewrite Et. cbn [obind].
      assert (exists t4 t6, out = HOClean t4 t6) as (t4 & t6 & ->).
      { cbn [h_step] in Hs. destruct (h_clean_fam _ _ _ _ (h4 s)); [|discriminate]. cbn [obind] in Hs.
        destruct (h_clean_fam _ _ _ _ (h6 s)); [|discriminate]. cbn [obind] in Hs. injection Hs as _ <-. eauto. }
      do 2 eexists. split; [reflexivity|]. split; [cbn; lia|].
      intros i Hi. destruct i as [|i]; cbn [nth].
      + eapply HR_ext; [|exact HR']. intros f h. cbn [hr_step fst]. unfold restrict.
        destruct (Nat.eqb _ _); [reflexivity|]. destruct (allows mode acl h); reflexivity.
      + apply Ht. cbn in Hi. lia.
  Qed.

  Lemma nth_seq_self i : (i < k)%nat -> nth i (seq 0 k) 0%nat = i.
  Proof. intros H. rewrite seq_nth by exact H. reflexivity. Qed.

  Lemma clean_refines ws r now mode acl cut :
    SysR ws r ->
    let op := HClean now mode acl in
    exists ws' out, sys_step cfg cut k ws op = Ok (ws', out) /\ SysR ws' (fst (hr_step r op)) /\ hobs_ok cfg r op out.
  Proof.
    intros [Hlen HS] op. unfold op. clear op. cbn [sys_step].
    destruct (clean_all_refines now mode acl r ws (seq 0 k) ltac:(rewrite seq_length; exact Hlen)
                ltac:(intros i Hi; rewrite nth_seq_self by lia; apply HS; lia))
      as (ws' & [a b] & Ec & Hl & Hw).
    rewrite Ec. cbn [obind]. do 2 eexists. split; [reflexivity|]. split; [|exact I].
    split; [lia|]. intros j Hj. specialize (Hw j ltac:(lia)). rewrite nth_seq_self in Hw by exact Hj. exact Hw.
  Qed.

  (* ---------- one step, any history ---------- *)
  Theorem sys_step_refines ws r op :
    SysR ws r ->
    exists ws' out, sys_step cfg true k ws op = Ok (ws', out) /\ SysR ws' (fst (hr_step r op)) /\ hobs_ok cfg r op out.
  Proof.
    intros HS. destruct op as [v6 hash key stopped bleft until want o1 o2|v6 hashes|now mode acl].
    - apply announce_refines, HS.
    - destruct (scrape_refines ws r v6 hashes HS) as (out & E & Hobs). exists ws, out. split; [exact E|]. split; [exact HS|exact Hobs].
    - apply clean_refines, HS.
  Qed.

  Theorem sys_run_refines ops : forall ws r,
    SysR ws r ->
    exists ws' outs, sys_run cfg true k ws ops = Ok (ws', outs) /\ SysR ws' (hr_final r ops) /\ htrace_ok cfg r ops outs.
  Proof.
    induction ops as [|op t IH]; intros ws r HS; cbn [sys_run hr_final].
    - do 2 eexists. split; [reflexivity|]. split; [exact HS|exact I].
    - destruct (sys_step_refines ws r op HS) as (ws1 & out & Hs & HS1 & Hobs). rewrite Hs. cbn [obind].
      destruct (IH ws1 _ HS1) as (ws2 & outs & Hr & HS2 & Htr). rewrite Hr. cbn [obind].
      do 2 eexists. split; [reflexivity|]. split; [exact HS2|]. cbn [htrace_ok]. split; assumption.
  Qed.
End Workers.

(* ---------- framing in the reused buffer ---------- *)
Section Reuse.
  Variables (HA HB HC : list N) (buf_size : nat).

  Lemma overwrite_length src region : (length src <= length region)%nat -> length (overwrite src region) = length region.
  Proof. intros H. unfold overwrite. rewrite app_length, skipn_length. lia. Qed.

  (* blanking first makes the field independent of the previous reply *)
  Lemma patch_length_fresh prev cl : length prev = length HB -> patch_length HB prev cl = overwrite cl HB.
  Proof.
    intros H. unfold patch_length. f_equal. unfold overwrite at 1.
    rewrite <- H, skipn_all, app_nil_r. reflexivity.
  Qed.

  Lemma frame_reusing_is_frame prev body :
    length prev = length HB -> frame_reusing HA HB HC buf_size prev body = frame_response HA HB HC buf_size body.
  Proof.
    intros H. unfold frame_reusing, frame_response. destruct (Nat.ltb _ _); [reflexivity|].
    rewrite (patch_length_fresh prev _ H). reflexivity.
  Qed.

  Lemma length_field_length body :
    (length (itoa (N.of_nat (Nat.min (length body) (buf_size - header_len HA HB HC) + 2)%nat)) <= length HB)%nat ->
    length (length_field HA HB HC buf_size body) = length HB.
  Proof. intros H. unfold length_field. apply overwrite_length, H. Qed.
End Reuse.
