(* C08 / C09: invariants and laws of the ws swarm storage model. *)
From Coq Require Import Permutation.
From Aquatic Require Import WsSwarm AssocFacts.

Definition wkeys (l : list (N * wpeer)) : list N := map fst l.
Definition wcount (l : list (N * wpeer)) : nat := length (filter (fun e => w_seeder (snd e)) l).
Definition sw (b : bool) : nat := if b then 1 else 0.

Definition wt_ok (t : wtorrent) : Prop := NoDup (wkeys (wt_peers t)) /\ wt_ns t = wcount (wt_peers t).

Lemma wcount_cons e l : wcount (e :: l) = sw (w_seeder (snd e)) + wcount l.
Proof. unfold wcount; cbn. destruct (w_seeder (snd e)); reflexivity. Qed.

Lemma wcount_app a b : wcount (a ++ b) = wcount a + wcount b.
Proof. unfold wcount. rewrite filter_app, app_length. reflexivity. Qed.

Lemma wcount_le l : wcount l <= length l.
Proof. unfold wcount. induction l as [|e t IH]; cbn; [lia|]. destruct (w_seeder (snd e)); cbn; lia. Qed.

Lemma filter_perm' {A} (f : A -> bool) l l' : Permutation l l' -> Permutation (filter f l) (filter f l').
Proof.
  induction 1 as [|x l l' _ IH|x y l|l l' l'' _ IH1 _ IH2]; cbn.
  - constructor.
  - destruct (f x); [constructor|]; exact IH.
  - destruct (f x), (f y); try apply Permutation_refl. apply perm_swap.
  - eapply Permutation_trans; eassumption.
Qed.

Lemma wcount_perm l l' : Permutation l l' -> wcount l = wcount l'.
Proof. intros H. unfold wcount. apply Permutation_length, filter_perm', H. Qed.

Lemma wcount_aput_present k v p (l : list (N * wpeer)) :
  aget N.eqb k l = Some p -> wcount (aput N.eqb k v l) + sw (w_seeder p) = wcount l + sw (w_seeder v).
Proof.
  induction l as [|[k' p'] t IH]; cbn [aget aput]; [discriminate|].
  destruct (N.eqb_spec k' k) as [->|Hne]; intros H.
  - inversion H; subst. rewrite !wcount_cons. cbn [snd]. lia.
  - rewrite !wcount_cons. specialize (IH H). lia.
Qed.

Lemma wcount_aremove k (l : list (N * wpeer)) :
  NoDup (wkeys l) ->
  wcount l = wcount (aremove k l) + match aget N.eqb k l with Some p => sw (w_seeder p) | None => 0 end.
Proof.
  unfold aremove. induction l as [|[k' p'] t IH]; cbn [aget filter fst]; intros H; [reflexivity|].
  inversion H as [|? ? Hx Ht]; subst. rewrite wcount_cons. cbn [snd].
  destruct (N.eqb_spec k' k) as [->|Hne]; cbn [negb].
  - fold (aremove k t). rewrite aremove_notin by exact Hx. lia.
  - rewrite wcount_cons. cbn [snd]. rewrite (IH Ht). lia.
Qed.

Lemma length_aremove k (l : list (N * wpeer)) :
  NoDup (wkeys l) ->
  length l = length (aremove k l) + match aget N.eqb k l with Some _ => 1 | None => 0 end.
Proof.
  unfold aremove. induction l as [|[k' p'] t IH]; cbn [aget filter fst length]; intros H; [reflexivity|].
  inversion H as [|? ? Hx Ht]; subst.
  destruct (N.eqb_spec k' k) as [->|Hne]; cbn [negb length].
  - fold (aremove k t). rewrite aremove_notin by exact Hx. lia.
  - rewrite (IH Ht). lia.
Qed.

Lemma aget_in_keys k p (l : list (N * wpeer)) : aget N.eqb k l = Some p -> In k (wkeys l).
Proof. intros H. apply aget_some_in in H. apply in_map_iff. exists (k, p). auto. Qed.

(* ---- insert_or_update_peer ---- *)
Lemma ws_upsert_ok t rq until st :
  wt_ok t -> exists t', ws_upsert t rq until st = Ok t' /\ wt_ok t'
    /\ (* the announcer's entry afterwards *)
       match st with
       | WStopped => aget N.eqb (q_pid rq) (wt_peers t') = None
       | _ => exists p, aget N.eqb (q_pid rq) (wt_peers t') = Some p
                        /\ w_seeder p = (match st with WSeeding => true | _ => false end) /\ w_until p = until
                        /\ (match aget N.eqb (q_pid rq) (wt_peers t) with
                            | Some old => w_consumer p = w_consumer old /\ w_conn p = w_conn old /\ w_expect p = w_expect old
                            | None => w_consumer p = q_consumer rq /\ w_conn p = q_conn rq /\ w_expect p = []
                            end)
       end
    /\ (* nobody else is touched *)
       (forall k, k <> q_pid rq -> aget N.eqb k (wt_peers t') = aget N.eqb k (wt_peers t)).
Proof.
  intros [Hnd Hns]. unfold ws_upsert.
  destruct (aget N.eqb (q_pid rq) (wt_peers t)) as [p|] eqn:E.
  - pose proof (aget_in_keys _ _ _ E) as Hin.
    pose proof (wcount_aremove (q_pid rq) (wt_peers t) Hnd) as Hc. rewrite E in Hc.
    destruct st.
    + (* seeding *)
      eexists. split; [reflexivity|]. split.
      * split; cbn [wt_peers wt_ns]; [apply aput_nodup, Hnd|].
        pose proof (wcount_aput_present (q_pid rq) (mkWpeer (w_consumer p) (w_conn p) true until (w_expect p)) p _ E) as H.
        cbn [w_seeder sw] in H. destruct (w_seeder p); cbn [sw] in *; lia.
      * split; [|intros k Hk; cbn [wt_peers]; apply aget_aput_other, Hk].
        eexists. split; [cbn [wt_peers]; apply aget_aput_same|]. cbn. auto.
    + (* leeching *)
      assert (Hpred : (if w_seeder p then checked_pred (wt_ns t) else Ok (wt_ns t)) = Ok (wt_ns t - sw (w_seeder p))).
      { destruct (w_seeder p); cbn [sw] in *; [unfold checked_pred; rewrite checked_sub_ok by lia; reflexivity|f_equal; lia]. }
      rewrite Hpred. cbn [obind]. eexists. split; [reflexivity|]. split.
      * split; cbn [wt_peers wt_ns]; [apply aput_nodup, Hnd|].
        pose proof (wcount_aput_present (q_pid rq) (mkWpeer (w_consumer p) (w_conn p) false until (w_expect p)) p _ E) as H.
        cbn [w_seeder sw] in H. destruct (w_seeder p); cbn [sw] in *; lia.
      * split; [|intros k Hk; cbn [wt_peers]; apply aget_aput_other, Hk].
        eexists. split; [cbn [wt_peers]; apply aget_aput_same|]. cbn. auto.
    + (* stopped *)
      destruct (aswap_remove_spec (q_pid rq) (wt_peers t) Hnd) as [Hf Hp].
      destruct (aswap_remove N.eqb (q_pid rq) (wt_peers t)) as [r ps] eqn:Es. cbn [fst snd] in Hf, Hp.
      assert (Hpred : (if w_seeder p then checked_pred (wt_ns t) else Ok (wt_ns t)) = Ok (wt_ns t - sw (w_seeder p))).
      { destruct (w_seeder p); cbn [sw] in *; [unfold checked_pred; rewrite checked_sub_ok by lia; reflexivity|f_equal; lia]. }
      rewrite Hpred. cbn [obind]. eexists. split; [reflexivity|].
      assert (Hnd' : NoDup (wkeys ps)).
      { eapply Permutation_NoDup; [apply Permutation_sym, Permutation_map, Hp|]. apply aremove_nodup, Hnd. }
      split; [split; cbn [wt_peers wt_ns]; [exact Hnd'|rewrite (wcount_perm _ _ Hp); lia]|].
      split.
      * cbn [wt_peers]. apply aget_none_notin. intros Hin'.
        apply (aremove_not_in (q_pid rq) (wt_peers t)). eapply Permutation_in; [apply Permutation_map, Hp|exact Hin'].
      * intros k Hk. cbn [wt_peers].
        destruct (aget N.eqb k (wt_peers t)) as [v|] eqn:Ek.
        -- apply in_aget; [exact Hnd'|]. eapply Permutation_in; [apply Permutation_sym, Hp|].
           unfold aremove. apply filter_In. split; [apply aget_some_in, Ek|]. cbn. destruct (N.eqb_spec k (q_pid rq)); [contradiction|reflexivity].
        -- apply aget_none_notin. intros Hin'. apply aget_none_notin in Ek. apply Ek.
           assert (In k (wkeys (aremove (q_pid rq) (wt_peers t)))) by (eapply Permutation_in; [apply Permutation_map, Hp|exact Hin']).
           unfold wkeys in H. rewrite aremove_keys in H. apply filter_In in H. tauto.
  - apply aget_none_notin in E.
    destruct st.
    + eexists. split; [reflexivity|]. split.
      * split; cbn [wt_peers wt_ns].
        -- unfold wkeys. rewrite map_app. cbn. apply NoDup_app_snoc'; assumption.
        -- rewrite wcount_app. unfold wcount at 2. cbn. lia.
      * split.
        -- eexists. split; [cbn [wt_peers]; rewrite <- (aput_absent _ _ _ E); apply aget_aput_same|]. cbn.
           auto.
        -- intros k Hk. cbn [wt_peers]. rewrite <- (aput_absent _ _ _ E). apply aget_aput_other, Hk.
    + eexists. split; [reflexivity|]. split.
      * split; cbn [wt_peers wt_ns].
        -- unfold wkeys. rewrite map_app. cbn. apply NoDup_app_snoc'; assumption.
        -- rewrite wcount_app. unfold wcount at 2. cbn. lia.
      * split.
        -- eexists. split; [cbn [wt_peers]; rewrite <- (aput_absent _ _ _ E); apply aget_aput_same|]. cbn.
           auto.
        -- intros k Hk. cbn [wt_peers]. rewrite <- (aput_absent _ _ _ E). apply aget_aput_other, Hk.
    + eexists. split; [reflexivity|]. split; [split; assumption|]. split; [apply aget_none_notin, E|auto].
Qed.

(* ---- receiver selection (C02 WebTorrent part, C09) ---- *)
From Aquatic Require Import Selection.

Definition not_sender (sender : N) (e : N * wpeer) : bool := negb (N.eqb (fst e) sender).

Lemma wkeys_filter sender l : wkeys (filter (not_sender sender) l) = filter (fun x => negb (N.eqb x sender)) (wkeys l).
Proof.
  unfold wkeys. induction l as [|[k p] t IH]; cbn [filter map]; [reflexivity|]. unfold not_sender at 1. cbn [fst].
  destruct (N.eqb k sender); cbn [negb map filter]; rewrite IH; reflexivity.
Qed.

Lemma filter_ns_length_ge sender (ks : list N) :
  NoDup ks -> length ks <= S (length (filter (fun x => negb (N.eqb x sender)) ks)).
Proof.
  induction 1 as [|x t Hx Ht IH]; cbn; [lia|].
  destruct (N.eqb_spec x sender) as [->|Hne]; cbn; [|lia].
  assert (E : filter (fun y => negb (N.eqb y sender)) t = t).
  { clear IH Ht. induction t as [|y t IH]; cbn; [reflexivity|].
    destruct (N.eqb_spec y sender) as [->|]; cbn; [exfalso; apply Hx; left; reflexivity|].
    f_equal. apply IH. intros Hin. apply Hx. right. exact Hin. }
  rewrite E. lia.
Qed.

Lemma filter_ns_length_in sender (ks : list N) :
  NoDup ks -> In sender ks -> S (length (filter (fun x => negb (N.eqb x sender)) ks)) = length ks.
Proof.
  induction 1 as [|x t Hx Ht IH]; cbn; [tauto|]. intros [->|Hin].
  - rewrite N.eqb_refl. cbn.
    assert (E : filter (fun y => negb (N.eqb y sender)) t = t).
    { clear IH Ht. induction t as [|y t IH]; cbn; [reflexivity|].
      destruct (N.eqb_spec y sender) as [->|]; cbn; [exfalso; apply Hx; left; reflexivity|].
      f_equal. apply IH. intros Hin. apply Hx. right. exact Hin. }
    rewrite E. reflexivity.
  - destruct (N.eqb_spec x sender) as [->|Hne]; [contradiction|]. cbn. rewrite (IH Hin). reflexivity.
Qed.

Lemma filter_ns_not_in sender (ks : list N) : ~ In sender (filter (fun x => negb (N.eqb x sender)) ks).
Proof. intros H. apply filter_In in H. destruct H as [_ H]. rewrite N.eqb_refl in H. discriminate. Qed.

Lemma firstn_nodup {A} n (l : list A) : NoDup l -> NoDup (firstn n l).
Proof. intros H. rewrite <- (firstn_skipn n l) in H. eapply NoDup_app_l; exact H. Qed.

Lemma firstn_incl {A} n (l : list A) : incl (firstn n l) l.
Proof. intros x H. rewrite <- (firstn_skipn n l). apply in_or_app. left. exact H. Qed.

Lemma removelast_firstn_len {A} (l : list A) : removelast l = firstn (length l - 1) l.
Proof.
  induction l as [|x t IH]; cbn; [reflexivity|]. destruct t as [|y t']; [reflexivity|].
  cbn [length] in *. replace (S (length t') - 0) with (S (length t')) by lia.
  rewrite IH. cbn. replace (length t' - 0) with (length t') by lia. reflexivity.
Qed.

Lemma im_range'_ok {A} (l : list A) a n : a + n <= length l -> im_range' a (a + n) l = firstn n (skipn a l).
Proof.
  intros H. unfold im_range'. destruct (Nat.leb_spec a (a + n)); [|lia].
  destruct (Nat.leb_spec (a + n) (length l)); [|lia]. cbn. replace (a + n - a) with n by lia. reflexivity.
Qed.

Lemma ws_offsets_ok len max o1 o2 :
  max + 2 <= len ->
  let middle := len / 2 in
  let half := max / 2 + 1 in
  let to1 := Nat.max 1 (middle - half) in
  let off1 := o1 mod to1 in
  let to2 := Nat.max (middle + 1) (len - half) in
  let off2 := middle + o2 mod (to2 - middle) in
  half <= middle /\ half <= len /\ off1 + half <= middle /\ middle <= off2 /\ off2 + half <= len /\ max < 2 * half.
Proof.
  intros Hlt middle half to1 off1 to2 off2.
  assert (Hm2 : 2 * middle <= len) by (unfold middle; apply Nat.mul_div_le; lia).
  assert (Hm3 : len < 2 * middle + 2).
  { unfold middle. pose proof (Nat.div_mod len 2 ltac:(lia)). pose proof (Nat.mod_upper_bound len 2 ltac:(lia)). lia. }
  assert (Hh2 : 2 * (max / 2) <= max) by (apply Nat.mul_div_le; lia).
  assert (Hh3 : max < 2 * (max / 2) + 2).
  { pose proof (Nat.div_mod max 2 ltac:(lia)). pose proof (Nat.mod_upper_bound max 2 ltac:(lia)). lia. }
  assert (Ht1 : 0 < to1) by (unfold to1; lia).
  assert (Ho1 : off1 < to1) by (apply Nat.mod_upper_bound; lia).
  assert (Ht2 : 0 < to2 - middle) by (unfold to2; lia).
  assert (Ho2 : o2 mod (to2 - middle) < to2 - middle) by (apply Nat.mod_upper_bound; lia).
  unfold half in *. repeat split; lia.
Qed.

Theorem ws_extract_spec peers max sender o1 o2 :
  NoDup (wkeys peers) -> In sender (wkeys peers) ->
  exists r, ws_extract peers max sender o1 o2 = Ok r
    /\ NoDup (wkeys r) /\ incl r peers /\ ~ In sender (wkeys r)
    /\ length r = Nat.min max (length peers - 1).
Proof.
  intros Hnd Hin. unfold ws_extract. fold (not_sender sender).
  assert (Hlen : S (length (filter (not_sender sender) peers)) = length peers).
  { pose proof (filter_ns_length_in sender (wkeys peers) Hnd Hin) as Hf.
    rewrite <- wkeys_filter in Hf. unfold wkeys in Hf. rewrite !map_length in Hf. exact Hf. }
  destruct (Nat.leb_spec (length peers) (max + 1)) as [Hle|Hgt].
  - set (ps := filter (not_sender sender) peers) in *.
    destruct (Nat.ltb_spec max (length ps)) as [Hlt|Hge]; [lia|].
    exists ps. split; [reflexivity|]. split; [|split; [|split]].
    + unfold ps. rewrite wkeys_filter. apply NoDup_filter', Hnd.
    + intros x Hx. unfold ps in Hx. apply filter_In in Hx. tauto.
    + unfold ps. rewrite wkeys_filter. apply filter_ns_not_in.
    + lia.
  - destruct (ws_offsets_ok (length peers) max o1 o2 ltac:(lia)) as (H1 & H2 & H3 & H4 & H5 & H6).
    cbv zeta in *.
    rewrite (checked_sub_ok _ _ H1). cbn [obind]. rewrite (checked_sub_ok _ _ H2). cbn [obind].
    set (half := max / 2 + 1) in *. set (middle := length peers / 2) in *.
    set (off1 := o1 mod Nat.max 1 (middle - half)) in *.
    set (off2 := middle + o2 mod (Nat.max (middle + 1) (length peers - half) - middle)) in *.
    assert (Hm : middle <= length peers) by (unfold middle; apply Nat.div_le_upper_bound; lia).
    rewrite (im_range'_ok peers off1 half) by lia. rewrite (im_range'_ok peers off2 half) by lia.
    set (s1 := firstn half (skipn off1 peers)). set (s2 := firstn half (skipn off2 peers)).
    rewrite <- filter_app.
    assert (Hs_nd : NoDup (wkeys (s1 ++ s2))).
    { unfold wkeys, s1, s2. rewrite map_app, <- !firstn_map, <- !skipn_map. apply slices_nodup; [exact Hnd|lia]. }
    assert (Hs_len : length (s1 ++ s2) = 2 * half).
    { unfold s1, s2. rewrite app_length, !slice_length by lia. lia. }
    set (fs := filter (not_sender sender) (s1 ++ s2)).
    assert (Hfs_nd : NoDup (wkeys fs)) by (unfold fs; rewrite wkeys_filter; apply NoDup_filter', Hs_nd).
    assert (Hfs_len : max <= length fs).
    { pose proof (filter_ns_length_ge sender (wkeys (s1 ++ s2)) Hs_nd) as Hg.
      rewrite <- wkeys_filter in Hg. unfold wkeys in Hg. rewrite !map_length in Hg. fold fs in Hg. lia. }
    exists (firstn max fs). split; [reflexivity|]. split; [|split; [|split]].
    + unfold wkeys. rewrite <- firstn_map. apply firstn_nodup, Hfs_nd.
    + intros x Hx. apply firstn_incl in Hx. unfold fs in Hx. apply filter_In in Hx. destruct Hx as [Hx _].
      apply in_app_or in Hx. destruct Hx as [Hx|Hx]; eapply slice_incl; exact Hx.
    + intros Hx. unfold wkeys in Hx. rewrite <- firstn_map in Hx. apply firstn_incl in Hx.
      fold (wkeys fs) in Hx. unfold fs in Hx. rewrite wkeys_filter in Hx. exact (filter_ns_not_in _ _ Hx).
    + rewrite firstn_length. lia.
Qed.

(* ---- whole-state invariant: every step succeeds (no counter underflow) and keeps it ---- *)
Definition wmap_ok (m : wmap) : Prop :=
  NoDup (map fst m) /\ forall h t, aget N.eqb h m = Some t -> wt_ok t.

Definition wstate_ok (s : wstate) : Prop := wmap_ok (w4 s) /\ wmap_ok (w6 s).

Lemma wfam_ok s v6 : wstate_ok s -> wmap_ok (wfam s v6).
Proof. intros [A B]. destruct v6; assumption. Qed.

Lemma wset_ok s v6 m : wstate_ok s -> wmap_ok m -> wstate_ok (wset s v6 m).
Proof. intros [A B] H. destruct v6; split; assumption. Qed.

Lemma wt_empty_ok : wt_ok wt_empty.
Proof. split; cbn; [constructor|reflexivity]. Qed.

Lemma wm_get_ok m h : wmap_ok m -> wt_ok (wm_get h m).
Proof.
  intros [_ H]. unfold wm_get. destruct (aget N.eqb h m) as [t|] eqn:E; [apply (H h t E)|apply wt_empty_ok].
Qed.

Lemma wmap_put_ok m h t : wmap_ok m -> wt_ok t -> wmap_ok (aput N.eqb h t m).
Proof.
  intros [Hnd H] Ht. split; [apply aput_nodup, Hnd|].
  intros h' t' E. destruct (N.eq_dec h' h) as [->|Hne].
  - rewrite aget_aput_same in E. inversion E; subst. exact Ht.
  - rewrite aget_aput_other in E by exact Hne. apply (H h' t' E).
Qed.

(* replacing one peer's record by one with the same seeder flag keeps the torrent invariant *)
Lemma wt_put_same_seeder t k p v :
  wt_ok t -> aget N.eqb k (wt_peers t) = Some p -> w_seeder v = w_seeder p ->
  wt_ok (mkWt (aput N.eqb k v (wt_peers t)) (wt_ns t)).
Proof.
  intros [Hnd Hns] E Hs. split; cbn [wt_peers wt_ns]; [apply aput_nodup, Hnd|].
  pose proof (wcount_aput_present k v p _ E) as H. rewrite Hs in H. lia.
Qed.

Lemma zip_offers_expect hash sender u offers recv e :
  exists e' outs, ws_zip_offers hash sender u offers recv e = (e', outs).
Proof. destruct (ws_zip_offers hash sender u offers recv e) as [e' outs]. eauto. Qed.

Lemma ws_handle_offers_ok cfg t rq now offers o1 o2 :
  wt_ok t -> In (q_pid rq) (wkeys (wt_peers t)) ->
  exists t' outs, ws_handle_offers cfg t rq now offers o1 o2 = Ok (t', outs) /\ wt_ok t'
    /\ wkeys (wt_peers t') = wkeys (wt_peers t) /\ length (wt_peers t') = length (wt_peers t).
Proof.
  intros Hok Hin. unfold ws_handle_offers. destruct Hok as [Hnd Hns].
  destruct (ws_extract_spec (wt_peers t) (Nat.min (length offers) (wc_max_offers cfg)) (q_pid rq) o1 o2 Hnd Hin)
    as (recv & Hex & _). rewrite Hex. cbn [obind].
  destruct (aget N.eqb (q_pid rq) (wt_peers t)) as [p|] eqn:E.
  - destruct (ws_zip_offers _ _ _ offers recv (w_expect p)) as [e outs].
    do 2 eexists. split; [reflexivity|]. split; [|split].
    + apply (wt_put_same_seeder t _ p); [split; assumption|exact E|reflexivity].
    + cbn [wt_peers]. unfold wkeys. rewrite aput_keys.
      assert (Hex2 : existsb (N.eqb (q_pid rq)) (map fst (wt_peers t)) = true)
        by (apply existsb_exists; exists (q_pid rq); split; [exact Hin|apply N.eqb_refl]).
      rewrite Hex2. reflexivity.
    + cbn [wt_peers]. apply aput_present_length, Hin.
  - do 2 eexists. split; [reflexivity|]. split; [split; assumption|auto].
Qed.

Lemma ws_handle_answer_ok t rq to_pid oid sdp :
  wt_ok t ->
  let '(t', outs) := ws_handle_answer t rq to_pid oid sdp in
  wt_ok t' /\ length (wt_peers t') = length (wt_peers t) /\ wt_ns t' = wt_ns t.
Proof.
  intros Hok. unfold ws_handle_answer.
  destruct (aget N.eqb to_pid (wt_peers t)) as [r|] eqn:E; [|auto].
  destruct (aswap_remove pair_eqb (q_pid rq, oid) (w_expect r)) as [[x|] e]; [|auto].
  split; [apply (wt_put_same_seeder t _ r); [exact Hok|exact E|reflexivity]|].
  split; [cbn [wt_peers]; apply aput_present_length, (aget_in_keys _ _ _ E)|reflexivity].
Qed.

Theorem ws_announce_ok strict cfg s rq now o1 o2 :
  wstate_ok s -> exists s' outs, ws_announce_gen strict cfg s rq now o1 o2 = Ok (s', outs) /\ wstate_ok s'.
Proof.
  intros Hs. unfold ws_announce_gen.
  pose proof (wfam_ok s (q_v6 rq) Hs) as Hm.
  pose proof (wm_get_ok _ (q_hash rq) Hm) as Ht.
  set (m := wfam s (q_v6 rq)) in *. set (t := wm_get (q_hash rq) m) in *.
  destruct (match aget N.eqb (q_pid rq) (wt_peers t) with Some p => negb (N.eqb (q_conn rq) (w_conn p) && (negb strict || N.eqb (q_consumer rq) (w_consumer p))) | None => false end).
  - do 2 eexists. split; [reflexivity|]. apply wset_ok; [exact Hs|apply wmap_put_ok; assumption].
  - set (st := wstatus_of (q_stopped rq) (q_left rq)).
    destruct (ws_upsert_ok t rq (valid_until_new now (wc_max_peer_age cfg)) st Ht) as (t1 & Hu & Ht1 & Hself & _).
    rewrite Hu. cbn [obind].
    (* offers *)
    assert (Hoff : exists t2 outs1,
               (match st, q_offers rq with
                | WStopped, _ => Ok (t1, [])
                | _, Some offers => ws_handle_offers cfg t1 rq now offers o1 o2
                | _, None => Ok (t1, [])
                end) = Ok (t2, outs1) /\ wt_ok t2).
    { destruct st eqn:Est.
      1,2: destruct (q_offers rq) as [offers|]; [|do 2 eexists; split; [reflexivity|exact Ht1]];
           destruct Hself as (p & Hp & _);
           destruct (ws_handle_offers_ok cfg t1 rq now offers o1 o2 Ht1 (aget_in_keys _ _ _ Hp)) as (t2 & outs1 & H2 & Hok2 & _);
           exists t2, outs1; split; assumption.
      do 2 eexists; split; [reflexivity|exact Ht1]. }
    destruct Hoff as (t2 & outs1 & Hoff & Ht2). rewrite Hoff. cbn [obind].
    assert (Hans : exists t3 outs2,
               (match st, q_answer rq with
                | WStopped, _ => (t2, [])
                | _, Some (to_pid, oid, sdp) => ws_handle_answer t2 rq to_pid oid sdp
                | _, None => (t2, [])
                end) = (t3, outs2) /\ wt_ok t3).
    { destruct st; try (do 2 eexists; split; [reflexivity|exact Ht2]).
      1,2: destruct (q_answer rq) as [[[to_pid oid] sdp]|]; [|do 2 eexists; split; [reflexivity|exact Ht2]];
           pose proof (ws_handle_answer_ok t2 rq to_pid oid sdp Ht2) as Ha;
           destruct (ws_handle_answer t2 rq to_pid oid sdp) as [t3 outs2]; exists t3, outs2; split; [reflexivity|tauto]. }
    destruct Hans as (t3 & outs2 & Hans & Ht3). rewrite Hans.
    destruct Ht3 as [Hnd3 Hns3].
    rewrite checked_sub_ok by (rewrite Hns3; apply wcount_le). cbn [obind].
    do 2 eexists. split; [reflexivity|]. apply wset_ok; [exact Hs|apply wmap_put_ok; [exact Hm|split; assumption]].
Qed.

Lemma ws_scrape_loop_ok m hs : forall acc, wmap_ok m -> exists files, ws_scrape_loop m hs acc = Ok files.
Proof.
  induction hs as [|h t IH]; intros acc Hm; cbn [ws_scrape_loop]; [eauto|].
  destruct (aget N.eqb h m) as [tor|] eqn:E; [|apply IH, Hm].
  destruct Hm as [Hnd Hall]. destruct (Hall h tor E) as [_ Hns].
  rewrite checked_sub_ok by (rewrite Hns; apply wcount_le). cbn [obind]. apply IH. split; assumption.
Qed.

Lemma ws_closed_ok s v6 hash pid : wstate_ok s -> exists s', ws_closed s v6 hash pid = Ok s' /\ wstate_ok s'.
Proof.
  intros Hs. unfold ws_closed. pose proof (wfam_ok s v6 Hs) as Hm.
  destruct (aget N.eqb hash (wfam s v6)) as [t|] eqn:E; [|eauto].
  destruct Hm as [Hndm Hall]. destruct (Hall hash t E) as [Hnd Hns].
  destruct (aswap_remove_spec pid (wt_peers t) Hnd) as [Hf Hp].
  destruct (aswap_remove N.eqb pid (wt_peers t)) as [[p|] ps] eqn:Es; [|eauto]. cbn [fst snd] in Hf, Hp.
  pose proof (wcount_aremove pid (wt_peers t) Hnd) as Hc. rewrite <- Hf in Hc.
  assert (Hpred : (if w_seeder p then checked_pred (wt_ns t) else Ok (wt_ns t)) = Ok (wt_ns t - sw (w_seeder p))).
  { destruct (w_seeder p); cbn [sw] in *; [unfold checked_pred; rewrite checked_sub_ok by lia; reflexivity|f_equal; lia]. }
  rewrite Hpred. cbn [obind]. eexists. split; [reflexivity|].
  apply wset_ok; [exact Hs|]. apply wmap_put_ok; [split; assumption|].
  split; cbn [wt_peers wt_ns].
  - eapply Permutation_NoDup; [apply Permutation_sym, Permutation_map, Hp|]. apply aremove_nodup, Hnd.
  - rewrite (wcount_perm _ _ Hp). lia.
Qed.

(* cleaning one torrent: exactly the peers (and pending offers) with a future deadline stay *)
Definition clean_peer (now : N) (e : N * wpeer) : N * wpeer :=
  (fst e, mkWpeer (w_consumer (snd e)) (w_conn (snd e)) (w_seeder (snd e)) (w_until (snd e))
                  (filter (fun x => vu_valid (snd x) now) (w_expect (snd e)))).

Definition cleaned_peers (now : N) (ps : list (N * wpeer)) : list (N * wpeer) :=
  map (clean_peer now) (filter (fun e => vu_valid (w_until (snd e)) now) ps).

Lemma wcount_cleaned now ps : wcount (cleaned_peers now ps) = wcount (filter (fun e => vu_valid (w_until (snd e)) now) ps).
Proof.
  unfold cleaned_peers, wcount. induction (filter _ ps) as [|e t IH]; cbn; [reflexivity|].
  destruct (w_seeder (snd e)); cbn; rewrite IH; reflexivity.
Qed.

Lemma ws_clean_peers_spec now ps : forall ns,
  wcount ps <= ns ->
  ws_clean_peers now ps ns = Ok (cleaned_peers now ps, ns - (wcount ps - wcount (cleaned_peers now ps))).
Proof.
  induction ps as [|[pid p] t IH]; intros ns H; cbn [ws_clean_peers].
  - f_equal. f_equal. unfold cleaned_peers, wcount; cbn. lia.
  - rewrite wcount_cons in H. cbn [snd] in H.
    rewrite wcount_cleaned. unfold cleaned_peers. cbn [filter snd].
    assert (Hle : wcount (filter (fun e => vu_valid (w_until (snd e)) now) t) <= wcount t).
    { unfold wcount. clear. induction t as [|e t IH]; cbn; [lia|].
      destruct (vu_valid (w_until (snd e)) now); cbn; destruct (w_seeder (snd e)); cbn; lia. }
    destruct (vu_valid (w_until p) now) eqn:Ev; cbn [negb andb obind].
    + rewrite IH by lia. cbn [obind map]. rewrite wcount_cleaned.
      f_equal. f_equal. rewrite !wcount_cons. cbn [snd]. lia.
    + destruct (w_seeder p) eqn:Esd; cbn [andb sw] in *.
      * unfold checked_pred. rewrite checked_sub_ok by lia. cbn [obind]. rewrite IH by lia. cbn [obind].
        rewrite wcount_cleaned. f_equal. f_equal. rewrite wcount_cons. cbn [snd]. rewrite Esd. cbn [sw]. lia.
      * cbn [obind]. rewrite IH by lia. cbn [obind]. rewrite wcount_cleaned. f_equal. f_equal. rewrite wcount_cons. cbn [snd]. rewrite Esd. cbn [sw]. lia.
Qed.

Lemma cleaned_keys now ps : wkeys (cleaned_peers now ps) = wkeys (filter (fun e => vu_valid (w_until (snd e)) now) ps).
Proof. unfold cleaned_peers, wkeys. rewrite map_map. reflexivity. Qed.

Lemma filter_keys_nodup' (f : N * wpeer -> bool) l : NoDup (wkeys l) -> NoDup (wkeys (filter f l)).
Proof.
  unfold wkeys. induction l as [|e t IH]; cbn; intros H; [constructor|].
  inversion H as [|? ? Hx Ht]; subst. destruct (f e); cbn; [constructor|]; auto.
  intros Hin. apply Hx. apply in_map_iff in Hin. destruct Hin as [y [Hy Hin]]. apply filter_In in Hin.
  apply in_map_iff. exists y. tauto.
Qed.

Lemma ws_clean_fam_ok now mode acl m :
  wmap_ok m -> exists m', ws_clean_fam now mode acl m = Ok m' /\ wmap_ok m'
    /\ forall h, aget N.eqb h m' =
                 match aget N.eqb h m with
                 | Some t => if allows mode acl h
                             then match cleaned_peers now (wt_peers t) with
                                  | [] => None
                                  | ps => Some (mkWt ps (wcount ps))
                                  end
                             else None
                 | None => None
                 end.
Proof.
  intros [Hnd Hall]. induction m as [|[h t] r IH]; cbn [ws_clean_fam].
  - exists []. split; [reflexivity|]. split; [split; [constructor|intros ? ? E; discriminate]|reflexivity].
  - inversion Hnd as [|? ? Hx Hr]; subst.
    assert (Hall_r : forall h' t', aget N.eqb h' r = Some t' -> wt_ok t').
    { intros h' t' E. apply (Hall h' t'). cbn [aget]. destruct (N.eqb_spec h h') as [->|]; [|exact E].
      exfalso. apply Hx. apply (aget_in_keys' _ _ _ E). }
    destruct (IH Hr Hall_r) as (r' & Hr' & [Hnd' Hall'] & Hget).
    assert (Hkeys : forall x, In x (map fst r') -> In x (map fst r)).
    { intros x Hin. destruct (aget N.eqb x r') as [tx|] eqn:Ex.
      - rewrite Hget in Ex. destruct (aget N.eqb x r) eqn:Er; [apply (aget_in_keys' _ _ _ Er)|discriminate].
      - apply aget_none_notin in Ex. contradiction. }
    destruct (allows mode acl h) eqn:Ea; cbn [negb].
    + destruct (Hall h t) as [Hndt Hnst]; [cbn [aget]; rewrite N.eqb_refl; reflexivity|].
      rewrite ws_clean_peers_spec by lia. cbn [obind]. rewrite Hr'. cbn [obind].
      pose proof (wcount_cleaned now (wt_peers t)) as Hwc.
      assert (Hle : wcount (cleaned_peers now (wt_peers t)) <= wcount (wt_peers t)).
      { rewrite Hwc. unfold wcount. clear. induction (wt_peers t) as [|e l IH]; cbn; [lia|].
        destruct (vu_valid (w_until (snd e)) now); cbn; destruct (w_seeder (snd e)); cbn; lia. }
      replace (wt_ns t - (wcount (wt_peers t) - wcount (cleaned_peers now (wt_peers t))))
        with (wcount (cleaned_peers now (wt_peers t))) by lia.
      destruct (cleaned_peers now (wt_peers t)) as [|e0 ps0] eqn:Ec.
      * exists r'. split; [reflexivity|]. split; [split; assumption|].
        intros h'. cbn [aget]. destruct (N.eqb_spec h h') as [->|Hne].
        -- rewrite Ea, Ec. apply aget_none_notin. intros Hin. apply Hx, Hkeys, Hin.
        -- apply Hget.
      * eexists. split; [reflexivity|]. split.
        -- split; cbn [map fst]; [constructor; [intros Hin; apply Hx, Hkeys, Hin|exact Hnd']|].
           intros h' t' E. cbn [aget] in E. destruct (N.eqb_spec h h') as [->|Hne]; [|apply (Hall' h' t' E)].
           inversion E; subst. split; cbn [wt_peers wt_ns]; [|reflexivity].
           rewrite <- Ec, cleaned_keys. apply filter_keys_nodup', Hndt.
        -- intros h'. cbn [aget]. destruct (N.eqb_spec h h') as [->|Hne]; [rewrite Ea, Ec; reflexivity|apply Hget].
    + exists r'. split; [exact Hr'|]. split; [split; assumption|].
      intros h'. cbn [aget]. destruct (N.eqb_spec h h') as [->|Hne].
      * rewrite Ea. apply aget_none_notin. intros Hin. apply Hx, Hkeys, Hin.
      * apply Hget.
Qed.

Theorem ws_step_ok strict cfg s op :
  wstate_ok s -> exists s' outs, ws_step_gen strict cfg s op = Ok (s', outs) /\ wstate_ok s'.
Proof.
  intros Hs. destruct op as [rq now o1 o2|c k v6 hs|v6 h pid|now mode acl]; cbn [ws_step_gen].
  - apply ws_announce_ok, Hs.
  - unfold ws_scrape. destruct hs as [hs|]; cbn [obind]; [|do 2 eexists; split; [reflexivity|exact Hs]].
    destruct (ws_scrape_loop_ok (wfam s v6) (firstn (Nat.min (length hs) (wc_max_scrape cfg)) hs) [] (wfam_ok s v6 Hs)) as [files Hf].
    rewrite Hf. cbn [obind]. do 2 eexists. split; [reflexivity|exact Hs].
  - destruct (ws_closed_ok s v6 h pid Hs) as (s' & Hc & Hs'). rewrite Hc. cbn [obind]. eauto.
  - destruct Hs as [H4 H6].
    destruct (ws_clean_fam_ok now mode acl (w4 s) H4) as (m4 & E4 & Hm4 & _).
    destruct (ws_clean_fam_ok now mode acl (w6 s) H6) as (m6 & E6 & Hm6 & _).
    rewrite E4. cbn [obind]. rewrite E6. cbn [obind]. do 2 eexists. split; [reflexivity|split; assumption].
Qed.

(* ---- ownership ---- *)
Lemma aput_same_value {V} k (v : V) (l : list (N * V)) : aget N.eqb k l = Some v -> aput N.eqb k v l = l.
Proof.
  induction l as [|[k' v'] t IH]; cbn; [discriminate|].
  destruct (N.eqb_spec k' k) as [->|Hne]; intros H; [inversion H; reflexivity|f_equal; apply IH, H].
Qed.

(* an announce that uses a stored peer id from a connection with another connection id has no
   effect at all: no message, state unchanged *)
Theorem foreign_announce_inert cfg s rq now o1 o2 t p :
  aget N.eqb (q_hash rq) (wfam s (q_v6 rq)) = Some t ->
  aget N.eqb (q_pid rq) (wt_peers t) = Some p -> w_conn p <> q_conn rq ->
  forall strict, ws_announce_gen strict cfg s rq now o1 o2 = Ok (s, []).
Proof.
  intros Ht Hp Hne strict. unfold ws_announce_gen, wm_get. rewrite Ht, Hp.
  destruct (N.eqb_spec (q_conn rq) (w_conn p)) as [E|_]; [congruence|]. cbn [negb andb].
  rewrite (aput_same_value _ _ _ Ht). destruct s as [a b]. destruct (q_v6 rq); reflexivity.
Qed.

(* the ownership test of the code compares only the per-socket-worker connection id; it is the
   intended test (consumer AND connection id) whenever connection ids are not shared between
   socket workers *)
Definition strict_foreign (rq : wreq) (p : wpeer) : bool :=
  negb (N.eqb (q_conn rq) (w_conn p) && N.eqb (q_consumer rq) (w_consumer p)).
Definition lenient_foreign (rq : wreq) (p : wpeer) : bool := negb (N.eqb (q_conn rq) (w_conn p)).

Theorem ownership_test_exact_when_ids_unique rq p :
  (w_conn p = q_conn rq -> w_consumer p = q_consumer rq) -> lenient_foreign rq p = strict_foreign rq p.
Proof.
  intros H. unfold lenient_foreign, strict_foreign.
  destruct (N.eqb_spec (q_conn rq) (w_conn p)) as [E|E]; cbn [andb negb]; [|reflexivity].
  rewrite (H (eq_sym E)), N.eqb_refl. reflexivity.
Qed.

(* ---- answers (C09) ---- *)
Lemma aswap_remove_pair_spec (k : N * N) (l : list ((N * N) * N)) :
  fst (aswap_remove pair_eqb k l) = aget pair_eqb k l.
Proof.
  induction l as [|[k' v] t IH]; cbn; [reflexivity|].
  destruct (pair_eqb k' k); cbn; [reflexivity|].
  destruct (aswap_remove pair_eqb k t) as [r t'] eqn:E. cbn in *. exact IH.
Qed.

(* an answer (to, oid) from q is forwarded - to the offerer's own connection - exactly when the
   addressed peer is stored and has a pending expectation (q, oid); it is then consumed; otherwise
   an error goes back to the answerer (addressee stored) or nothing happens *)
Theorem answer_iff_pending t rq to_pid oid sdp :
  let '(t', outs) := ws_handle_answer t rq to_pid oid sdp in
  match aget N.eqb to_pid (wt_peers t) with
  | None => outs = [] /\ t' = t
  | Some r =>
      match aget pair_eqb (q_pid rq, oid) (w_expect r) with
      | Some _ => outs = [WAnswer (w_consumer r) (w_conn r) (q_hash rq) (q_pid rq) oid sdp]
                  /\ exists r', aget N.eqb to_pid (wt_peers t') = Some r'
                                /\ w_expect r' = snd (aswap_remove pair_eqb (q_pid rq, oid) (w_expect r))
      | None => outs = [WError (q_consumer rq) (q_conn rq) (q_hash rq)] /\ t' = t
      end
  end.
Proof.
  unfold ws_handle_answer. destruct (aget N.eqb to_pid (wt_peers t)) as [r|] eqn:E; [|auto].
  pose proof (aswap_remove_pair_spec (q_pid rq, oid) (w_expect r)) as Hs.
  destruct (aswap_remove pair_eqb (q_pid rq, oid) (w_expect r)) as [[x|] e] eqn:Er; cbn [fst snd] in Hs; rewrite <- Hs.
  - split; [reflexivity|]. eexists. split; [cbn [wt_peers]; apply aget_aput_same|reflexivity].
  - auto.
Qed.

(* a consumed expectation is gone: the same answer cannot be forwarded twice *)
Lemma aget_after_swap_remove (k : N * N) (l : list ((N * N) * N)) :
  NoDup (map fst l) -> aget pair_eqb k (snd (aswap_remove pair_eqb k l)) = None.
Proof.
  assert (Hpe : forall a b, pair_eqb a b = true <-> a = b).
  { intros [a1 a2] [b1 b2]. unfold pair_eqb. cbn. rewrite andb_true_iff, !N.eqb_eq. split; [intros [-> ->]; reflexivity|intros E; inversion E; auto]. }
  assert (Hnotin : forall l0 : list ((N * N) * N), ~ In k (map fst l0) -> aget pair_eqb k l0 = None).
  { induction l0 as [|[k0 v0] t0 IH0]; cbn; intros H; [reflexivity|].
    destruct (pair_eqb k0 k) eqn:E; [apply Hpe in E; subst; exfalso; apply H; left; reflexivity|].
    apply IH0. intros Hin. apply H. right. exact Hin. }
  induction l as [|[k' v] t IH]; cbn; intros Hnd; [reflexivity|].
  inversion Hnd as [|? ? Hx Ht]; subst.
  destruct (pair_eqb k' k) eqn:E; cbn.
  - apply Hpe in E. subst k'. apply Hnotin.
    destruct t as [|e t']; [intros []|].
    intros Hin. apply Hx. cbn [map] in Hin.
    assert (Hperm : Permutation (last (e :: t') (k, v) :: removelast (e :: t')) (e :: t')).
    { rewrite (app_removelast_last (k, v) (l := e :: t')) at 3 by discriminate. apply Permutation_cons_append. }
    eapply Permutation_in; [apply Permutation_map, Hperm|exact Hin].
  - destruct (aswap_remove pair_eqb k t) as [r t'] eqn:Es. cbn in *. rewrite E. apply IH, Ht.
Qed.

(* ---- offers (C09) ---- *)
Lemma zip_offers_outs hash sender u : forall offers recv e,
  snd (ws_zip_offers hash sender u offers recv e)
  = map (fun x => WOffer (w_consumer (snd (snd x))) (w_conn (snd (snd x))) hash sender (fst (fst x)) (snd (fst x)))
        (combine offers recv).
Proof.
  induction offers as [|[oid sdp] ot IH]; intros recv e; cbn; [reflexivity|].
  destruct recv as [|[rpid rp] rt]; cbn; [reflexivity|].
  specialize (IH rt (aput pair_eqb (rpid, oid) u e)).
  destruct (ws_zip_offers hash sender u ot rt (aput pair_eqb (rpid, oid) u e)) as [e' outs]. cbn in *. rewrite IH. reflexivity.
Qed.

(* offers of a stored sender: offer i goes to receiver i of a duplicate-free selection of OTHER
   stored peers, min(offers, max_offers, others) in total, each tagged with the sender's id and
   addressed to the receiving peer's own (consumer, connection) *)
Theorem offers_forwarded cfg t rq now offers o1 o2 p :
  wt_ok t -> aget N.eqb (q_pid rq) (wt_peers t) = Some p ->
  exists recv t' outs,
    ws_handle_offers cfg t rq now offers o1 o2 = Ok (t', outs)
    /\ NoDup (wkeys recv) /\ incl recv (wt_peers t) /\ ~ In (q_pid rq) (wkeys recv)
    /\ length recv = Nat.min (Nat.min (length offers) (wc_max_offers cfg)) (length (wt_peers t) - 1)
    /\ outs = map (fun x => WOffer (w_consumer (snd (snd x))) (w_conn (snd (snd x))) (q_hash rq) (q_pid rq) (fst (fst x)) (snd (fst x)))
                  (combine offers recv).
Proof.
  intros [Hnd Hns] Hp. unfold ws_handle_offers.
  destruct (ws_extract_spec (wt_peers t) (Nat.min (length offers) (wc_max_offers cfg)) (q_pid rq) o1 o2 Hnd (aget_in_keys _ _ _ Hp))
    as (recv & Hex & R1 & R2 & R3 & R4).
  rewrite Hex. cbn [obind]. rewrite Hp.
  pose proof (zip_offers_outs (q_hash rq) (q_pid rq) (valid_until_new now (wc_max_offer_age cfg)) offers recv (w_expect p)) as Hz.
  destruct (ws_zip_offers _ _ _ offers recv (w_expect p)) as [e outs]. cbn [snd] in Hz.
  exists recv. do 2 eexists. split; [reflexivity|]. repeat split; assumption.
Qed.

(* ---- connection closed ---- *)
Theorem closed_removes_that_peer s v6 hash pid s' t :
  wstate_ok s -> ws_closed s v6 hash pid = Ok s' -> aget N.eqb hash (wfam s v6) = Some t ->
  exists t', aget N.eqb hash (wfam s' v6) = Some t'
    /\ aget N.eqb pid (wt_peers t') = None
    /\ forall k, k <> pid -> aget N.eqb k (wt_peers t') = aget N.eqb k (wt_peers t).
Proof.
  intros Hs Hc Ht. unfold ws_closed in Hc. rewrite Ht in Hc.
  destruct (wfam_ok s v6 Hs) as [_ Hall]. destruct (Hall hash t Ht) as [Hnd Hns].
  destruct (aswap_remove_spec pid (wt_peers t) Hnd) as [Hf Hp].
  destruct (aswap_remove N.eqb pid (wt_peers t)) as [[p|] ps] eqn:Es; cbn [fst snd] in Hf, Hp.
  - destruct (if w_seeder p then checked_pred (wt_ns t) else Ok (wt_ns t)) as [ns|]; cbn [obind] in Hc; [|discriminate].
    inversion Hc; subst s'. clear Hc.
    assert (Hg : wfam (wset s v6 (aput N.eqb hash (mkWt ps ns) (wfam s v6))) v6 = aput N.eqb hash (mkWt ps ns) (wfam s v6))
      by (destruct v6; reflexivity).
    rewrite Hg. eexists. split; [apply aget_aput_same|]. cbn [wt_peers].
    assert (Hnd' : NoDup (wkeys ps)).
    { eapply Permutation_NoDup; [apply Permutation_sym, Permutation_map, Hp|]. apply aremove_nodup, Hnd. }
    split.
    + apply aget_none_notin. intros Hin. apply (aremove_not_in pid (wt_peers t)).
      eapply Permutation_in; [apply Permutation_map, Hp|exact Hin].
    + intros k Hk. destruct (aget N.eqb k (wt_peers t)) as [v|] eqn:Ek.
      * apply in_aget; [exact Hnd'|]. eapply Permutation_in; [apply Permutation_sym, Hp|].
        unfold aremove. apply filter_In. split; [apply aget_some_in, Ek|]. cbn. destruct (N.eqb_spec k pid); [contradiction|reflexivity].
      * apply aget_none_notin. intros Hin'. apply aget_none_notin in Ek. apply Ek.
        assert (In k (wkeys (aremove pid (wt_peers t)))) by (eapply Permutation_in; [apply Permutation_map, Hp|exact Hin']).
        unfold wkeys in H. rewrite aremove_keys in H. apply filter_In in H. tauto.
  - inversion Hc; subst s'. exists t. split; [exact Ht|]. split; [symmetry; exact Hf|auto].
Qed.
