(* C20: totals, export lines, tally laws, atomic replacement of the export file. *)
From Aquatic Require Import RefSwarm Export PeerMapFacts Selection PeerMapRefine SwarmCommon UdpSwarmRefine.

(* ---------------- tally ---------------- *)
Lemma tally_count_add pid t q :
  tally_count (tally_add pid t) q = if N.eqb pid q then S (tally_count t q) else tally_count t q.
Proof.
  induction t as [|[p c] r IH]; cbn.
  - destruct (N.eqb pid q); reflexivity.
  - destruct (N.eqb_spec p pid) as [->|Hne]; cbn.
    + destruct (N.eqb pid q); reflexivity.
    + destruct (N.eqb_spec p q) as [->|Hq].
      * destruct (N.eqb_spec pid q); [congruence|reflexivity].
      * exact IH.
Qed.

Definition tally_wf (t : tally) : Prop := NoDup (map fst t) /\ Forall (fun e => 0 < snd e) t.

Lemma tally_count_notin t q : ~ In q (map fst t) -> tally_count t q = 0.
Proof.
  induction t as [|[p c] r IH]; cbn; intros H; [reflexivity|].
  destruct (N.eqb_spec p q) as [->|Hne]; [exfalso; apply H; left; reflexivity|].
  apply IH. intros Hin; apply H; right; exact Hin.
Qed.

Lemma tally_count_remove pid t q :
  tally_wf t ->
  tally_count (tally_remove pid t) q = if N.eqb pid q then tally_count t q - 1 else tally_count t q.
Proof.
  intros [Hnd Hpos]. induction t as [|[p c] r IH]; cbn.
  - destruct (N.eqb pid q); reflexivity.
  - inversion Hnd as [|? ? Hx Hr]; subst. inversion Hpos as [|? ? Hc Hp]; subst. cbn in Hc.
    destruct (N.eqb_spec p pid) as [->|Hne].
    + destruct (Nat.eqb_spec c 1) as [->|Hc1]; cbn.
      * destruct (N.eqb_spec pid q) as [->|Hq]; [apply tally_count_notin, Hx|reflexivity].
      * destruct (N.eqb_spec pid q) as [->|Hq]; reflexivity.
    + cbn. destruct (N.eqb_spec p q) as [->|Hq].
      * destruct (N.eqb_spec pid q); [congruence|reflexivity].
      * apply IH; assumption.
Qed.

Lemma tally_add_wf pid t : tally_wf t -> tally_wf (tally_add pid t).
Proof.
  intros [Hnd Hpos]. induction t as [|[p c] r IH]; cbn.
  - split; [constructor; [intros []|constructor]|constructor; [cbn; lia|constructor]].
  - inversion Hnd as [|? ? Hx Hr]; subst. inversion Hpos as [|? ? Hc Hp]; subst.
    destruct (N.eqb_spec p pid) as [->|Hne].
    + split; [exact Hnd|constructor; [cbn in *; lia|exact Hp]].
    + destruct (IH Hr Hp) as [A B]. split; cbn.
      * constructor; [|exact A]. intros Hin.
        assert (Hk : forall x, In x (map fst (tally_add pid r)) -> x = pid \/ In x (map fst r)).
        { clear. induction r as [|[p' c'] r' IHr]; cbn; intros x Hx.
          - destruct Hx as [Hx|[]]; auto.
          - destruct (N.eqb p' pid) eqn:E; cbn in Hx.
            + destruct Hx; auto.
            + destruct Hx as [Hx|Hx]; [auto|]. destruct (IHr x Hx); auto. }
        destruct (Hk p Hin) as [->|Hin']; [congruence|contradiction].
      * constructor; assumption.
Qed.

Lemma tally_remove_wf pid t : tally_wf t -> tally_wf (tally_remove pid t).
Proof.
  intros [Hnd Hpos]. induction t as [|[p c] r IH]; cbn; [split; assumption|].
  inversion Hnd as [|? ? Hx Hr]; subst. inversion Hpos as [|? ? Hc Hp]; subst. cbn in Hc.
  destruct (N.eqb_spec p pid) as [->|Hne].
  - destruct (Nat.eqb_spec c 1); [split; assumption|].
    split; [exact Hnd|constructor; [cbn; lia|exact Hp]].
  - destruct (IH Hr Hp) as [A B]. split; cbn.
    + constructor; [|exact A]. intros Hin. apply Hx.
      clear -Hin. induction r as [|[p' c'] r' IHr]; cbn in *; [exact Hin|].
      destruct (N.eqb p' pid).
      * destruct (c' =? 1); cbn in Hin; [right; exact Hin|exact Hin].
      * cbn in Hin. destruct Hin; [left; assumption|right; apply IHr; assumption].
    + constructor; assumption.
Qed.

Lemma tally_step_wf t m : tally_wf t -> tally_wf (tally_step t m).
Proof. destruct m; [apply tally_add_wf|apply tally_remove_wf]. Qed.

(* what a message stream does to one id's count *)
Definition msg_delta (pid : N) (c : nat) (m : statmsg) : nat :=
  match m with
  | PeerAdded p => if N.eqb p pid then S c else c
  | PeerRemoved p => if N.eqb p pid then c - 1 else c
  end.

Lemma tally_fold_count msgs : forall t pid,
  tally_wf t ->
  tally_count (fold_left tally_step msgs t) pid = fold_left (msg_delta pid) msgs (tally_count t pid).
Proof.
  induction msgs as [|m r IH]; intros t pid Hwf; cbn [fold_left]; [reflexivity|].
  rewrite IH by (apply tally_step_wf, Hwf). f_equal.
  destruct m as [p|p]; cbn [tally_step msg_delta].
  - apply tally_count_add.
  - apply tally_count_remove, Hwf.
Qed.

(* number of entries carrying a given peer id *)
Definition pid_count (pid : N) (l : entries) : nat :=
  length (filter (fun e => N.eqb (p_id (snd e)) pid) l).

Lemma pid_count_perm pid l l' : Permutation l l' -> pid_count pid l = pid_count pid l'.
Proof. intros H. unfold pid_count. apply Permutation_length, filter_perm, H. Qed.

Lemma pid_count_app pid a b : pid_count pid (a ++ b) = pid_count pid a + pid_count pid b.
Proof. unfold pid_count. rewrite filter_app, app_length. reflexivity. Qed.

Lemma pid_count_remove pid k l :
  NoDup (keys l) ->
  pid_count pid l = pid_count pid (ref_remove k l)
                    + match find_key k l with Some p => if N.eqb (p_id p) pid then 1 else 0 | None => 0 end.
Proof.
  intros H. induction l as [|[k' p] t IH]; [reflexivity|].
  inversion H as [|? ? Hx Ht]; subst. specialize (IH Ht).
  unfold find_key, pid_count, ref_remove in *. cbn [find filter fst snd option_map].
  destruct (N.eqb_spec k' k) as [->|Hne]; cbn [negb option_map snd filter].
  - pose proof (ref_remove_notin k t Hx) as E. unfold ref_remove in E. rewrite E.
    destruct (N.eqb (p_id p) pid); cbn [length]; lia.
  - destruct (N.eqb (p_id p) pid); cbn [length]; lia.
Qed.

(* an announce changes the per-id counts of its torrent exactly as its messages say, PROVIDED
   the stored entry (if any) carries the announced peer id - the known finding is the other case *)
Lemma announce_tally_law cap shrink pm key st pid until take o1 o2 pm' rep removed q :
  pmap_inv cap shrink pm ->
  pm_announce cap pm key st pid until take o1 o2 = Ok (pm', rep, removed) ->
  (forall p, removed = Some p -> p_id p = pid) ->
  pid_count q (pm_entries pm')
  = fold_left (msg_delta q) (announce_msgs true st pid removed) (pid_count q (pm_entries pm)).
Proof.
  intros Hinv Ha Hsame.
  destruct (pm_announce_refines cap shrink pm (pm_entries pm) key st pid until take o1 o2 Hinv (Permutation_refl _))
    as (pm2 & rep2 & rem2 & Ha2 & _ & Href & _ & Hrem & _).
  rewrite Ha in Ha2. assert (E1 : pm2 = pm') by congruence. assert (E3 : rem2 = removed) by congruence.
  rewrite E1 in Href. rewrite E3 in Hrem. clear Ha2 E1 E3.
  destruct Hinv as [Hnd _].
  unfold pm_refines in Href. rewrite (pid_count_perm q _ _ Href).
  rewrite (pid_count_remove q key (pm_entries pm) Hnd). rewrite <- Hrem.
  cbn [ref_announce fst].
  destruct st; cbn [is_stopped is_seeding announce_msgs].
  1,2: rewrite pid_count_app; unfold pid_count at 2; cbn [filter snd p_id length];
       destruct removed as [p|]; cbn [fold_left msg_delta];
       [rewrite (Hsame p eq_refl); destruct (N.eqb pid q); cbn; lia
       |destruct (N.eqb pid q); cbn; lia].
  destruct removed as [p|]; cbn [fold_left msg_delta].
  - rewrite (Hsame p eq_refl). destruct (N.eqb pid q); cbn; lia.
  - lia.
Qed.

(* a cleaning pass emits one PeerRemoved per expired entry, with that entry's id *)
Lemma removed_msgs_delta q now l : forall c,
  fold_left (msg_delta q) (removed_msgs true now l) c
  = c - pid_count q (filter (fun e => negb (peer_valid now e)) l).
Proof.
  unfold removed_msgs. induction l as [|e t IH]; intros c; cbn; [lia|].
  destruct (peer_valid now e); cbn; [apply IH|].
  rewrite IH. unfold pid_count. cbn. destruct (N.eqb (p_id (snd e)) q); cbn; lia.
Qed.

Lemma pid_count_split q now l :
  pid_count q l = pid_count q (filter (peer_valid now) l) + pid_count q (filter (fun e => negb (peer_valid now e)) l).
Proof.
  unfold pid_count. induction l as [|e t IH]; cbn; [reflexivity|].
  destruct (peer_valid now e); cbn; destruct (N.eqb (p_id (snd e)) q); cbn; lia.
Qed.

Lemma clean_tally_law cap shrink pm now pm' cnt msgs q :
  pmap_inv cap shrink pm ->
  pm_clean cap shrink true pm now = Ok (pm', cnt, msgs) ->
  pid_count q (pm_entries pm') = fold_left (msg_delta q) msgs (pid_count q (pm_entries pm)).
Proof.
  intros Hinv Hc. destruct (pm_clean_ok cap shrink true pm now Hinv) as (Hc' & _ & Hent).
  rewrite Hc in Hc'.
  assert (E1 : pm' = pm_clean_pure cap shrink now pm) by congruence.
  assert (E2 : msgs = removed_msgs true now (pm_entries pm)) by congruence.
  rewrite E1, E2, Hent, removed_msgs_delta.
  rewrite (pid_count_split q now (pm_entries pm)). lia.
Qed.

(* ---------------- the tally over a whole history of one torrent ----------------
   any sequence of announces and cleaning passes on one peer map; `stable` records whether every
   stored entry that an announce replaced or removed carried the announced peer id (the recorded
   finding "tally-peer-id-change" is exactly the histories where it is false) *)
Inductive pmop :=
| PAnn (key : N) (st : status) (pid until : N) (take o1 o2 : nat)
| PClean (now : N).

Fixpoint pm_hist (cap : nat) (shrink : bool) (pm : pmap) (ops : list pmop)
  : outcome (pmap * list statmsg * bool) :=
  match ops with
  | [] => Ok (pm, [], true)
  | PAnn key st pid until take o1 o2 :: t =>
      match pm_announce cap pm key st pid until take o1 o2 with
      | Ok (pm1, _, removed) =>
          match pm_hist cap shrink pm1 t with
          | Ok (pm2, msgs, stable) =>
              Ok (pm2, announce_msgs true st pid removed ++ msgs,
                  (match removed with Some p => N.eqb (p_id p) pid | None => true end) && stable)
          | Panic => Panic
          end
      | Panic => Panic
      end
  | PClean now :: t =>
      match pm_clean cap shrink true pm now with
      | Ok (pm1, _, m) =>
          match pm_hist cap shrink pm1 t with
          | Ok (pm2, msgs, stable) => Ok (pm2, m ++ msgs, stable)
          | Panic => Panic
          end
      | Panic => Panic
      end
  end.

(* no history panics, and the invariant holds at its end *)
Lemma pm_hist_total cap shrink ops : forall pm,
  pmap_inv cap shrink pm ->
  exists pm' msgs stable, pm_hist cap shrink pm ops = Ok (pm', msgs, stable) /\ pmap_inv cap shrink pm'.
Proof.
  induction ops as [|op t IH]; intros pm Hinv; [do 3 eexists; split; [reflexivity|exact Hinv]|].
  destruct op as [key st pid until take o1 o2|now]; cbn [pm_hist].
  - destruct (pm_announce_refines cap shrink pm (pm_entries pm) key st pid until take o1 o2 Hinv (Permutation_refl _))
      as (pm1 & rep & rem & Ha & Hinv1 & _).
    rewrite Ha. destruct (IH pm1 Hinv1) as (pm2 & msgs & stable & Hh & Hinv2). rewrite Hh.
    do 3 eexists; split; [reflexivity|exact Hinv2].
  - destruct (pm_clean_ok cap shrink true pm now Hinv) as (Hc & Hinv1 & _). rewrite Hc.
    destruct (IH _ Hinv1) as (pm2 & msgs & stable & Hh & Hinv2). rewrite Hh.
    do 3 eexists; split; [reflexivity|exact Hinv2].
Qed.

Lemma hist_tally_law cap shrink ops : forall pm pm' msgs q,
  pmap_inv cap shrink pm ->
  pm_hist cap shrink pm ops = Ok (pm', msgs, true) ->
  pid_count q (pm_entries pm') = fold_left (msg_delta q) msgs (pid_count q (pm_entries pm)).
Proof.
  induction ops as [|op t IH]; intros pm pm' msgs q Hinv Hh.
  - cbn [pm_hist] in Hh. injection Hh as <- <-. reflexivity.
  - destruct op as [key st pid until take o1 o2|now]; cbn [pm_hist] in Hh.
    + destruct (pm_announce_refines cap shrink pm (pm_entries pm) key st pid until take o1 o2 Hinv (Permutation_refl _))
        as (pm1 & rep & rem & Ha & Hinv1 & _).
      rewrite Ha in Hh.
      destruct (pm_hist cap shrink pm1 t) as [[[pm2 msgs2] stable]|] eqn:Ht; [|discriminate].
      injection Hh as E1 E2 E3. subst pm' msgs.
      apply andb_true_iff in E3. destruct E3 as [Hsame Hst]. subst stable.
      rewrite fold_left_app.
      assert (Hlaw := announce_tally_law cap shrink pm key st pid until take o1 o2 pm1 rep rem q Hinv Ha).
      assert (Hid : forall p, rem = Some p -> p_id p = pid)
        by (intros p Hp; subst rem; apply N.eqb_eq, Hsame).
      specialize (Hlaw Hid). unfold announce_msgs in Hlaw. rewrite <- Hlaw.
      apply (IH pm1 pm2 msgs2 q Hinv1 Ht).
    + destruct (pm_clean_ok cap shrink true pm now Hinv) as (Hc & Hinv1 & _).
      rewrite Hc in Hh.
      destruct (pm_hist cap shrink _ t) as [[[pm2 msgs2] stable]|] eqn:Ht; [|discriminate].
      injection Hh as E1 E2 E3. subst pm' msgs stable.
      rewrite fold_left_app.
      assert (Hlaw := clean_tally_law cap shrink pm now _ _ _ q Hinv Hc).
      unfold removed_msgs in Hlaw |- *. rewrite <- Hlaw.
      apply (IH _ pm2 msgs2 q Hinv1 Ht).
Qed.

(* from an empty torrent: what the statistics worker has tallied for an id IS the number of
   stored entries carrying it, after every id-stable history *)
Lemma hist_tally_exact cap shrink ops pm' msgs q :
  pm_hist cap shrink (Small []) ops = Ok (pm', msgs, true) ->
  tally_count (tally_run msgs) q = pid_count q (pm_entries pm').
Proof.
  intros Hh. unfold tally_run.
  rewrite tally_fold_count by (split; [constructor|constructor]).
  rewrite (hist_tally_law cap shrink ops (Small []) pm' msgs q (small_nil_inv cap shrink) Hh).
  reflexivity.
Qed.

(* ---------------- the tally summed over all torrents of a family ---------------- *)
Definition tm_pid_count (q : N) (tm : tmap) : nat :=
  list_sum (map (fun e => pid_count q (pm_entries (snd e))) tm).

Lemma tm_pid_count_set q h pm tm :
  tm_pid_count q (tm_set h pm tm) + pid_count q (pm_entries (tm_get h tm))
  = tm_pid_count q tm + pid_count q (pm_entries pm).
Proof.
  unfold tm_pid_count, tm_get, tm_find, list_sum.
  induction tm as [|[h' pm'] t IH]; cbn [tm_set map fold_right find fst snd option_map pm_entries].
  - unfold pid_count. cbn. lia.
  - destruct (N.eqb h' h) eqn:E; cbn [map fold_right find fst snd option_map]; lia.
Qed.

(* one announce moves the family-wide count of every id exactly as its messages say (id-stable case) *)
Lemma fam_announce_tally_law cap shrink tm hash key st pid until take o1 o2 pm' rep removed q :
  pmap_inv cap shrink (tm_get hash tm) ->
  pm_announce cap (tm_get hash tm) key st pid until take o1 o2 = Ok (pm', rep, removed) ->
  (forall p, removed = Some p -> p_id p = pid) ->
  tm_pid_count q (tm_set hash pm' tm)
  = fold_left (msg_delta q) (announce_msgs true st pid removed) (tm_pid_count q tm).
Proof.
  intros Hinv Ha Hsame.
  pose proof (announce_tally_law cap shrink _ key st pid until take o1 o2 pm' rep removed q Hinv Ha Hsame) as Hlaw.
  pose proof (tm_pid_count_set q hash pm' tm) as Hsum.
  destruct (pm_announce_refines cap shrink _ (pm_entries (tm_get hash tm)) key st pid until take o1 o2 Hinv (Permutation_refl _))
    as (pm2 & rep2 & rem2 & Ha2 & _ & _ & _ & Hrem & _).
  rewrite Ha in Ha2. assert (E3 : rem2 = removed) by congruence. rewrite E3 in Hrem. clear Ha2 E3.
  destruct Hinv as [Hnd _].
  pose proof (pid_count_remove q key (pm_entries (tm_get hash tm)) Hnd) as Hge. rewrite <- Hrem in Hge.
  revert Hlaw Hsum Hge.
  generalize (pid_count q (pm_entries pm')) (pid_count q (pm_entries (tm_get hash tm)))
             (pid_count q (ref_remove key (pm_entries (tm_get hash tm))))
             (tm_pid_count q (tm_set hash pm' tm)) (tm_pid_count q tm).
  intros a b c T' T.
  destruct st; destruct removed as [p|]; cbn [announce_msgs fold_left msg_delta];
    try (rewrite (Hsame p eq_refl)); destruct (N.eqb pid q); intros; lia.
Qed.

(* ---------------- export protocol ---------------- *)
Lemma fs_step_path_preserved spill s st : st <> FRename -> f_path (fs_step spill s st) = f_path s.
Proof. destruct st; cbn; intros H; try reflexivity. congruence. Qed.

Lemma fs_run_no_rename spills steps : forall i s,
  ~ In FRename steps -> f_path (fs_run spills i s steps) = f_path s.
Proof.
  induction steps as [|st r IH]; intros i s H; cbn; [reflexivity|].
  rewrite IH by (intros Hin; apply H; right; exact Hin).
  apply fs_step_path_preserved. intros ->. apply H. left. reflexivity.
Qed.

(* after create, all writes and the flush, the temporary file holds exactly the lines *)
Lemma fs_run_writes spills lines : forall i s done,
  f_tmp s = Some done ->
  let s' := fs_run spills i s (map FWriteLine lines) in
  exists t, f_tmp s' = Some t /\ t ++ f_buf s' = done ++ f_buf s ++ lines /\ f_path s' = f_path s.
Proof.
  induction lines as [|l r IH]; intros i s done Ht; cbn [map fs_run].
  - exists done. rewrite app_nil_r. auto.
  - set (s1 := fs_step (spills i) s (FWriteLine l)).
    set (buf := f_buf s ++ [l]).
    set (k := Nat.min (spills i) (length buf)).
    assert (H1 : f_tmp s1 = Some (done ++ firstn k buf)).
    { unfold s1; cbn [fs_step f_tmp]. rewrite Ht. reflexivity. }
    assert (H2 : f_buf s1 = skipn k buf) by reflexivity.
    assert (H3 : f_path s1 = f_path s) by reflexivity.
    destruct (IH (S i) s1 _ H1) as (t & A & B & C). cbv zeta in A, B, C.
    exists t. split; [exact A|]. split; [|rewrite C; exact H3].
    rewrite B, H2. rewrite <- !app_assoc. f_equal.
    rewrite (app_assoc (firstn k buf)). rewrite firstn_skipn. unfold buf. rewrite <- app_assoc. reflexivity.
Qed.

Lemma firstn_app_cases {A} k (a b : list A) :
  (k <= length a /\ firstn k (a ++ b) = firstn k a) \/ (length a < k /\ firstn k (a ++ b) = a ++ firstn (k - length a) b).
Proof.
  destruct (Nat.le_gt_cases k (length a)) as [H|H].
  - left. split; [exact H|]. rewrite firstn_app. replace (k - length a) with 0 by lia. cbn. apply app_nil_r.
  - right. split; [exact H|]. rewrite firstn_app. rewrite firstn_all2 by lia. reflexivity.
Qed.

Theorem export_atomic spills old lines k :
  crash_view spills old lines k = old \/ crash_view spills old lines k = Some lines.
Proof.
  unfold crash_view, export_steps.
  set (s0 := mkFs old None []).
  (* steps = FCreateTmp :: writes ++ [FFlush; FClose; FRename] *)
  destruct k as [|k]; [left; reflexivity|].
  cbn [firstn fs_run].
  set (s1 := fs_step (spills 0) s0 FCreateTmp).
  destruct (firstn_app_cases k (map FWriteLine lines) [FFlush; FClose; FRename]) as [[Hk E]|[Hk E]]; rewrite E.
  - left. rewrite fs_run_no_rename; [reflexivity|].
    intros Hin. apply (In_nth_error) in Hin. destruct Hin as [n Hn].
    assert (Hin : In FRename (map FWriteLine lines)).
    { eapply (In_nth_error) in Hn || idtac.
      assert (In FRename (firstn k (map FWriteLine lines))) by (eapply nth_error_In; exact Hn).
      rewrite <- (firstn_skipn k (map FWriteLine lines)). apply in_or_app. left. assumption. }
    apply in_map_iff in Hin. destruct Hin as [x [Hx _]]. discriminate.
  - (* all writes done; some of flush / close / rename *)
    assert (Hrun : forall i s tail, fs_run spills i s (map FWriteLine lines ++ tail)
                                   = fs_run spills (i + length lines) (fs_run spills i s (map FWriteLine lines)) tail).
    { clear. induction lines as [|l r IH]; intros i s tail; cbn.
      - rewrite Nat.add_0_r. reflexivity.
      - rewrite IH. f_equal. lia. }
    rewrite Hrun.
    destruct (fs_run_writes spills lines 1 s1 [] eq_refl) as (t & A & B & C).
    cbv zeta in A, B, C. set (s2 := fs_run spills 1 s1 (map FWriteLine lines)) in *.
    cbn in B.
    remember (k - length (map FWriteLine lines)) as j.
    destruct j as [|[|[|j]]]; cbn [firstn fs_run].
    + left. rewrite C. reflexivity.
    + left. cbn. rewrite C. reflexivity.
    + left. cbn. rewrite C. reflexivity.
    + right. cbn. rewrite A. cbn. rewrite B. destruct j; reflexivity.
Qed.

(* a failing flush (the code then skips the rename) leaves the old file in place *)
Theorem export_flush_failure_keeps_old spills old lines :
  f_path (fs_run spills 0 (mkFs old None []) (FCreateTmp :: map FWriteLine lines)) = old.
Proof.
  rewrite fs_run_no_rename; [reflexivity|].
  intros [H|H]; [discriminate|]. apply in_map_iff in H. destruct H as [x [Hx _]]. discriminate.
Qed.

(* ---------------- totals and export lines of a cleaning pass ---------------- *)
Section Totals.
  Variable cfg : ucfg.
  Let cap := c_cap cfg.
  Notation clean_entry := (clean_entry cap true).

  Definition peers_of (e : N * pmap) : nat := length (pm_entries (snd e)).
  Definition total_peers (tm : tmap) : nat := list_sum (map peers_of tm).

  Definition line_of (v6 : bool) (e : N * pmap) : list (bool * N * nat * nat) :=
    let l := pm_entries (snd e) in
    if length l =? 0 then [] else [(v6, fst e, count_seeders l, length l - count_seeders l)].

  Lemma phase1_explicit v6 now tm :
    Forall (fun e => pmap_inv cap true (snd e)) tm ->
    clean_phase1 cfg v6 now tm
    = Ok (map (clean_entry now) tm,
          total_peers (map (clean_entry now) tm),
          flat_map (fun e => removed_msgs (c_peer_clients cfg) now (pm_entries (snd e))) tm,
          flat_map (line_of v6) (map (clean_entry now) tm)).
  Proof.
    induction 1 as [|[h pm] t Hpm _ IH]; cbn [clean_phase1 map flat_map]; [reflexivity|].
    cbn [snd] in Hpm. destruct (pm_clean_ok cap true (c_peer_clients cfg) pm now Hpm) as (Hc & _ & Hent).
    fold cap. rewrite Hc. unfold ref_counts. cbn [obind]. rewrite IH. cbn [obind].
    set (l := filter (peer_valid now) (pm_entries pm)) in *.
    assert (E1 : peers_of (clean_entry now (h, pm)) = length l) by (unfold peers_of; cbn [snd SwarmCommon.clean_entry]; rewrite Hent; reflexivity).
    assert (E2 : line_of v6 (clean_entry now (h, pm))
                 = if length l =? 0 then [] else [(v6, h, count_seeders l, length l - count_seeders l)])
      by (unfold line_of; cbn [fst snd SwarmCommon.clean_entry]; rewrite Hent; reflexivity).
    unfold total_peers. cbn [map list_sum flat_map]. rewrite E1, E2.
    pose proof (count_seeders_le l) as Hle.
    replace (count_seeders l + (length l - count_seeders l)) with (length l) by lia.
    cbn [snd]. fold (total_peers (map (clean_entry now) t)).
    destruct (length l =? 0); reflexivity.
  Qed.

  (* torrents: reported count = number of stored torrents; each stored torrent is permitted and
     has a peer; peers: the reported count is the number of unexpired peers BEFORE forbidden
     torrents are dropped, which is the stored number whenever no torrent with peers is forbidden *)
  Theorem clean_totals v6 now mode acl tm rf :
    fam_rel cap true tm rf ->
    exists tm2 t p msgs lines,
      u_clean_fam cfg v6 now mode acl tm = Ok (tm2, (t, p), msgs, lines)
      /\ t = length tm2 /\ NoDup (map fst tm2)
      /\ Forall (fun e => allows mode acl (fst e) = true /\ pm_is_empty (snd e) = false) tm2
      /\ p = total_peers (map (clean_entry now) tm)
      /\ ((forall e, In e (map (clean_entry now) tm) -> pm_is_empty (snd e) = false -> allows mode acl (fst e) = true)
          -> p = total_peers tm2)
      /\ lines = flat_map (line_of v6) (map (clean_entry now) tm)
      /\ msgs = flat_map (fun e => removed_msgs (c_peer_clients cfg) now (pm_entries (snd e))) tm.
  Proof.
    intros Hrel. pose proof (fam_rel_forall cap true _ _ Hrel) as Hall. destruct Hrel as [Hwf _].
    unfold u_clean_fam. rewrite (phase1_explicit v6 now tm Hall). cbn [obind].
    do 5 eexists. split; [reflexivity|]. split; [reflexivity|].
    assert (Hwf1 : tm_wf (map (clean_entry now) tm)) by (unfold tm_wf; rewrite map_clean_keys; exact Hwf).
    split; [apply filter_wf, Hwf1|]. split.
    { apply Forall_forall. intros e Hin. unfold clean_phase2 in Hin. apply filter_In in Hin.
      destruct Hin as [_ Hf]. apply andb_prop in Hf. destruct Hf as [A B]. split; [exact A|].
      destruct (pm_is_empty (snd e)); [discriminate|reflexivity]. }
    split; [reflexivity|]. split; [|split; reflexivity].
    unfold clean_phase2, total_peers.
    generalize (map (clean_entry now) tm) as l0. intros l0 Hallowed.
    induction l0 as [|e t IH]; cbn [filter map list_sum]; [reflexivity|].
    assert (IH' : list_sum (map peers_of t)
                  = list_sum (map peers_of (filter (fun e0 => allows mode acl (fst e0) && negb (pm_is_empty (snd e0))) t))).
    { apply IH. intros e0 Hin Hne. apply Hallowed; [right; exact Hin|exact Hne]. }
    unfold list_sum in *.
    destruct (pm_is_empty (snd e)) eqn:Ee.
    - rewrite andb_false_r. cbn [fold_right]. rewrite <- IH'. unfold peers_of at 1. unfold pm_is_empty in Ee.
      destruct (pm_entries (snd e)); [reflexivity|discriminate].
    - rewrite (Hallowed e (or_introl eq_refl) Ee). cbn [andb negb map fold_right]. rewrite IH'. reflexivity.
  Qed.

  (* the export lists exactly the torrents that have a peer after expiry, once, with true counts *)
  Theorem export_lines_exact v6 (tm1 : tmap) :
    tm_wf tm1 ->
    let lines := flat_map (line_of v6) tm1 in
    (forall f h s l, In (f, h, s, l) lines <->
        f = v6 /\ exists pm, In (h, pm) tm1 /\ pm_is_empty pm = false
                 /\ s = count_seeders (pm_entries pm) /\ l = length (pm_entries pm) - count_seeders (pm_entries pm))
    /\ NoDup (map (fun x => snd (fst (fst x))) lines).
  Proof.
    intros Hwf lines. split.
    - intros f h s l. unfold lines. rewrite in_flat_map. split.
      + intros [[h' pm] [Hin Hl]]. unfold line_of in Hl. cbn [fst snd] in Hl.
        destruct (pm_entries pm) as [|e0 l0] eqn:E; cbn [length Nat.eqb] in Hl; [contradiction|].
        destruct Hl as [Hl|[]]. inversion Hl; subst. split; [reflexivity|].
        exists pm. split; [exact Hin|]. unfold pm_is_empty. rewrite E. auto.
      + intros [-> [pm [Hin [Hne [-> ->]]]]]. exists (h, pm). split; [exact Hin|].
        unfold line_of. cbn [fst snd]. unfold pm_is_empty in Hne.
        destruct (pm_entries pm) as [|e0 l0]; [discriminate|]. cbn [length Nat.eqb]. left. reflexivity.
    - unfold lines. unfold tm_wf in Hwf. induction tm1 as [|[h pm] t IH]; cbn [flat_map map]; [constructor|].
      inversion Hwf as [|? ? Hx Ht]; subst. rewrite map_app. unfold line_of at 1. cbn [fst snd].
      destruct (length (pm_entries pm) =? 0); cbn [map app]; [apply IH, Ht|].
      constructor; [|apply IH, Ht]. cbn [fst snd]. intros Hin. apply Hx.
      apply in_map_iff in Hin. destruct Hin as [[[[f' h'] s'] l'] [Heq Hin]]. cbn in Heq. subst h'.
      apply in_flat_map in Hin. destruct Hin as [[h2 pm2] [Hin2 Hl]]. unfold line_of in Hl. cbn [fst snd] in Hl.
      destruct (length (pm_entries pm2) =? 0); [contradiction|]. destruct Hl as [Hl|[]]. inversion Hl; subst.
      apply in_map_iff. exists (h, pm2). split; [reflexivity|exact Hin2].
  Qed.
End Totals.
