(* C17: every peer entry in every swarm worker belongs to a live connection whose clean-up record
   names it; hence a closed (or refused) connection leaves no peer entry behind - for every
   history, every number of socket and swarm workers (sequential semantics). *)
From Coq Require Import Zify ZifyN ZifyBool Permutation.
From Aquatic Require Import WsSwarm AssocFacts WsFacts WsRouting WsRoutingFacts WsCloseFacts.
Local Open Scope N_scope.

Definition owner (p : wpeer) : N * N := (w_consumer p, w_conn p).

(* ---------- one torrent: who owns the entries after a storage operation ---------- *)
Definition tor_le (t t' : wtorrent) (self : N) (me : N * N) : Prop :=
  forall pid p', aget N.eqb pid (wt_peers t') = Some p' ->
    (exists p, aget N.eqb pid (wt_peers t) = Some p /\ owner p = owner p') \/ (pid = self /\ owner p' = me).

Lemma tor_le_refl t self me : tor_le t t self me.
Proof. intros pid p' H. left. eauto. Qed.

Lemma tor_le_trans t1 t2 t3 self me : tor_le t1 t2 self me -> tor_le t2 t3 self me -> tor_le t1 t3 self me.
Proof.
  intros H12 H23 pid p3 H3. destruct (H23 pid p3 H3) as [(p2 & H2 & E2)|R]; [|right; exact R].
  destruct (H12 pid p2 H2) as [(p1 & H1 & E1)|[Hs Ho]]; [left; exists p1; split; [exact H1|congruence]|].
  right. split; [exact Hs|congruence].
Qed.

Lemma upsert_le t rq until st t' :
  wt_ok t -> ws_upsert t rq until st = Ok t' ->
  tor_le t t' (q_pid rq) (q_consumer rq, q_conn rq)
  /\ (st = WStopped -> aget N.eqb (q_pid rq) (wt_peers t') = None).
Proof.
  intros Hok Hu. destruct (ws_upsert_ok t rq until st Hok) as (t2 & Hu2 & _ & Hself & Hoth).
  rewrite Hu in Hu2. injection Hu2 as <-. split.
  - intros pid p' Hp. destruct (N.eq_dec pid (q_pid rq)) as [->|Hne].
    + destruct st.
      * destruct Hself as (p & Hp2 & _ & _ & Hown). rewrite Hp in Hp2. injection Hp2 as <-.
        destruct (aget N.eqb (q_pid rq) (wt_peers t)) as [old|].
        -- left. exists old. split; [reflexivity|]. unfold owner. destruct Hown as (-> & -> & _). reflexivity.
        -- right. split; [reflexivity|]. unfold owner. destruct Hown as (-> & -> & _). reflexivity.
      * destruct Hself as (p & Hp2 & _ & _ & Hown). rewrite Hp in Hp2. injection Hp2 as <-.
        destruct (aget N.eqb (q_pid rq) (wt_peers t)) as [old|].
        -- left. exists old. split; [reflexivity|]. unfold owner. destruct Hown as (-> & -> & _). reflexivity.
        -- right. split; [reflexivity|]. unfold owner. destruct Hown as (-> & -> & _). reflexivity.
      * rewrite Hself in Hp. discriminate.
    + left. exists p'. split; [rewrite <- (Hoth pid Hne); exact Hp|reflexivity].
  - intros ->. exact Hself.
Qed.

Lemma put_same_owner_le t k p v self me :
  aget N.eqb k (wt_peers t) = Some p -> owner v = owner p ->
  tor_le t (mkWt (aput N.eqb k v (wt_peers t)) (wt_ns t)) self me.
Proof.
  intros Hk Ho pid p' Hp. cbn [wt_peers] in Hp. left.
  destruct (N.eq_dec pid k) as [->|Hne].
  - rewrite aget_aput_same in Hp. injection Hp as <-. exists p. split; [exact Hk|symmetry; exact Ho].
  - rewrite aget_aput_other in Hp by exact Hne. exists p'. split; [exact Hp|reflexivity].
Qed.

Lemma offers_le cfg t rq now offers o1 o2 t' outs self me :
  ws_handle_offers cfg t rq now offers o1 o2 = Ok (t', outs) -> tor_le t t' self me.
Proof.
  unfold ws_handle_offers. intros H.
  destruct (ws_extract _ _ _ _ _) as [recv|]; [|discriminate]. cbn [obind] in H.
  destruct (aget N.eqb (q_pid rq) (wt_peers t)) as [p|] eqn:E.
  - destruct (ws_zip_offers _ _ _ offers recv (w_expect p)) as [e o]. injection H as <- _.
    apply (put_same_owner_le t _ p); [exact E|reflexivity].
  - injection H as <- _. apply tor_le_refl.
Qed.

Lemma answer_le t rq to_pid oid sdp t' outs self me :
  ws_handle_answer t rq to_pid oid sdp = (t', outs) -> tor_le t t' self me.
Proof.
  unfold ws_handle_answer. intros H.
  destruct (aget N.eqb to_pid (wt_peers t)) as [r|] eqn:E; [|injection H as <- _; apply tor_le_refl].
  destruct (aswap_remove pair_eqb (q_pid rq, oid) (w_expect r)) as [[x|] e]; injection H as <- _; [|apply tor_le_refl].
  apply (put_same_owner_le t _ r); [exact E|reflexivity].
Qed.

(* ---------- the whole announce on one swarm worker ---------- *)
Lemma wfam_wset_other s v6 m : wfam (wset s v6 m) (negb v6) = wfam s (negb v6).
Proof. destruct v6; reflexivity. Qed.

Lemma wm_get_some h m t : aget N.eqb h m = Some t -> wm_get h m = t.
Proof. unfold wm_get. intros ->. reflexivity. Qed.

Theorem announce_owners cfg s rq now o1 o2 s' outs :
  wstate_ok s -> ws_announce cfg s rq now o1 o2 = Ok (s', outs) ->
  (forall f h t' pid p', aget N.eqb h (wfam s' f) = Some t' -> aget N.eqb pid (wt_peers t') = Some p' ->
     (exists t p, aget N.eqb h (wfam s f) = Some t /\ aget N.eqb pid (wt_peers t) = Some p /\ owner p = owner p')
     \/ (f = q_v6 rq /\ h = q_hash rq /\ pid = q_pid rq /\ owner p' = (q_consumer rq, q_conn rq) /\ q_stopped rq = false))
  /\ (q_stopped rq = true -> forall t' p', aget N.eqb (q_hash rq) (wfam s' (q_v6 rq)) = Some t' ->
        aget N.eqb (q_pid rq) (wt_peers t') = Some p' -> w_conn p' <> q_conn rq).
Proof.
  intros Hs Ha. unfold ws_announce, ws_announce_gen in Ha.
  pose proof (wfam_ok s (q_v6 rq) Hs) as Hm.
  pose proof (wm_get_ok _ (q_hash rq) Hm) as Ht.
  set (m := wfam s (q_v6 rq)) in *. set (t := wm_get (q_hash rq) m) in *.
  (* what a reader finds in the state after storing torrent [tn] for the announced hash *)
  assert (Hread : forall tn sn, sn = wset s (q_v6 rq) (aput N.eqb (q_hash rq) tn m) ->
            forall f h t', aget N.eqb h (wfam sn f) = Some t' ->
              (f = q_v6 rq /\ h = q_hash rq /\ t' = tn) \/ aget N.eqb h (wfam s f) = Some t').
  { intros tn sn -> f h t' H. destruct (Bool.bool_dec f (q_v6 rq)) as [->|Hf].
    - rewrite wfam_wset_same in H. destruct (N.eq_dec h (q_hash rq)) as [->|Hne].
      + rewrite aget_aput_same in H. injection H as <-. left. auto.
      + rewrite aget_aput_other in H by exact Hne. right. exact H.
    - assert (f = negb (q_v6 rq)) by (destruct f, (q_v6 rq); try reflexivity; exfalso; apply Hf; reflexivity). subst f.
      rewrite wfam_wset_other in H. right. exact H. }
  (* entries of the old torrent, read through wm_get *)
  assert (Hold : forall pid p, aget N.eqb pid (wt_peers t) = Some p ->
            exists t0, aget N.eqb (q_hash rq) (wfam s (q_v6 rq)) = Some t0 /\ aget N.eqb pid (wt_peers t0) = Some p).
  { intros pid p H. unfold t, wm_get in H. fold m in H. destruct (aget N.eqb (q_hash rq) m) as [t0|] eqn:E; [eauto|discriminate]. }
  destruct (match aget N.eqb (q_pid rq) (wt_peers t) with
            | Some p => negb (N.eqb (q_conn rq) (w_conn p) && (negb false || N.eqb (q_consumer rq) (w_consumer p)))
            | None => false end) eqn:Ef.
  - (* ignored: nothing changes but the (possibly created, empty) torrent *)
    injection Ha as <- _. split.
    + intros f h t' pid p' H1 H2. destruct (Hread t _ eq_refl f h t' H1) as [(-> & -> & ->)|H].
      * destruct (Hold pid p' H2) as (t0 & E0 & E1). left. exists t0, p'. auto.
      * left. exists t', p'. auto.
    + intros _ t' p' H1 H2. destruct (Hread t _ eq_refl _ _ t' H1) as [(_ & _ & ->)|H].
      * rewrite H2 in Ef. cbn [negb orb andb] in Ef. rewrite Bool.andb_true_r in Ef.
        intros E. rewrite E, N.eqb_refl in Ef. discriminate.
      * assert (Et : t = t') by (unfold t; apply wm_get_some; exact H). rewrite Et in Ef.
        rewrite H2 in Ef. cbn [negb orb andb] in Ef. rewrite Bool.andb_true_r in Ef.
        intros E. rewrite E, N.eqb_refl in Ef. discriminate.
  - set (st := wstatus_of (q_stopped rq) (q_left rq)) in *.
    destruct (ws_upsert t rq (valid_until_new now (wc_max_peer_age cfg)) st) as [t1|] eqn:Hu; [|discriminate].
    cbn [obind] in Ha.
    destruct (upsert_le t rq _ st t1 Ht Hu) as [Hle1 Hstop1].
    destruct (match st, q_offers rq with
              | WStopped, _ => Ok (t1, [])
              | _, Some offers => ws_handle_offers cfg t1 rq now offers o1 o2
              | _, None => Ok (t1, [])
              end) as [[t2 outs1]|] eqn:Hoff; [|discriminate]. cbn [obind] in Ha.
    assert (Hle2 : tor_le t1 t2 (q_pid rq) (q_consumer rq, q_conn rq) /\ (st = WStopped -> t2 = t1)).
    { destruct st; [| |injection Hoff as <- _; split; [apply tor_le_refl|reflexivity]].
      all: destruct (q_offers rq) as [offers|]; [|injection Hoff as <- _; split; [apply tor_le_refl|discriminate]].
      all: split; [eapply offers_le; exact Hoff|discriminate]. }
    destruct (match st, q_answer rq with
              | WStopped, _ => (t2, [])
              | _, Some (to_pid, oid, sdp) => ws_handle_answer t2 rq to_pid oid sdp
              | _, None => (t2, [])
              end) as [t3 outs2] eqn:Hans.
    assert (Hle3 : tor_le t2 t3 (q_pid rq) (q_consumer rq, q_conn rq) /\ (st = WStopped -> t3 = t2)).
    { destruct st; [| |injection Hans as <- _; split; [apply tor_le_refl|reflexivity]].
      all: destruct (q_answer rq) as [[[to_pid oid] sdp]|]; [|injection Hans as <- _; split; [apply tor_le_refl|discriminate]].
      all: split; [eapply answer_le; exact Hans|discriminate]. }
    destruct (checked_sub (length (wt_peers t3)) (wt_ns t3)) as [inc|]; [|discriminate]. cbn [obind] in Ha.
    injection Ha as <- _.
    assert (Hle : tor_le t t3 (q_pid rq) (q_consumer rq, q_conn rq))
      by (eapply tor_le_trans; [exact Hle1|eapply tor_le_trans; [apply Hle2|apply Hle3]]).
    split.
    + intros f h t' pid p' H1 H2. destruct (Hread t3 _ eq_refl f h t' H1) as [(-> & -> & ->)|H].
      * destruct (Hle pid p' H2) as [(p & Hp & Ho)|[-> Ho]].
        -- destruct (Hold pid p Hp) as (t0 & E0 & E1). left. exists t0, p. auto.
        -- right. repeat split; auto.
           destruct (q_stopped rq) eqn:Es; [|reflexivity]. exfalso.
           assert (Est : st = WStopped) by (unfold st, wstatus_of; try rewrite Es; reflexivity).
           destruct Hle2 as [_ E2]. destruct Hle3 as [_ E3]. rewrite (E3 Est), (E2 Est) in H2.
           rewrite (Hstop1 Est) in H2. discriminate.
      * left. exists t', p'. auto.
    + intros Es t' p' H1 H2.
      assert (Est : st = WStopped) by (unfold st, wstatus_of; try rewrite Es; reflexivity).
      destruct (Hread t3 _ eq_refl _ _ t' H1) as [(_ & _ & ->)|H].
      * destruct Hle2 as [_ E2]. destruct Hle3 as [_ E3]. rewrite (E3 Est), (E2 Est) in H2.
        rewrite (Hstop1 Est) in H2. discriminate.
      * (* the stored torrent is the new one: the announced hash is in the map after aput *)
        exfalso. revert H1. rewrite wfam_wset_same, aget_aput_same. intros E. injection E as <-.
        destruct Hle2 as [_ E2]. destruct Hle3 as [_ E3]. rewrite (E3 Est), (E2 Est) in H2.
        rewrite (Hstop1 Est) in H2. discriminate.
Qed.

(* ---------- association-list and connection-table plumbing ---------- *)
Lemma pair_eqb_true a b : pair_eqb a b = true <-> a = b.
Proof.
  destruct a as [a1 a2], b as [b1 b2]. unfold pair_eqb. cbn. rewrite andb_true_iff, !N.eqb_eq.
  split; [intros [-> ->]; reflexivity|intros E; inversion E; auto].
Qed.

Lemma find_conn_key key cs c : find_conn key cs = Some c -> sc_key c = key.
Proof. unfold find_conn. intros H. apply find_some in H. apply pair_eqb_true, H. Qed.

Lemma find_drop_other key k0 cs : key <> k0 -> find_conn key (drop_conn k0 cs) = find_conn key cs.
Proof.
  intros Hne. unfold find_conn, drop_conn. induction cs as [|c t IH]; cbn; [reflexivity|].
  destruct (pair_eqb (sc_key c) k0) eqn:E0; cbn.
  - apply pair_eqb_true in E0. destruct (pair_eqb (sc_key c) key) eqn:E1; [|exact IH].
    apply pair_eqb_true in E1. congruence.
  - destruct (pair_eqb (sc_key c) key); [reflexivity|exact IH].
Qed.

Lemma find_put_other key c cs : key <> sc_key c -> find_conn key (put_conn c cs) = find_conn key cs.
Proof.
  intros Hne. unfold put_conn. unfold find_conn at 1. cbn [find].
  destruct (pair_eqb (sc_key c) key) eqn:E; [apply pair_eqb_true in E; congruence|].
  apply (find_drop_other key (sc_key c) cs Hne).
Qed.

Lemma aget_swap_remove_other {V} k h (l : list (N * V)) :
  NoDup (map fst l) -> h <> k -> aget N.eqb h (snd (aswap_remove N.eqb k l)) = aget N.eqb h l.
Proof.
  intros Hnd Hne. destruct (aswap_remove_spec k l Hnd) as [_ Hp].
  assert (Hnd' : NoDup (map fst (snd (aswap_remove N.eqb k l)))).
  { eapply Permutation_NoDup; [apply Permutation_sym, Permutation_map, Hp|]. apply aremove_nodup, Hnd. }
  destruct (aget N.eqb h l) as [v|] eqn:E.
  - apply in_aget; [exact Hnd'|]. eapply Permutation_in; [apply Permutation_sym, Hp|].
    unfold aremove. apply filter_In. split; [apply aget_some_in, E|]. cbn.
    destruct (N.eqb_spec h k); [contradiction|reflexivity].
  - apply aget_none_notin. intros Hin. apply (proj1 (aget_none_notin h l) E).
    assert (Hin2 : In h (map fst (aremove k l))) by (eapply Permutation_in; [apply Permutation_map, Hp|exact Hin]).
    rewrite aremove_keys in Hin2. apply filter_In in Hin2. apply Hin2.
Qed.

Lemma swap_remove_nodup {V} k (l : list (N * V)) : NoDup (map fst l) -> NoDup (map fst (snd (aswap_remove N.eqb k l))).
Proof.
  intros Hnd. destruct (aswap_remove_spec k l Hnd) as [_ Hp].
  eapply Permutation_NoDup; [apply Permutation_sym, Permutation_map, Hp|]. apply aremove_nodup, Hnd.
Qed.

(* ---------- closing only removes ---------- *)
Lemma ws_closed_subset s v6 h pid s' :
  wstate_ok s -> ws_closed s v6 h pid = Ok s' ->
  forall f h2 t' pid2 p, aget N.eqb h2 (wfam s' f) = Some t' -> aget N.eqb pid2 (wt_peers t') = Some p ->
    exists t, aget N.eqb h2 (wfam s f) = Some t /\ aget N.eqb pid2 (wt_peers t) = Some p.
Proof.
  intros Hs Hc f h2 t' pid2 p H1 H2.
  destruct (aget N.eqb h (wfam s v6)) as [t|] eqn:Et.
  2:{ unfold ws_closed in Hc. rewrite Et in Hc. injection Hc as <-. eauto. }
  destruct (closed_removes_that_peer s v6 h pid s' t Hs Hc Et) as (t2 & E2 & Hnone & Hoth).
  destruct (Bool.bool_dec f v6) as [->|Hf].
  - destruct (N.eq_dec h2 h) as [->|Hne].
    + rewrite E2 in H1. injection H1 as <-. exists t. split; [exact Et|].
      destruct (N.eq_dec pid2 pid) as [->|Hp]; [rewrite Hnone in H2; discriminate|].
      rewrite <- (Hoth pid2 Hp). exact H2.
    + rewrite (ws_closed_other_torrent _ _ _ _ _ _ Hc Hne) in H1. eauto.
  - assert (f = negb v6) by (destruct f, v6; try reflexivity; exfalso; apply Hf; reflexivity). subst f.
    assert (E : wfam s' (negb v6) = wfam s (negb v6)).
    { clear -Hc. unfold ws_closed in Hc.
      destruct (aget N.eqb h (wfam s v6)) as [t|]; [|injection Hc as <-; reflexivity].
      destruct (aswap_remove N.eqb pid (wt_peers t)) as [[p|] ps]; [|injection Hc as <-; reflexivity].
      destruct (if w_seeder p then checked_pred (wt_ns t) else Ok (wt_ns t)) as [ns|]; [|discriminate].
      cbn [obind] in Hc. injection Hc as <-. destruct v6; reflexivity. }
    rewrite E in H1. eauto.
Qed.

Lemma yset_beyond ws j s : (length ws <= j)%nat -> yset ws j s = ws.
Proof.
  revert j. induction ws as [|x t IH]; intros j Hl; cbn; [reflexivity|].
  destruct j; cbn in *; [lia|]. rewrite IH by lia. reflexivity.
Qed.

Lemma close_all_subset k v6 : forall ann ws ws',
  all_ok k ws -> close_all k ws v6 ann = Ok ws' ->
  forall j f h t' pid p, (j < k)%nat -> aget N.eqb h (wfam (yget ws' j) f) = Some t' -> aget N.eqb pid (wt_peers t') = Some p ->
    exists t, aget N.eqb h (wfam (yget ws j) f) = Some t /\ aget N.eqb pid (wt_peers t) = Some p.
Proof.
  induction ann as [|[h0 pid0] ann IH]; intros ws ws' Hok Hc j f h t' pid p Hj H1 H2; cbn [close_all] in Hc.
  - injection Hc as <-. eauto.
  - set (j0 := wroute k h0) in *.
    destruct (ws_closed (yget ws j0) v6 h0 pid0) as [s1|] eqn:Ec; [|discriminate]. cbn [obind] in Hc.
    destruct (Nat.lt_ge_cases j0 k) as [Hj0|Hj0].
    + destruct (ws_closed_ok (yget ws j0) v6 h0 pid0 (Hok j0 Hj0)) as (s1' & Ec' & Hok1). rewrite Ec in Ec'. injection Ec' as <-.
      assert (Hok' : all_ok k (yset ws j0 s1)).
      { intros i Hi. destruct (Nat.eq_dec i j0) as [->|Hne].
        - destruct (Nat.lt_ge_cases j0 (length ws)) as [Hl|Hl]; [rewrite yget_yset_same by exact Hl; exact Hok1|].
          (* j0 beyond the list: yset does nothing, yget gives winit *)
          assert (E : yset ws j0 s1 = ws) by (apply yset_beyond; exact Hl).
          rewrite E. apply Hok, Hi.
        - rewrite yget_yset_other by exact Hne. apply Hok, Hi. }
      destruct (IH _ _ Hok' Hc j f h t' pid p Hj H1 H2) as (t1 & E1 & E2).
      destruct (Nat.eq_dec j j0) as [->|Hne]; [|rewrite yget_yset_other in E1 by exact Hne; eauto].
      destruct (Nat.lt_ge_cases j0 (length ws)) as [Hl|Hl].
      * rewrite yget_yset_same in E1 by exact Hl. eapply ws_closed_subset; [apply Hok, Hj0|exact Ec|exact E1|exact E2].
      * assert (E : yset ws j0 s1 = ws) by (apply yset_beyond; exact Hl).
        rewrite E in E1. eauto.
    + exfalso. unfold j0, wroute in Hj0. destruct k; [lia|]. pose proof (Nat.mod_upper_bound (N.to_nat (h0 mod 256)) (S k)). lia.
Qed.

(* ---------- the system invariant ---------- *)
Definition Own (k : nat) (y : wsys) : Prop :=
  length (y_workers y) = k /\ all_ok k (y_workers y)
  /\ (forall key c, find_conn key (y_conns y) = Some c -> NoDup (map fst (sc_announced c)))
  /\ (forall j f h t pid p, (j < k)%nat ->
        aget N.eqb h (wfam (yget (y_workers y) j) f) = Some t -> aget N.eqb pid (wt_peers t) = Some p ->
        exists c, find_conn (owner p) (y_conns y) = Some c /\ sc_v6 c = f
                  /\ aget N.eqb h (sc_announced c) = Some pid /\ wroute k h = j).

(* what the socket workers guarantee about an action: a connection id is not opened twice, and a
   request carries the identity and address family of the connection it arrived on *)
Definition action_wf (y : wsys) (who : N * N) (a : caction) : Prop :=
  match a with
  | COpen _ => find_conn who (y_conns y) = None
  | CAnnounce rq => (q_consumer rq, q_conn rq) = who /\ forall c, find_conn who (y_conns y) = Some c -> q_v6 rq = sc_v6 c
  | _ => True
  end.

Lemma yget_repeat k j : yget (repeat winit k) j = winit.
Proof. unfold yget. revert j. induction k as [|k IH]; intros j; cbn; [destruct j; reflexivity|]. destruct j; [reflexivity|apply IH]. Qed.

Lemma winit_ok : wstate_ok winit.
Proof. split; (split; [constructor|intros h t E; discriminate]). Qed.

Lemma Own_init k : Own k (wsys_init k).
Proof.
  unfold Own, wsys_init. cbn [y_workers y_conns]. split; [apply repeat_length|]. split; [|split].
  - intros j _. rewrite yget_repeat. exact winit_ok.
  - intros key c H. discriminate.
  - intros j f h t pid p _ H. rewrite yget_repeat in H. destruct f; discriminate.
Qed.

(* closing (or refusing) connection [who]: its recorded entries go, nothing else changes owner *)
Lemma Own_close k y who c ws' : (0 < k)%nat ->
  Own k y -> find_conn who (y_conns y) = Some c ->
  close_all k (y_workers y) (sc_v6 c) (sc_announced c) = Ok ws' ->
  Own k (mkWsys ws' (drop_conn who (y_conns y)))
  /\ forall j f h t pid p, (j < k)%nat -> aget N.eqb h (wfam (yget ws' j) f) = Some t -> aget N.eqb pid (wt_peers t) = Some p -> owner p <> who.
Proof.
  intros Hk (Hlen & Hok & Hnd & Hown) Hc Hcl.
  pose proof (find_conn_key _ _ _ Hc) as Hkey.
  destruct (close_all_clears k (sc_v6 c) Hk (sc_announced c) (y_workers y) ws' Hlen Hok (Hnd _ _ Hc) Hcl)
    as (Hl' & Hok' & Hclr & _ & _).
  assert (Hrest : forall j f h t pid p, (j < k)%nat -> aget N.eqb h (wfam (yget ws' j) f) = Some t -> aget N.eqb pid (wt_peers t) = Some p ->
            exists c0, find_conn (owner p) (y_conns y) = Some c0 /\ sc_v6 c0 = f /\ aget N.eqb h (sc_announced c0) = Some pid
                       /\ wroute k h = j /\ owner p <> who).
  { intros j f h t pid p Hj H1 H2.
    destruct (close_all_subset k (sc_v6 c) _ _ _ Hok Hcl j f h t pid p Hj H1 H2) as (t0 & E1 & E2).
    destruct (Hown j f h t0 pid p Hj E1 E2) as (c0 & Hf & Hv & Ha & Hr).
    exists c0. repeat split; auto. intros Eo. rewrite Eo, Hc in Hf. injection Hf as <-.
    (* then the entry is recorded by [who] and was cleared *)
    assert (Hin : In (h, pid) (sc_announced c)) by (apply aget_some_in, Ha).
    subst j f. rewrite (Hclr h pid t Hin H1) in H2. discriminate. }
  split.
  - split; [exact Hl'|]. split; [exact Hok'|]. cbn [y_workers y_conns]. split.
    + intros key c0 H. destruct (pair_eqb key who) eqn:E.
      * apply pair_eqb_true in E. subst key. rewrite find_drop_same in H. discriminate.
      * rewrite find_drop_other in H; [eapply Hnd; exact H|]. intros ->. rewrite (proj2 (pair_eqb_true who who) eq_refl) in E. discriminate.
    + intros j f h t pid p Hj H1 H2. destruct (Hrest j f h t pid p Hj H1 H2) as (c0 & Hf & Hv & Ha & Hr & Hne).
      exists c0. rewrite find_drop_other by exact Hne. auto.
  - intros j f h t pid p Hj H1 H2. destruct (Hrest j f h t pid p Hj H1 H2) as (c0 & _ & _ & _ & _ & Hne). exact Hne.
Qed.

Theorem Own_step cfg cut ae k y who a y' msgs : (0 < k)%nat ->
  Own k y -> action_wf y who a -> wsys_step cfg cut ae k y who a = Ok (y', msgs) -> Own k y'.
Proof.
  intros Hk HO Hwf H. pose proof HO as (Hlen & Hok & Hnd & Hown). unfold wsys_step in H.
  destruct a as [v6|rq|hs| |].
  - (* open *)
    injection H as <- _. cbn [action_wf] in Hwf. split; [exact Hlen|]. split; [exact Hok|]. cbn [y_workers y_conns]. split.
    + intros key c Hf. destruct (pair_eqb key who) eqn:E.
      * apply pair_eqb_true in E. subst key.
        change who with (sc_key (mkSconn who v6 [])) in Hf at 1. rewrite find_put_same in Hf. injection Hf as <-. constructor.
      * rewrite find_put_other in Hf; [eapply Hnd; exact Hf|]. cbn. intros ->.
        rewrite (proj2 (pair_eqb_true who who) eq_refl) in E. discriminate.
    + intros j f h t pid p Hj H1 H2. destruct (Hown j f h t pid p Hj H1 H2) as (c0 & Hf & Hrest).
      exists c0. split; [|exact Hrest]. rewrite find_put_other; [exact Hf|]. cbn. intros E. rewrite E, Hwf in Hf. discriminate.
  - (* announce *)
    destruct (find_conn who (y_conns y)) as [c|] eqn:Hc; [|injection H as <- _; exact HO].
    destruct Hwf as [Hid Hfam]. specialize (Hfam c Hc).
    pose proof (find_conn_key _ _ _ Hc) as Hkey.
    destruct (match aget N.eqb (q_hash rq) (sc_announced c) with Some pid' => negb (N.eqb pid' (q_pid rq)) | None => false end) eqn:E2.
    + destruct (close_all k (y_workers y) (sc_v6 c) (sc_announced c)) as [ws'|] eqn:Hcl; [|discriminate]. cbn [obind] in H.
      injection H as <- _. apply (Own_close k y who c ws' Hk HO Hc Hcl).
    + set (j := wroute k (q_hash rq)) in *.
      assert (Hj : (j < k)%nat) by (apply wroute_lt, Hk).
      destruct (ws_announce cfg (yget (y_workers y) j) rq 0 0 0) as [[s' outs]|] eqn:Ha; [|discriminate]. cbn [obind] in H.
      injection H as <- _.
      destruct (ws_announce_ok false cfg (yget (y_workers y) j) rq 0 0 0 (Hok j Hj)) as (s2 & o2 & Ha2 & Hok2).
      unfold ws_announce in Ha. rewrite Ha in Ha2. injection Ha2 as <- <-.
      destruct (announce_owners cfg _ rq 0 0 0 s' outs (Hok j Hj) Ha) as [Hao Hstop].
      set (ann1 := aput N.eqb (q_hash rq) (q_pid rq) (sc_announced c)).
      set (ann2 := if q_stopped rq then snd (aswap_remove N.eqb (q_hash rq) ann1) else ann1).
      set (c' := mkSconn who (sc_v6 c) ann2).
      assert (Hnd1 : NoDup (map fst ann1)) by (apply aput_nodup, (Hnd _ _ Hc)).
      assert (Hnd2 : NoDup (map fst ann2)) by (unfold ann2; destruct (q_stopped rq); [apply swap_remove_nodup, Hnd1|exact Hnd1]).
      (* the recorded peer id for the announced hash is the announced one *)
      assert (Hrec : forall pid, aget N.eqb (q_hash rq) (sc_announced c) = Some pid -> pid = q_pid rq).
      { intros pid E. rewrite E in E2. destruct (N.eqb_spec pid (q_pid rq)); [assumption|discriminate]. }
      (* the record after the announce, away from the announced hash *)
      assert (Hann_other : forall h, h <> q_hash rq -> aget N.eqb h ann2 = aget N.eqb h (sc_announced c)).
      { intros h Hne. unfold ann2. destruct (q_stopped rq).
        - rewrite aget_swap_remove_other by assumption. unfold ann1. apply aget_aput_other, Hne.
        - unfold ann1. apply aget_aput_other, Hne. }
      split; [cbn [y_workers]; rewrite yset_length; exact Hlen|]. split; [|split]; cbn [y_workers y_conns].
      * intros i Hi. destruct (Nat.eq_dec i j) as [->|Hne]; [rewrite yget_yset_same by lia; exact Hok2|].
        rewrite yget_yset_other by exact Hne. apply Hok, Hi.
      * intros key c0 Hf. destruct (pair_eqb key who) eqn:E.
        -- apply pair_eqb_true in E. subst key. change who with (sc_key c') in Hf at 1. rewrite find_put_same in Hf.
           injection Hf as <-. exact Hnd2.
        -- rewrite find_put_other in Hf; [eapply Hnd; exact Hf|]. cbn. intros ->.
           rewrite (proj2 (pair_eqb_true who who) eq_refl) in E. discriminate.
      * (* an entry owned by some connection before: its owner and record afterwards *)
        assert (Hkeep : forall f h pid p0 p, owner p0 = owner p ->
                  (exists c0, find_conn (owner p0) (y_conns y) = Some c0 /\ sc_v6 c0 = f /\ aget N.eqb h (sc_announced c0) = Some pid /\ wroute k h = wroute k h) ->
                  (h = q_hash rq -> owner p0 = who -> q_stopped rq = true -> False) ->
                  exists c0, find_conn (owner p) (put_conn c' (y_conns y)) = Some c0 /\ sc_v6 c0 = f /\ aget N.eqb h (sc_announced c0) = Some pid).
        { intros f h pid p0 p Eo (c0 & Hf & Hv & Hrd & _) Hns. rewrite <- Eo.
          destruct (pair_eqb (owner p0) who) eqn:E.
          - apply pair_eqb_true in E. rewrite E in *. rewrite Hc in Hf. injection Hf as <-.
            exists c'. split; [change who with (sc_key c') at 1; apply find_put_same|]. split; [exact Hv|]. cbn [sc_announced c'].
            destruct (N.eq_dec h (q_hash rq)) as [->|Hne]; [|rewrite Hann_other by exact Hne; exact Hrd].
            rewrite (Hrec _ Hrd). unfold ann2. destruct (q_stopped rq) eqn:Es; [exfalso; apply Hns; reflexivity|].
            unfold ann1. apply aget_aput_same.
          - exists c0. split; [|split; assumption]. rewrite find_put_other; [exact Hf|]. cbn. intros E'.
            rewrite E' in E. rewrite (proj2 (pair_eqb_true who who) eq_refl) in E. discriminate. }
        intros i f h t pid p Hi H1 H2.
        destruct (Nat.eq_dec i j) as [->|Hne].
        -- rewrite yget_yset_same in H1 by lia.
           destruct (Hao f h t pid p H1 H2) as [(t0 & p0 & E1 & E2' & Eo)|(-> & -> & -> & Eo & Hns)].
           ++ destruct (Hown j f h t0 pid p0 Hj E1 E2') as (c0 & Hf & Hv & Hrd & Hr).
              destruct (Hkeep f h pid p0 p Eo (ex_intro _ c0 (conj Hf (conj Hv (conj Hrd eq_refl))))) as (c1 & G1 & G2 & G3).
              { intros -> Eow Es.
                (* a stopped announce of its own entry removed it *)
                rewrite Eow, Hc in Hf. injection Hf as <-. rewrite <- Hfam in Hv. subst f.
                pose proof (Hrec _ Hrd) as ->. apply (Hstop Es t p H1 H2).
                assert (Ec : w_conn p = snd (owner p)) by reflexivity. rewrite Ec, <- Eo, Eow, <- Hid. reflexivity. }
              exists c1. auto.
           ++ exists c'. split; [rewrite Eo, Hid; change who with (sc_key c') at 1; apply find_put_same|].
              split; [cbn; symmetry; exact Hfam|]. split; [|reflexivity].
              cbn [sc_announced c']. unfold ann2. rewrite Hns. unfold ann1. apply aget_aput_same.
        -- rewrite yget_yset_other in H1 by exact Hne.
           destruct (Hown i f h t pid p Hi H1 H2) as (c0 & Hf & Hv & Hrd & Hr).
           destruct (Hkeep f h pid p p eq_refl (ex_intro _ c0 (conj Hf (conj Hv (conj Hrd eq_refl))))) as (c1 & G1 & G2 & G3).
           { intros -> _ _. apply Hne. symmetry. exact Hr. }
           exists c1. auto.
  - (* scrape *)
    destruct (find_conn who (y_conns y)) as [c|]; [|injection H as <- _; exact HO].
    destruct hs as [hs|]; [|injection H as <- _; exact HO].
    destruct (if cut then firstn (wc_max_scrape cfg) hs else hs); [injection H as <- _; exact HO|].
    destruct (scrape_collect _ _ _ _ _ _ _); [|discriminate]. cbn [obind] in H. injection H as <- _. exact HO.
  - destruct (find_conn who (y_conns y)); injection H as <- _; exact HO.
  - (* close *)
    destruct (find_conn who (y_conns y)) as [c|] eqn:Hc; [|injection H as <- _; exact HO].
    destruct (close_all k (y_workers y) (sc_v6 c) (sc_announced c)) as [ws'|] eqn:Hcl; [|discriminate]. cbn [obind] in H.
    injection H as <- _. apply (Own_close k y who c ws' Hk HO Hc Hcl).
Qed.

(* ---------- histories ---------- *)
Fixpoint wsys_run (cfg : wcfg) (cut ae : bool) (k : nat) (y : wsys) (acts : list ((N * N) * caction))
  : outcome (wsys * list (list dmsg)) :=
  match acts with
  | [] => Ok (y, [])
  | (who, a) :: t =>
      let! (y1, m) := wsys_step cfg cut ae k y who a in
      let! (y2, ms) := wsys_run cfg cut ae k y1 t in
      Ok (y2, m :: ms)
  end.

(* every action is well-formed in the state it meets *)
Fixpoint run_wf (cfg : wcfg) (cut ae : bool) (k : nat) (y : wsys) (acts : list ((N * N) * caction)) : Prop :=
  match acts with
  | [] => True
  | (who, a) :: t =>
      action_wf y who a /\ match wsys_step cfg cut ae k y who a with
                           | Ok (y1, _) => run_wf cfg cut ae k y1 t
                           | Panic => True
                           end
  end.

Theorem Own_run cfg cut ae k : (0 < k)%nat -> forall acts y y' ms,
  Own k y -> run_wf cfg cut ae k y acts -> wsys_run cfg cut ae k y acts = Ok (y', ms) -> Own k y'.
Proof.
  intros Hk. induction acts as [|[who a] t IH]; intros y y' ms HO Hwf H; cbn [wsys_run] in H.
  - injection H as <- _. exact HO.
  - cbn [run_wf] in Hwf. destruct Hwf as [Hw Hrest].
    destruct (wsys_step cfg cut ae k y who a) as [[y1 m]|] eqn:Es; [|discriminate]. cbn [obind] in H.
    destruct (wsys_run cfg cut ae k y1 t) as [[y2 ms2]|] eqn:Er; [|discriminate]. cbn [obind] in H. injection H as <- _.
    eapply IH; [eapply Own_step; eassumption|exact Hrest|exact Er].
Qed.

(* the swarm workers never fail either *)
Lemma scrape_collect_ok cfg k ws who v6 asked : all_ok k ws -> forall js, (forall j, In j js -> (j < k)%nat) ->
  exists files, scrape_collect cfg k ws who v6 asked js = Ok files.
Proof.
  intros Hok. induction js as [|j t IH]; intros Hjs; cbn [scrape_collect]; [eauto|].
  destruct (IH (fun i Hi => Hjs i (or_intror Hi))) as (rest & Er).
  destruct (wpart k j asked) as [|h0 p0] eqn:Ep; [eauto|].
  unfold ws_scrape.
  destruct (ws_scrape_loop_ok (wfam (yget ws j) v6) (firstn (Nat.min (length (h0 :: p0)) (wc_max_scrape cfg)) (h0 :: p0)) []
              (wfam_ok _ v6 (Hok j (Hjs j (or_introl eq_refl))))) as (files & Ef).
  rewrite Ef. cbn [obind]. rewrite Er. cbn [obind]. eauto.
Qed.

Lemma close_all_ok k v6 : (0 < k)%nat -> forall ann ws, all_ok k ws -> exists ws', close_all k ws v6 ann = Ok ws'.
Proof.
  intros Hk. induction ann as [|[h pid] ann IH]; intros ws Hok; cbn [close_all]; [eauto|].
  assert (Hj : (wroute k h < k)%nat) by apply wroute_lt, Hk.
  destruct (ws_closed_ok (yget ws (wroute k h)) v6 h pid (Hok _ Hj)) as (s1 & Ec & Hok1). rewrite Ec. cbn [obind].
  apply IH. intros i Hi. destruct (Nat.eq_dec i (wroute k h)) as [->|Hne].
  - destruct (Nat.lt_ge_cases (wroute k h) (length ws)) as [Hl|Hl]; [rewrite yget_yset_same by exact Hl; exact Hok1|].
    rewrite yset_beyond by exact Hl. apply Hok, Hi.
  - rewrite yget_yset_other by exact Hne. apply Hok, Hi.
Qed.

Theorem wsys_step_total cfg cut ae k y who a : (0 < k)%nat -> Own k y -> exists y' msgs, wsys_step cfg cut ae k y who a = Ok (y', msgs).
Proof.
  intros Hk (Hlen & Hok & _ & _). unfold wsys_step.
  destruct a as [v6|rq|hs| |]; [eauto| | | |].
  - destruct (find_conn who (y_conns y)) as [c|]; [|eauto].
    destruct (match aget N.eqb (q_hash rq) (sc_announced c) with Some pid' => negb (N.eqb pid' (q_pid rq)) | None => false end).
    + destruct (close_all_ok k (sc_v6 c) Hk (sc_announced c) _ Hok) as (ws' & ->). cbn [obind]. eauto.
    + destruct (ws_announce_ok false cfg (yget (y_workers y) (wroute k (q_hash rq))) rq 0 0 0 (Hok _ (wroute_lt k _ Hk))) as (s' & outs & Ha & _).
      unfold ws_announce. rewrite Ha. cbn [obind]. eauto.
  - destruct (find_conn who (y_conns y)) as [c|]; [|eauto]. destruct hs as [hs|]; [|eauto].
    destruct (if cut then firstn (wc_max_scrape cfg) hs else hs) as [|h0 t]; [eauto|].
    destruct (scrape_collect_ok cfg k (y_workers y) who (sc_v6 c) (h0 :: t) Hok (seq 0 k)
                ltac:(intros j Hj; apply in_seq in Hj; lia)) as (files & ->). cbn [obind]. eauto.
  - destruct (find_conn who (y_conns y)); eauto.
  - destruct (find_conn who (y_conns y)) as [c|]; [|eauto].
    destruct (close_all_ok k (sc_v6 c) Hk (sc_announced c) _ Hok) as (ws' & ->). cbn [obind]. eauto.
Qed.

(* ---------- closed ones leave no peers ---------- *)
Theorem closed_leaves_no_peers cfg cut ae k y who y' msgs : (0 < k)%nat ->
  Own k y -> wsys_step cfg cut ae k y who CClose = Ok (y', msgs) ->
  forall j f h t pid p, (j < k)%nat ->
    aget N.eqb h (wfam (yget (y_workers y') j) f) = Some t -> aget N.eqb pid (wt_peers t) = Some p -> owner p <> who.
Proof.
  intros Hk HO H. unfold wsys_step in H.
  destruct (find_conn who (y_conns y)) as [c|] eqn:Hc.
  - destruct (close_all k (y_workers y) (sc_v6 c) (sc_announced c)) as [ws'|] eqn:Hcl; [|discriminate]. cbn [obind] in H.
    injection H as <- _. cbn [y_workers]. apply (Own_close k y who c ws' Hk HO Hc Hcl).
  - injection H as <- _. destruct HO as (_ & _ & _ & Hown). intros j f h t pid p Hj H1 H2 E.
    destruct (Hown j f h t pid p Hj H1 H2) as (c0 & Hf & _). rewrite E, Hc in Hf. discriminate.
Qed.

Theorem refused_leaves_no_peers cfg cut ae k y who c rq pid' y' msgs : (0 < k)%nat ->
  Own k y -> find_conn who (y_conns y) = Some c ->
  aget N.eqb (q_hash rq) (sc_announced c) = Some pid' -> pid' <> q_pid rq ->
  wsys_step cfg cut ae k y who (CAnnounce rq) = Ok (y', msgs) ->
  forall j f h t pid p, (j < k)%nat ->
    aget N.eqb h (wfam (yget (y_workers y') j) f) = Some t -> aget N.eqb pid (wt_peers t) = Some p -> owner p <> who.
Proof.
  intros Hk HO Hc Ha Hne H. unfold wsys_step in H. rewrite Hc, Ha in H.
  destruct (N.eqb_spec pid' (q_pid rq)); [contradiction|]. cbn [negb] in H.
  destruct (close_all k (y_workers y) (sc_v6 c) (sc_announced c)) as [ws'|] eqn:Hcl; [|discriminate]. cbn [obind] in H.
  injection H as <- _. cbn [y_workers]. apply (Own_close k y who c ws' Hk HO Hc Hcl).
Qed.
