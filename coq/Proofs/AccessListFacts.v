(* C11: access-list semantics, file parsing, reloads. *)
From Aquatic Require Import AccessListFile.
Local Open Scope N_scope.

Lemma mem_in h l : mem h l = true <-> In h l.
Proof.
  unfold mem. rewrite existsb_exists. split.
  - intros [x [Hin Heq]]. apply N.eqb_eq in Heq. subst. exact Hin.
  - intros Hin. exists h. split; [exact Hin|apply N.eqb_refl].
Qed.

Lemma mode_semantics l h :
  (allows AclAllow l h = true <-> In h l)
  /\ (allows AclDeny l h = true <-> ~ In h l)
  /\ allows AclOff l h = true.
Proof.
  cbn. split; [apply mem_in|]. split; [|reflexivity].
  rewrite negb_true_iff. rewrite <- mem_in. destruct (mem h l); split; intros H; try congruence; try reflexivity;
    try (exfalso; apply H; reflexivity).
Qed.

(* ---- reloads ---- *)
Lemma reload_unreadable mode cur : mode <> AclOff -> reload mode cur None = (cur, false).
Proof. destruct mode; cbn; intros H; try reflexivity. congruence. Qed.

Lemma reload_malformed mode cur bytes :
  mode <> AclOff -> parse_file bytes = None -> reload mode cur (Some bytes) = (cur, false).
Proof. destruct mode; cbn; intros H E; try congruence; rewrite E; reflexivity. Qed.

Lemma reload_good mode cur bytes hs :
  mode <> AclOff -> parse_file bytes = Some hs -> reload mode cur (Some bytes) = (map le_num hs, true).
Proof. destruct mode; cbn; intros H E; try congruence; rewrite E; reflexivity. Qed.

(* every outcome: either the old list stays, or the whole new file is in force - never a mixture *)
Lemma reload_all_or_nothing mode cur io :
  fst (reload mode cur io) = cur
  \/ exists bytes hs, io = Some bytes /\ parse_file bytes = Some hs /\ fst (reload mode cur io) = map le_num hs.
Proof.
  destruct mode; cbn; try (left; reflexivity);
    (destruct io as [bytes|]; [|left; reflexivity]);
    (destruct (parse_file bytes) as [hs|] eqn:E; [right; exists bytes, hs; auto|left; reflexivity]).
Qed.

(* ---- parsing ---- *)
Lemma parse_lines_bad_anywhere pre bad post :
  bad <> [] -> parse_line bad = None -> parse_lines (pre ++ bad :: post) = None.
Proof.
  intros Hne Hbad. induction pre as [|l t IH]; cbn [app parse_lines].
  - destruct bad; [congruence|]. rewrite Hbad. reflexivity.
  - destruct l; [exact IH|]. rewrite IH. destruct (parse_line (n :: l)); reflexivity.
Qed.

Lemma parse_lines_blank_skipped pre post :
  parse_lines (pre ++ [] :: post) = parse_lines (pre ++ post).
Proof.
  induction pre as [|l t IH]; cbn [app parse_lines]; [reflexivity|].
  destruct l; [exact IH|]. rewrite IH. reflexivity.
Qed.

Lemma parse_lines_good ls hs :
  Forall2 (fun l h => l <> [] /\ parse_line l = Some h) ls hs -> parse_lines ls = Some hs.
Proof.
  induction 1 as [|l h ls hs [Hne Hp] _ IH]; cbn [parse_lines]; [reflexivity|].
  destruct l; [congruence|]. rewrite Hp, IH. reflexivity.
Qed.

Lemma parse_lines_some_inv ls hs :
  parse_lines ls = Some hs ->
  Forall2 (fun l h => parse_line l = Some h) (filter (fun l => match l with [] => false | _ => true end) ls) hs.
Proof.
  revert hs. induction ls as [|l t IH]; cbn [parse_lines filter]; intros hs H.
  - inversion H. constructor.
  - destruct l as [|b l']; [apply IH, H|].
    destruct (parse_line (b :: l')) as [h|] eqn:E; [|discriminate].
    destruct (parse_lines t) as [r|]; [|discriminate]. inversion H; subst.
    constructor; [exact E|apply IH; reflexivity].
Qed.

(* hex encoding of a byte, lower or upper case *)
Definition hex_digit (upper : bool) (v : N) : N :=
  if v <? 10 then 48 + v else (if upper then 55 else 87) + v.

Fixpoint encode_hex (case : nat -> bool) (i : nat) (bs : list N) : list N :=
  match bs with
  | [] => []
  | b :: t => hex_digit (case i) (b / 16) :: hex_digit (case (S i)) (b mod 16) :: encode_hex case (S (S i)) t
  end.

Lemma hex_val_digit upper v : v < 16 -> hex_val (hex_digit upper v) = Some v.
Proof.
  intros H. unfold hex_digit, hex_val.
  destruct (N.ltb_spec v 10).
  - replace (48 <=? 48 + v) with true by (symmetry; apply N.leb_le; lia).
    replace (48 + v <=? 57) with true by (symmetry; apply N.leb_le; lia).
    cbn [andb]. f_equal. lia.
  - destruct upper.
    + replace (48 <=? 55 + v) with true by (symmetry; apply N.leb_le; lia).
      replace (55 + v <=? 57) with false by (symmetry; apply N.leb_gt; lia). cbn [andb].
      replace (97 <=? 55 + v) with false by (symmetry; apply N.leb_gt; lia). cbn [andb].
      replace (65 <=? 55 + v) with true by (symmetry; apply N.leb_le; lia).
      replace (55 + v <=? 70) with true by (symmetry; apply N.leb_le; lia). cbn [andb]. f_equal. lia.
    + replace (48 <=? 87 + v) with true by (symmetry; apply N.leb_le; lia).
      replace (87 + v <=? 57) with false by (symmetry; apply N.leb_gt; lia). cbn [andb].
      replace (97 <=? 87 + v) with true by (symmetry; apply N.leb_le; lia).
      replace (87 + v <=? 102) with true by (symmetry; apply N.leb_le; lia). cbn [andb]. f_equal. lia.
Qed.

(* every 20-byte hash written as 40 hex digits in ANY mixture of cases parses back exactly *)
Lemma decode_encode_hex case bs : forall i,
  Forall (fun b => b < 256) bs -> decode_hex (encode_hex case i bs) = Some bs.
Proof.
  induction bs as [|b t IH]; intros i H; cbn [encode_hex decode_hex]; [reflexivity|].
  inversion H as [|? ? Hb Ht]; subst.
  rewrite !hex_val_digit.
  - rewrite IH by exact Ht. f_equal. f_equal.
    pose proof (N.div_mod b 16 ltac:(lia)). lia.
  - apply N.mod_lt. lia.
  - apply N.div_lt_upper_bound; lia.
Qed.

Lemma parse_line_encode case bs :
  length bs = 20%nat -> Forall (fun b => b < 256) bs -> parse_line (encode_hex case 0 bs) = Some bs.
Proof.
  intros Hl Hb. unfold parse_line. rewrite decode_encode_hex by exact Hb. rewrite Hl. reflexivity.
Qed.

(* lines of the wrong length are rejected *)
Lemma decode_hex_length_aux n : forall l bs,
  (length l <= n)%nat -> decode_hex l = Some bs -> length l = (2 * length bs)%nat.
Proof.
  induction n as [|n IH]; intros l bs Hn H.
  - destruct l; [inversion H; reflexivity|cbn in Hn; lia].
  - destruct l as [|a [|b t]].
    + inversion H. reflexivity.
    + discriminate.
    + cbn [decode_hex] in H.
      destruct (hex_val a); [|discriminate]. destruct (hex_val b); [|discriminate].
      destruct (decode_hex t) as [r|] eqn:E; [|discriminate]. inversion H; subst.
      cbn [length] in *. rewrite (IH t r); [lia|lia|exact E].
Qed.

Lemma decode_hex_length l bs : decode_hex l = Some bs -> length l = (2 * length bs)%nat.
Proof. apply (decode_hex_length_aux (length l)). lia. Qed.

Lemma parse_line_wrong_length l : length l <> 40%nat -> parse_line l = None.
Proof.
  intros H. unfold parse_line. destruct (decode_hex l) as [bs|] eqn:E; [|reflexivity].
  apply decode_hex_length in E. destruct (Nat.eqb_spec (length bs) 20); [lia|reflexivity].
Qed.

(* surrounding white space is ignored *)
Lemma drop_ws_all l : forallb is_ws l = true -> forall r, drop_ws (l ++ r) = drop_ws r.
Proof.
  induction l as [|b t IH]; cbn; intros H r; [reflexivity|].
  apply andb_prop in H. destruct H as [Hb Ht]. rewrite Hb. apply IH, Ht.
Qed.

Lemma drop_ws_stop b t : is_ws b = false -> drop_ws (b :: t) = b :: t.
Proof. intros H. cbn. rewrite H. reflexivity. Qed.

Lemma trim_core pre core post first last mid :
  forallb is_ws pre = true -> forallb is_ws post = true ->
  core = first :: mid ++ [last] -> is_ws first = false -> is_ws last = false ->
  trim (pre ++ core ++ post) = core.
Proof.
  intros Hpre Hpost -> Hf Hl. unfold trim.
  rewrite drop_ws_all by exact Hpre. cbn [app]. rewrite drop_ws_stop by exact Hf.
  replace (rev (first :: (mid ++ [last]) ++ post)) with (rev post ++ last :: rev (first :: mid)).
  2:{ cbn [rev]. rewrite !rev_app_distr. cbn [rev app]. rewrite <- !app_assoc. reflexivity. }
  rewrite drop_ws_all by (rewrite forallb_forall in *; intros x Hx; apply Hpost, in_rev, Hx).
  rewrite drop_ws_stop by exact Hl.
  change (rev (last :: rev (first :: mid))) with (rev (rev (first :: mid)) ++ [last]).
  rewrite rev_involutive. reflexivity.
Qed.

Lemma trim_blank l : forallb is_ws l = true -> trim l = [].
Proof.
  intros H. unfold trim. rewrite <- (app_nil_r l) at 1. rewrite drop_ws_all by exact H. reflexivity.
Qed.
