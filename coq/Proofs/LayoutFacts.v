(* Generic struct codec: encode-then-decode is the identity for every layout. *)
From Coq Require Import Zify ZifyN ZifyBool.
From Aquatic Require Import Layout.
Local Open Scope N_scope.

Lemma pow256_2 : pow256 2 = 65536. Proof. reflexivity. Qed.
Lemma pow256_4 : pow256 4 = 4294967296. Proof. reflexivity. Qed.

Lemma enc_field_length ipw t v : wf_field ipw t v -> length (enc_field t v) = fwidth ipw t.
Proof.
  destruct t, v; cbn; intros H; try contradiction; try apply be_enc_length; tauto.
Qed.

Lemma dec_enc_field ipw t v : wf_field ipw t v -> dec_field ipw t (enc_field t v) = Some v.
Proof.
  destruct t, v; cbn [wf_field enc_field dec_field]; intros H; try contradiction.
  - destruct H as [H _]. rewrite be_dec_enc by apply to_unsigned_lt. rewrite signed_roundtrip by exact H. reflexivity.
  - rewrite be_dec_enc by apply to_unsigned_lt. rewrite signed_roundtrip by exact H. reflexivity.
  - rewrite be_dec_enc by (rewrite pow256_2; lia). f_equal. f_equal. lia.
  - rewrite be_dec_enc by (rewrite pow256_4; lia). f_equal. f_equal. lia.
  - reflexivity.
  - destruct H as [H E]. rewrite be_dec_enc by apply to_unsigned_lt. rewrite signed_roundtrip by exact H.
    rewrite E. reflexivity.
  - reflexivity.
Qed.

Lemma firstn_app_exact {A} (a b : list A) n : length a = n -> firstn n (a ++ b) = a.
Proof. intros <-. rewrite firstn_app, Nat.sub_diag, firstn_all. cbn. apply app_nil_r. Qed.

Lemma skipn_app_exact {A} (a b : list A) n : length a = n -> skipn n (a ++ b) = b.
Proof. intros <-. rewrite skipn_app, Nat.sub_diag, skipn_all. reflexivity. Qed.

Theorem dec_enc_struct ipw l : forall vs rest,
  wf_vals ipw l vs -> dec_prefix ipw l (enc_struct l vs ++ rest) = Some (vs, rest).
Proof.
  induction l as [|[name t] l IH]; intros vs rest H; destruct vs as [|v vs]; cbn in H; try contradiction.
  - reflexivity.
  - destruct H as [Hv Hvs]. cbn [dec_prefix enc_struct].
    pose proof (enc_field_length ipw t v Hv) as Hl.
    rewrite <- app_assoc.
    destruct (Nat.ltb_spec (length (enc_field t v ++ enc_struct l vs ++ rest)) (fwidth ipw t)) as [Hlt|_].
    + rewrite app_length in Hlt. lia.
    + rewrite (firstn_app_exact _ _ _ Hl), (skipn_app_exact _ _ _ Hl).
      rewrite (dec_enc_field ipw t v Hv), (IH vs rest Hvs). reflexivity.
Qed.

Lemma enc_struct_length ipw l : forall vs, wf_vals ipw l vs -> length (enc_struct l vs) = layout_size ipw l.
Proof.
  induction l as [|[name t] l IH]; intros vs H; destruct vs as [|v vs]; cbn in H; try contradiction; [reflexivity|].
  destruct H as [Hv Hvs]. cbn [enc_struct layout_size fold_right snd]. rewrite app_length.
  rewrite (enc_field_length ipw t v Hv). f_equal. apply IH, Hvs.
Qed.

Lemma dec_prefix_short ipw l bytes :
  (length bytes < layout_size ipw l)%nat -> dec_prefix ipw l bytes = None.
Proof.
  revert bytes. induction l as [|[name t] l IH]; intros bytes H; cbn in H; [lia|].
  cbn [dec_prefix]. destruct (Nat.ltb_spec (length bytes) (fwidth ipw t)) as [|Hge]; [reflexivity|].
  rewrite IH; [destruct (dec_field ipw t _); reflexivity|].
  rewrite skipn_length. fold (layout_size ipw l) in H. cbn [snd] in H. lia.
Qed.
