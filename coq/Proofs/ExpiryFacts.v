(* C10: entries expire exactly at their deadline. *)
From Aquatic Require Import RefSwarm HttpSwarm Expiry PeerMapFacts Selection PeerMapRefine SwarmCommon
     UdpSwarmRefine HttpSwarmRefine.

Lemma vu_valid_iff until now : vu_valid until now = true <-> (now < until)%N.
Proof. unfold vu_valid. apply N.ltb_lt. Qed.

Lemma deadline_exact sample age :
  (sample + age <= u32_max)%N -> valid_until_new sample age = (sample + age)%N.
Proof. intros H. unfold valid_until_new. apply N.min_l, H. Qed.

Lemma deadline_saturates sample age now :
  (u32_max < sample + age)%N ->
  valid_until_new sample age = u32_max
  /\ ((now < u32_max)%N -> vu_valid (valid_until_new sample age) now = true).
Proof.
  intros H. unfold valid_until_new. rewrite N.min_r by lia. split; [reflexivity|].
  intros Hn. apply N.ltb_lt, Hn.
Qed.

(* never earlier than the true deadline, for every clock value the u32 clock can show *)
Lemma never_early sample age now :
  (now <= u32_max)%N -> (now < sample + age)%N -> (now < u32_max)%N \/ (sample + age <= u32_max)%N ->
  vu_valid (valid_until_new sample age) now = true.
Proof.
  intros Hn Hlt Hor. apply N.ltb_lt. unfold valid_until_new. destruct Hor; lia.
Qed.

Lemma never_late sample age now :
  (sample + age <= now)%N -> vu_valid (valid_until_new sample age) now = false.
Proof. intros H. apply N.ltb_ge. unfold valid_until_new. lia. Qed.

(* one peer map, any representation / capacity / shrink policy *)
Lemma pm_clean_exact cap shrink pc pm now pm' cnt msgs :
  pmap_inv cap shrink pm ->
  pm_clean cap shrink pc pm now = Ok (pm', cnt, msgs) ->
  forall k p, In (k, p) (pm_entries pm') <-> In (k, p) (pm_entries pm) /\ (now < p_until p)%N.
Proof.
  intros Hinv Hc k p. destruct (pm_clean_ok cap shrink pc pm now Hinv) as (Hc' & _ & Hent).
  rewrite Hc in Hc'. inversion Hc'; subst. rewrite Hent, filter_In. unfold peer_valid. cbn [snd].
  rewrite N.ltb_lt. tauto.
Qed.

Lemma perm_in_iff {A} (l l' : list A) x : Permutation l l' -> (In x l <-> In x l').
Proof. intros H; split; apply Permutation_in; [exact H|apply Permutation_sym, H]. Qed.

(* whole udp state *)
Lemma udp_clean_exact cfg s r now mode acl :
  R cfg s r ->
  exists s' out, u_step cfg s (UClean now mode acl) = Ok (s', out)
    /\ forall v6 h k p,
         In (k, p) (pm_entries (tm_get h (ufam s' v6)))
         <-> allows mode acl h = true /\ In (k, p) (pm_entries (tm_get h (ufam s v6))) /\ (now < p_until p)%N.
Proof.
  intros HR. destruct (step_refines cfg s r (UClean now mode acl) HR) as (s' & out & Hs & HR' & _).
  exists s', out. split; [exact Hs|]. intros v6 h k p.
  destruct (HR v6) as [_ Hrel]. destruct (Hrel h) as [_ Hp].
  destruct (HR' v6) as [_ Hrel']. destruct (Hrel' h) as [_ Hp']. cbn [r_step fst] in Hp'.
  unfold pm_refines in *. rewrite (perm_in_iff _ _ (k, p) Hp').
  destruct (allows mode acl h).
  - unfold ref_clean. rewrite filter_In. rewrite <- (perm_in_iff _ _ (k, p) Hp).
    unfold peer_valid. cbn [snd]. rewrite N.ltb_lt. tauto.
  - cbn. split; [tauto|intros [H _]; discriminate].
Qed.

Lemma http_clean_exact cfg s r now mode acl :
  HR cfg s r ->
  exists s' out, h_step cfg s (HClean now mode acl) = Ok (s', out)
    /\ forall v6 h k p,
         In (k, p) (pm_entries (tm_get h (hfam s' v6)))
         <-> allows mode acl h = true /\ In (k, p) (pm_entries (tm_get h (hfam s v6))) /\ (now < p_until p)%N.
Proof.
  intros H. destruct (hstep_refines cfg s r (HClean now mode acl) H) as (s' & out & Hs & H' & _).
  exists s', out. split; [exact Hs|]. intros v6 h k p.
  destruct (H v6) as [_ Hrel]. destruct (Hrel h) as [_ Hp].
  destruct (H' v6) as [_ Hrel']. destruct (Hrel' h) as [_ Hp']. cbn [hr_step fst] in Hp'.
  unfold pm_refines in *. rewrite (perm_in_iff _ _ (k, p) Hp').
  destruct (allows mode acl h).
  - unfold ref_clean. rewrite filter_In. rewrite <- (perm_in_iff _ _ (k, p) Hp).
    unfold peer_valid. cbn [snd]. rewrite N.ltb_lt. tauto.
  - cbn. split; [tauto|intros [Hf _]; discriminate].
Qed.

(* every non-stopped announce installs a fresh deadline, whatever was stored before *)
Lemma announce_sets_deadline cap shrink pm key st pid until take o1 o2 pm' rep removed :
  pmap_inv cap shrink pm -> st <> Stopped ->
  pm_announce cap pm key st pid until take o1 o2 = Ok (pm', rep, removed) ->
  find_key key (pm_entries pm') = Some (mkPeer pid (is_seeding st) until)
  /\ forall k p, k <> key -> (In (k, p) (pm_entries pm') <-> In (k, p) (pm_entries pm)).
Proof.
  intros Hinv Hst Ha.
  destruct (pm_announce_refines cap shrink pm (pm_entries pm) key st pid until take o1 o2 Hinv (Permutation_refl _))
    as (pm2 & rep2 & rem2 & Ha2 & Hinv2 & Href & _).
  rewrite Ha in Ha2. inversion Ha2; subst pm2 rep2 rem2. clear Ha2.
  unfold pm_refines in Href. cbn [ref_announce fst] in Href.
  assert (Hs : is_stopped st = false) by (destruct st; [reflexivity|reflexivity|congruence]).
  rewrite Hs in Href. destruct Hinv2 as [Hnd2 _]. split.
  - apply in_find_key; [exact Hnd2|]. eapply Permutation_in; [apply Permutation_sym, Href|].
    apply in_or_app. right. left. reflexivity.
  - intros k p Hne. rewrite (perm_in_iff _ _ (k, p) Href), in_app_iff. cbn.
    unfold ref_remove. rewrite filter_In. cbn [fst]. split.
    + intros [[Hin _]|[Heq|[]]]; [exact Hin|]. inversion Heq; congruence.
    + intros Hin. left. split; [exact Hin|]. destruct (N.eqb_spec k key); [congruence|reflexivity].
Qed.
