(* The concrete peer map refines the reference collection: one-step lemmas for announce,
   scrape counts and clean.  Parametric in the inline capacity [cap] and in [shrink]. *)
From Aquatic Require Import RefTracker PeerMapFacts Selection.

Lemma find_key_some_in k l p : find_key k l = Some p -> In (k, p) l.
Proof.
  unfold find_key; induction l as [|[k' p'] t IH]; simpl; [discriminate|].
  destruct (N.eqb_spec k' k) as [->|Hne]; simpl.
  - intros H; inversion H; subst; left; reflexivity.
  - intros H; right; apply IH, H.
Qed.

Lemma in_find_key k l p : NoDup (keys l) -> In (k, p) l -> find_key k l = Some p.
Proof.
  unfold find_key; induction l as [|[k' p'] t IH]; simpl; intros Hnd Hin; [contradiction|].
  inversion Hnd as [|? ? Hx Ht]; subst.
  destruct Hin as [Heq|Hin].
  - inversion Heq; subst. rewrite N.eqb_refl. reflexivity.
  - destruct (N.eqb_spec k' k) as [->|Hne]; simpl.
    + exfalso; apply Hx. unfold keys; apply in_map_iff; exists (k, p); split; [reflexivity|exact Hin].
    + apply IH; assumption.
Qed.

Lemma find_key_none_iff k l : find_key k l = None <-> ~ In k (keys l).
Proof.
  split; [|apply find_key_notin].
  unfold find_key; induction l as [|[k' p'] t IH]; simpl; intros H; [tauto|].
  destruct (N.eqb_spec k' k) as [->|Hne]; simpl in *; [discriminate|].
  intros [Heq|Hin]; [congruence|]. apply IH; assumption.
Qed.

Lemma find_key_perm k l l' : NoDup (keys l) -> Permutation l l' -> find_key k l = find_key k l'.
Proof.
  intros Hnd Hp.
  assert (Hnd' : NoDup (keys l')) by (eapply Permutation_NoDup; [apply keys_perm, Hp|exact Hnd]).
  destruct (find_key k l) as [p|] eqn:E.
  - symmetry; apply in_find_key; [exact Hnd'|]. eapply Permutation_in; [exact Hp|]. apply find_key_some_in, E.
  - symmetry; apply find_key_none_iff. apply find_key_none_iff in E.
    intros Hin; apply E. eapply Permutation_in; [apply Permutation_sym, keys_perm, Hp|exact Hin].
Qed.

Lemma ref_counts_perm l l' : Permutation l l' -> ref_counts l = ref_counts l'.
Proof.
  intros H; unfold ref_counts. rewrite (count_seeders_perm _ _ H), (Permutation_length H). reflexivity.
Qed.

Section Refine.
  Variable cap : nat.
  Variable shrink : bool.

  (* what C02 demands of a reply's peer list, relative to the other members [others] *)
  Definition selection_ok (key : N) (others : entries) (take : nat) (peers : list N) : Prop :=
    NoDup peers /\ incl peers (keys others) /\ ~ In key peers /\ length peers <= take
    /\ (length others <= take -> Permutation peers (keys others))
    /\ (take < length others -> take - 1 <= length peers).

  Ltac split_ands := unfold selection_ok; repeat match goal with |- _ /\ _ => split end.

  Lemma selection_ok_perm key o o' take peers :
    Permutation o o' -> selection_ok key o take peers -> selection_ok key o' take peers.
  Proof.
    intros Hp (H1 & H2 & H3 & H4 & H5 & H6).
    pose proof (keys_perm _ _ Hp) as Hk. pose proof (Permutation_length Hp) as Hl.
    split_ands; try assumption.
    - intros x Hx. eapply Permutation_in; [exact Hk|]. apply H2, Hx.
    - intros Hle. eapply Permutation_trans; [apply H5; lia|exact Hk].
    - intros Hlt. apply H6. lia.
  Qed.

  Lemma inv_snoc_small l1 key p :
    NoDup (keys l1) -> ~ In key (keys l1) -> length l1 < cap ->
    pmap_inv cap shrink (Small (l1 ++ [(key, p)])).
  Proof.
    intros Hnd Hni Hlt. split; cbn [pm_entries].
    - rewrite keys_app. apply NoDup_app_snoc; assumption.
    - rewrite app_length; cbn; lia.
  Qed.

  Lemma inv_snoc_large l1 key p :
    NoDup (keys l1) -> ~ In key (keys l1) -> (shrink = true -> cap <= length l1) ->
    pmap_inv cap shrink (Large (l1 ++ [(key, p)]) (if p_seeder p then S (count_seeders l1) else count_seeders l1)).
  Proof.
    intros Hnd Hni Hlen. split; cbn [pm_entries]; [|split].
    - rewrite keys_app. apply NoDup_app_snoc; assumption.
    - rewrite count_seeders_app, count_seeders_cons. cbn [snd]. unfold count_seeders at 4; cbn [filter length]. destruct (p_seeder p); lia.
    - intros Hs. specialize (Hlen Hs). rewrite app_length; cbn; lia.
  Qed.

  Theorem pm_announce_refines pm r key st pid until take o1 o2 :
    pmap_inv cap shrink pm -> pm_refines pm r ->
    exists pm' rep removed,
      pm_announce cap pm key st pid until take o1 o2 = Ok (pm', rep, removed)
      /\ pmap_inv cap shrink pm'
      /\ pm_refines pm' (fst (ref_announce r key st pid until))
      /\ (r_seeders rep, r_leechers rep) = snd (ref_announce r key st pid until)
      /\ removed = find_key key r
      /\ selection_ok key (ref_remove key r) take (r_peers rep).
  Proof.
    intros [Hnd Hrep] Href. unfold pm_refines in Href.
    destruct pm as [l|l ns]; cbn [pm_entries] in *.
    - (* Small *)
      unfold pm_announce. rewrite (small_remove_spec key l Hnd).
      set (l1 := ref_remove key l).
      assert (Hp1 : Permutation l1 (ref_remove key r)) by (apply ref_remove_perm, Href).
      assert (Hnd1 : NoDup (keys l1)) by (apply ref_remove_nodup, Hnd).
      assert (Hnotin : ~ In key (keys l1)) by apply ref_remove_not_in.
      assert (Hlen1 : length l1 <= cap).
      { unfold l1, ref_remove. pose proof (filter_len_le (fun e => negb (N.eqb (fst e) key)) l). lia. }
      pose proof (count_seeders_le l1) as Hcs.
      rewrite (checked_sub_ok _ _ Hcs). cbn [obind].
      assert (Hsel : selection_ok key (ref_remove key r) take (extract_small take l1)).
      { apply (selection_ok_perm key l1); [exact Hp1|].
        destruct (extract_small_spec take l1 Hnd1) as (S1 & S2 & S3 & S4 & S5).
        split_ands; try assumption.
        - intros Hin; apply Hnotin, S2, Hin.
        - intros Hle; rewrite (S4 Hle); apply Permutation_refl.
        - intros Hlt; rewrite (S5 Hlt); lia. }
      assert (Hcnt : (count_seeders l1, length l1 - count_seeders l1) = ref_counts (ref_remove key r)).
      { rewrite <- (ref_counts_perm _ _ Hp1). reflexivity. }
      assert (Hfind : find_key key l = find_key key r) by (apply find_key_perm; assumption).
      assert (Hstop : is_stopped st = true \/ is_stopped st = false) by (destruct (is_stopped st); auto).
      destruct Hstop as [Hst|Hst].
      + (* stopped *)
        destruct st; try discriminate. cbn [is_stopped negb]. rewrite andb_false_r.
        do 3 eexists; split; [reflexivity|].
        cbn [fst snd ref_announce is_stopped r_seeders r_leechers r_peers].
        split; [split; [exact Hnd1|exact Hlen1]|].
        split; [exact Hp1|]. split; [exact Hcnt|]. split; [exact Hfind|exact Hsel].
      + assert (Hm : forall A (a b : A), match st with Stopped => a | _ => b end = b)
          by (intros; destruct st; try discriminate; reflexivity).
        unfold ref_announce. rewrite Hst. cbn [negb]. rewrite andb_true_r.
        destruct (Nat.eqb_spec (length l1) cap) as [Heq|Hne]; cbn [obind]; rewrite Hm.
        * rewrite (im_insert_absent _ _ _ Hnotin).
          do 3 eexists; split; [reflexivity|].
          cbn [fst snd r_seeders r_leechers r_peers].
          split.
          { pose proof (inv_snoc_large l1 key (mkPeer pid (is_seeding st) until) Hnd1 Hnotin) as Hi.
            cbn [p_seeder] in Hi. apply Hi. intros _; lia. }
          split; [unfold pm_refines; cbn [pm_entries]; apply Permutation_app_tail, Hp1|].
          split; [exact Hcnt|]. split; [exact Hfind|exact Hsel].
        * destruct (Nat.ltb_spec (length l1) cap) as [Hlt|Hge]; [|lia].
          do 3 eexists; split; [reflexivity|].
          cbn [fst snd r_seeders r_leechers r_peers].
          split; [apply inv_snoc_small; assumption|].
          split; [unfold pm_refines; cbn [pm_entries]; apply Permutation_app_tail, Hp1|].
          split; [exact Hcnt|]. split; [exact Hfind|exact Hsel].
    - (* Large *)
      destruct Hrep as [Hns Hshr].
      unfold pm_announce.
      destruct (swap_remove_spec key l Hnd) as [Hf Hp].
      destruct (im_swap_remove key l) as [removed l1] eqn:Esr. cbn [fst snd] in Hf, Hp.
      assert (Hp1 : Permutation l1 (ref_remove key r)).
      { eapply Permutation_trans; [exact Hp|]. apply ref_remove_perm, Href. }
      assert (Hnd1 : NoDup (keys l1)).
      { eapply Permutation_NoDup; [apply Permutation_sym, keys_perm, Hp|]. apply ref_remove_nodup, Hnd. }
      assert (Hnotin : ~ In key (keys l1)).
      { intros Hin. apply (ref_remove_not_in key l). eapply Permutation_in; [apply keys_perm, Hp|exact Hin]. }
      pose proof (count_seeders_remove key l Hnd) as Hcs.
      rewrite <- (count_seeders_perm _ _ Hp) in Hcs. rewrite <- Hf in Hcs. rewrite <- Hns in Hcs.
      assert (Hns1 : (match removed with
                      | Some p => if p_seeder p then checked_pred ns else Ok ns
                      | None => Ok ns end) = Ok (count_seeders l1)).
      { destruct removed as [p|]; cbn [seeder_weight] in Hcs.
        - destruct (p_seeder p); [unfold checked_pred; rewrite checked_sub_ok by lia|]; f_equal; lia.
        - f_equal; lia. }
      rewrite Hns1. cbn [obind].
      pose proof (count_seeders_le l1) as Hcl.
      rewrite (checked_sub_ok _ _ Hcl). cbn [obind].
      destruct (extract_large_spec take l1 o1 o2 Hnd1) as (peers & Hex & S1 & S2 & S3 & S4 & S5).
      rewrite Hex. cbn [obind].
      assert (Hsel : selection_ok key (ref_remove key r) take peers).
      { apply (selection_ok_perm key l1); [exact Hp1|].
        split_ands; try assumption.
        - intros Hin; apply Hnotin, S2, Hin.
        - intros Hle; rewrite (S4 Hle); apply Permutation_refl.
        - intros Hlt; rewrite (S5 Hlt).
          pose proof (Nat.div_mod take 2 ltac:(lia)). pose proof (Nat.mod_upper_bound take 2 ltac:(lia)). lia. }
      assert (Hcnt : (count_seeders l1, length l1 - count_seeders l1) = ref_counts (ref_remove key r)).
      { rewrite <- (ref_counts_perm _ _ Hp1). reflexivity. }
      assert (Hfind : removed = find_key key r).
      { rewrite Hf. apply find_key_perm; assumption. }
      assert (Hlen : length l = length l1 + match removed with Some _ => 1 | None => 0 end).
      { rewrite (length_remove key l Hnd), <- Hf, (Permutation_length Hp). reflexivity. }
      assert (Hstop : is_stopped st = true \/ is_stopped st = false) by (destruct (is_stopped st); auto).
      destruct Hstop as [Hst|Hst].
      + destruct st; try discriminate. cbn [is_stopped andb].
        destruct (Nat.leb_spec (length l1) cap) as [Hle|Hgt];
          (do 3 eexists; split; [reflexivity|];
           cbn [fst snd ref_announce is_stopped r_seeders r_leechers r_peers];
           split; [|split; [exact Hp1|split; [exact Hcnt|split; [exact Hfind|exact Hsel]]]]).
        * split; [exact Hnd1|exact Hle].
        * split; [exact Hnd1|]. split; [reflexivity|]. intros _; exact Hgt.
      + assert (Hm : forall A (a b : A), match st with Stopped => a | _ => b end = b)
          by (intros; destruct st; try discriminate; reflexivity).
        unfold ref_announce. rewrite Hst. cbn [andb]. rewrite Hm.
        rewrite (im_insert_absent _ _ _ Hnotin).
        do 3 eexists; split; [reflexivity|].
        cbn [fst snd r_seeders r_leechers r_peers].
        split.
        { pose proof (inv_snoc_large l1 key (mkPeer pid (is_seeding st) until) Hnd1 Hnotin) as Hi.
          cbn [p_seeder] in Hi. apply Hi. intros Hs. specialize (Hshr Hs). destruct removed; lia. }
        split; [unfold pm_refines; cbn [pm_entries]; apply Permutation_app_tail, Hp1|].
        split; [exact Hcnt|]. split; [exact Hfind|exact Hsel].
  Qed.
End Refine.
