(* C03: source-address canonicalisation and the reverse-proxy header rule. *)
From Aquatic Require Import Addr.
Local Open Scope N_scope.

Definition mapped (a b c d : N) : list N := [0; 0; 0; 0; 0; 0; 0; 0; 0; 0; 255; 255; a; b; c; d].

Lemma mapped_is_v4 a b c d p : canonical (SA (mapped a b c d) p) = SA [a; b; c; d] p.
Proof. reflexivity. Qed.

Lemma mapped_v4_length o v : mapped_v4 o = Some v -> length o = 16%nat /\ length v = 4%nat.
Proof.
  unfold mapped_v4.
  repeat (destruct o as [|? o]; try discriminate;
          try match goal with |- context [match ?n with 0 => _ | N.pos _ => _ end] => destruct n as [|?]; try discriminate end;
          try match goal with |- context [match ?p with xH => _ | _ => _ end] => idtac end).
  all: try (intros H; inversion H; split; reflexivity).
Abort.

Lemma mapped_v4_spec o v : mapped_v4 o = Some v -> exists a b c d, o = mapped a b c d /\ v = [a; b; c; d].
Proof.
  unfold mapped_v4, mapped. intros H.
  destruct o as [|x0 [|x1 [|x2 [|x3 [|x4 [|x5 [|x6 [|x7 [|x8 [|x9 [|x10 [|x11 [|a [|b [|c [|d [|? ?]]]]]]]]]]]]]]]]];
    try (repeat match goal with H : match ?n with 0 => _ | N.pos _ => _ end = _ |- _ => destruct n end; discriminate).
  repeat match type of H with
         | match ?n with 0 => _ | N.pos _ => _ end = _ => destruct n as [|?]; try discriminate
         end.
  (* x10, x11 = 255 *)
  assert (x10 = 255 /\ x11 = 255 /\ v = [a; b; c; d]) as (-> & -> & ->).
  { destruct (N.eq_dec x10 255) as [->|Hn]; [|exfalso].
    - destruct (N.eq_dec x11 255) as [->|Hn]; [|exfalso].
      + inversion H. auto.
      + destruct x11 as [|p]; try discriminate.
        repeat (destruct p as [p|p|]; try discriminate); congruence.
Show. 
