(* C18: every reply an accepted configuration can produce fits its buffer. *)
From Coq Require Import Zify ZifyN ZifyBool String.
From Aquatic Require Import Buffers Consts Literals Layout LayoutFacts UdpCodec Bep15 UdpCodecFacts.
Local Open Scope N_scope.

(* ---- lengths of the udp replies, from the codec model ---- *)
Lemma concat_map_length {A} (f : A -> list N) (l : list A) k :
  Forall (fun x => length (f x) = k) l -> length (concat (map f l)) = (k * length l)%nat.
Proof. induction 1 as [|x t Hx _ IH]; cbn; [lia|]. rewrite app_length, Hx, IH. lia. Qed.

Theorem udp_announce_reply_length v6 fixed peers :
  wf_vals 4 bep15_announce_fixed fixed -> Forall (wf_vals (ipw v6) bep15_peer) peers ->
  N.of_nat (length (write_response bep15_layouts (SAnnounce v6 fixed peers)))
  = udp_announce_len v6 (N.of_nat (length peers)).
Proof.
  intros Hf Hp. unfold write_response, udp_announce_len. cbn [L_announce_fixed L_peer bep15_layouts].
  rewrite !app_length, i32_be_length, (enc_struct_length 4 _ _ Hf).
  rewrite (concat_map_length _ peers (layout_size (ipw v6) bep15_peer)).
  - replace (layout_size 4 bep15_announce_fixed) with 16%nat by reflexivity.
    destruct v6; [replace (layout_size (ipw true) bep15_peer) with 18%nat by reflexivity|replace (layout_size (ipw false) bep15_peer) with 6%nat by reflexivity]; lia.
  - apply Forall_forall. intros x Hx. rewrite Forall_forall in Hp. apply enc_struct_length, Hp, Hx.
Qed.

Theorem udp_scrape_reply_length tid stats :
  Forall (wf_vals 4 bep15_scrape_stats) stats ->
  N.of_nat (length (write_response bep15_layouts (SScrape tid stats))) = udp_scrape_len (N.of_nat (length stats)).
Proof.
  intros Hs. unfold write_response, udp_scrape_len. cbn [L_scrape_stats bep15_layouts].
  rewrite !app_length, !i32_be_length.
  rewrite (concat_map_length _ stats (layout_size 4 bep15_scrape_stats)).
  - replace (layout_size 4 bep15_scrape_stats) with 12%nat by reflexivity. lia.
  - apply Forall_forall. intros x Hx. rewrite Forall_forall in Hs. apply enc_struct_length, Hs, Hx.
Qed.

(* ---- udp, mio backend: BUFFER_SIZE ---- *)
Theorem udp_mio_fits max_response_peers :
  udp_accepted max_response_peers ->
  forall v6 n, n <= max_response_peers -> udp_announce_len v6 n <= udp_BUFFER_SIZE.
Proof.
  unfold udp_accepted, udp_validates_max_response_peers, udp_MAX_RESPONSE_PEERS_LIMIT.
  intros H v6 n Hn. unfold udp_announce_len, udp_BUFFER_SIZE.
  destruct v6; lia.
Qed.

Theorem udp_mio_scrape_fits n : n <= 255 -> udp_scrape_len n <= udp_BUFFER_SIZE.
Proof. intros H. unfold udp_scrape_len, udp_BUFFER_SIZE. lia. Qed.

(* ---- udp, io_uring backend: RESPONSE_BUF_LEN; a scrape cannot list more hashes than fit the
   request buffer ---- *)
Theorem udp_uring_fits max_response_peers :
  uring_accepted max_response_peers ->
  forall v6 n, n <= max_response_peers -> udp_announce_len v6 n <= uring_RESPONSE_BUF_LEN.
Proof.
  unfold uring_accepted, uring_validates_max_response_peers, uring_MAX_RESPONSE_PEERS_LIMIT.
  intros [_ H] v6 n Hn. unfold udp_announce_len, uring_RESPONSE_BUF_LEN.
  destruct v6; lia.
Qed.

Theorem udp_uring_scrape_fits n :
  n <= udp_hashes_in uring_REQUEST_BUF_LEN -> udp_scrape_len n <= uring_RESPONSE_BUF_LEN.
Proof.
  unfold udp_scrape_len, udp_hashes_in, uring_REQUEST_BUF_LEN, uring_RESPONSE_BUF_LEN.
  replace ((512 - 16) / 20) with 24 by reflexivity. lia.
Qed.

(* ---- http ---- *)
Lemma itoa_f_length fuel n : (length (itoa_f fuel n) <= fuel)%nat.
Proof.
  revert n. induction fuel as [|f IH]; intros n; cbn; [lia|].
  destruct (n <? 10); cbn; [lia|]. rewrite app_length. specialize (IH (n / 10)). cbn. lia.
Qed.

Lemma itoa_length n : (length (itoa n) <= 20)%nat.
Proof. apply itoa_f_length. Qed.

Lemma peer_bytes_length w p : length (fst p) = w -> length (peer_bytes p) = (w + 2)%nat.
Proof. intros H. unfold peer_bytes. rewrite app_length, be_enc_length, H. reflexivity. Qed.

Definition announce_body_bound (n4 n6 : nat) : nat := 158 + 6 * n4 + 18 * n6.

Lemma write_announce_length c i iv p4 p6 :
  Forall (fun p => length (fst p) = 4%nat) p4 -> Forall (fun p => length (fst p) = 16%nat) p6 ->
  (length (write_announce c i iv p4 p6 None) <= announce_body_bound (length p4) (length p6))%nat.
Proof.
  intros H4 H6. unfold write_announce, announce_body_bound. rewrite !app_length.
  rewrite (concat_map_length peer_bytes p4 6).
  2:{ apply Forall_forall. intros x Hx. rewrite Forall_forall in H4. apply (peer_bytes_length 4), H4, Hx. }
  rewrite (concat_map_length peer_bytes p6 18).
  2:{ apply Forall_forall. intros x Hx. rewrite Forall_forall in H6. apply (peer_bytes_length 16), H6, Hx. }
  pose proof (itoa_length c). pose proof (itoa_length i). pose proof (itoa_length iv).
  pose proof (itoa_length (N.of_nat (length p4) * 6)). pose proof (itoa_length (N.of_nat (length p6) * 18)).
  cbn [str length]. lia.
Qed.

Lemma write_scrape_entry_length f : length (fst f) = 20%nat -> (length (write_scrape_entry f) <= 108)%nat.
Proof.
  intros H. unfold write_scrape_entry. rewrite !app_length, H.
  pose proof (itoa_length (fst (snd f))). pose proof (itoa_length (snd (snd f))). cbn [str length]. lia.
Qed.

Lemma write_scrape_length files :
  Forall (fun f => length (fst f) = 20%nat) files -> (length (write_scrape files) <= 11 + 108 * length files)%nat.
Proof.
  intros H. unfold write_scrape. rewrite !app_length. cbn [str length].
  assert (length (concat (map write_scrape_entry files)) <= 108 * length files)%nat.
  { induction H as [|f t Hf _ IH]; cbn [map concat length]; [lia|]. rewrite app_length. pose proof (write_scrape_entry_length f Hf). lia. }
  lia.
Qed.

(* the announce reply of an accepted configuration - either address family, counters and
   interval of any size - fits the response buffer together with the header and the final CRLF *)
Theorem http_announce_fits max_peers c i iv p4 p6 :
  http_accepted max_peers ->
  Forall (fun p => length (fst p) = 4%nat) p4 -> Forall (fun p => length (fst p) = 16%nat) p6 ->
  (p4 = [] \/ p6 = []) -> N.of_nat (length p4) <= max_peers -> N.of_nat (length p6) <= max_peers ->
  http_header_len + N.of_nat (length (write_announce c i iv p4 p6 None)) + 2 <= http_RESPONSE_BUFFER_SIZE.
Proof.
  unfold http_accepted, http_validates_max_peers, http_MAX_PEERS_LIMIT.
  intros Hacc H4 H6 Hone Hn4 Hn6.
  pose proof (write_announce_length c i iv p4 p6 H4 H6) as Hl. unfold announce_body_bound in Hl.
  assert (Hh : http_header_len = 45) by reflexivity. rewrite Hh. unfold http_RESPONSE_BUFFER_SIZE.
  destruct Hone as [-> | ->]; cbn [length] in *; lia.
Qed.

(* the scrape reply for as many torrents as a request that fits the request buffer can name *)
Theorem http_scrape_fits files :
  Forall (fun f => length (fst f) = 20%nat) files ->
  N.of_nat (length files) <= http_hashes_in http_REQUEST_BUFFER_SIZE ->
  http_header_len + N.of_nat (length (write_scrape files)) + 2 <= http_RESPONSE_BUFFER_SIZE.
Proof.
  intros H Hn. pose proof (write_scrape_length files H) as Hl.
  assert (Hc : http_hashes_in http_REQUEST_BUFFER_SIZE = 66) by reflexivity. rewrite Hc in Hn.
  assert (Hh : http_header_len = 45) by reflexivity. rewrite Hh. unfold http_RESPONSE_BUFFER_SIZE. lia.
Qed.

Theorem http_failure_fits reason :
  (length reason <= 200)%nat ->
  http_header_len + N.of_nat (length (write_failure reason)) + 2 <= http_RESPONSE_BUFFER_SIZE.
Proof.
  intros H. unfold write_failure. rewrite !app_length. pose proof (itoa_length (N.of_nat (length reason))).
  assert (Hh : http_header_len = 45) by reflexivity. rewrite Hh. unfold http_RESPONSE_BUFFER_SIZE.
  cbn [str length]. lia.
Qed.

(* when the body fits, the framing delivers it whole and the Content-Length counts body + CRLF *)
Theorem framing_whole HA HB HC buf_size body :
  (header_len HA HB HC + length body + 2 <= buf_size)%nat ->
  frame_response HA HB HC buf_size body
  = Framed (HA ++ (itoa (N.of_nat (length body + 2)) ++ skipn (length (itoa (N.of_nat (length body + 2)))) HB)
               ++ HC ++ body ++ [13; 10]).
Proof.
  intros H. unfold frame_response.
  rewrite Nat.min_l by lia.
  destruct (Nat.ltb_spec buf_size (header_len HA HB HC + length body + 2)); [lia|].
  rewrite firstn_all. reflexivity.
Qed.

(* and when it does not, the connection reports ResponseBufferFull - never a cut-short reply *)
Theorem framing_overflow_detected HA HB HC buf_size body :
  (buf_size < header_len HA HB HC + length body + 2)%nat -> (header_len HA HB HC <= buf_size)%nat ->
  frame_response HA HB HC buf_size body = ResponseBufferFull.
Proof.
  intros H Hh. unfold frame_response.
  destruct (Nat.ltb_spec buf_size (header_len HA HB HC + Nat.min (length body) (buf_size - header_len HA HB HC) + 2)) as [|Hge]; [reflexivity|].
  exfalso. destruct (Nat.le_ge_cases (length body) (buf_size - header_len HA HB HC)).
  - rewrite Nat.min_l in Hge by assumption. lia.
  - rewrite Nat.min_r in Hge by assumption. lia.
Qed.
