(* C17: closing a connection removes, from the swarm worker that owns each torrent, every peer
   entry the connection's clean-up record names - and the record names every torrent the
   connection announced without stopping it. *)
From Coq Require Import Zify ZifyN ZifyBool.
From Aquatic Require Import WsSwarm AssocFacts WsFacts WsRouting.
Local Open Scope N_scope.

Lemma yget_yset_same ws j s : (j < length ws)%nat -> yget (yset ws j s) j = s.
Proof.
  revert j. induction ws as [|x t IH]; intros j H; cbn in *; [lia|].
  destruct j; cbn; [reflexivity|]. apply IH. lia.
Qed.

Lemma yget_yset_other ws j i s : i <> j -> yget (yset ws j s) i = yget ws i.
Proof.
  revert j i. induction ws as [|x t IH]; intros j i H; cbn; [reflexivity|].
  destruct j, i; cbn; try reflexivity; [congruence|]. apply IH. congruence.
Qed.

Lemma yset_length ws j s : length (yset ws j s) = length ws.
Proof. revert j. induction ws as [|x t IH]; intros j; cbn; [reflexivity|]. destruct j; cbn; [reflexivity|]. rewrite IH. reflexivity. Qed.

Lemma wfam_wset_same s v6 m : wfam (wset s v6 m) v6 = m.
Proof. destruct v6; reflexivity. Qed.

(* a close notification touches only its own torrent *)
Lemma ws_closed_other_torrent s v6 h pid s' h2 :
  ws_closed s v6 h pid = Ok s' -> h2 <> h -> aget N.eqb h2 (wfam s' v6) = aget N.eqb h2 (wfam s v6).
Proof.
  unfold ws_closed. intros H Hne.
  destruct (aget N.eqb h (wfam s v6)) as [t|]; [|injection H as <-; reflexivity].
  destruct (aswap_remove N.eqb pid (wt_peers t)) as [[p|] ps]; [|injection H as <-; reflexivity].
  destruct (if w_seeder p then checked_pred (wt_ns t) else Ok (wt_ns t)) as [ns|]; [|discriminate].
  cbn [obind] in H. injection H as <-. rewrite wfam_wset_same. apply aget_aput_other. exact Hne.
Qed.

(* ... and afterwards the named peer id is not in it *)
Lemma ws_closed_clears s v6 h pid s' t' :
  wstate_ok s -> ws_closed s v6 h pid = Ok s' -> aget N.eqb h (wfam s' v6) = Some t' -> aget N.eqb pid (wt_peers t') = None.
Proof.
  intros Hs Hc Ht'.
  destruct (aget N.eqb h (wfam s v6)) as [t|] eqn:Et.
  - destruct (closed_removes_that_peer s v6 h pid s' t Hs Hc Et) as (t2 & E2 & Hnone & _).
    rewrite E2 in Ht'. injection Ht' as <-. exact Hnone.
  - unfold ws_closed in Hc. rewrite Et in Hc. injection Hc as <-. rewrite Et in Ht'. discriminate.
Qed.

Definition all_ok (k : nat) (ws : list wstate) : Prop := forall j, (j < k)%nat -> wstate_ok (yget ws j).

Lemma wroute_lt k h : (0 < k)%nat -> (wroute k h < k)%nat.
Proof. intros H. unfold wroute. apply Nat.mod_upper_bound. intros E. subst k. inversion H. Qed.

Theorem close_all_clears k v6 : (0 < k)%nat -> forall ann ws ws',
  length ws = k -> all_ok k ws -> NoDup (map fst ann) -> close_all k ws v6 ann = Ok ws' ->
  length ws' = k /\ all_ok k ws'
  /\ (forall h pid t', In (h, pid) ann -> aget N.eqb h (wfam (yget ws' (wroute k h)) v6) = Some t' -> aget N.eqb pid (wt_peers t') = None)
  /\ (forall h, ~ In h (map fst ann) -> forall j f, aget N.eqb h (wfam (yget ws' j) f) = aget N.eqb h (wfam (yget ws j) f))
  /\ (forall j h, aget N.eqb h (wfam (yget ws' j) (negb v6)) = aget N.eqb h (wfam (yget ws j) (negb v6))).
Proof.
  intros Hk. induction ann as [|[h pid] ann IH]; intros ws ws' Hlen Hok Hnd Hc; cbn [close_all] in Hc.
  - injection Hc as <-. split; [exact Hlen|]. split; [exact Hok|]. split; [intros h pid t' []|]. split; intros; reflexivity.
  - set (j := wroute k h) in *. assert (Hj : (j < k)%nat) by apply wroute_lt, Hk.
    destruct (ws_closed (yget ws j) v6 h pid) as [s1|] eqn:Ec; [|discriminate]. cbn [obind] in Hc.
    cbn [map] in Hnd. apply NoDup_cons_iff in Hnd. destruct Hnd as [Hnotin Hnd].
    destruct (ws_closed_ok (yget ws j) v6 h pid (Hok j Hj)) as (s1' & Ec' & Hok1). rewrite Ec in Ec'. injection Ec' as <-.
    assert (Hok' : all_ok k (yset ws j s1)).
    { intros i Hi. destruct (Nat.eq_dec i j) as [->|Hne]; [rewrite yget_yset_same by lia; exact Hok1|].
      rewrite yget_yset_other by exact Hne. apply Hok, Hi. }
    destruct (IH (yset ws j s1) ws' ltac:(rewrite yset_length; exact Hlen) Hok' Hnd Hc) as (Hl' & Hok2 & Hclr & Hkeep & Hother).
    split; [exact Hl'|]. split; [exact Hok2|]. split; [|split].
    + intros h2 pid2 t' [E|Hin] Ht'.
      * injection E as <- <-. fold j in Ht'.
        rewrite (Hkeep h Hnotin j v6) in Ht'. rewrite yget_yset_same in Ht' by lia.
        eapply ws_closed_clears; [apply Hok, Hj|exact Ec|exact Ht'].
      * eapply Hclr; eassumption.
    + intros h2 Hn2 i f. cbn [map In fst] in Hn2. rewrite (Hkeep h2 ltac:(tauto) i f).
      destruct (Nat.eq_dec i j) as [->|Hne]; [|rewrite yget_yset_other by exact Hne; reflexivity].
      rewrite yget_yset_same by lia.
      destruct (Bool.bool_dec f v6) as [->|Hf].
      * apply (ws_closed_other_torrent _ _ _ _ _ _ Ec). intros ->. apply Hn2. left. reflexivity.
      * assert (f = negb v6) by (destruct f, v6; try reflexivity; exfalso; apply Hf; reflexivity). subst f.
        clear -Ec. unfold ws_closed in Ec.
        destruct (aget N.eqb h (wfam (yget ws j) v6)) as [t|]; [|injection Ec as <-; reflexivity].
        destruct (aswap_remove N.eqb pid (wt_peers t)) as [[p|] ps]; [|injection Ec as <-; reflexivity].
        destruct (if w_seeder p then checked_pred (wt_ns t) else Ok (wt_ns t)) as [ns|]; [|discriminate].
        cbn [obind] in Ec. injection Ec as <-. destruct v6; reflexivity.
    + intros i h2. rewrite (Hother i h2).
      destruct (Nat.eq_dec i j) as [->|Hne]; [|rewrite yget_yset_other by exact Hne; reflexivity].
      rewrite yget_yset_same by lia.
      clear -Ec. unfold ws_closed in Ec.
      destruct (aget N.eqb h (wfam (yget ws j) v6)) as [t|]; [|injection Ec as <-; reflexivity].
      destruct (aswap_remove N.eqb pid (wt_peers t)) as [[p|] ps]; [|injection Ec as <-; reflexivity].
      destruct (if w_seeder p then checked_pred (wt_ns t) else Ok (wt_ns t)) as [ns|]; [|discriminate].
      cbn [obind] in Ec. injection Ec as <-. destruct v6; reflexivity.
Qed.

(* the clean-up record: every announce forwarded with a non-stopped event is in it afterwards,
   under the peer id it used; a stopped one takes its torrent out *)
Lemma find_put_same c cs : find_conn (sc_key c) (put_conn c cs) = Some c.
Proof. unfold find_conn, put_conn. cbn [find]. unfold pair_eqb. rewrite !N.eqb_refl. reflexivity. Qed.

Theorem announce_is_recorded cfg cut ae k y who c rq y' msgs :
  find_conn who (y_conns y) = Some c -> sc_key c = who ->
  (aget N.eqb (q_hash rq) (sc_announced c) = None \/ aget N.eqb (q_hash rq) (sc_announced c) = Some (q_pid rq)) ->
  wsys_step cfg cut ae k y who (CAnnounce rq) = Ok (y', msgs) ->
  exists c', find_conn who (y_conns y') = Some c' /\ sc_key c' = who /\ sc_v6 c' = sc_v6 c
    /\ (q_stopped rq = false -> aget N.eqb (q_hash rq) (sc_announced c') = Some (q_pid rq)).
Proof.
  intros Hc Hkey Ha H. unfold wsys_step in H. rewrite Hc in H.
  assert (E : match aget N.eqb (q_hash rq) (sc_announced c) with Some pid' => negb (N.eqb pid' (q_pid rq)) | None => false end = false).
  { destruct Ha as [->| ->]; [reflexivity|]. rewrite N.eqb_refl. reflexivity. }
  rewrite E in H. destruct (ws_announce cfg _ rq 0 0 0) as [[s' outs]|]; [|discriminate]. cbn [obind] in H.
  injection H as <- _. cbn [y_conns].
  set (ann1 := aput N.eqb (q_hash rq) (q_pid rq) (sc_announced c)).
  set (ann2 := if q_stopped rq then snd (aswap_remove N.eqb (q_hash rq) ann1) else ann1).
  exists (mkSconn who (sc_v6 c) ann2). split; [apply (find_put_same (mkSconn who (sc_v6 c) ann2))|].
  split; [reflexivity|]. split; [reflexivity|].
  intros Hs. unfold ann2. rewrite Hs. apply aget_aput_same.
Qed.
