(* C17: delivery, refusal of a second peer id, one reply per scrape - over the routing model. *)
From Coq Require Import Zify ZifyN ZifyBool.
From Aquatic Require Import WsSwarm AssocFacts WsFacts WsRouting.
Local Open Scope N_scope.

(* ---------- delivery ---------- *)
(* what reaches client connections is exactly the swarm worker's messages whose named connection
   (socket worker, connection id) is alive - each to that connection, in order, none twice *)
Lemma deliver_spec cs outs :
  deliver cs outs = map DOut (filter (fun o => match find_conn (wout_dest o) cs with Some _ => true | None => false end) outs).
Proof. reflexivity. Qed.

Lemma deliver_dest_alive cs outs m : In m (deliver cs outs) ->
  exists o, m = DOut o /\ In o outs /\ find_conn (dest m) cs <> None.
Proof.
  unfold deliver. intros H. apply in_map_iff in H. destruct H as (o & <- & Hin). apply filter_In in Hin.
  destruct Hin as [Hin Hal]. exists o. split; [reflexivity|]. split; [exact Hin|]. cbn [dest].
  destruct (find_conn (wout_dest o) cs); [discriminate|discriminate].
Qed.

Lemma deliver_complete cs outs o : In o outs -> find_conn (wout_dest o) cs <> None -> In (DOut o) (deliver cs outs).
Proof.
  intros Hin Hal. unfold deliver. apply in_map. apply filter_In. split; [exact Hin|].
  destruct (find_conn (wout_dest o) cs); [reflexivity|contradiction].
Qed.

Lemma deliver_no_dead cs outs o : find_conn (wout_dest o) cs = None -> ~ In (DOut o) (deliver cs outs).
Proof.
  intros Hd Hin. apply deliver_dest_alive in Hin. destruct Hin as (o' & E & _ & Hal). injection E as <-.
  cbn [dest] in Hal. contradiction.
Qed.

(* every message a step hands to clients is addressed to a connection that is alive before or
   after the step (errors go to the sender) *)
Theorem step_delivers_to_named_live_connections cfg cut ae k y who a y' msgs :
  wsys_step cfg cut ae k y who a = Ok (y', msgs) ->
  forall m, In m msgs -> find_conn (dest m) (y_conns y) <> None \/ find_conn (dest m) (y_conns y') <> None.
Proof.
  unfold wsys_step. intros H m Hin.
  destruct a as [v6|rq|hs| |].
  - injection H as <- <-. destruct Hin.
  - destruct (find_conn who (y_conns y)) as [c|] eqn:Ec; [|injection H as <- <-; destruct Hin].
    assert (Hwho : forall kind, find_conn (dest (DErr (fst who) (snd who) kind)) (y_conns y) <> None).
    { intros kind. cbn [dest]. destruct who as [w c0]. cbn [fst snd]. rewrite Ec. discriminate. }
    destruct (match aget N.eqb (q_hash rq) (sc_announced c) with Some pid' => negb (N.eqb pid' (q_pid rq)) | None => false end).
    + destruct (close_all k (y_workers y) (sc_v6 c) (sc_announced c)); [|discriminate]. cbn [obind] in H.
      injection H as <- <-. destruct Hin as [<-|[]]. left. apply Hwho.
    + destruct (ws_announce cfg _ rq 0 0 0) as [[s' outs]|]; [|discriminate]. cbn [obind] in H. injection H as <- <-.
      right. cbn [y_conns]. apply deliver_dest_alive in Hin. destruct Hin as (o & _ & _ & Hal). exact Hal.
  - destruct (find_conn who (y_conns y)) as [c|] eqn:Ec; [|injection H as <- <-; destruct Hin].
    assert (Hwho : forall m0, dest m0 = who -> find_conn (dest m0) (y_conns y) <> None).
    { intros m0 ->. rewrite Ec. discriminate. }
    destruct hs as [hs|].
    + destruct (if cut then firstn (wc_max_scrape cfg) hs else hs) as [|h0 t] eqn:Ea.
      * injection H as <- <-. destruct ae; [|destruct Hin]. destruct Hin as [<-|[]]. left. apply Hwho. destruct who; reflexivity.
      * destruct (scrape_collect cfg k (y_workers y) who (sc_v6 c) (h0 :: t) (seq 0 k)); [|discriminate].
        cbn [obind] in H. injection H as <- <-. destruct Hin as [<-|[]]. left. apply Hwho. destruct who; reflexivity.
    + injection H as <- <-. destruct Hin as [<-|[]]. left. apply Hwho. destruct who; reflexivity.
  - destruct (find_conn who (y_conns y)) as [c|] eqn:Ec; [|injection H as <- <-; destruct Hin].
    injection H as <- <-. destruct Hin as [<-|[]]. left. cbn [dest]. destruct who. cbn [fst snd]. rewrite Ec. discriminate.
  - destruct (find_conn who (y_conns y)) as [c|] eqn:Ec; [|injection H as <- <-; destruct Hin].
    destruct (close_all k (y_workers y) (sc_v6 c) (sc_announced c)); [|discriminate]. cbn [obind] in H.
    injection H as <- <-. destruct Hin.
Qed.

(* ---------- one peer id per torrent per connection ---------- *)
Lemma find_drop_same key cs : find_conn key (drop_conn key cs) = None.
Proof.
  unfold find_conn, drop_conn. induction cs as [|c t IH]; cbn; [reflexivity|].
  destruct (pair_eqb (sc_key c) key) eqn:E; cbn; [exact IH|]. rewrite E. exact IH.
Qed.

Theorem second_peer_id_refused cfg cut ae k y who c rq pid' :
  find_conn who (y_conns y) = Some c ->
  aget N.eqb (q_hash rq) (sc_announced c) = Some pid' -> pid' <> q_pid rq ->
  forall y' msgs, wsys_step cfg cut ae k y who (CAnnounce rq) = Ok (y', msgs) ->
    msgs = [DErr (fst who) (snd who) 2] /\ find_conn who (y_conns y') = None.
Proof.
  intros Hc Ha Hne y' msgs H. unfold wsys_step in H. rewrite Hc, Ha in H.
  destruct (N.eqb_spec pid' (q_pid rq)); [contradiction|]. cbn [negb] in H.
  destruct (close_all k (y_workers y) (sc_v6 c) (sc_announced c)); [|discriminate]. cbn [obind] in H.
  injection H as <- <-. split; [reflexivity|]. cbn [y_conns]. apply find_drop_same.
Qed.

(* the same peer id again, or a torrent the connection stopped, is not refused *)
Theorem same_peer_id_forwarded cfg cut ae k y who c rq :
  find_conn who (y_conns y) = Some c ->
  (aget N.eqb (q_hash rq) (sc_announced c) = None \/ aget N.eqb (q_hash rq) (sc_announced c) = Some (q_pid rq)) ->
  forall y' msgs, wsys_step cfg cut ae k y who (CAnnounce rq) = Ok (y', msgs) ->
    exists s' outs, ws_announce cfg (yget (y_workers y) (wroute k (q_hash rq))) rq 0 0 0 = Ok (s', outs)
      /\ y_workers y' = yset (y_workers y) (wroute k (q_hash rq)) s' /\ msgs = deliver (y_conns y') outs.
Proof.
  intros Hc Ha y' msgs H. unfold wsys_step in H. rewrite Hc in H.
  assert (E : match aget N.eqb (q_hash rq) (sc_announced c) with Some pid' => negb (N.eqb pid' (q_pid rq)) | None => false end = false).
  { destruct Ha as [->| ->]; [reflexivity|]. rewrite N.eqb_refl. reflexivity. }
  rewrite E in H. destruct (ws_announce cfg _ rq 0 0 0) as [[s' outs]|]; [|discriminate]. cbn [obind] in H.
  injection H as <- <-. do 2 eexists. split; [reflexivity|]. split; reflexivity.
Qed.

(* ---------- scrapes ---------- *)
(* a scrape naming a list of torrents gets exactly one reply, on the sender's connection *)
Theorem scrape_gets_exactly_one_reply cfg k y who c hs y' msgs :
  find_conn who (y_conns y) = Some c ->
  wsys_step cfg true true k y who (CScrape (Some hs)) = Ok (y', msgs) ->
  y' = y /\ exists files, msgs = [DOut (WScrape (fst who) (snd who) files)].
Proof.
  intros Hc H. unfold wsys_step in H. rewrite Hc in H.
  destruct (firstn (wc_max_scrape cfg) hs) as [|h0 t].
  - injection H as <- <-. split; [reflexivity|]. eauto.
  - destruct (scrape_collect cfg k (y_workers y) who (sc_v6 c) (h0 :: t) (seq 0 k)); [|discriminate].
    cbn [obind] in H. injection H as <- <-. split; [reflexivity|]. eauto.
Qed.

(* a closed connection takes part in nothing afterwards *)
Theorem closed_connection_is_gone cfg cut ae k y who y' msgs :
  wsys_step cfg cut ae k y who CClose = Ok (y', msgs) -> msgs = [] /\ find_conn who (y_conns y') = None.
Proof.
  unfold wsys_step. intros H. destruct (find_conn who (y_conns y)) as [c|] eqn:Ec.
  - destruct (close_all k (y_workers y) (sc_v6 c) (sc_announced c)); [|discriminate]. cbn [obind] in H.
    injection H as <- <-. split; [reflexivity|]. apply find_drop_same.
  - injection H as <- <-. split; [reflexivity|exact Ec].
Qed.
