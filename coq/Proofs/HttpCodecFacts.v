(* C14: identifier decoding is exact; replies are canonical bencode. *)
From Coq Require Import Zify ZifyN ZifyBool String.
From Aquatic Require Import HttpCodec Bencode.
Local Open Scope N_scope.

(* ---------- percent-encoded 20-byte identifiers ---------- *)
Lemma hexv_hexd v : v < 16 -> hexv (hexd v) = Some v.
Proof.
  intros H. unfold hexd, hexv. destruct (N.ltb_spec v 10).
  - replace (48 <=? 48 + v) with true by (symmetry; apply N.leb_le; lia).
    replace (48 + v <=? 57) with true by (symmetry; apply N.leb_le; lia). cbn [andb]. f_equal. lia.
  - replace (48 <=? 87 + v) with true by (symmetry; apply N.leb_le; lia).
    replace (87 + v <=? 57) with false by (symmetry; apply N.leb_gt; lia). cbn [andb].
    replace (97 <=? 87 + v) with true by (symmetry; apply N.leb_le; lia).
    replace (87 + v <=? 102) with true by (symmetry; apply N.leb_le; lia). cbn [andb]. f_equal. lia.
Qed.

Lemma hexd_lt256 v : v < 16 -> hexd v < 256.
Proof. intros H. unfold hexd. destruct (v <? 10); lia. Qed.

(* every byte string written by the library parses back, whatever follows it *)
Theorem urldecode_urlencode bs rest :
  bytes_ok bs -> urldecode_n (length bs) (urlencode bs ++ rest) = Some (bs, rest).
Proof.
  induction 1 as [|b t Hb _ IH]; cbn [length urlencode flat_map urldecode_n app]; [reflexivity|].
  replace (255 <? ch_pct) with false by reflexivity. rewrite N.eqb_refl.
  assert (H1 : b / 16 < 16) by (apply N.div_lt_upper_bound; lia).
  assert (H2 : b mod 16 < 16) by (apply N.mod_lt; lia).
  rewrite (N.mod_small (hexd (b / 16)) 256) by (apply hexd_lt256, H1).
  rewrite (N.mod_small (hexd (b mod 16)) 256) by (apply hexd_lt256, H2).
  rewrite !hexv_hexd by assumption.
  change (flat_map (fun b0 => [ch_pct; hexd (b0 / 16); hexd (b0 mod 16)]) t) with (urlencode t). rewrite IH.
  f_equal. f_equal. f_equal. pose proof (N.div_mod b 16 ltac:(lia)). lia.
Qed.

Corollary urldecode20_urlencode bs : bytes_ok bs -> length bs = 20%nat -> urldecode20 (urlencode bs) = Some bs.
Proof.
  intros H Hl. unfold urldecode20. rewrite <- (app_nil_r (urlencode bs)). rewrite <- Hl.
  rewrite urldecode_urlencode by exact H. reflexivity.
Qed.

(* what it means for a character string to spell a byte string: every byte either raw (a
   character <= U+00FF other than '%') or '%' + two hex digits of either case.  After '%' the code
   casts the two characters `as u8`; [hexv (h mod 256)] is exactly that *)
Inductive spells : list N -> list N -> Prop :=
| sp_nil : spells [] []
| sp_raw c s bs : c <= 255 -> c <> ch_pct -> spells s bs -> spells (c :: s) (c :: bs)
| sp_pct h1 h2 a b s bs : hexv (h1 mod 256) = Some a -> hexv (h2 mod 256) = Some b -> spells s bs ->
                          spells (ch_pct :: h1 :: h2 :: s) (a * 16 + b :: bs).

Lemma urldecode_n_spec n : forall s bs rest,
  urldecode_n n s = Some (bs, rest) <-> exists pre, s = pre ++ rest /\ spells pre bs /\ length bs = n.
Proof.
  induction n as [|n IH]; intros s bs rest; cbn [urldecode_n].
  - split.
    + intros H. inversion H; subst. exists []. repeat split. constructor.
    + intros (pre & -> & Hs & Hl). destruct bs; [|discriminate]. inversion Hs; subst. reflexivity.
  - split.
    + destruct s as [|c t]; [discriminate|].
      destruct (N.ltb_spec 255 c) as [|Hc]; [discriminate|].
      destruct (N.eqb_spec c ch_pct) as [->|Hne].
      * destruct t as [|h1 [|h2 t']]; try discriminate.
        destruct (hexv (h1 mod 256)) as [a|] eqn:E1; [|discriminate].
        destruct (hexv (h2 mod 256)) as [b|] eqn:E2; [|discriminate].
        destruct (urldecode_n n t') as [[bs' rest']|] eqn:E; [|discriminate].
        intros H. inversion H; subst. apply IH in E. destruct E as (pre & -> & Hs & Hl).
        exists (ch_pct :: h1 :: h2 :: pre). repeat split; [|cbn; lia]. econstructor; eassumption.
      * destruct (urldecode_n n t) as [[bs' rest']|] eqn:E; [|discriminate].
        intros H. inversion H; subst. apply IH in E. destruct E as (pre & -> & Hs & Hl).
        exists (c :: pre). repeat split; [|cbn; lia]. constructor; assumption.
    + intros (pre & -> & Hs & Hl). destruct Hs as [|c s0 bs0 Hc Hne Hs|h1 h2 a b s0 bs0 E1 E2 Hs]; [discriminate| |].
      * cbn [app]. destruct (N.ltb_spec 255 c); [lia|]. destruct (N.eqb_spec c ch_pct); [contradiction|].
        assert (E : urldecode_n n (s0 ++ rest) = Some (bs0, rest)) by (apply IH; exists s0; repeat split; [assumption|cbn in Hl; lia]).
        rewrite E. reflexivity.
      * cbn [app]. replace (255 <? ch_pct) with false by reflexivity. rewrite N.eqb_refl, E1, E2.
        assert (E : urldecode_n n (s0 ++ rest) = Some (bs0, rest)) by (apply IH; exists s0; repeat split; [assumption|cbn in Hl; lia]).
        rewrite E. reflexivity.
Qed.

(* exactly the strings that spell exactly 20 bytes are accepted, with exactly those bytes *)
Theorem urldecode20_exact s bs : urldecode20 s = Some bs <-> spells s bs /\ length bs = 20%nat.
Proof.
  unfold urldecode20. split.
  - destruct (urldecode_n 20 s) as [[bs' rest]|] eqn:E; [|discriminate]. destruct rest; [|discriminate].
    intros H. inversion H; subst. apply urldecode_n_spec in E. destruct E as (pre & -> & Hs & Hl).
    rewrite app_nil_r. split; assumption.
  - intros [Hs Hl]. assert (E : urldecode_n 20 s = Some (bs, [])).
    { apply urldecode_n_spec. exists s. rewrite app_nil_r. repeat split; assumption. }
    rewrite E. reflexivity.
Qed.

Lemma spells_length s bs : spells s bs -> (length bs <= length s)%nat.
Proof. induction 1; cbn; lia. Qed.

(* fewer than 20 characters can never be accepted; nor can a character above U+00FF in byte position *)
Corollary urldecode20_rejects_short s : (length s < 20)%nat -> urldecode20 s = None.
Proof.
  intros H. destruct (urldecode20 s) as [bs|] eqn:E; [|reflexivity].
  apply urldecode20_exact in E. destruct E as [Hs Hl]. apply spells_length in Hs. lia.
Qed.

(* ---------- replies are canonical bencode ---------- *)
Lemma concat_peer_bytes_length w (ps : list (list N * N)) :
  Forall (fun p => length (fst p) = w) ps -> length (concat (map peer_bytes ps)) = (length ps * (w + 2))%nat.
Proof.
  induction 1 as [|p t Hp _ IH]; cbn [map concat length]; [reflexivity|].
  rewrite app_length, IH. unfold peer_bytes. rewrite app_length, be_enc_length, Hp. lia.
Qed.

Lemma benc_entries_cons f k x t : benc_entries_with f ((k, x) :: t) = benc_key k ++ f x ++ benc_entries_with f t.
Proof. reflexivity. Qed.

Theorem announce_is_bencode c i iv p4 p6 w :
  Forall (fun p => length (fst p) = 4%nat) p4 -> Forall (fun p => length (fst p) = 16%nat) p6 ->
  write_announce c i iv p4 p6 w = benc (announce_value c i iv p4 p6 w).
Proof.
  intros H4 H6. unfold write_announce, announce_value.
  cbn [benc app]. rewrite !benc_entries_cons. cbn [benc]. unfold benc_key.
  rewrite (concat_peer_bytes_length 4 p4 H4), (concat_peer_bytes_length 16 p6 H6).
  replace (N.of_nat (length p4 * (4 + 2))) with (N.of_nat (length p4) * 6) by lia.
  replace (N.of_nat (length p6 * (16 + 2))) with (N.of_nat (length p6) * 18) by lia.
  destruct w as [w|]; cbn [app]; rewrite ?benc_entries_cons; cbn [benc benc_entries_with]; unfold benc_key;
    rewrite <- !app_assoc; reflexivity.
Qed.

Lemma scrape_entries_bencode files :
  Forall (fun f => length (fst f) = 20%nat) files ->
  concat (map write_scrape_entry files) = benc_entries_with benc (map scrape_entry_value files).
Proof.
  induction 1 as [|f t Hf _ IH]; cbn [map concat]; [reflexivity|].
  unfold scrape_entry_value at 1. rewrite benc_entries_cons, <- IH.
  unfold write_scrape_entry, benc_key. cbn [fst snd benc]. rewrite !benc_entries_cons. cbn [benc benc_entries_with].
  unfold benc_key. rewrite Hf. rewrite <- !app_assoc. reflexivity.
Qed.

Theorem scrape_is_bencode files :
  Forall (fun f => length (fst f) = 20%nat) files -> write_scrape files = benc (scrape_value files).
Proof.
  intros H. unfold write_scrape, scrape_value. cbn [benc]. rewrite benc_entries_cons. cbn [benc benc_entries_with].
  rewrite <- (scrape_entries_bencode files H). unfold benc_key. rewrite <- !app_assoc. reflexivity.
Qed.

Theorem failure_is_bencode reason : write_failure reason = benc (failure_value reason).
Proof. unfold write_failure, failure_value. cbn [benc]. rewrite benc_entries_cons. cbn [benc benc_entries_with]. unfold benc_key. rewrite <- !app_assoc. reflexivity. Qed.

(* the dictionaries are in canonical (ascending key) order *)
Theorem announce_value_canonical c i iv p4 p6 w : canonical (announce_value c i iv p4 p6 w) = true.
Proof. destruct w; reflexivity. Qed.

Theorem failure_value_canonical reason : canonical (failure_value reason) = true.
Proof. reflexivity. Qed.

Theorem scrape_value_canonical files :
  keys_sorted (map fst files) = true -> canonical (scrape_value files) = true.
Proof.
  intros H. unfold scrape_value. cbn [canonical map fst keys_sorted andb].
  assert (E : map fst (map scrape_entry_value files) = map fst files).
  { rewrite map_map. apply map_ext. intros f. reflexivity. }
  rewrite E, H. cbn [andb]. rewrite andb_true_r.
  clear E H. induction files as [|f t IH]; cbn [map]; [reflexivity|].
  unfold scrape_entry_value at 1. rewrite IH. reflexivity.
Qed.

(* ---------- the query-string walk equals a fold over well-formed key=value segments ---------- *)
Section Walk.
  Context {St : Type}.
  Variable kv : St -> list N -> list N -> option St.

  Definition clean (l : list N) : Prop := Forall (fun c => c <> ch_eq /\ c <> ch_amp) l.

  Fixpoint render (segs : list (list N * list N)) : list N :=
    match segs with
    | [] => []
    | [(k, v)] => k ++ ch_eq :: v
    | (k, v) :: t => k ++ ch_eq :: v ++ ch_amp :: render t
    end.

  Fixpoint fold_kv (st : St) (segs : list (list N * list N)) : option St :=
    match segs with
    | [] => Some st
    | (k, v) :: t => match kv st k v with Some st' => fold_kv st' t | None => None end
    end.

  Lemma positions_of_app c i a b : positions_of c i (a ++ b) = positions_of c i a ++ positions_of c (i + length a) b.
  Proof.
    revert i. induction a as [|x a IH]; intros i; cbn [positions_of app length].
    - rewrite Nat.add_0_r. reflexivity.
    - rewrite IH. replace (S i + length a)%nat with (i + S (length a))%nat by lia. destruct (N.eqb x c); reflexivity.
  Qed.

  Lemma positions_of_none c i l : Forall (fun x => x <> c) l -> positions_of c i l = [].
  Proof.
    revert i. induction l as [|x l IH]; intros i H; cbn; [reflexivity|].
    inversion H as [|? ? Hx Hl]; subst. destruct (N.eqb_spec x c); [contradiction|]. apply IH, Hl.
  Qed.

  Lemma slice_mid {A} (x y z : list A) : slice (length x) (length x + length y) (x ++ y ++ z) = y.
  Proof.
    unfold slice. rewrite skipn_app, skipn_all, Nat.sub_diag. cbn [skipn app].
    replace (length x + length y - length x)%nat with (length y) by lia.
    rewrite firstn_app, firstn_all, Nat.sub_diag. cbn. apply app_nil_r.
  Qed.

  Lemma clean_no c l : clean l -> (c = ch_eq \/ c = ch_amp) -> Forall (fun x => x <> c) l.
  Proof. intros H Hc. eapply Forall_impl; [|exact H]. cbn. intros a [A B]. destruct Hc; subst; assumption. Qed.

  Lemma walk_render segs : forall pre st,
    segs <> [] -> Forall (fun kvp => clean (fst kvp) /\ clean (snd kvp)) segs ->
    walk kv (pre ++ render segs)
         (positions_of ch_eq (length pre) (render segs)) (positions_of ch_amp (length pre) (render segs))
         (length pre) st
    = fold_kv st segs.
  Proof.
    induction segs as [|[k v] rest IH]; intros pre st Hne Hwf; [congruence|].
    inversion Hwf as [|? ? [Hk Hv] Hrest]; subst. cbn [fst snd] in Hk, Hv.
    pose proof (clean_no ch_eq k Hk (or_introl eq_refl)) as Hk_eq.
    pose proof (clean_no ch_amp k Hk (or_intror eq_refl)) as Hk_amp.
    pose proof (clean_no ch_eq v Hv (or_introl eq_refl)) as Hv_eq.
    pose proof (clean_no ch_amp v Hv (or_intror eq_refl)) as Hv_amp.
    destruct rest as [|kv2 rest'].
    - (* last segment *)
      cbn [render fold_kv].
      rewrite (positions_of_app ch_eq), (positions_of_none ch_eq _ k Hk_eq). cbn [app positions_of].
      rewrite N.eqb_refl. rewrite (positions_of_none ch_eq _ v Hv_eq).
      rewrite (positions_of_app ch_amp), (positions_of_none ch_amp _ k Hk_amp). cbn [app positions_of].
      replace (N.eqb ch_eq ch_amp) with false by reflexivity. rewrite (positions_of_none ch_amp _ v Hv_amp).
      cbn [walk].
      destruct (Nat.ltb_spec (length pre + length k) (length pre)); [lia|].
      assert (Hlen : length (pre ++ k ++ ch_eq :: v) = (length pre + length k + 1 + length v)%nat)
        by (rewrite !app_length; cbn [length]; lia).
      rewrite Hlen.
      destruct (Nat.ltb_spec (length pre + length k + 1 + length v) (length pre + length k + 1)); [lia|].
      rewrite (slice_mid pre k (ch_eq :: v)).
      replace (pre ++ k ++ ch_eq :: v) with ((pre ++ k ++ [ch_eq]) ++ v ++ []) by (rewrite app_nil_r, <- !app_assoc; reflexivity).
      replace (length pre + length k + 1)%nat with (length (pre ++ k ++ [ch_eq])) by (rewrite !app_length; cbn; lia).
      replace (length (pre ++ k ++ [ch_eq]) + length v)%nat with (length (pre ++ k ++ [ch_eq]) + length v)%nat by reflexivity.
      rewrite (slice_mid (pre ++ k ++ [ch_eq]) v []).
      destruct (kv st k v) as [st'|]; [|reflexivity].
      rewrite Nat.eqb_refl. reflexivity.
    - (* more segments follow *)
      assert (Hr : render ((k, v) :: kv2 :: rest') = k ++ ch_eq :: v ++ ch_amp :: render (kv2 :: rest')) by reflexivity.
      rewrite Hr. cbn [fold_kv]. set (R := render (kv2 :: rest')).
      rewrite (positions_of_app ch_eq), (positions_of_none ch_eq _ k Hk_eq). cbn [app positions_of].
      rewrite N.eqb_refl.
      rewrite (positions_of_app ch_eq _ v), (positions_of_none ch_eq _ v Hv_eq). cbn [app positions_of].
      replace (N.eqb ch_amp ch_eq) with false by reflexivity.
      rewrite (positions_of_app ch_amp), (positions_of_none ch_amp _ k Hk_amp). cbn [app positions_of].
      replace (N.eqb ch_eq ch_amp) with false by reflexivity.
      rewrite (positions_of_app ch_amp _ v), (positions_of_none ch_amp _ v Hv_amp). cbn [app positions_of].
      rewrite N.eqb_refl.
      cbn [walk].
      destruct (Nat.ltb_spec (length pre + length k) (length pre)); [lia|].
      destruct (Nat.ltb_spec (S (length pre + length k) + length v) (length pre + length k + 1)); [lia|].
      rewrite (slice_mid pre k (ch_eq :: v ++ ch_amp :: R)).
      replace (pre ++ k ++ ch_eq :: v ++ ch_amp :: R) with ((pre ++ k ++ [ch_eq]) ++ v ++ (ch_amp :: R))
        by (rewrite <- !app_assoc; reflexivity).
      replace (length pre + length k + 1)%nat with (length (pre ++ k ++ [ch_eq])) by (rewrite !app_length; cbn; lia).
      replace (S (length pre + length k) + length v)%nat with (length (pre ++ k ++ [ch_eq]) + length v)%nat
        by (rewrite !app_length; cbn; lia).
      rewrite (slice_mid (pre ++ k ++ [ch_eq]) v (ch_amp :: R)).
      destruct (kv st k v) as [st'|]; [|reflexivity].
      assert (Hne_len : Nat.eqb (length (pre ++ k ++ [ch_eq]) + length v)
                                (length ((pre ++ k ++ [ch_eq]) ++ v ++ ch_amp :: R)) = false).
      { apply Nat.eqb_neq. rewrite !app_length. cbn [length]. lia. }
      rewrite Hne_len.
      set (pre' := (pre ++ k ++ [ch_eq]) ++ v ++ [ch_amp]).
      replace ((pre ++ k ++ [ch_eq]) ++ v ++ ch_amp :: R) with (pre' ++ R) by (unfold pre'; rewrite <- !app_assoc; reflexivity).
      assert (Hl' : (length (pre ++ k ++ [ch_eq]) + length v + 1)%nat = length pre') by (unfold pre'; rewrite !app_length; cbn; lia).
      rewrite Hl'.
      replace (S (length (pre ++ k ++ [ch_eq]) + length v))%nat with (length pre') by lia.
      change (match kv2 with (k0, v0) => match kv st' k0 v0 with Some st'0 => fold_kv st'0 rest' | None => None end end)
        with (fold_kv st' (kv2 :: rest')).
      apply IH; [discriminate|exact Hrest].
  Qed.

  Theorem parse_query_render segs st :
    segs <> [] -> Forall (fun kvp => clean (fst kvp) /\ clean (snd kvp)) segs ->
    parse_query kv (render segs) st = fold_kv st segs.
  Proof. intros Hne Hwf. unfold parse_query. apply (walk_render segs [] st Hne Hwf). Qed.
End Walk.

(* ---------- decimal numbers ---------- *)
Definition is_digit (c : N) : Prop := 48 <= c <= 57.

Lemma parse_digits_snoc l d : forall acc,
  is_digit d ->
  parse_digits acc (l ++ [d]) = match parse_digits acc l with Some v => Some (v * 10 + (d - 48)) | None => None end.
Proof.
  induction l as [|c t IH]; intros acc Hd; cbn [app parse_digits].
  - unfold is_digit in Hd.
    replace (48 <=? d) with true by (symmetry; apply N.leb_le; lia).
    replace (d <=? 57) with true by (symmetry; apply N.leb_le; lia). reflexivity.
  - destruct ((48 <=? c) && (c <=? 57)); [apply IH, Hd|reflexivity].
Qed.

Definition pow10 (f : nat) : N := 10 ^ N.of_nat f.

Lemma pow10_S f : pow10 (S f) = 10 * pow10 f.
Proof. unfold pow10. rewrite Nat2N.inj_succ, N.pow_succ_r'. reflexivity. Qed.

Lemma itoa_f_spec f : forall n, n < pow10 (S f) ->
  parse_digits 0 (itoa_f (S f) n) = Some n /\ Forall is_digit (itoa_f (S f) n) /\ itoa_f (S f) n <> [].
Proof.
  induction f as [|f IH]; intros n Hn; cbn [itoa_f]; destruct (N.ltb_spec n 10) as [Hlt|Hge].
  1,3: cbn [parse_digits];
       replace (48 <=? 48 + n) with true by (symmetry; apply N.leb_le; lia);
       replace (48 + n <=? 57) with true by (symmetry; apply N.leb_le; lia); cbn [andb];
       (split; [f_equal; lia|]); (split; [constructor; [unfold is_digit; lia|constructor]|discriminate]).
  - exfalso. unfold pow10 in Hn. cbn in Hn. lia.
  - rewrite pow10_S in Hn.
    assert (Hq : n / 10 < pow10 (S f)) by (apply N.div_lt_upper_bound; lia).
    destruct (IH (n / 10) Hq) as (Hp & Hd & Hne).
    assert (Hdig : is_digit (48 + n mod 10)) by (unfold is_digit; pose proof (N.mod_lt n 10 ltac:(lia)); lia).
    change (if n / 10 <? 10 then [48 + n / 10] else itoa_f f (n / 10 / 10) ++ [48 + (n / 10) mod 10]) with (itoa_f (S f) (n / 10)).
    split; [|split].
    + rewrite parse_digits_snoc by exact Hdig. rewrite Hp. f_equal.
      pose proof (N.div_mod n 10 ltac:(lia)). lia.
    + apply Forall_app. split; [exact Hd|constructor; [exact Hdig|constructor]].
    + destruct (itoa_f (S f) (n / 10)); [congruence|discriminate].
Qed.

Lemma pow10_20 : pow10 20 = 100000000000000000000. Proof. reflexivity. Qed.

Lemma strip_plus_other (c : N) (t : list N) : c <> 43 -> match c with 43 => t | _ => c :: t end = c :: t.
Proof.
  intros H. destruct c as [|p]; [reflexivity|].
  do 6 (try (destruct p as [p|p|]; try reflexivity)). congruence.
Qed.

Theorem parse_uint_itoa max n : n <= max -> n < pow10 20 -> parse_uint max (itoa n) = Some n.
Proof.
  intros Hm Hn. unfold itoa, parse_uint. destruct (itoa_f_spec 19 n Hn) as (Hp & Hd & Hne).
  destruct (itoa_f 20 n) as [|c t] eqn:E; [congruence|].
  inversion Hd as [|? ? Hc _]; subst. unfold is_digit in Hc.
  rewrite (strip_plus_other c t) by lia.
  rewrite Hp. destruct (N.leb_spec n max); [reflexivity|lia].
Qed.

Lemma itoa_clean n : n < pow10 20 -> clean (itoa n).
Proof.
  intros Hn. destruct (itoa_f_spec 19 n Hn) as (_ & Hd & _). unfold itoa, clean.
  eapply Forall_impl; [|exact Hd]. unfold is_digit, ch_eq, ch_amp. intros a H. lia.
Qed.

Lemma urlencode_clean bs : bytes_ok bs -> clean (urlencode bs).
Proof.
  induction 1 as [|b t Hb _ IH]; cbn [urlencode flat_map app]; [constructor|].
  assert (Hd : forall v, v < 16 -> hexd v <> ch_eq /\ hexd v <> ch_amp).
  { intros v Hv. unfold hexd, ch_eq, ch_amp. destruct (v <? 10) eqn:E; [apply N.ltb_lt in E|apply N.ltb_ge in E]; lia. }
  assert (H1 : b / 16 < 16) by (apply N.div_lt_upper_bound; lia).
  assert (H2 : b mod 16 < 16) by (apply N.mod_lt; lia).
  constructor; [unfold ch_pct, ch_eq, ch_amp; lia|]. constructor; [apply Hd, H1|]. constructor; [apply Hd, H2|]. exact IH.
Qed.

Ltac prove_clean := unfold clean; cbn [str Ascii.N_of_ascii]; repeat (constructor; [unfold ch_eq, ch_amp; split; intro; discriminate|]); constructor.

(* ---------- scrape requests round-trip ---------- *)
Section RoundTrip.
  Variable url_decode : list N -> option (list N).
  Variable url_encode : list N -> list N.

  Lemma join_hashes_render hs :
    join_hashes hs = render (map (fun h => (str "info_hash", urlencode h)) hs).
  Proof.
    induction hs as [|h t IH]; [reflexivity|]. destruct t as [|h2 t']; [reflexivity|].
    change (join_hashes (h :: h2 :: t')) with (str "info_hash=" ++ urlencode h ++ [ch_amp] ++ join_hashes (h2 :: t')).
    rewrite IH.
    change (render (map (fun h0 => (str "info_hash", urlencode h0)) (h :: h2 :: t')))
      with (str "info_hash" ++ ch_eq :: urlencode h ++ ch_amp :: render (map (fun h0 => (str "info_hash", urlencode h0)) (h2 :: t'))).
    reflexivity.
  Qed.

  Lemma fold_scrape hs : forall acc,
    Forall (fun h => bytes_ok h /\ length h = 20%nat) hs ->
    fold_kv scrape_kv acc (map (fun h => (str "info_hash", urlencode h)) hs) = Some (acc ++ hs).
  Proof.
    induction hs as [|h t IH]; intros acc H; cbn [map fold_kv]; [rewrite app_nil_r; reflexivity|].
    inversion H as [|? ? [Hb Hl] Ht]; subst.
    unfold scrape_kv at 1. replace (seq_eqb (str "info_hash") "info_hash") with true by reflexivity.
    rewrite (urldecode20_urlencode h Hb Hl). rewrite (IH (acc ++ [h]) Ht). rewrite <- app_assoc. reflexivity.
  Qed.

  Theorem scrape_roundtrip hs :
    hs <> [] -> Forall (fun h => bytes_ok h /\ length h = 20%nat) hs ->
    parse_path url_decode (write_scrape_path [] hs) = Some (HReqScrape hs).
  Proof.
    intros Hne H. unfold write_scrape_path, parse_path. cbn [app].
    change (str "/scrape" ++ str "?" ++ join_hashes hs) with (str "/scrape" ++ 63 :: join_hashes hs).
    assert (Hs : split_q [] (str "/scrape" ++ 63 :: join_hashes hs) = Some (str "/scrape", join_hashes hs)) by reflexivity.
    rewrite Hs. replace (seq_eqb (str "/scrape") "/announce") with false by reflexivity.
    replace (seq_eqb (str "/scrape") "/scrape") with true by reflexivity.
    unfold parse_scrape_query. rewrite join_hashes_render.
    rewrite parse_query_render.
    - rewrite (fold_scrape hs [] H). cbn [app option_map]. destruct hs; [congruence|reflexivity].
    - destruct hs; [congruence|discriminate].
    - apply Forall_forall. intros x Hx. apply in_map_iff in Hx. destruct Hx as [h [<- Hin]]. cbn [fst snd].
      rewrite Forall_forall in H. split; [prove_clean|apply urlencode_clean, (H h Hin)].
  Qed.
End RoundTrip.

(* ---------- announce requests round-trip ---------- *)
Section AnnounceRoundTrip.
  Variable url_decode : list N -> option (list N).
  Variable url_encode : list N -> list N.

  Definition ev_segs (e : aevent) : list (list N * list N) :=
    match e with
    | EvStarted => [(str "event", str "started")] | EvStopped => [(str "event", str "stopped")]
    | EvCompleted => [(str "event", str "completed")] | EvEmpty => []
    end.

  Definition announce_segs (r : areq) : list (list N * list N) :=
    [(str "info_hash", urlencode (a_info_hash r)); (str "peer_id", urlencode (a_peer_id r));
     (str "port", itoa (a_port r)); (str "uploaded", itoa (a_uploaded r));
     (str "downloaded", itoa (a_downloaded r)); (str "left", itoa (a_left r))]
    ++ ev_segs (a_event r)
    ++ match a_numwant r with Some n => [(str "numwant", itoa n)] | None => [] end
    ++ match a_key r with Some k => [(str "key", url_encode k)] | None => [] end
    ++ [(str "compact", str "1")].

  Lemma announce_path_render r :
    write_announce_path url_encode [] r = str "/announce" ++ 63 :: render (announce_segs r).
  Proof.
    unfold write_announce_path, announce_segs, ev_segs.
    destruct (a_event r), (a_numwant r), (a_key r); cbn [app render]; rewrite <- ?app_assoc; reflexivity.
  Qed.

  (* what an announce request must satisfy to be written faithfully: 20-byte identifiers, a key
     whose url-encoding is at most 100 bytes (the parser's cap) and decodes back *)
  Definition areq_wf (r : areq) : Prop :=
    bytes_ok (a_info_hash r) /\ length (a_info_hash r) = 20%nat
    /\ bytes_ok (a_peer_id r) /\ length (a_peer_id r) = 20%nat
    /\ a_port r <= 65535 /\ a_uploaded r <= usize_max /\ a_downloaded r <= usize_max /\ a_left r <= usize_max
    /\ match a_numwant r with Some n => n <= usize_max | None => True end
    /\ match a_key r with
       | Some k => url_decode (url_encode k) = Some k /\ clean (url_encode k) /\ (utf8_length (url_encode k) <= 100)%nat
       | None => True
       end.

  Lemma usize_lt_pow10 n : n <= usize_max -> n < pow10 20.
  Proof. rewrite pow10_20. unfold usize_max. lia. Qed.

  Lemma kv_info_hash a v : announce_kv url_decode a (str "info_hash") v =
    match urldecode20 v with Some x => Some (mkAcc (Some x) (o_peer_id a) (o_port a) (o_left a) (o_uploaded a) (o_downloaded a) (o_event a) (o_numwant a) (o_key a)) | None => None end.
  Proof. reflexivity. Qed.
  Lemma kv_peer_id a v : announce_kv url_decode a (str "peer_id") v =
    match urldecode20 v with Some x => Some (mkAcc (o_info_hash a) (Some x) (o_port a) (o_left a) (o_uploaded a) (o_downloaded a) (o_event a) (o_numwant a) (o_key a)) | None => None end.
  Proof. reflexivity. Qed.
  Lemma kv_port a v : announce_kv url_decode a (str "port") v =
    match parse_uint 65535 v with Some x => Some (mkAcc (o_info_hash a) (o_peer_id a) (Some x) (o_left a) (o_uploaded a) (o_downloaded a) (o_event a) (o_numwant a) (o_key a)) | None => None end.
  Proof. reflexivity. Qed.
  Lemma kv_uploaded a v : announce_kv url_decode a (str "uploaded") v =
    match parse_uint usize_max v with Some x => Some (mkAcc (o_info_hash a) (o_peer_id a) (o_port a) (o_left a) (Some x) (o_downloaded a) (o_event a) (o_numwant a) (o_key a)) | None => None end.
  Proof. reflexivity. Qed.
  Lemma kv_downloaded a v : announce_kv url_decode a (str "downloaded") v =
    match parse_uint usize_max v with Some x => Some (mkAcc (o_info_hash a) (o_peer_id a) (o_port a) (o_left a) (o_uploaded a) (Some x) (o_event a) (o_numwant a) (o_key a)) | None => None end.
  Proof. reflexivity. Qed.
  Lemma kv_left a v : announce_kv url_decode a (str "left") v =
    match parse_uint usize_max v with Some x => Some (mkAcc (o_info_hash a) (o_peer_id a) (o_port a) (Some x) (o_uploaded a) (o_downloaded a) (o_event a) (o_numwant a) (o_key a)) | None => None end.
  Proof. reflexivity. Qed.
  Lemma kv_numwant a v : announce_kv url_decode a (str "numwant") v =
    match parse_uint usize_max v with Some x => Some (mkAcc (o_info_hash a) (o_peer_id a) (o_port a) (o_left a) (o_uploaded a) (o_downloaded a) (o_event a) (Some x) (o_key a)) | None => None end.
  Proof. reflexivity. Qed.
  Lemma kv_key a v : announce_kv url_decode a (str "key") v =
    if (100 <? utf8_length v)%nat then None
    else match url_decode v with Some k => Some (mkAcc (o_info_hash a) (o_peer_id a) (o_port a) (o_left a) (o_uploaded a) (o_downloaded a) (o_event a) (o_numwant a) (Some k)) | None => None end.
  Proof. reflexivity. Qed.
  Lemma kv_compact a : announce_kv url_decode a (str "compact") (str "1") = Some a.
  Proof. reflexivity. Qed.
  Lemma kv_event a e : e <> EvEmpty ->
    fold_kv (announce_kv url_decode) a (ev_segs e)
    = Some (mkAcc (o_info_hash a) (o_peer_id a) (o_port a) (o_left a) (o_uploaded a) (o_downloaded a) e (o_numwant a) (o_key a)).
  Proof. destruct e; intros H; try congruence; reflexivity. Qed.

  (* unknown keys are ignored *)
  Theorem unknown_key_ignored a k v :
    Forall (fun known => bytes_eqb k (str known) = false)
           ["info_hash"; "peer_id"; "port"; "left"; "uploaded"; "downloaded"; "event"; "compact"; "numwant"; "key"]%string ->
    announce_kv url_decode a k v = Some a.
  Proof.
    intros H. repeat match goal with H : Forall _ (_ :: _) |- _ => inversion H; clear H; subst end.
    unfold announce_kv, seq_eqb.
    repeat match goal with Hx : bytes_eqb k _ = false |- _ => rewrite Hx; clear Hx end. reflexivity.
  Qed.

  Lemma fold_kv_app {St} (kv : St -> list N -> list N -> option St) a b st :
    fold_kv kv st (a ++ b) = match fold_kv kv st a with Some st' => fold_kv kv st' b | None => None end.
  Proof.
    revert st. induction a as [|[k v] t IH]; intros st; cbn [app fold_kv]; [reflexivity|].
    destruct (kv st k v); [apply IH|reflexivity].
  Qed.

  Theorem announce_roundtrip r :
    areq_wf r -> parse_path url_decode (write_announce_path url_encode [] r) = Some (HReqAnnounce r).
  Proof.
    intros (Hih & Hihl & Hpid & Hpidl & Hport & Hup & Hdown & Hleft & Hnw & Hkey).
    rewrite announce_path_render. unfold parse_path.
    assert (Hs : split_q [] (str "/announce" ++ 63 :: render (announce_segs r)) = Some (str "/announce", render (announce_segs r))) by reflexivity.
    rewrite Hs. replace (seq_eqb (str "/announce") "/announce") with true by reflexivity.
    unfold parse_announce_query.
    rewrite parse_query_render.
    2:{ unfold announce_segs. discriminate. }
    2:{ unfold announce_segs.
        assert (C : forall k v, clean k -> clean v -> (fun kvp : list N * list N => clean (fst kvp) /\ clean (snd kvp)) (k, v)) by (intros; split; assumption).
        apply Forall_app. split.
        { repeat (apply Forall_cons; [apply C; [prove_clean|]|]); [ | | | | | |apply Forall_nil].
          - apply urlencode_clean; assumption.
          - apply urlencode_clean; assumption.
          - apply itoa_clean, usize_lt_pow10. unfold usize_max. lia.
          - apply itoa_clean, usize_lt_pow10, Hup.
          - apply itoa_clean, usize_lt_pow10, Hdown.
          - apply itoa_clean, usize_lt_pow10, Hleft. }
        apply Forall_app. split.
        { destruct (a_event r); cbn [ev_segs]; [| | |apply Forall_nil];
            (apply Forall_cons; [apply C; prove_clean|apply Forall_nil]). }
        apply Forall_app. split.
        { destruct (a_numwant r) as [n|]; [|apply Forall_nil].
          apply Forall_cons; [apply C; [prove_clean|apply itoa_clean, usize_lt_pow10, Hnw]|apply Forall_nil]. }
        apply Forall_app. split.
        { destruct (a_key r) as [k|]; [|apply Forall_nil].
          apply Forall_cons; [apply C; [prove_clean|tauto]|apply Forall_nil]. }
        apply Forall_cons; [apply C; prove_clean|apply Forall_nil]. }
    unfold announce_segs. cbn [app fold_kv].
    rewrite kv_info_hash, (urldecode20_urlencode _ Hih Hihl).
    rewrite kv_peer_id, (urldecode20_urlencode _ Hpid Hpidl).
    rewrite kv_port, (parse_uint_itoa 65535 _ Hport) by (apply usize_lt_pow10; unfold usize_max; lia).
    rewrite kv_uploaded, (parse_uint_itoa usize_max _ Hup (usize_lt_pow10 _ Hup)).
    rewrite kv_downloaded, (parse_uint_itoa usize_max _ Hdown (usize_lt_pow10 _ Hdown)).
    rewrite kv_left, (parse_uint_itoa usize_max _ Hleft (usize_lt_pow10 _ Hleft)).
    cbn [o_info_hash o_peer_id o_port o_left o_uploaded o_downloaded o_event o_numwant o_key acc0].
    rewrite !fold_kv_app.
    destruct r as [ih pid port up down lft ev nw key]. cbn [a_event a_numwant a_key a_info_hash a_peer_id a_port a_uploaded a_downloaded a_left] in *.
    assert (Hev : forall a, fold_kv (announce_kv url_decode) a (ev_segs ev)
                   = Some (mkAcc (o_info_hash a) (o_peer_id a) (o_port a) (o_left a) (o_uploaded a) (o_downloaded a)
                                 (match ev with EvEmpty => o_event a | e => e end) (o_numwant a) (o_key a))).
    { intros a. destruct ev; try (apply kv_event; discriminate). destruct a; reflexivity. }
    rewrite Hev. cbn [o_info_hash o_peer_id o_port o_left o_uploaded o_downloaded o_event o_numwant o_key].
    destruct nw as [n|]; cbn [app fold_kv].
    - rewrite kv_numwant, (parse_uint_itoa usize_max _ Hnw (usize_lt_pow10 _ Hnw)).
      cbn [o_info_hash o_peer_id o_port o_left o_uploaded o_downloaded o_event o_numwant o_key].
      destruct key as [k|]; cbn [app fold_kv].
      + destruct Hkey as (Hd & _ & Hl). rewrite kv_key. destruct (Nat.ltb_spec 100 (utf8_length (url_encode k))); [lia|].
        rewrite Hd. rewrite kv_compact. cbn. destruct ev; reflexivity.
      + rewrite kv_compact. cbn. destruct ev; reflexivity.
    - destruct key as [k|]; cbn [app fold_kv].
      + destruct Hkey as (Hd & _ & Hl). rewrite kv_key. destruct (Nat.ltb_spec 100 (utf8_length (url_encode k))); [lia|].
        rewrite Hd. rewrite kv_compact. cbn. destruct ev; reflexivity.
      + rewrite kv_compact. cbn. destruct ev; reflexivity.
  Qed.
End AnnounceRoundTrip.
