(* BEP 15 (UDP tracker protocol) written out independently of the source: the byte layout of
   every message as a table of big-endian fields.
     connect request   : protocol id 0x41727101980 (8) | action 0 (4) | transaction id (4)
     announce request  : connection id (8) | action 1 (4) | transaction id (4) | info hash (20) |
                         peer id (20) | downloaded (8) | left (8) | uploaded (8) | event (4) |
                         ip (4) | key (4) | num want (4) | port (2)                      = 98 bytes
     scrape request    : connection id (8) | action 2 (4) | transaction id (4) | info hash (20) *
     connect reply     : action 0 | transaction id | connection id (8)
     announce reply    : action 1 | transaction id | interval | leechers | seeders | (ip, port) *
     scrape reply      : action 2 | transaction id | (seeders, completed, leechers) *
     error reply       : action 3 | transaction id | message
     events            : 0 none, 1 completed, 2 started, 3 stopped *)
From Aquatic Require Export Layout.
Local Open Scope string_scope.

Definition bep15_protocol_id : N := 4497486125440%N.   (* 0x41727101980 *)

Definition bep15_events : list (string * Z) :=
  [("Started", 2%Z); ("Stopped", 3%Z); ("Completed", 1%Z); ("None", 0%Z)].

Definition bep15_announce_action : list (string * Z) := [("Announce", 1%Z)].

Definition bep15_announce_request : layout :=
  [("connection_id", FI64); ("action_placeholder", FEnum bep15_announce_action); ("transaction_id", FI32);
   ("info_hash", FBytes 20); ("peer_id", FBytes 20);
   ("bytes_downloaded", FI64); ("bytes_left", FI64); ("bytes_uploaded", FI64);
   ("event", FEnum bep15_events); ("ip_address", FBytes 4); ("key", FI32); ("peers_wanted", FI32); ("port", FU16)].

(* after the 4-byte action *)
Definition bep15_connect_response : layout := [("transaction_id", FI32); ("connection_id", FI64)].
Definition bep15_announce_fixed : layout :=
  [("transaction_id", FI32); ("announce_interval", FI32); ("leechers", FI32); ("seeders", FI32)].
Definition bep15_scrape_stats : layout := [("seeders", FI32); ("completed", FI32); ("leechers", FI32)].
Definition bep15_peer : layout := [("ip_address", FIp); ("port", FU16)].
