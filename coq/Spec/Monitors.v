(* Executable property monitors: decide, on a trace observed from the IMPLEMENTATION, whether
   the property itself holds - independently of the concrete model's representation.  They are
   what the driver evaluates to search for a concrete failing input when a proof obligation or a
   correspondence no longer checks. *)
From Aquatic Require Export RefSwarm UdpCheck.

Fixpoint nodupb (l : list N) : bool :=
  match l with [] => true | x :: t => negb (mem x t) && nodupb t end.

Definition inclb (a b : list N) : bool := forallb (fun x => mem x b) a.

(* C02 on one reply: distinct stored others, not the requester, bounded, complete enough *)
Definition selection_okb (key : N) (others : entries) (take : nat) (peers : list N) : bool :=
  nodupb peers && inclb peers (keys others) && negb (mem key peers)
  && (length peers <=? take)
  && (if length others <=? take then inclb (keys others) peers else (take - 1 <=? length peers)).

(* monitor bits: 0 = counts equal the reference tracker's, 1 = reply peer lists satisfy C02 *)
Definition mon_op (mask : N) (max_resp : nat) (r : rstate) (op : uop) (out : uout) : bool :=
  match op, out, snd (r_step r op) with
  | UAnnounce v6 hash key _ _ _ _ want _ _, OAnnounce s l peers _, RAnnounce s' l' =>
      asp mask 0 (Z.eqb s s' && Z.eqb l l')
      && asp mask 1 (selection_okb key (ref_remove key (r v6 hash)) (limit_udp want max_resp) peers)
  | UScrape _ _, OScrape st, RScrape st' => asp mask 0 (list_eqb zz_eqb st st')
  | UClean _ _ _, OClean _ _ _ _ _ _, RClean => true
  | _, _, _ => false
  end.

Fixpoint mon_history (mask : N) (max_resp : nat) (r : rstate) (i : N) (h : list (uop * uout)) : option N :=
  match h with
  | [] => None
  | (op, out) :: t =>
      if mon_op mask max_resp r op out then mon_history mask max_resp (fst (r_step r op)) (N.succ i) t
      else Some i
  end.

Definition mon_udp (mask : N) (c : nat * bool * list (uop * uout)) : N :=
  let '(max_resp, _, h) := c in
  (match mon_history mask max_resp rinit 0%N h with None => 0 | Some i => N.succ i end * 4)%N.

Definition mon_c01 := mon_udp 3%N.
Definition mon_c02 := mon_udp 2%N.

(* ---- http swarm ---- *)
From Aquatic Require Import HttpCheck HttpSwarmRefine.

Definition hmon_op (mask : N) (max_peers max_scrape : nat) (r : rstate) (op : hop) (out : hout) : bool :=
  match op, out, snd (hr_step r op) with
  | HAnnounce v6 hash key _ _ _ want _ _, HOAnnounce s l peers, HRAnnounce s' l' =>
      asp mask 0 (Nat.eqb s s' && Nat.eqb l l')
      && asp mask 1 (selection_okb key (ref_remove key (r v6 hash)) (limit_http want max_peers) peers)
  | HScrape v6 hashes, HOScrape files, HRScrape =>
      let asked := firstn (Nat.min (length hashes) max_scrape) hashes in
      asp mask 0 (nodupb (map fst files) && inclb (map fst files) asked && inclb asked (map fst files)
                  && forallb (fun f => let '(s, l) := ref_counts (r v6 (fst f)) in
                                       Nat.eqb (fst (snd f)) s && Nat.eqb (snd (snd f)) l) files)
  | HClean _ _ _, HOClean _ _, HRClean => true
  | _, _, _ => false
  end.

Fixpoint hmon_history (mask : N) (mp ms : nat) (r : rstate) (i : N) (h : list (hop * hout)) : option N :=
  match h with
  | [] => None
  | (op, out) :: t =>
      if hmon_op mask mp ms r op out then hmon_history mask mp ms (fst (hr_step r op)) (N.succ i) t
      else Some i
  end.

Definition mon_http (mask : N) (c : nat * nat * list (hop * hout)) : N :=
  let '(mp, ms, h) := c in
  (match hmon_history mask mp ms rinit 0%N h with None => 0 | Some i => N.succ i end * 4)%N.

Definition mon_c07 := mon_http 3%N.
Definition mon_c02_http := mon_http 2%N.

(* ---- C20: operator reports on the udp tracker ---- *)
From Aquatic Require Import Export.

Definition fh_eqb (a b : bool * N) : bool := Bool.eqb (fst a) (fst b) && N.eqb (snd a) (snd b).

Fixpoint add_seen (x : bool * N) (l : list (bool * N)) : list (bool * N) :=
  match l with
  | [] => [x]
  | y :: t => if fh_eqb x y then l else y :: add_seen x t
  end.

Definition stored_total (r : rstate) (seen : list (bool * N)) (v6 : bool) : nat * nat :=
  let mine := filter (fun x => Bool.eqb (fst x) v6) seen in
  (length (filter (fun x => match r v6 (snd x) with [] => false | _ => true end) mine),
   list_sum (map (fun x => length (r v6 (snd x))) mine)).

Definition stored_pid_count (r : rstate) (seen : list (bool * N)) (pid : N) : nat :=
  list_sum (map (fun x => length (filter (fun e => N.eqb (p_id (snd e)) pid) (r (fst x) (snd x)))) seen).

Definition msgs_of (o : uout) : list statmsg :=
  match o with OAnnounce _ _ _ m => m | OClean _ _ _ _ m _ => m | OScrape _ => [] end.

Definition msg_pid (m : statmsg) : N := match m with PeerAdded p => p | PeerRemoved p => p end.

(* expected export lines: torrents with a peer after expiry (state before forbidden ones go) *)
Definition expected_lines (r : rstate) (seen : list (bool * N)) (now : N) : list (bool * N * nat * nat) :=
  flat_map (fun x => let l := ref_clean now (r (fst x) (snd x)) in
                     match l with [] => [] | _ => [(fst x, snd x, count_seeders l, length l - count_seeders l)] end) seen.

(* bits: 2 = tallies equal stored peers per id (checked after every op), 3 = totals, 4 = export lines *)
Definition mon20_op (mask : N) (pc : bool) (r : rstate) (seen : list (bool * N)) (t : tally) (pids : list N)
           (op : uop) (out : uout) : bool * tally * list N :=
  let r' := fst (r_step r op) in
  let seen' := match op with UAnnounce v6 h _ _ _ _ _ _ _ _ => add_seen (v6, h) seen | _ => seen end in
  let t' := fold_left tally_step (msgs_of out) t in
  let pids' := fold_left (fun acc m => if mem (msg_pid m) acc then acc else msg_pid m :: acc) (msgs_of out) pids in
  let pids'' := match op with UAnnounce _ _ _ _ _ pid _ _ _ _ => if mem pid pids' then pids' else pid :: pids' | _ => pids' end in
  let tally_ok := if pc then forallb (fun p => Nat.eqb (tally_count t' p) (stored_pid_count r' seen' p)) pids'' else true in
  let rest :=
    match op, out with
    | UClean now _ _, OClean t4 p4 t6 p6 _ lines =>
        let '(et4, ep4) := stored_total r' seen' false in
        let '(et6, ep6) := stored_total r' seen' true in
        asp mask 3 (Nat.eqb t4 et4 && Nat.eqb p4 ep4 && Nat.eqb t6 et6 && Nat.eqb p6 ep6)
        && asp mask 4 (perm_eqb line_eqb lines (expected_lines r seen' now))
    | _, _ => true
    end in
  (asp mask 2 tally_ok && rest, t', pids'').

Fixpoint mon20_history (mask : N) (pc : bool) (r : rstate) (seen : list (bool * N)) (t : tally) (pids : list N)
         (i : N) (h : list (uop * uout)) : option N :=
  match h with
  | [] => None
  | (op, out) :: rest =>
      let '(ok, t', pids') := mon20_op mask pc r seen t pids op out in
      if ok then
        mon20_history mask pc (fst (r_step r op))
                      (match op with UAnnounce v6 hh _ _ _ _ _ _ _ _ => add_seen (v6, hh) seen | _ => seen end)
                      t' pids' (N.succ i) rest
      else Some i
  end.

Definition mon_c20 (c : nat * bool * list (uop * uout)) : N :=
  let '(_, pc, h) := c in
  (match mon20_history 28%N pc rinit [] [] [] 0%N h with None => 0 | Some i => N.succ i end * 4)%N.

(* known-finding classes of C20 present in a history (decided on the reference state):
   bit 0: an announce finds its key stored under ANOTHER peer id ("tally-peer-id-change");
   bit 1: a cleaning pass drops a forbidden torrent that still has unexpired peers
          ("forbidden-torrent-with-peers": peers total and tallies keep counting them) *)
Fixpoint c20_classes (r : rstate) (seen : list (bool * N)) (h : list (uop * uout)) : N :=
  match h with
  | [] => 0%N
  | (op, _) :: rest =>
      let here :=
        match op with
        | UAnnounce v6 hh key _ _ pid _ _ _ _ =>
            match find_key key (r v6 hh) with
            | Some p => if N.eqb (p_id p) pid then 0%N else 1%N
            | None => 0%N
            end
        | UClean now mode acl =>
            if existsb (fun x => negb (allows mode acl (snd x))
                                 && match ref_clean now (r (fst x) (snd x)) with [] => false | _ => true end) seen
            then 2%N else 0%N
        | _ => 0%N
        end in
      N.lor here (c20_classes (fst (r_step r op))
                              (match op with UAnnounce v6 hh _ _ _ _ _ _ _ _ => add_seen (v6, hh) seen | _ => seen end) rest)
  end.

Definition c20_class_code (c : nat * bool * list (uop * uout)) : N :=
  let '(_, _, h) := c in (c20_classes rinit [] h * 4)%N.

(* ---- C10: expiry seen through the reports of a cleaning pass ----
   torrents = stored torrents after the pass; peers = unexpired peers (counted before forbidden
   torrents are dropped, as the implementation does - see the C20 finding) *)
Definition unexpired_total (r : rstate) (seen : list (bool * N)) (now : N) (v6 : bool) : nat :=
  list_sum (map (fun x => length (ref_clean now (r v6 (snd x)))) (filter (fun x => Bool.eqb (fst x) v6) seen)).

Fixpoint mon10_history (max_resp : nat) (r : rstate) (seen : list (bool * N)) (i : N) (h : list (uop * uout)) : option N :=
  match h with
  | [] => None
  | (op, out) :: rest =>
      let r' := fst (r_step r op) in
      let seen' := match op with UAnnounce v6 hh _ _ _ _ _ _ _ _ => add_seen (v6, hh) seen | _ => seen end in
      let ok :=
        mon_op 1%N max_resp r op out
        && match op, out with
           | UClean now _ _, OClean t4 p4 t6 p6 _ _ =>
               Nat.eqb t4 (fst (stored_total r' seen' false)) && Nat.eqb t6 (fst (stored_total r' seen' true))
               && Nat.eqb p4 (unexpired_total r seen' now false) && Nat.eqb p6 (unexpired_total r seen' now true)
           | _, _ => true
           end in
      if ok then mon10_history max_resp r' seen' (N.succ i) rest else Some i
  end.

Definition mon_c10 (c : nat * bool * list (uop * uout)) : N :=
  let '(max_resp, _, h) := c in
  (match mon10_history max_resp rinit [] 0%N h with None => 0 | Some i => N.succ i end * 4)%N.

(* ---- C11 on the http storage: after a cleaning pass under an access list the torrents kept are
   exactly the permitted ones that still have a peer (HOClean reports the torrent counts) ---- *)
Fixpoint hmon11_history (mp ms : nat) (r : rstate) (seen : list (bool * N)) (i : N) (h : list (hop * hout)) : option N :=
  match h with
  | [] => None
  | (op, out) :: rest =>
      let r' := fst (hr_step r op) in
      let seen' := match op with HAnnounce v6 hh _ _ _ _ _ _ _ => add_seen (v6, hh) seen | _ => seen end in
      let ok :=
        hmon_op 1%N mp ms r op out
        && match op, out with
           | HClean _ _ _, HOClean t4 t6 =>
               Nat.eqb t4 (fst (stored_total r' seen' false)) && Nat.eqb t6 (fst (stored_total r' seen' true))
           | _, _ => true
           end in
      if ok then hmon11_history mp ms r' seen' (N.succ i) rest else Some i
  end.

Definition mon_c11_http (c : nat * nat * list (hop * hout)) : N :=
  let '(mp, ms, h) := c in
  (match hmon11_history mp ms rinit [] 0%N h with None => 0 | Some i => N.succ i end * 4)%N.
