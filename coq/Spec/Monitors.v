(* Executable property monitors: decide, on a trace observed from the IMPLEMENTATION, whether
   the property itself holds - independently of the concrete model's representation.  They are
   what the driver evaluates to search for a concrete failing input when a proof obligation or a
   correspondence no longer checks. *)
From Aquatic Require Export RefSwarm UdpCheck.

Fixpoint nodupb (l : list N) : bool :=
  match l with [] => true | x :: t => negb (mem x t) && nodupb t end.

Definition inclb (a b : list N) : bool := forallb (fun x => mem x b) a.

(* C02 on one reply: distinct stored others, not the requester, bounded, complete enough *)
Definition selection_okb (key : N) (others : entries) (take : nat) (peers : list N) : bool :=
  nodupb peers && inclb peers (keys others) && negb (mem key peers)
  && (length peers <=? take)
  && (if length others <=? take then inclb (keys others) peers else (take - 1 <=? length peers)).

(* monitor bits: 0 = counts equal the reference tracker's, 1 = reply peer lists satisfy C02 *)
Definition mon_op (mask : N) (max_resp : nat) (r : rstate) (op : uop) (out : uout) : bool :=
  match op, out, snd (r_step r op) with
  | UAnnounce v6 hash key _ _ _ _ want _ _, OAnnounce s l peers _, RAnnounce s' l' =>
      asp mask 0 (Z.eqb s s' && Z.eqb l l')
      && asp mask 1 (selection_okb key (ref_remove key (r v6 hash)) (limit_udp want max_resp) peers)
  | UScrape _ _, OScrape st, RScrape st' => asp mask 0 (list_eqb zz_eqb st st')
  | UClean _ _ _, OClean _ _ _ _ _ _, RClean => true
  | _, _, _ => false
  end.

Fixpoint mon_history (mask : N) (max_resp : nat) (r : rstate) (i : N) (h : list (uop * uout)) : option N :=
  match h with
  | [] => None
  | (op, out) :: t =>
      if mon_op mask max_resp r op out then mon_history mask max_resp (fst (r_step r op)) (N.succ i) t
      else Some i
  end.

Definition mon_udp (mask : N) (c : nat * bool * list (uop * uout)) : N :=
  let '(max_resp, _, h) := c in
  (match mon_history mask max_resp rinit 0%N h with None => 0 | Some i => N.succ i end * 4)%N.

Definition mon_c01 := mon_udp 3%N.
Definition mon_c02 := mon_udp 2%N.

(* ---- http swarm ---- *)
From Aquatic Require Import HttpCheck HttpSwarmRefine.

Definition hmon_op (mask : N) (max_peers max_scrape : nat) (r : rstate) (op : hop) (out : hout) : bool :=
  match op, out, snd (hr_step r op) with
  | HAnnounce v6 hash key _ _ _ want _ _, HOAnnounce s l peers, HRAnnounce s' l' =>
      asp mask 0 (Nat.eqb s s' && Nat.eqb l l')
      && asp mask 1 (selection_okb key (ref_remove key (r v6 hash)) (limit_http want max_peers) peers)
  | HScrape v6 hashes, HOScrape files, HRScrape =>
      let asked := firstn (Nat.min (length hashes) max_scrape) hashes in
      asp mask 0 (nodupb (map fst files) && inclb (map fst files) asked && inclb asked (map fst files)
                  && forallb (fun f => let '(s, l) := ref_counts (r v6 (fst f)) in
                                       Nat.eqb (fst (snd f)) s && Nat.eqb (snd (snd f)) l) files)
  | HClean _ _ _, HOClean _ _, HRClean => true
  | _, _, _ => false
  end.

Fixpoint hmon_history (mask : N) (mp ms : nat) (r : rstate) (i : N) (h : list (hop * hout)) : option N :=
  match h with
  | [] => None
  | (op, out) :: t =>
      if hmon_op mask mp ms r op out then hmon_history mask mp ms (fst (hr_step r op)) (N.succ i) t
      else Some i
  end.

Definition mon_http (mask : N) (c : nat * nat * list (hop * hout)) : N :=
  let '(mp, ms, h) := c in
  (match hmon_history mask mp ms rinit 0%N h with None => 0 | Some i => N.succ i end * 4)%N.

Definition mon_c07 := mon_http 3%N.
Definition mon_c02_http := mon_http 2%N.
