(* Reference tracker: per torrent and address family a duplicate-free collection of
   (key, peer) entries.  announce = remove the key, report the others, append unless stopped;
   scrape counts everything; clean keeps exactly the entries whose deadline is in the future.
   A torrent is "absent" iff its collection is [] - "never seen" and "all gone" are literally
   the same reference state. *)
From Coq Require Export Permutation.
From Aquatic Require Export PeerMap.

Definition ref_remove (k : N) (r : entries) : entries :=
  filter (fun e => negb (N.eqb (fst e) k)) r.

Definition find_key (k : N) (r : entries) : option peer :=
  option_map snd (find (fun e => N.eqb (fst e) k) r).

Definition ref_counts (r : entries) : nat * nat :=
  (count_seeders r, length r - count_seeders r).

Definition ref_announce (r : entries) (key : N) (st : status) (pid until : N)
  : entries * (nat * nat) :=
  let others := ref_remove key r in
  (if is_stopped st then others else others ++ [(key, mkPeer pid (is_seeding st) until)],
   ref_counts others).

Definition ref_clean (now : N) (r : entries) : entries := filter (peer_valid now) r.

(* representation invariant of the concrete peer map *)
Definition pmap_inv (cap : nat) (shrink : bool) (pm : pmap) : Prop :=
  NoDup (keys (pm_entries pm)) /\
  match pm with
  | Small l => length l <= cap
  | Large l ns => ns = count_seeders l /\ (shrink = true -> cap < length l)
  end.

(* abstraction relation: same entries up to storage order *)
Definition pm_refines (pm : pmap) (r : entries) : Prop := Permutation (pm_entries pm) r.
