(* Reference tracker for a whole swarm: a function from (address family, info hash) to the
   duplicate-free collection of entries.  There is no notion of a "present but empty" torrent:
   a torrent never seen and one whose peers are all gone are the same state. *)
From Aquatic Require Export RefTracker UdpSwarm.

Definition rstate := bool -> N -> entries.
Definition rinit : rstate := fun _ _ => [].

Definition rset (r : rstate) (v6 : bool) (h : N) (e : entries) : rstate :=
  fun f' h' => if Bool.eqb f' v6 && N.eqb h' h then e else r f' h'.

Inductive rout :=
| RAnnounce (seeders leechers : Z)
| RScrape (stats : list (Z * Z))
| RClean.

Definition r_scrape1 (r : rstate) (v6 : bool) (h : N) : Z * Z :=
  let '(s, l) := ref_counts (r v6 h) in (clamp_i32 s, clamp_i32 l).

Definition r_step (r : rstate) (op : uop) : rstate * rout :=
  match op with
  | UAnnounce v6 hash key ev bleft pid until want _ _ =>
      let '(e', (s, l)) := ref_announce (r v6 hash) key (status_of ev bleft) pid until in
      (rset r v6 hash e', RAnnounce (clamp_i32 s) (clamp_i32 l))
  | UScrape v6 hashes => (r, RScrape (map (r_scrape1 r v6) hashes))
  | UClean now mode acl =>
      (fun f h => if allows mode acl h then ref_clean now (r f h) else [], RClean)
  end.

Fixpoint r_final (r : rstate) (ops : list uop) : rstate :=
  match ops with [] => r | op :: t => r_final (fst (r_step r op)) t end.
