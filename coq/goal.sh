#!/bin/bash
# usage: goal.sh File.v LINE  -- show goals after LINE lines of File.v (dev helper, not part of checks)
f=$1; n=$2
tmp=$(dirname $f)/_goal_tmp.v
head -n $n $f > $tmp
echo "Show. " >> $tmp
coqc -Q /verif/coq Aquatic -w -notation-overridden $tmp 2>&1 | head -${3:-80}
rm -f $tmp $(dirname $f)/_goal_tmp.vo $(dirname $f)/_goal_tmp.glob $(dirname $f)/._goal_tmp.aux $(dirname $f)/_goal_tmp.vok $(dirname $f)/_goal_tmp.vos
