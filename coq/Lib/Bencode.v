(* Bencode values and their canonical encoding (dictionary keys in ascending byte order). *)
From Coq Require Import String.
From Aquatic Require Export HttpResp.
Local Open Scope N_scope.

Inductive bvalue :=
| BInt (n : N)
| BStr (s : list N)
| BDict (entries : list (list N * bvalue)).

Definition benc_key (k : list N) : list N := itoa (N.of_nat (length k)) ++ str ":" ++ k.

Definition benc_entries_with (f : bvalue -> list N) : list (list N * bvalue) -> list N :=
  fix go (l : list (list N * bvalue)) : list N :=
    match l with
    | [] => []
    | (k, x) :: t => benc_key k ++ f x ++ go t
    end.

Fixpoint benc (v : bvalue) : list N :=
  match v with
  | BInt n => str "i" ++ itoa n ++ str "e"
  | BStr s => itoa (N.of_nat (length s)) ++ str ":" ++ s
  | BDict es => str "d" ++ benc_entries_with benc es ++ str "e"
  end.

(* lexicographic order on byte strings *)
Fixpoint bytes_ltb (a b : list N) : bool :=
  match a, b with
  | [], [] => false
  | [], _ :: _ => true
  | _ :: _, [] => false
  | x :: a', y :: b' => if x <? y then true else if y <? x then false else bytes_ltb a' b'
  end.

Fixpoint keys_sorted (ks : list (list N)) : bool :=
  match ks with
  | a :: ((b :: _) as t) => bytes_ltb a b && keys_sorted t
  | _ => true
  end.

Fixpoint canonical (v : bvalue) : bool :=
  match v with
  | BInt _ | BStr _ => true
  | BDict es =>
      keys_sorted (map fst es)
      && (fix go (l : list (list N * bvalue)) : bool :=
            match l with [] => true | (_, x) :: t => canonical x && go t end) es
  end.

(* the replies as bencode values *)
Definition announce_value (complete incomplete interval : N) (peers4 peers6 : list (list N * N)) (warning : option (list N)) : bvalue :=
  BDict ([(str "complete", BInt complete); (str "incomplete", BInt incomplete); (str "interval", BInt interval);
          (str "peers", BStr (concat (map peer_bytes peers4))); (str "peers6", BStr (concat (map peer_bytes peers6)))]
         ++ match warning with Some w => [(str "warning message", BStr w)] | None => [] end).

Definition scrape_entry_value (f : list N * (N * N)) : list N * bvalue :=
  (fst f, BDict [(str "complete", BInt (fst (snd f))); (str "downloaded", BInt 0); (str "incomplete", BInt (snd (snd f)))]).

Definition scrape_value (files : list (list N * (N * N))) : bvalue :=
  BDict [(str "files", BDict (map scrape_entry_value files))].

Definition failure_value (reason : list N) : bvalue := BDict [(str "failure reason", BStr reason)].
