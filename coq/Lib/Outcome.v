(* Outcome of a Rust operation that may panic (slice index, unwrap, ArrayVec::push on a
   full vector, usize underflow, u32 overflow in debug builds).  Every such point of the
   modelled code is a checked operation; "cannot crash" claims are theorems [... <> Panic]. *)
From Coq Require Export List Arith NArith ZArith Bool Lia.
Export ListNotations.

Inductive outcome (A : Type) : Type :=
| Ok (a : A)
| Panic.
Arguments Ok {A} a.
Arguments Panic {A}.

Definition obind {A B} (x : outcome A) (f : A -> outcome B) : outcome B :=
  match x with Ok a => f a | Panic => Panic end.

Notation "'let!' x ':=' e 'in' k" := (obind e (fun x => k))
  (at level 200, x pattern, e at level 100, k at level 200, right associativity).

Definition is_ok {A} (x : outcome A) : bool :=
  match x with Ok _ => true | Panic => false end.

(* usize subtraction: panics (debug) / wraps (release) on underflow; modelled as Panic *)
Definition checked_sub (a b : nat) : outcome nat :=
  if b <=? a then Ok (a - b) else Panic.

Definition checked_pred (a : nat) : outcome nat := checked_sub a 1.

Lemma checked_sub_ok a b : b <= a -> checked_sub a b = Ok (a - b).
Proof. unfold checked_sub; intros H; destruct (Nat.leb_spec b a); [reflexivity|lia]. Qed.

Lemma obind_ok {A B} (x : outcome A) (f : A -> outcome B) b :
  obind x f = Ok b -> exists a, x = Ok a /\ f a = Ok b.
Proof. destruct x; simpl; intros H; [eauto|discriminate]. Qed.
