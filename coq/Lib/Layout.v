(* Wire layouts: a #[repr(C, packed)] struct is a list of named fields.  Field types: big-endian
   integers (zerocopy network_endian I32/I64/U16/U32), byte arrays, #[repr(i32)] enums whose
   discriminants are written `N_i32.to_be()` in the source (= value N on the wire, big endian),
   and the address-family parameter I of ResponsePeer<I> (4 or 16 octets).
   The generic encoder / decoder below are what `IntoBytes::as_bytes`,
   `TryFromBytes::try_read_from_prefix` and `FromBytes::read_from_prefix` do for such structs. *)
From Coq Require Export String.
From Aquatic Require Export Bytes.
Local Open Scope N_scope.

Inductive fty :=
| FI32 | FI64 | FU16 | FU32
| FBytes (n : nat)
| FEnum (discriminants : list (string * Z))
| FIp.

Definition layout := list (string * fty).

Inductive fval :=
| VInt (z : Z)
| VBytes (l : list N).

(* width in bytes; [ipw] = 4 or 16 *)
Definition fwidth (ipw : nat) (t : fty) : nat :=
  match t with
  | FI32 | FU32 | FEnum _ => 4
  | FI64 => 8
  | FU16 => 2
  | FBytes n => n
  | FIp => ipw
  end.

Definition layout_size (ipw : nat) (l : layout) : nat :=
  fold_right (fun f acc => (fwidth ipw (snd f) + acc)%nat) 0%nat l.

Definition enc_field (t : fty) (v : fval) : list N :=
  match t, v with
  | FI32, VInt z => be_enc 4 (to_unsigned 4 z)
  | FI64, VInt z => be_enc 8 (to_unsigned 8 z)
  | FU16, VInt z => be_enc 2 (Z.to_N z)
  | FU32, VInt z => be_enc 4 (Z.to_N z)
  | FEnum _, VInt z => be_enc 4 (to_unsigned 4 z)
  | FBytes _, VBytes l => l
  | FIp, VBytes l => l
  | _, _ => []
  end.

Fixpoint enc_struct (l : layout) (vs : list fval) : list N :=
  match l, vs with
  | (_, t) :: l', v :: vs' => enc_field t v ++ enc_struct l' vs'
  | _, _ => []
  end.

Definition enum_valid (ds : list (string * Z)) (z : Z) : bool :=
  existsb (fun d => Z.eqb (snd d) z) ds.

Definition dec_field (ipw : nat) (t : fty) (bytes : list N) : option fval :=
  match t with
  | FI32 => Some (VInt (to_signed 4 (be_dec bytes)))
  | FI64 => Some (VInt (to_signed 8 (be_dec bytes)))
  | FU16 | FU32 => Some (VInt (Z.of_N (be_dec bytes)))
  | FBytes _ | FIp => Some (VBytes bytes)
  | FEnum ds =>
      let z := to_signed 4 (be_dec bytes) in
      if enum_valid ds z then Some (VInt z) else None   (* TryFromBytes: invalid bit pattern *)
  end.

(* read a struct from the front of [bytes]: None when too short or an enum field is invalid *)
Fixpoint dec_prefix (ipw : nat) (l : layout) (bytes : list N) : option (list fval * list N) :=
  match l with
  | [] => Some ([], bytes)
  | (_, t) :: l' =>
      let w := fwidth ipw t in
      if (length bytes <? w)%nat then None
      else
        match dec_field ipw t (firstn w bytes), dec_prefix ipw l' (skipn w bytes) with
        | Some v, Some (vs, rest) => Some (v :: vs, rest)
        | _, _ => None
        end
  end.

(* well-formed field value: in range for its type *)
Definition wf_field (ipw : nat) (t : fty) (v : fval) : Prop :=
  match t, v with
  | FI32, VInt z | FEnum _, VInt z => signed_ok 4 z /\ match t with FEnum ds => enum_valid ds z = true | _ => True end
  | FI64, VInt z => signed_ok 8 z
  | FU16, VInt z => (0 <= z < 65536)%Z
  | FU32, VInt z => (0 <= z < 4294967296)%Z
  | FBytes n, VBytes l => length l = n /\ bytes_ok l
  | FIp, VBytes l => length l = ipw /\ bytes_ok l
  | _, _ => False
  end.

Fixpoint wf_vals (ipw : nat) (l : layout) (vs : list fval) : Prop :=
  match l, vs with
  | [], [] => True
  | (_, t) :: l', v :: vs' => wf_field ipw t v /\ wf_vals ipw l' vs'
  | _, _ => False
  end.
