(* Big-endian integers of fixed width and two's-complement conversion.  A byte is an [N] < 256. *)
From Coq Require Export List NArith ZArith Bool Lia.
From Coq Require Import Zify ZifyN ZifyBool.
Export ListNotations.
Local Open Scope N_scope.

Definition bytes_ok (l : list N) : Prop := Forall (fun b => b < 256) l.

Fixpoint bytes_eqb (a b : list N) : bool :=
  match a, b with
  | [], [] => true
  | x :: a', y :: b' => N.eqb x y && bytes_eqb a' b'
  | _, _ => false
  end.

Definition pow256 (w : nat) : N := 256 ^ N.of_nat w.

Fixpoint be_enc (w : nat) (n : N) : list N :=
  match w with
  | O => []
  | S w' => (n / pow256 w') mod 256 :: be_enc w' n
  end.

Fixpoint be_dec_acc (acc : N) (l : list N) : N :=
  match l with
  | [] => acc
  | b :: t => be_dec_acc (acc * 256 + b) t
  end.

Definition be_dec (l : list N) : N := be_dec_acc 0 l.

Lemma pow256_S w : pow256 (S w) = 256 * pow256 w.
Proof. unfold pow256. rewrite Nat2N.inj_succ, N.pow_succ_r'. reflexivity. Qed.

Lemma pow256_pos w : 0 < pow256 w.
Proof. unfold pow256. assert (256 ^ N.of_nat w <> 0) by (apply N.pow_nonzero; discriminate). lia. Qed.

Lemma be_enc_length w n : length (be_enc w n) = w.
Proof. induction w as [|w IH]; cbn; [reflexivity|]. rewrite IH. reflexivity. Qed.

Lemma be_enc_ok w n : bytes_ok (be_enc w n).
Proof.
  induction w as [|w IH]; cbn; constructor; [|exact IH].
  apply N.mod_lt. discriminate.
Qed.

Lemma be_dec_acc_enc w : forall acc n, be_dec_acc acc (be_enc w n) = acc * pow256 w + n mod pow256 w.
Proof.
  induction w as [|w IH]; intros acc n; cbn [be_enc be_dec_acc].
  - unfold pow256. cbn. rewrite N.mod_1_r. lia.
  - rewrite IH. rewrite pow256_S.
    pose proof (pow256_pos w) as Hp.
    rewrite (N.mul_comm 256 (pow256 w)).
    rewrite (N.mod_mul_r n (pow256 w) 256) by lia.
    lia.
Qed.

Lemma be_dec_enc w n : n < pow256 w -> be_dec (be_enc w n) = n.
Proof. intros H. unfold be_dec. rewrite be_dec_acc_enc. rewrite N.mod_small by exact H. lia. Qed.

Lemma be_dec_acc_app acc a b : be_dec_acc acc (a ++ b) = be_dec_acc (be_dec_acc acc a) b.
Proof. revert acc. induction a as [|x a IH]; intros acc; cbn; [reflexivity|apply IH]. Qed.

Lemma be_dec_acc_bound l : forall acc, bytes_ok l -> be_dec_acc acc l < (acc + 1) * pow256 (length l).
Proof.
  induction l as [|b t IH]; intros acc H; cbn [be_dec_acc length].
  - unfold pow256. cbn. lia.
  - inversion H as [|? ? Hb Ht]; subst. specialize (IH (acc * 256 + b) Ht).
    rewrite pow256_S. pose proof (pow256_pos (length t)). nia.
Qed.

Lemma be_dec_bound l : bytes_ok l -> be_dec l < pow256 (length l).
Proof. intros H. pose proof (be_dec_acc_bound l 0 H). unfold be_dec. lia. Qed.

(* decoding then re-encoding gives the same bytes *)
Lemma be_enc_dec_acc l : forall acc, bytes_ok l ->
  be_enc (length l) (be_dec_acc acc l) = l.
Proof.
  induction l as [|b t IH]; intros acc H; cbn [length be_enc be_dec_acc]; [reflexivity|].
  inversion H as [|? ? Hb Ht]; subst.
  rewrite IH by exact Ht. f_equal.
  pose proof (be_dec_acc_bound t (acc * 256 + b) Ht) as Hbd.
  assert (Hlo : (acc * 256 + b) * pow256 (length t) <= be_dec_acc (acc * 256 + b) t).
  { clear -Ht. revert Ht. generalize (acc * 256 + b) as a. induction t as [|x t IH]; intros a Ht; cbn [be_dec_acc length].
    - unfold pow256; cbn; lia.
    - inversion Ht; subst. rewrite pow256_S. specialize (IH (a * 256 + x) H2). nia. }
  pose proof (pow256_pos (length t)) as Hp.
  assert (Hq : be_dec_acc (acc * 256 + b) t / pow256 (length t) = acc * 256 + b).
  { symmetry. apply N.div_unique with (r := be_dec_acc (acc * 256 + b) t - (acc * 256 + b) * pow256 (length t)); lia. }
  rewrite Hq. rewrite N.add_comm, N.mod_add by discriminate. apply N.mod_small, Hb.
Qed.

Lemma be_enc_dec l : bytes_ok l -> be_enc (length l) (be_dec l) = l.
Proof. apply be_enc_dec_acc. Qed.

(* ---- two's complement ---- *)
Definition zpow256 (w : nat) : Z := Z.of_N (pow256 w).

Definition to_unsigned (w : nat) (z : Z) : N := Z.to_N (z mod zpow256 w).

Definition to_signed (w : nat) (n : N) : Z :=
  if (2 * Z.of_N n <? zpow256 w)%Z then Z.of_N n else (Z.of_N n - zpow256 w)%Z.

Definition signed_ok (w : nat) (z : Z) : Prop := (- zpow256 w <= 2 * z < zpow256 w)%Z.

Lemma to_unsigned_lt w z : to_unsigned w z < pow256 w.
Proof.
  unfold to_unsigned, zpow256. pose proof (pow256_pos w).
  pose proof (Z.mod_pos_bound z (Z.of_N (pow256 w)) ltac:(lia)). lia.
Qed.

Lemma signed_roundtrip w z : signed_ok w z -> to_signed w (to_unsigned w z) = z.
Proof.
  unfold signed_ok, to_signed, to_unsigned, zpow256. intros H. pose proof (pow256_pos w) as Hp.
  set (m := Z.of_N (pow256 w)) in *. assert (0 < m)%Z by lia.
  rewrite Z2N.id by (apply Z.mod_pos_bound; lia).
  destruct (Z_lt_le_dec z 0) as [Hneg|Hpos].
  - assert (E : (z mod m = z + m)%Z).
    { symmetry. apply Z.mod_unique with (q := (-1)%Z); lia. }
    rewrite E. destruct (Z.ltb_spec (2 * (z + m)) m); lia.
  - rewrite Z.mod_small by lia. destruct (Z.ltb_spec (2 * z) m); lia.
Qed.

Lemma unsigned_roundtrip w n : n < pow256 w -> to_unsigned w (to_signed w n) = n.
Proof.
  unfold to_signed, to_unsigned, zpow256. intros H.
  set (m := Z.of_N (pow256 w)) in *. assert (0 < m)%Z by (unfold m; lia).
  destruct (Z.ltb_spec (2 * Z.of_N n) m).
  - rewrite Z.mod_small by lia. lia.
  - replace ((Z.of_N n - m) mod m)%Z with (Z.of_N n).
    + lia.
    + apply Z.mod_unique with (q := (-1)%Z); lia.
Qed.

Lemma to_signed_ok w n : n < pow256 w -> (0 < w)%nat -> signed_ok w (to_signed w n).
Proof.
  unfold signed_ok, to_signed, zpow256. intros H Hw.
  set (m := Z.of_N (pow256 w)) in *. assert (0 < m)%Z by (unfold m; lia).
  destruct (Z.ltb_spec (2 * Z.of_N n) m); lia.
Qed.
