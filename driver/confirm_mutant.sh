#!/bin/bash
# usage: confirm_mutant.sh <seeded-dir containing patch.diff, demo/, meta.json>
# Confirms in a scratch worktree (outside /repo and /verif): with the change the existing suite
# passes and the demonstration fails; without it the demonstration passes.
set -u
SD=$1
WT=/tmp/confirm_wt
export CARGO_NET_OFFLINE=true
if [ ! -d $WT ]; then git -C /repo worktree add --detach $WT HEAD >/dev/null 2>&1; fi
cd $WT && git checkout -q --detach $(git -C /repo rev-parse HEAD) && git checkout -- . && git clean -fdq -e target -e _seeded
python3 - "$SD" "$WT" <<'PY'
import json,sys,shutil,os
sd,wt=sys.argv[1],sys.argv[2]
m=json.load(open(os.path.join(sd,'meta.json')))
for rel,name in m['demo_files'].items():
    dst=os.path.join(wt,rel); os.makedirs(os.path.dirname(dst),exist_ok=True)
    shutil.copy(os.path.join(sd,'demo',name),dst)
open('/tmp/confirm_demo_cmd','w').write(m['demo_cmd'])
PY
ln -sfn $SD $WT/_seeded
DEMO=$(cat /tmp/confirm_demo_cmd | sed -E "s#/tmp/mut_[A-Za-z0-9_]*#$WT#g; s#cd <[^>]*> *&& *##")
echo "== demo WITHOUT change: $DEMO"
( cd $WT && eval "$DEMO" ) > /tmp/confirm_without.log 2>&1; R0=$?
echo "exit $R0"
git -C $WT apply $SD/patch.diff || { echo "PATCH DOES NOT APPLY"; exit 2; }
echo "== demo WITH change"
( cd $WT && eval "$DEMO" ) > /tmp/confirm_with.log 2>&1; R1=$?
echo "exit $R1"
echo "== existing suite WITH change (demo files removed)"
python3 - "$SD" "$WT" <<'PY'
import json,sys,os
sd,wt=sys.argv[1],sys.argv[2]
m=json.load(open(os.path.join(sd,'meta.json')))
for rel in m['demo_files']:
    os.remove(os.path.join(wt,rel))
PY
( cd $WT && cargo nextest run --workspace --no-fail-fast --offline ) > /tmp/confirm_suite.log 2>&1; R2=$?
tail -3 /tmp/confirm_suite.log
git -C $WT checkout -- . ; git -C $WT clean -fdq -e target
echo "RESULT without=$R0 with=$R1 suite=$R2"
if [ $R0 -eq 0 ] && [ $R1 -ne 0 ] && [ $R2 -eq 0 ]; then echo CONFIRMED; else echo NOT-CONFIRMED; fi
