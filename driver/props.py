"""Which theorems and correspondence suites decide which property."""

UDP_CASE = "nat * bool * list (uop * uout)"

def udp_suite(name, mask, monitor=None, count_quick=480, count_thorough=6000):
    return dict(name=name, harness="udp-swarm", imports=["UdpCheck", "Consts", "Monitors"], case_type=UDP_CASE,
                check="udp_code %d udp_small_cap" % mask, monitor=monitor,
                count_quick=count_quick, count_thorough=count_thorough, nontrivial_bits=3, search_count=2400)

HTTP_CASE = "nat * nat * list (hop * hout)"

def http_suite(name, mask, monitor=None, count_quick=400, count_thorough=5000):
    return dict(name=name, harness="http-swarm", imports=["HttpCheck", "Consts", "Monitors"], case_type=HTTP_CASE,
                check="http_code %d http_small_cap" % mask, monitor=monitor,
                count_quick=count_quick, count_thorough=count_thorough, nontrivial_bits=3, search_count=2400)

WS_CASE = "nat * nat * N * N * list (wop * list wout)"

def ws_suite(name, count_quick=400, count_thorough=6000):
    return dict(name=name, harness="ws-swarm", imports=["WsCheck"], case_type=WS_CASE, check="ws_code", monitor="ws_mon",
                classify=("ws_class_code", {1: "conn-id-collision"}),
                count_quick=count_quick, count_thorough=count_thorough, nontrivial_bits=3)

PROPS = {}

def monitor_search(suite_name, count=48):
    """A theorem no longer holds: run the named suite and judge every case with its strict
    property monitor; the first case on which the PROPERTY fails is the replay."""
    def hook(pid, proofs, seed):
        from .engine import Finding
        from . import core
        suite = [s for s in PROPS[pid]["suites"] if s["name"] == suite_name][0]
        binary = core.build_harness()
        try:
            cases, stat = core.run_harness(binary, suite["harness"], seed, count, extra=suite.get("extra"))
            codes = core.eval_cases(pid + "_search", suite["imports"], suite["monitor"], suite["case_type"], cases)
        except Exception as e:  # the search is best effort
            print("[vcheck] failing-input search could not run: %r" % (e,))
            return []
        for idx, n, term in cases:
            if codes[idx] // 4 != 0:
                step = codes[idx] // 4 - 1
                return [Finding("proof", "theorem(s) %s no longer accepted by Coq; property monitor %s fails on the implementation's trace of case %d of suite %s (step %d)" % (
                                    ", ".join(proofs["failed"][:6]), suite["monitor"], idx, suite_name, step),
                                dict(suite=suite_name, harness_suite=suite["harness"], seed=seed, count=count, case=idx, keep=None,
                                     failed_theorems=proofs["failed"], monitor=suite["monitor"], monitor_failed_at_step=step,
                                     minimized_case=term[:20000], extra=suite.get("extra", {})),
                                failing_input=True)]
        return []
    return hook


PROPS["C01"] = dict(
    suites=[udp_suite("udp-swarm-counts", 0b00011, monitor="mon_c01")],
    rule="histories of 6..55 announce/scrape/clean ops on the real aquatic_udp TorrentMaps over pools of 4 info hashes, 7 source addresses "
         "(v4, v6, v4-mapped), 5 ports, all four events, left in {0,1,2^40,-1,i64::MIN}, numwant incl. i32::MIN/MAX, max_response_peers in "
         "{0..6,30}, cleaning at deadline-1/deadline/deadline+1; non-trivial = the history drives a torrent from the inline into the heap "
         "representation AND back (measured on the model's states); distinct = distinct case terms",
    modelled="crates/udp/src/swarm.rs PeerMap/SmallPeerMap/LargePeerMap/TorrentMapShards (sequential behaviour) is modelled by hand in "
             "coq/Model/PeerMap.v + UdpSwarm.v; IndexMap/ArrayVec semantics are modelled; tied by the correspondence run",
    assumptions=["sequential executions only (concurrency is C04)", "IndexMap::swap_remove / ArrayVec semantics as modelled"],
)

PROPS["C02"] = dict(
    suites=[udp_suite("udp-swarm-peers", 0b00010, monitor="mon_c02", count_quick=320),
            http_suite("http-swarm-peers", 0b00010, monitor="mon_c02_http", count_quick=320),
            ws_suite("ws-swarm-receivers", count_quick=240)],
    rule="same histories as C01 (real aquatic_udp TorrentMaps); compared: the exact reply peer list of every announce against the model under "
         "some offset pair the model allows; non-trivial = history crosses inline->heap->inline",
    modelled="extract_response_peers (udp, http: identical text) and the numwant/limit computation are modelled in coq/Model/PeerMap.v",
    assumptions=["the rand crate's random_range(a..b) returns a value in [a,b) (the offsets are universally quantified in the theorems)"],
)

PROPS["C07"] = dict(
    suites=[http_suite("http-swarm-counts", 0b01011, monitor="mon_c07"),
            dict(name="http-sys-bookkeeping", harness="http-sys", imports=["HttpSysCheck"], case_type="hsys_case", check="http_sys_code", monitor="http_sys_mon", count_quick=12, count_thorough=300, nontrivial_any=True, shrink=False, crash_is_violation=True)],
    rule="http-sys-bookkeeping: the running-tracker histories of C16 (several swarm workers, audit scrapes at the end): counts and peer lists against the reference tracker; histories of 8..67 announce/scrape/clean ops on the real aquatic_http swarm storage (hook H5, mock clock H1) over 4 info hashes, "
         "8 addresses (v4, v6, v4-mapped), ports incl. 0 and 65535, all events, left in {0,1,usize::MAX}, numwant None/0/1..9/usize::MAX, "
         "max_peers in {0..7,50}, max_scrape_torrents in {0,1,2,3,100}, repeated hashes in one scrape, cleaning at deadline-1/deadline/+1, "
         "all three access-list modes; non-trivial = history crosses inline->heap->inline",
    modelled="crates/http/src/workers/swarm/storage.rs is modelled by hand in coq/Model/HttpSwarm.v over the shared PeerMap.v",
    assumptions=["one swarm worker (sharding is C16)", "IndexMap / ArrayVec / BTreeMap semantics as modelled"],
)

PROPS["C10"] = dict(
    suites=[udp_suite("udp-swarm-expiry", 0b01011, monitor="mon_c10", count_quick=320),
            http_suite("http-swarm-expiry", 0b01011, monitor="mon_c07", count_quick=320),
            ws_suite("ws-swarm-expiry", count_quick=240),
            dict(name="valid-until", harness="valid-until", imports=["Expiry"], case_type="N * N * bool * list (N * bool)",
                 check="vu_code", monitor="vu_code", count_quick=400, count_thorough=20000, nontrivial_bits=3, shrink=False),
            dict(name="http-expiry-realtime", harness="http-expiry-probe", imports=["HttpSysCheck"], case_type="N * N * list (Z * Z)",
                 check="expiry_probe_code", monitor="expiry_probe_code", count_quick=1, count_thorough=4, nontrivial_bits=3, shrink=False)],
    rule="http-expiry-realtime: a RUNNING http tracker with cleaning every 6 s and max_peer_age 6 s; a peer announced 3 s after start must be "
         "there at 8 s (after the cleaning pass at 6 s; its deadline is 9 s) and gone at 14.5 s (after the pass at 12 s) - 15 s of real "
         "time, every instant at least 1.5 s away from a cleaning pass; udp/http: the C01/C07 histories, whose cleaning passes are placed one second before, at, and one second after stored deadlines "
         "(inline and heap maps, seeders and leechers, re-announces); valid-until: ValidUntil::new/new_with_now/valid on the real code under the "
         "mock clock for edge and random (sample, age) pairs, probed at deadline-2..deadline+1, 0, 2^32-2, 2^32-1; non-trivial = history crosses "
         "inline->heap->inline (swarm suites) / sample+age exceeds u32::MAX (valid-until)",
    modelled="ValidUntil arithmetic (Model/Expiry.v) and the three clean functions (PeerMap.v pm_clean, UdpSwarm.v, HttpSwarm.v; ws in WsSwarm.v)",
    assumptions=["the property is about the worker's time sample; when the cleaning timer fires and how stale the sample is are runtime: for the http swarm worker the refresh period is a regenerated fact (1 s) and the "
                 "real-time suite observes it; the udp socket worker refreshes every 256 polls (up to 12.8 s when idle); the ws worker samples per announce"],
)

_c20_udp = udp_suite("udp-swarm-reports", 0b11100, monitor="mon_c20", count_quick=400)
_c20_udp["classify"] = ("c20_class_code", {1: "tally-peer-id-change", 2: "forbidden-torrent-with-peers"})
PROPS["C20"] = dict(
    suites=[_c20_udp,
            dict(name="export-crash", harness="export-crash", imports=["Export"], case_type="nat * bool * nat * list (bool * N)",
                 check="export_code", monitor="export_code", count_quick=60, count_thorough=600, nontrivial_bits=3, shrink=False),
            dict(name="udp-stats-worker", harness="udp-stats", imports=["StatsSysCheck"], case_type="stats_case",
                 check="stats_code", monitor="stats_code", count_quick=3, count_thorough=16, nontrivial_bits=3, shrink=False,
                 crash_is_violation=True)],
    rule="udp-stats-worker: a RUNNING udp tracker (mio or io_uring, 1..2 socket workers) with statistics and cleaning every second, HTML report, per-client tallies: three phases of announces and stops from 6 peer ids of three client kinds over two torrents (a peer id in both torrents counts once); after each phase the report's torrent and peer totals and its client table are read back and compared with the reference; udp-swarm histories with statistics.peer_clients on in 2/3 of them, a statistics output enabled and exports written on every clean: "
         "the PeerAdded/PeerRemoved stream is read from the real statistics channel, totals from the SwarmWorkerStatistics atomics, the export "
         "file is read back; export-crash: a child process runs a cleaning pass with 0..4 exported torrents and aborts itself after the k-th "
         "export step (hook H4: created / each line / flushed / closed / renamed), for k = 0..n+5, with and without a previous file; "
         "non-trivial = inline->heap->inline (histories) / an abort strictly inside the export (crash suite)",
    modelled="clean_and_update_statistics / clean_and_get_statistics (totals, messages, export lines) in UdpSwarm.v; the statistics worker's "
             "tally fold and the export file protocol in Export.v",
    assumptions=["process crashes, not power loss (no fsync)", "the configured export path does not itself end in .tmp",
                 "statistics worker timing and the HTML/prometheus rendering are runtime"],
)

PROPS["C11"] = dict(
    suites=[dict(name="access-list-files", harness="access-list", imports=["AccessListFile"],
                 case_type="bool * list (acl_mode * option string * bool * list (N * bool * bool * bool))",
                 check="acl_code", monitor="acl_code", count_quick=400, count_thorough=20000, nontrivial_bits=3, shrink=False),
            udp_suite("udp-swarm-acl", 0b01011, monitor="mon_c10", count_quick=240),
            http_suite("http-swarm-acl", 0b01011, monitor="mon_c11_http", count_quick=240),
            ws_suite("ws-swarm-acl", count_quick=200),
            dict(name="udp-gate", harness="udp-sys", imports=["UdpSysCheck"], case_type="sys_case",
                 check="udp_sys_code", monitor="udp_sys_code", count_quick=12, count_thorough=120, nontrivial_any=True, shrink=False,
                 extra={"backend": "mio"}, crash_is_violation=True),
            dict(name="http-gate", harness="http-sys", imports=["HttpSysCheck"], case_type="hsys_case",
                 check="http_sys_code", monitor="http_sys_mon", count_quick=16, count_thorough=400, nontrivial_any=True, shrink=False,
                 crash_is_violation=True),
            dict(name="ws-gate", harness="ws-sys", imports=["WsSysCheck"], case_type="wsys_case",
                 check="ws_sys_code", monitor="ws_sys_mon", count_quick=16, count_thorough=300, nontrivial_any=True, shrink=False,
                 crash_is_violation=True)],
    rule="udp-gate / http-gate / ws-gate: the running-tracker suites of C06, C16 and C17 (half of their cases run with an allow or deny "
         "list naming some of the torrents used): an announce for a forbidden torrent must be refused by the socket worker with the "
         "protocol's error reply (the list file is REWRITTEN during the history and the tracker told to reload it by SIGUSR1, sometimes with an unreadable file: a failed reload must keep the previous list) and leave no trace in any swarm worker, a permitted one must be handled as if no list existed; "
         "access-list-files: sequences of 1..5 reloads through the real update_access_list (modes allow/deny/off) from generated files - "
         "empty, upper/lower/mixed-case hex, blank and white-space-only lines, leading/trailing blanks/tabs/VT/FF/CR, CRLF, missing final "
         "newline, a bad line (39/41/42 digits, non-hex, inner blank, non-ASCII, invalid UTF-8) at a random position, missing file, "
         "good-after-bad and bad-after-good - each followed by allows() queries for 4 hashes under all three modes; swarm suites: the "
         "C01/C07 histories, 40% of which clean under allow/deny lists that change between passes; non-trivial = the sequence contains a "
         "failed reload (files) / inline->heap->inline (histories)",
    modelled="access_list.rs (parse, reload, allows) in AccessListFile.v/AccessList.v; the storages' clean in UdpSwarm.v/HttpSwarm.v/WsSwarm.v; "
             "the announce gates in the handler models (UdpHandler.v, HttpConn.v, WsRouting.v)",
    assumptions=["Rust's str::trim also strips non-ASCII white space and lines() fails on invalid UTF-8: the model treats any byte >= 0x80 as a failed reload",
                 "the per-worker arc_swap::Cache and SIGUSR1 delivery are runtime"],
)

PROPS["C12"] = dict(
    suites=[dict(name="fuzz-misc", harness="fuzz-misc", imports=["FuzzCheck"], case_type="bool * list (N * N * N)",
                 check="fuzz_code", monitor="fuzz_code", count_quick=250, count_thorough=20000, nontrivial_bits=3, shrink=False,
                 crash_is_violation=True, crash_note="C12 allows no input to panic or abort a parser"),
            dict(name="udp-codec-malformed", harness="udp-codec", imports=["UdpCodecGen", "UdpCodecFacts"], case_type="bool * list codec_case",
                 check="udp_codec_code", monitor="udp_codec_code", count_quick=300, count_thorough=20000, nontrivial_bits=3, shrink=False,
                 crash_is_violation=True),
            dict(name="http-req-malformed", harness="http-req", imports=["HttpCodecCheck"], case_type="bool * list http_req_case",
                 check="http_req_code", monitor="http_req_code", count_quick=200, count_thorough=10000, nontrivial_bits=3, shrink=False,
                 crash_is_violation=True),
            dict(name="ws-codec-malformed", harness="ws-codec", imports=["WsCodecCheck"], case_type="bool * list ws_codec_case",
                 check="ws_codec_code", monitor="ws_codec_code", count_quick=100, count_thorough=10000, nontrivial_bits=3, shrink=False,
                 crash_is_violation=True),
            udp_suite("udp-swarm-extremes", 0b00011, monitor="mon_c01", count_quick=200),
            http_suite("http-swarm-extremes", 0b00011, monitor="mon_c07", count_quick=200),
            ws_suite("ws-swarm-extremes", count_quick=160)],
    rule="fuzz-misc (TESTING): per case one deeply nested message (JSON arrays/objects up to the 64 KiB websocket_max_message_size through the "
         "ws server and client parsers on a 2 MiB stack in a child process; bencode lists/dicts up to the http client's 2048-byte buffer) and "
         "8 inputs of 7 kinds (random bytes, peer ids of every client style, nested JSON, over-long ws strings, http request texts with odd "
         "'=', '&', '%', '?' and non-UTF-8, bencode fragments, udp headers + junk), each through EVERY parser (udp request/response, http "
         "request/path/response, ws in/out messages from text and binary frames, PeerId::client/Display/first_8_bytes_hex) under catch_unwind "
         "with a counting allocator: no panic, no abort, and bytes requested <= 128 * len + 8192 per call; codec suites: the malformed streams "
         "of C13/C14/C15 (truncation at random offsets, extension, bit flips, field overwrites, wrong lengths) compared with the models; swarm "
         "suites: the handler histories with numwant in {i32::MIN,-1,0,..,i32::MAX}, left in {-1,i64::MIN,usize::MAX}, max_response_peers in "
         "{0,1,..}; any implementation panic is a violation; the harness is a debug build (overflow checks on); non-trivial = a case mixing "
         "unstructured and structure-aware inputs (fuzz) / accepted and rejected inputs (codecs) / inline->heap->inline (histories)",
    modelled="the three swarm handlers with explicit panic points (PeerMap.v, UdpSwarm.v, HttpSwarm.v, WsSwarm.v); the udp/http/ws codec models are "
             "total functions mirroring checked reads; NOT modelled: httparse, simd-json/serde_json, serde_bencode, tungstenite, the regex engine "
             "and PeerClient::from_peer_id (fuzzed only)",
    assumptions=["third-party parser interiors are exercised by testing only", "allocation is measured as bytes requested per parser call by a counting global allocator",
                 "stack depth is probed with the socket workers' 2 MiB default thread stack"],
)

PROPS["C06"] = dict(
    suites=[dict(name="udp-sys-mio", harness="udp-sys", imports=["UdpSysCheck"], case_type="sys_case",
                 check="udp_sys_code", monitor="udp_sys_code", count_quick=24, count_thorough=250, nontrivial_bits=3, shrink=False,
                 extra={"backend": "mio"}, crash_is_violation=True),
            dict(name="udp-sys-uring", harness="udp-sys", imports=["UdpSysCheck"], case_type="sys_case",
                 check="udp_sys_code", monitor="udp_sys_code", count_quick=24, count_thorough=250, nontrivial_bits=3, shrink=False,
                 extra={"backend": "uring"}, crash_is_violation=True)],
    rule="udp-sys: RUNNING trackers (aquatic_udp::run in the harness process) on loopback, 4 configurations per backend (max_scrape_torrents "
         "in {1,2,3,70}, max_response_peers in {1,2,4,30}, access list off/allow/deny, 1 or 2 socket workers, v4+v6 sockets or one dual-stack "
         "v6 socket that sees v4 clients as ::ffff:127.0.0.1, max_connection_age 120 s or 1 s), 4 client sockets (two on 127.0.0.1, 127.0.0.2, "
         "::1); 8..19 datagrams per case: connects (valid, wrong protocol id, truncated, extended), announces (all events, left extremes, "
         "numwant extremes, port 0, truncated at a random offset, extended, one bit flipped, unknown event), scrapes (1..71 hashes, empty, "
         "length not a multiple of 20, truncated header), unknown actions, random bytes; carried connection id: own / issued to another "
         "socket of the same address / issued to another address / random / issued by another tracker instance / own with one bit flipped / "
         "expired (1-second ids, the tracker is kept busy until its clock has advanced 3 s); each datagram bracketed by marker connects that "
         "read the tracker's clock; observed: every datagram each client socket receives; non-trivial = the case has an answered non-connect "
         "datagram and an unanswered one",
    modelled="mio/socket.rs read_and_handle_requests + mio/mod.rs handle_request and their io_uring duplicates in uring/mod.rs, as one function "
             "state x source x bytes -> state x option reply (UdpHandler.v) over the codec model (UdpCodec.v), the validator model "
             "(Validator.v) and the canonical-address model (Addr.v); the swarm is abstract in the theorems and an oracle in the check, its "
             "replies are judged by the reference tracker (C01/C02 monitors)",
    assumptions=["little-endian host (connection id byte order)", "datagrams from source port 0 cannot be produced on loopback without raw sockets: "
                 "that clause is a theorem about the model only", "loopback delivers in order per socket pair; io_uring send completions are "
                 "given 15 ms", "the keyed hash is observed as a table; unobserved inputs take a value no sent id carries"],
)

PROPS["C16"] = dict(
    suites=[dict(name="http-sys", harness="http-sys", imports=["HttpSysCheck"], case_type="hsys_case",
                 check="http_sys_code", monitor="http_sys_mon", count_quick=36, count_thorough=1500, nontrivial_bits=3, shrink=False,
                 crash_is_violation=True)],
    rule="http-sys: per case a fresh RUNNING tracker (aquatic_http::run in a child process) with socket_workers x swarm_workers drawn from "
         "{1,2,3}^2, keep_alive on (3/4) or off, max_scrape_torrents in {1,2,3,100}, max_peers in {1,2,3,50}; a third of the cases behind a reverse proxy (X-Forwarded-For naming a different v4 / v4-mapped / v6 address from "
         "request to request on the same connection: the peer's address and family are the named ones); 4 TCP connections open at once "
         "(three from 127.0.0.1, one from ::1); 8..21 steps: announces (all events, left 0/1/5000, numwant absent/0/1/2/5/60, 7 ports, 6 "
         "torrents whose first bytes 0..5 spread over the swarm workers), scrapes of 1..9 hashes (known and unknown, repeated, spanning "
         "workers, more than max_scrape_torrents), complete-but-unusable requests and requests larger than the 2048-byte request buffer "
         "(no reply expected, then the connection is abandoned), bursts in which all four connections announce to four different torrents "
         "at the same moment; every request is cut into TCP segments: whole, at 1..4 random bytes, or one byte per segment; compared: the "
         "raw reply bytes with the model frame (status line, Content-Length, blank padding, body, CRLF; the previous reply's length field "
         "of that connection is an input of the model), whether the server closed, and the reply contents with the reference tracker; "
         "non-trivial = the case has a scrape spanning several swarm workers or an unanswered request",
    modelled="connection.rs write_response (frame in the reused buffer), calculate_request_consumer_index, scrape split/merge, the swarm "
             "workers' storages (HttpConn.v over HttpSwarm.v, HttpResp.v); request parsing is C14's model, not re-run here",
    assumptions=["requests are issued one at a time except in bursts, whose members touch different torrents (their replies do not depend on the order)",
                 "httparse, glommio channels, TLS, SO_REUSEPORT distribution of connections over socket workers are runtime",
                 "TCP short writes of the reply (`write`, not `write_all`) are runtime"],
    on_proof_failure=[monitor_search("http-sys")],
)

PROPS["C17"] = dict(
    suites=[dict(name="ws-sys", harness="ws-sys", imports=["WsSysCheck"], case_type="wsys_case",
                 check="ws_sys_code", monitor="ws_sys_mon", count_quick=40, count_thorough=600, nontrivial_bits=3, shrink=False,
                 crash_is_violation=True)],
    rule="ws-sys: per case a fresh RUNNING tracker (aquatic_ws::run inside a child process of the harness, plain TCP) with socket_workers x "
         "swarm_workers drawn from {1,2,3}^2 and max_scrape_torrents in {1,2,100}; 5 client slots holding WebSocket connections whose "
         "(socket worker, connection id) the hook probe reports - ids of different workers coincide regularly; 10..25 actions: open, "
         "announces (3 torrents on 3 different routing bytes, at most 3 announcers each, events none/started/completed/stopped, left "
         "absent/0/5, two offers with repeated offer ids, answers to offers really forwarded to that connection or bogus ones, sometimes a "
         "SECOND peer id), scrapes (absent list, empty list, single string, 1..4 hashes over several swarm workers, unknown hashes, more "
         "than max_scrape_torrents), invalid messages, orderly close handshakes and abrupt TCP shutdowns, re-opened slots; after every "
         "action everything every connection received is collected (quiet period 35 ms) and compared, per connection and in order, with "
         "what the model delivers; non-trivial = a case in which a message reached a connection other than the sender AND a connection was closed",
    modelled="socket/connection.rs handle_announce_request (one peer id per torrent per connection, bookkeeping for clean-up), "
             "handle_scrape_request + the writer's re-assembly, after_close; swarm/mod.rs dispatch and socket/mod.rs receive_out_messages "
             "(WsRouting.v) over the storage model (WsSwarm.v)",
    assumptions=["sequential semantics: every action is processed completely before the next one; the three channel meshes, their "
                 "interleavings (a ConnectionClosed control message overtaking an announce still in flight) and back-pressure are runtime",
                 "tungstenite framing, TLS, connection idle clean-up are runtime"],
    on_proof_failure=[monitor_search("ws-sys")],
)

PROPS["C19"] = dict(
    suites=[dict(name="watchdog", harness="watchdog", imports=["WatchdogCheck"], case_type="wd_case",
                 check="wd_code", monitor="wd_code", count_quick=43, count_thorough=172, nontrivial_bits=3, shrink=False,
                 crash_is_violation=True)],
    rule="watchdog: 43 fault scenarios (36 injected faults, 7 set-up failures), each in its own child process calling the real run(): udp (mio and io_uring) socket worker returning / "
         "panicking at its first loop pass (start-up) or its 41st with 1 or 2 socket workers; udp cleaning and statistics workers returning / "
         "panicking at pass 1 or 3 (1-second intervals); the signal worker of each of the three trackers returning / panicking on SIGUSR1; ws "
         "socket worker returning / panicking at its 1st or 4th accepted connection with 1x1 or 2x2 workers; panics inside detached async "
         "tasks of the glommio workers (http accept task, http connection task, http swarm request handler, ws connection task, ws swarm "
         "request handler) at the 1st or 3rd pass with 1x1 and 2x3 workers; set-up failures of ONE listener / socket of a socket worker while "
         "the other address family is fine (http, udp-mio, udp-uring: v4 port held by a socket without SO_REUSEPORT, or v6 address "
         "2001:db8::1 not assigned to any interface; ws: port held), fault time = start of run(); the child drives datagrams / TCP / WebSocket traffic until the "
         "hook reports that the fault fired, then waits up to 14 s for run() to return; checked: run() returned, with an Err, within scan "
         "period + 4 s of the fault (5 + 4 < 10); non-trivial = the fault fired",
    modelled="the scan loop at the end of run() in crates/{udp,http,ws}/src/lib.rs (Watchdog.v) with period and join() arms regenerated from "
             "the sources; that a panic inside a detached glommio task unwinds through LocalExecutor::run into the worker thread is NOT "
             "modelled - it is observed by the suite",
    assumptions=["std::thread::JoinHandle::is_finished becomes true once the closure returned or unwound", "scan duration and thread scheduling "
                 "are granted 4 s of slack", "a returning (not panicking) async sub-task of a glommio worker is not a worker failure",
                 "the prometheus endpoint thread is not exercised (feature off in the harness build)"],
)

PROPS["C04"] = dict(
    suites=[dict(name="udp-conc", harness="udp-conc", imports=["ConcCheck"], case_type="conc_case",
                 check="conc_code", monitor="lin_code", count_quick=300, count_thorough=20000, nontrivial_bits=3, shrink=False,
                 crash_is_violation=True),
            dict(name="udp-conc-stress", harness="udp-conc", imports=["ConcCheck"], case_type="conc_case",
                 check="lin_code", monitor="lin_code", count_quick=1500, count_thorough=60000, nontrivial_bits=3, shrink=False,
                 extra={"stress": "1"}, crash_is_violation=True)],
    rule="udp-conc-stress: free-running threads (no scheduler): per round three threads released together announce three different peers "
         "for a torrent not yet in the map, then a quiescent scrape; judged by the linearizability monitor (some order of the three announces "
         "must explain all replies and the final counts); udp-conc: small concurrent programs on the REAL shared TorrentMaps, one OS thread per operation, serialised by a scheduler at the "
         "hook probes H3 (announce: after the Arc clone / before the peer map lock; scrape: after each hash; clean: after a shard's "
         "snapshot, after each cleaned torrent, between the phases): an optional sequential prefix (an announce whose peer has expired by "
         "the time of a cleaning pass at t=50, leaving torrent 0 EMPTY but present; a seeder on torrent 1), 2..4 concurrent operations "
         "(announces on the two torrents with events none/started/completed/stopped, left 0/1, three ports; scrapes of one or both "
         "torrents; cleaning passes at t in {50,60,200}), a random schedule of 6 entries per thread followed by run-to-completion, and a "
         "final quiescent scrape; compared per thread: the replies with the interleaving model run on the SAME schedule; the monitor "
         "searches all orders of the concurrent operations for a sequential execution with the same replies; non-trivial = the "
         "concurrent part has both a cleaning pass and an announce",
    modelled="TorrentMapShards::{announce, scrape, clean_and_get_statistics} as instruction sequences under one lock each (UdpConcurrent.v), "
             "the per-torrent sequential behaviour is PeerMap.v (C01)",
    assumptions=["atomicity of each lock-protected section (parking_lot RwLock, Arc reference counts) is taken from the libraries",
                 "lock-level deadlock freedom rests on the acquisition order shard -> peer map (argued in DESIGN.md, not machine-checked): in the "
                 "model no instruction ever waits", "the access list is off during the concurrent runs (reload interplay is C11)",
                 "free-running multi-thread stress is not part of the check"],
    on_proof_failure=[monitor_search("udp-conc", count=300), monitor_search("udp-conc-stress", count=3000)],
)

PROPS["C05"] = dict(
    suites=[dict(name="validator", harness="validator", imports=["Validator"],
                 case_type="N * list (string * N) * list (N * string * string * bool)",
                 check="validator_code", monitor="validator_code", count_quick=300, count_thorough=20000, nontrivial_bits=3, shrink=False),
            dict(name="udp-sys-ids", harness="udp-sys", imports=["UdpSysCheck"], case_type="sys_case", check="udp_sys_code", monitor="udp_sys_code", count_quick=8, count_thorough=100, nontrivial_any=True, shrink=False, extra={"backend": "mio"}, crash_is_violation=True),
            dict(name="udp-sys-ids-uring", harness="udp-sys", imports=["UdpSysCheck"], case_type="sys_case", check="udp_sys_code", monitor="udp_sys_code", count_quick=8, count_thorough=100, nontrivial_any=True, shrink=False, extra={"backend": "uring"}, crash_is_violation=True),
            dict(name="udp-quiet", harness="udp-quiet", imports=["UdpSysCheck"], case_type="bool * list (bool * bool)", check="quiet_code", monitor="quiet_code", count_quick=4, count_thorough=16, nontrivial_any=True, shrink=False, crash_is_violation=True)],
    rule="udp-quiet: a tracker per case (mio with poll_timeout_ms = 1, or io_uring) with max_connection_age = 2 s, real time, no clock override: connect, one announce (must be answered), then NO traffic for 5 s (mio) / 9 s (io_uring), then an announce with the old id, which must stay unanswered - the validator's clock has to advance on a quiet tracker; udp-sys-ids: the running-tracker suite of C06 on both backends (own / foreign-address / forged / other-instance / bit-flipped / expired connection ids; the tracker's clock read from marker connects): requests are answered exactly when the id is valid for the source; real ConnectionValidator with the clock override (hook H2): max_connection_age in {0,1,59,60,61,120,2^31,2^32-2,2^32-1}, ids issued "
         "by the implementation at edge/random times for 6 addresses of both families, then queried at issue time, at t0+age-1 / t0+age / "
         "t0+age+1, at t0-59/-60/-61, at 2^32-1 and at random clocks, from the same and from other addresses, plus a third of all single-bit "
         "alterations, 4 double-bit alterations, a forged id and a far-future id per issued id; the keyed hash is read back from the "
         "implementation as a table which must be injective; non-trivial = the case has both accepted and rejected queries",
    modelled="validator.rs create_connection_id / connection_id_valid (Validator.v); BLAKE3 is a Section variable",
    assumptions=["BLAKE3 keyed-hash strength, key secrecy, 2^-32 guessing chance: cryptographic assumptions", "constant-time comparison and the "
                 "clock refresh cadence (every 256 polls) are runtime"],
)

PROPS["C13"] = dict(
    suites=[dict(name="udp-codec", harness="udp-codec", imports=["UdpCodecGen", "UdpCodecFacts"], case_type="bool * list codec_case",
                 check="udp_codec_code", monitor="udp_codec_bep15_code", count_quick=400, count_thorough=20000, nontrivial_bits=3, shrink=False),
            dict(name="udp-codec-bep15", harness="udp-codec", imports=["UdpCodecGen", "UdpCodecFacts"], case_type="bool * list codec_case",
                 check="udp_codec_bep15_code", monitor="udp_codec_bep15_code", count_quick=200, count_thorough=5000, nontrivial_bits=3, shrink=False,
                 extra={})],
    rule="real Request/Response write_bytes and parse_bytes on datagrams built from boundary and random field values of every message kind "
         "(connect, announce with all four events, scrape with 0..255 hashes against max_scrape_torrents in {0,1,2,70,255}, connect/announce "
         "v4/v6/scrape/error replies with 0..4 entries), 40% unmodified and 60% truncated at a random offset / extended / bit-flipped / action "
         "or event field overwritten / random bytes / port 0; compared: parse result field by field, error class, and the re-written bytes; "
         "suite 1 judges against the layouts regenerated from the source, suite 2 against the BEP 15 tables directly; non-trivial = a case "
         "holding both accepted and rejected datagrams",
    modelled="request.rs / response.rs parse_bytes and write_bytes (UdpCodec.v) over layouts regenerated from the #[repr(C, packed)] structs; "
             "zerocopy's prefix/exact-size/slice reads and enum validity as modelled in Lib/Layout.v",
    assumptions=["lossy UTF-8 decoding of error texts is compared on valid UTF-8 only"],
)

_WS_RULE = ("histories of 8..57 ops on the real aquatic_ws swarm storage (hook H6, mock clock H1): announces from 6 connections on 2 socket "
            "workers whose slot-map connection ids deliberately coincide, 5 peer ids (a connection mostly uses its own, sometimes another's), "
            "3 info hashes, all events, left absent/0/5, 0..4 offers with repeated offer ids, answers that half of the time answer an offer the "
            "tracker really forwarded to that connection and otherwise name random peers/offer ids, scrapes (incl. absent hash list), "
            "connection-closed notifications, cleaning passes under the three access-list modes; max_offers in {0,1,2,3,10}, max ages in "
            "{1..40}; compared: the complete list of (destination, message) pairs of every op; non-trivial = at least one offer AND one "
            "answer were forwarded")
PROPS["C08"] = dict(
    suites=[ws_suite("ws-swarm-bookkeeping"),
            dict(name="ws-sys-ownership", harness="ws-sys", imports=["WsSysCheck"], case_type="wsys_case",
                 check="ws_sys_code", monitor="ws_sys_mon", count_quick=30, count_thorough=400, nontrivial_any=True, shrink=False,
                 crash_is_violation=True)],
    rule="ws-sys-ownership: the running-tracker histories of C17 (connection close, a peer id used by two connections, 'stopped' from a connection that has no record of the torrent, end-of-case audit scrapes): the socket worker's clean-up record and the swarm worker's ownership rule together; " + _WS_RULE,
    modelled="crates/ws/src/workers/swarm/storage.rs (all of it) in WsSwarm.v; the socket worker's announced_info_hashes bookkeeping is "
             "modelled in WsRouting.v (C17)",
    assumptions=["one swarm worker's storage; channel interleavings between workers are C17", "IndexMap semantics as modelled"],
)
PROPS["C09"] = dict(
    suites=[ws_suite("ws-swarm-relay")],
    rule=_WS_RULE,
    modelled="handle_offers / handle_answer / extract_response_peers / clean of storage.rs in WsSwarm.v",
    assumptions=["rand's random_range contract (offsets universally quantified in the theorems)"],
)

PROPS["C03"] = dict(
    suites=[dict(name="addr", harness="addr", imports=["Addr"], case_type="bool * list addr_case", check="addr_code", monitor="addr_code",
                 count_quick=300, count_thorough=10000, nontrivial_bits=3, shrink=False),
            udp_suite("udp-swarm-keys", 0b00011, monitor="mon_c01", count_quick=240),
            http_suite("http-swarm-keys", 0b00011, monitor="mon_c07", count_quick=200),
            dict(name="udp-sys-addresses", harness="udp-sys", imports=["UdpSysCheck"], case_type="sys_case", check="udp_sys_code", monitor="udp_sys_code", count_quick=8, count_thorough=100, nontrivial_any=True, shrink=False, extra={"backend": "mio"}, crash_is_violation=True),
            dict(name="udp-sys-addresses-uring", harness="udp-sys", imports=["UdpSysCheck"], case_type="sys_case", check="udp_sys_code", monitor="udp_sys_code", count_quick=8, count_thorough=100, nontrivial_any=True, shrink=False, extra={"backend": "uring"}, crash_is_violation=True),
            dict(name="http-sys-addresses", harness="http-sys", imports=["HttpSysCheck"], case_type="hsys_case", check="http_sys_code", monitor="http_sys_mon", count_quick=12, count_thorough=300, nontrivial_any=True, shrink=False, crash_is_violation=True)],
    rule="udp-sys-addresses / http-sys-addresses: the running-tracker suites of C06 and C16 (clients on 127.0.0.1, 127.0.0.2, ::1 and v4 clients reaching a dual-stack v6 socket as ::ffff:127.0.0.1): the peers handed out must carry the canonical SOURCE address of the announcing datagram / connection and the announced port; addr: the real CanonicalSocketAddr::new and IpVersion::canonical_from_ip on IPv4, IPv4-mapped, near-mapped (one pattern octet off), "
         "loopback and random IPv6 addresses with ports {0,1,6881,65535}; the real aquatic_http parse_request (hook H5) behind / not behind a "
         "reverse proxy with 0..3 extra headers among {X-Forwarded-For (several occurrences), x-forwarded-for, X-Real-IP, Accept, "
         "X-Forwarded-For2}, values that are comma lists of IPv4 / IPv6 / mapped / malformed / empty texts with blanks and tabs, with "
         "httparse's own header view and Rust's IpAddr parser passed to the model as tables; swarm suites: udp announces carry random "
         "in-request ip fields and come from v4, v6 and v4-mapped sources (the key the model expects is computed from the canonical source)",
    modelled="CanonicalSocketAddr::new, IpVersion::canonical_from_ip, parse_forwarded_header and the peer-address choice of connection.rs (Addr.v)",
    assumptions=["the source address the kernel reports and str::parse::<IpAddr> are outside the model", "httparse's header extraction is taken as given",
                 "header-name matching is case-sensitive in the code; the property does not say otherwise"],
)

def c18_search(pid, proofs, seed):
    """A C18 theorem no longer holds for the regenerated constants: compute the least concrete
    configuration / request whose reply exceeds its buffer (from the source's own numbers)."""
    import re
    from .engine import Finding
    from . import core
    consts = {}
    for m in re.finditer(r"Definition (\w+) : (N|bool) := (\w+)", open(core.COQ + "/Gen/Consts.v").read()):
        v = m.group(3)
        consts[m.group(1)] = (v == "true") if m.group(2) == "bool" else int(re.sub(r"\D", "", v) or 0)
    out = []
    def add(what, **kw):
        out.append(Finding("proof", what, dict(kw, constants=consts, failed_theorems=proofs["failed"]), failing_input=True))
    buf = consts["udp_BUFFER_SIZE"]
    lim = consts["udp_MAX_RESPONSE_PEERS_LIMIT"] if consts.get("udp_validates_max_response_peers") else 10**9
    n = (buf - 20) // 18 + 1
    if lim >= n:
        add("udp (mio): a configuration with max_response_peers = %d is accepted, and an IPv6 announce reply with %d peers is %d bytes > BUFFER_SIZE %d: it cannot be serialized and is dropped" % (n, n, 20 + 18 * n, buf),
            config=dict(max_response_peers=n), reply_bytes=20 + 18 * n, buffer=buf)
    ubuf = consts["uring_RESPONSE_BUF_LEN"]
    ulim = min(lim, consts["uring_MAX_RESPONSE_PEERS_LIMIT"] if consts.get("uring_validates_max_response_peers") else 10**9)
    n = (ubuf - 20) // 18 + 1
    if ulim >= n:
        add("udp (io_uring): max_response_peers = %d is accepted, and an IPv6 announce reply with %d peers is %d bytes > RESPONSE_BUF_LEN %d" % (n, n, 20 + 18 * n, ubuf),
            config=dict(max_response_peers=n, use_io_uring=True), reply_bytes=20 + 18 * n, buffer=ubuf)
    rbuf, qbuf = consts["http_RESPONSE_BUFFER_SIZE"], consts["http_REQUEST_BUFFER_SIZE"]
    hashes = qbuf // 31
    need = 45 + 11 + 70 * hashes + 2   # one-digit counters: 68 + 2 bytes per torrent
    if need > rbuf:
        k = (rbuf - 58) // 70 + 1
        add("http: a scrape naming %d torrents fits the %d byte request buffer, but its reply (45 byte header + 11 + 70 per torrent with one-digit counters + CRLF = %d bytes) exceeds RESPONSE_BUFFER_SIZE %d: the connection is closed without a reply" % (k, qbuf, 45 + 11 + 70 * k + 2, rbuf),
            request="GET /scrape?" + "&".join(["info_hash=<20 raw bytes>"] * 2) + "&... (%d hashes)" % k, reply_bytes=45 + 11 + 70 * k + 2, buffer=rbuf)
    elif 45 + 11 + 108 * hashes + 2 > rbuf:
        add("http: a scrape naming %d torrents with 20-digit counters needs %d bytes > RESPONSE_BUFFER_SIZE %d" % (hashes, 45 + 11 + 108 * hashes + 2, rbuf),
            reply_bytes=45 + 11 + 108 * hashes + 2, buffer=rbuf)
    plim = consts["http_MAX_PEERS_LIMIT"] if consts.get("http_validates_max_peers") else 10**9
    n = (rbuf - 45 - 2 - 158) // 18 + 1
    if plim >= n:
        add("http: max_peers = %d is accepted, and an IPv6 announce reply with %d peers can need %d bytes > RESPONSE_BUFFER_SIZE %d" % (n, n, 45 + 158 + 18 * n + 2, rbuf),
            config=dict(max_peers=n), reply_bytes=45 + 158 + 18 * n + 2, buffer=rbuf)
    return out


PROPS["C18"] = dict(
    on_proof_failure=[c18_search],
    suites=[dict(name="http-resp", harness="http-resp", imports=["HttpRespCheck"], case_type="bool * list resp_case",
                 check="http_resp_code", monitor="http_resp_code", count_quick=200, count_thorough=5000, nontrivial_bits=3, shrink=False),
            dict(name="udp-codec-lengths", harness="udp-codec", imports=["UdpCodecGen", "UdpCodecFacts"], case_type="bool * list codec_case",
                 check="udp_codec_code", monitor="udp_codec_bep15_code", count_quick=200, count_thorough=5000, nontrivial_bits=3, shrink=False),
            dict(name="config-refusal", harness="config-refusal", imports=["HttpRespCheck"], case_type="bool * list (N * N * bool)",
                 check="refusal_code", monitor="refusal_code", count_quick=2, count_thorough=4, nontrivial_bits=3, shrink=False)],
    rule="http-resp: the real AnnounceResponse / ScrapeResponse / FailureResponse write_bytes for 0..50 peers of either family, 0..66 scrape "
         "entries, counters in {0,9,10,usize::MAX,random}, warnings, compared byte for byte with the model writers (whose lengths the "
         "theorems bound); udp-codec-lengths: the udp writers against the codec model; config-refusal: aquatic_udp::run and aquatic_http::run "
         "called with max_response_peers / max_peers one above the declared limit must return an error",
    modelled="reply writers (HttpResp.v, UdpCodec.v), the framing of connection.rs write_response (HttpResp.v frame_response), the start-up "
             "validations of the run() functions as regenerated boolean facts + limits (Gen/Consts.v)",
    assumptions=["a scrape request naming n info hashes is at least 31*n bytes long (\"info_hash=\" + 20 value bytes + separator); a udp scrape "
                 "datagram naming n hashes is 16+20n bytes", "TCP short writes of the framed reply (`write`, not `write_all`) are runtime"],
    known_reproduces=lambda kf: True,
)

PROPS["C14"] = dict(
    suites=[dict(name="http-req", harness="http-req", imports=["HttpCodecCheck"], case_type="bool * list http_req_case",
                 check="http_req_code", monitor="http_req_code", count_quick=300, count_thorough=10000, nontrivial_bits=3, shrink=False),
            dict(name="http-resp", harness="http-resp", imports=["HttpRespCheck"], case_type="bool * list resp_case",
                 check="http_resp_code", monitor="http_resp_code", count_quick=200, count_thorough=5000, nontrivial_bits=3, shrink=False)],
    rule="http-req: a quarter of the cases are requests written by the library (all events, identifiers all-zero / all-0xff / patterned / random, "
         "optional fields present or absent, keys with blanks, '&', '=', '%' and non-ASCII) which must be written exactly as the model writes "
         "them and parse back; the rest are hand-built paths: parameters in random order, identifiers with every byte raw or %-encoded in "
         "upper/lower hex, integer edge texts (65536, +1, -1, empty, 2^64), unknown and malformed segments (x=, =y, noequals, a=b=c, &&), "
         "10/21-character identifiers, characters above U+00FF, '%' followed by non-ASCII, wrong locations, missing '?'; compared: the parse "
         "result field by field; http-resp: announce/scrape/failure replies written by the real writers vs the model byte for byte, and "
         "parsed back by the real Response::parse_bytes and re-written; non-trivial = a case with both accepted and rejected paths",
    modelled="request.rs parse_query_string (both kinds), parse_http_get_path, the writers, utils.rs urlencode/urldecode (HttpCodec.v); "
             "response.rs writers (HttpResp.v) and bencode (Lib/Bencode.v)",
    assumptions=["urlencoding::{encode,decode} as tables", "httparse and serde_bencode not modelled (serde_bencode reads integers as i64: counters above i64::MAX do not parse back)"],
)

PROPS["C15"] = dict(
    suites=[dict(name="ws-codec", harness="ws-codec", imports=["WsCodecCheck"], case_type="bool * list ws_codec_case",
                 check="ws_codec_code", monitor="ws_codec_code", count_quick=160, count_thorough=10000, nontrivial_bits=3, shrink=False)],
    rule="ws-codec: (a) generated InMessages (announces with every event / none, left absent/0/5/usize::MAX, 0..2 offers, answers, scrapes with "
         "no / single / empty-array / several hashes; identifiers all-zero, all-0xff, patterned, and one made of quote, backslash, NUL, control "
         "and 0x7f/0x80 characters, bracket-only identifiers; SDP texts with quotes, backslashes, controls, U+2028/9 and non-BMP characters, texts "
         "ENDING in a backslash or holding 40 brackets; 1 message in 8 built so that an early string ends in a backslash and later strings "
         "hold more than 32 brackets, 2..5 offers) are written with the real "
         "to_ws_message, the text is parsed to a tree with serde_json and compared with the model's tree, and must parse back from a text AND a "
         "binary frame; (b) hand-built JSON objects (identifier strings of length 0,1,19,20,21,25,40 with characters up to U+0100, null / "
         "missing / wrongly typed / negative fields, unknown fields, malformed offers) parsed by the real from_ws_message vs the model; "
         "(c) all five OutMessage kinds written and parsed back; non-trivial = a case containing both an accepted and a rejected hand-built text",
    modelled="TwentyByteVisitor and the serde-derive shape of all messages (WsCodec.v)",
    assumptions=["serde_json's printer and simd-json's tokenizer are not modelled (bridged with serde_json::Value)",
                 "numbers are compared as u64; floats and negative numbers count as 'not a number' for every numeric field"],
)

LEVELS = {
    "C01": dict(
        text="Refinement theorem (Coq, induction over all finite histories, all offsets, any inline capacity): the sequential model of "
             "TorrentMaps never panics and shows exactly the reference tracker's counts and handout sets; the model is tied to the real "
             "TorrentMaps by running generated histories through both and comparing every reply inside Coq.",
        design_ref="DESIGN.md §7 C01", technique="Coq refinement proof + in-Coq correspondence check against the real TorrentMaps",
        note="Trusted: Coq kernel/vm_compute, hand-written model of swarm.rs (PeerMap.v, UdpSwarm.v), harness. Sequential semantics only."),
    "C02": dict(
        text="Theorems for all swarm sizes, limits and random offsets (lia over div/mod): selection never underflows or indexes out of range, "
             "returns distinct stored others, never the requester, <= limit, all when few, >= limit-1 otherwise; tied to the code by comparing "
             "reply peer lists of the real trackers with the model's set of allowed replies.",
        design_ref="DESIGN.md §7 C02", technique="Coq arithmetic/list proofs + in-Coq correspondence of reply peer lists",
        note="Trusted: Coq kernel, model of extract_response_peers, harness; rand's range contract."),
}

LEVELS["C07"] = dict(
    text="Refinement theorem (Coq, induction over all histories, any capacity / limits / offsets): the model of the http swarm storage never "
         "panics, shows the reference tracker's complete/incomplete counts, scrapes each of the first max_scrape_torrents hashes once, "
         "and a cleaning pass leaves no empty torrent; tied to the real storage by in-Coq comparison of generated histories.",
    design_ref="DESIGN.md §7 C07", technique="Coq refinement proof + in-Coq correspondence check against the real http storage",
    note="Trusted: Coq kernel/vm_compute, model HttpSwarm.v/PeerMap.v, harness with hooks H1/H5. One swarm worker.")

LEVELS["C10"] = dict(
    text="Theorems for all samples, ages, clean times, representations and neighbours: the deadline is sample+age (saturating at u32::MAX), "
         "validity is exactly now < deadline, a cleaning pass keeps exactly the entries with a future deadline, a re-announce installs a fresh "
         "deadline; tied to the code by histories that clean at deadline-1/deadline/deadline+1 and by direct runs of ValidUntil under a mock clock.",
    design_ref="DESIGN.md §7 C10", technique="Coq iff-theorems + in-Coq correspondence (histories around deadlines, ValidUntil arithmetic)",
    note="Trusted: Coq kernel, models, harness, mock-clock hook H1. Timer firing and sample staleness are runtime (partial).")

LEVELS["C20"] = dict(
    text="Theorems: torrent totals = stored torrents; peers total = unexpired peers (= stored peers unless a torrent with peers is forbidden in "
         "that pass); export lines = exactly the torrents with a peer after expiry, once each, true counts; tally = fold of +1/-1 and each "
         "announce / expiry changes per-id counts exactly as its messages say when the replaced entry carries the same id; for EVERY crash "
         "point and write-through behaviour the export path holds the old or the new complete file. Two recorded findings (tallies drift "
         "on peer-id change; forbidden torrents with peers stay counted) are refuted in Coq with witnesses and listed in known_findings.json.",
    design_ref="DESIGN.md §7 C20", technique="Coq theorems (induction, crash-prefix quantification) + in-Coq correspondence incl. crash injection",
    note="Trusted: Coq kernel, models, harness, probes H4. Partial: no fsync; statistics thread timing; global (whole-tracker) tally sum "
         "is stated per torrent.")

LEVELS["C11"] = dict(
    text="Theorems: mode semantics; a failed reload (unreadable file or a bad line at ANY position) keeps the previous list, a reload is "
         "all-or-nothing; 40 hex digits in any case mixture parse back exactly, other lengths are rejected, surrounding white space and "
         "blank lines are ignored; after a reload the next cleaning pass drops exactly the forbidden torrents and leaves permitted unexpired "
         "entries untouched (udp, http, ws); tied to the code through the real update_access_list on generated files and the storages' clean.",
    design_ref="DESIGN.md §7 C11", technique="Coq theorems over the file grammar and the clean step + in-Coq correspondence",
    note="Trusted: Coq kernel, models, harness. Partial: Unicode white space / UTF-8 validation of std, arc_swap cache, signal delivery.")

LEVELS["C12"] = dict(
    text="Partial. Theorems: every history of the udp, http and ws swarm handlers from the empty tracker, for all field values (numwant and left "
         "over all of Z), returns Ok in models where each Rust panic point (counter underflow, ArrayVec overflow, selection indices) is an "
         "explicit Panic; a udp scrape stores <= max_scrape_torrents hashes and <= len/20; an http scrape query stores <= one hash per byte. "
         "Parsers 'return an error instead of panicking' and the allocation multiple are established by differential testing only (malformed "
         "streams, deep nesting, over-long identifiers) - third-party parser interiors are not modelled.",
    design_ref="DESIGN.md §7 C12", technique="Coq totality theorems for the handler models + differential fuzz-style correspondence (testing) for the parsers",
    note="Trusted: Coq kernel, models, harness. The parser half of this property is TESTING (not proof): httparse, simd-json, serde_bencode, "
         "tungstenite, regex are outside the model. One defect found and fixed (stack overflow on deeply nested ws JSON).")

LEVELS["C06"] = dict(
    text="Theorems for every keyed hash, swarm, state, source and BYTE STRING: a datagram yields at most one reply; from port 0 none; anything "
         "sent back is the 16-byte connect reply to a well-formed connect (never longer than the request) or was caused by a request carrying a "
         "connection id valid for the canonical source; unparseable input and invalid ids are never answered; a well-formed connect and every "
         "parseable request with a valid id get exactly one reply; the reply echoes the transaction id and is of the kind called for (announce "
         "of the sender's family, scrape with one entry per parsed hash - the parser keeps the first max_scrape_torrents in order -, the error "
         "texts); tracker state changes only through an accepted announce. Tied to the code by running trackers of both backends.",
    design_ref="DESIGN.md §7 C06", technique="Coq contract theorems over the handler model + in-Coq correspondence with running mio and io_uring trackers",
    note="Trusted: Coq kernel, models, harness, little-endian host. Partial: source port 0 (model only), kernel socket demultiplexing and "
         "SO_REUSEPORT distribution, resend buffer, statistics counters are runtime.")

LEVELS["C16"] = dict(
    text="Theorems: for every number of swarm workers k >= 1 and every history of announces, scrapes and cleaning passes the k-worker "
         "tracker never panics and each reply satisfies the SAME specification against the single reference tracker as the one-worker "
         "tracker (counts, peer selection, one scrape entry per distinct hash among the first max_scrape_torrents); the Content-Length "
         "bytes of a framed reply do not depend on what the previous reply left in the reused buffer and always equal body length + 2. "
         "Tied to the code by histories against running trackers for {1,2,3}^2 workers, keep-alive on/off, segmented requests.",
    design_ref="DESIGN.md §7 C16", technique="Coq refinement proof (k workers -> reference tracker) + framing lemmas + in-Coq correspondence with running trackers",
    note="Trusted: Coq kernel, models, harness. Partial: socket-worker scheduling, channel delivery, pipelined requests, TCP short writes, "
         "TLS and the reverse-proxy header path are runtime.")

LEVELS["C17"] = dict(
    text="Partial (sequential semantics). Theorems over the routing model, for every number of swarm workers and every history: the invariant "
         "'every peer entry of every swarm worker belongs to a live connection whose clean-up record names it' holds initially and is "
         "preserved by every action; hence after a connection closed - or was refused for a second peer id - no swarm worker holds a peer "
         "entry created by it; no action makes a worker fail; every message is delivered to the connection named in the swarm worker's "
         "meta data and to no other, never to a closed one; a scrape naming torrents gets exactly one reply on the sender's connection; a "
         "second peer id for a torrent the connection has not stopped gets the error and the connection is torn down. Tied to the code by "
         "histories against running trackers for {1,2,3}^2 workers with connection identities read through a hook.",
    design_ref="DESIGN.md §7 C17, §11", technique="Coq invariant proofs over the routing model + in-Coq correspondence with running trackers (hook H8)",
    note="Trusted: Coq kernel, models, harness, hook H8. Partial: interleavings of the request / control / reply channel meshes (e.g. a "
         "ConnectionClosed control message overtaking an announce still in flight) are runtime and outside the sequential model.")

LEVELS["C19"] = dict(
    text="Partial. Theorems about the watchdog model for every list of workers, every ending (return Ok, return Err, panic) and every moment "
         "(start-up or later): run() returns an Err at a scan less than one period after the first worker ended, names a worker that "
         "really ended, and never returns while all run; the periods regenerated from the three lib.rs are <= 10 s and all three "
         "join() arms return Err. Tied to the code by injecting faults (hook H7) into every worker kind of the three running trackers.",
    design_ref="DESIGN.md §7 C19", technique="Coq proof over the watchdog loop model + translator facts + fault-injection correspondence with the real run()",
    note="Trusted: Coq kernel, model, translator, harness, hooks H7. Partial: propagation of panics from detached glommio tasks to the "
         "worker thread and JoinHandle::is_finished are runtime (observed, not proved); prometheus worker not exercised.")

LEVELS["C04"] = dict(
    text="Partial (lock granularity). Theorems for every program, any number of threads and EVERY schedule of the interleaving model: the run "
         "never fails; every instruction is a stutter or the one atomic effect of its operation on the sequential reference tracker (forward "
         "simulation with linearization points inside the operations: linearizability), the final state refines the reference; a thread's Arc "
         "clone is always the cell the shard maps its torrent to (no answered announce is lost to a cleaning pass); every unfinished thread "
         "can step and each step consumes an instruction (no deadlock at this granularity, no infinite schedule). Without the Arc::get_mut "
         "guard (a fact regenerated from the source) the property is refuted by a 3-thread witness. Tied to the code by deterministic "
         "schedules of real threads at the hook probes.",
    design_ref="DESIGN.md §7 C04", technique="Coq invariant + forward-simulation proof over an interleaving model + translator fact + scheduled-thread correspondence (hooks H3)",
    note="Trusted: Coq kernel, model, translator, harness, hooks H3, atomicity of lock-protected sections. Partial: interleavings finer than "
         "lock acquisitions, lock-level deadlocks (acquisition order argued, not proved), free-running stress.")

LEVELS["C05"] = dict(
    text="Theorems for every keyed-hash function, every time, age (0..2^32-1) and address: exact acceptance window; the accepted strings are "
         "exactly the ids create issues for that address in the window; acceptance from another address forces a 32-bit hash collision; the "
         "hash input determines time and address; far-future and age-0 rejection; no u64 wrap. Tied to the code by running the real validator "
         "under a controlled clock with the hash observed as a table.",
    design_ref="DESIGN.md §7 C05", technique="Coq iff-characterisation for all MAC functions + in-Coq correspondence with observed MAC table",
    note="Trusted: Coq kernel, model, harness, hook H2. Cryptographic strength of BLAKE3 is assumed, not proved.")

LEVELS["C13"] = dict(
    text="Theorems for all field values: the layouts regenerated from the source equal the BEP 15 tables (re-decided every run); encode-decode "
         "identity for every layout; round trips of connect / announce (all events, with extension bytes) / scrape (cut to max) / all four "
         "reply kinds for both families; every listed rejection with its error class. Tied to the code by the translator and by comparing "
         "the real parser/writer with the model on generated and mutated datagrams, once against the generated and once against the BEP 15 layouts.",
    design_ref="DESIGN.md §7 C13", technique="Coq codec proofs over source-generated layouts + translator + in-Coq differential check",
    note="Trusted: Coq kernel, translator (layouts), model of zerocopy reads, harness.")

LEVELS["C08"] = dict(
    text="Theorems: every operation on a reachable state succeeds and keeps num_seeders = #seeders and peer ids unique (no underflow); an "
         "announce installs exactly its status/deadline for its own id, keeps the creator, touches nobody else; a foreign announce (different "
         "connection id) is inert; the code's ownership test equals the intended one when connection ids are unique across socket workers; "
         "close removes exactly that entry. Two recorded findings are refuted in Coq with witnesses (connection-id collision across socket "
         "workers; close without owner check). Tied to the real storage by in-Coq comparison of full message lists.",
    design_ref="DESIGN.md §7 C08", technique="Coq invariant + step laws + refuted-finding witnesses; in-Coq correspondence",
    note="Trusted: Coq kernel, model WsSwarm.v, harness with hooks H1/H6.")
LEVELS["C09"] = dict(
    text="Theorems for all swarm sizes, offer lists, limits and random offsets: offers go one-to-one to min(offers, max_offers, others) "
         "distinct other stored peers, tagged with the sender, addressed to the receiver's own connection; none on stopped; an answer is "
         "forwarded iff the addressed peer is stored and holds that pending expectation, which is consumed (a repeat is an error); pending "
         "offers age out exactly at their deadline. Tied to the code by comparing every forwarded message of generated histories.",
    design_ref="DESIGN.md §7 C09", technique="Coq proofs over the relay functions + in-Coq correspondence of message lists",
    note="Trusted: Coq kernel, model, harness.")

LEVELS["C03"] = dict(
    text="Theorems for all addresses, ports, request ip fields, header lists and every IP-text parser: mapped sources become the embedded "
         "IPv4 address (exactly that octet pattern), canonicalisation is idempotent, the WebTorrent family test agrees with it, the stored "
         "key is (canonical source, request port) and ignores the request's ip field, dual-stack and plain IPv4 give one key, and behind a "
         "proxy the last element of the last occurrence of the exactly-named header decides. Tied to the code by unit-level differential runs.",
    design_ref="DESIGN.md §7 C03", technique="Coq non-interference / canonicalisation laws + in-Coq correspondence",
    note="Trusted: Coq kernel, model, harness, httparse, std's IpAddr parser (table). Partial: kernel-reported source address.")

LEVELS["C18"] = dict(
    text="Theorems over ALL accepted configurations and all counters: reply lengths are derived from the codec models; every announce reply "
         "(both families) and scrape reply fits BUFFER_SIZE (mio), RESPONSE_BUF_LEN (io_uring) resp. the http response buffer incl. header "
         "and CRLF; the framing delivers a fitting body whole with the right Content-Length and reports an overflow instead of truncating. "
         "Buffer sizes, limits, header literals and the presence of the refusing validations are re-read from the source every run. The "
         "original tree violated the property (recorded as fixed findings).",
    design_ref="DESIGN.md §7 C18", technique="Coq arithmetic over source-regenerated constants + translator + in-Coq correspondence of writers",
    note="Trusted: Coq kernel, translator (constants, guards), writer models, harness.")

LEVELS["C14"] = dict(
    text="Theorems for all field values: the 20-byte identifier decoder accepts exactly the strings that spell exactly 20 bytes (raw or %hh, "
         "either case) and inverts the encoder; on well-formed segments the position-walking query parser is a fold over the segments; unknown "
         "keys are ignored; announce (all events, optional fields) and scrape requests written by the library parse back; every reply equals "
         "the canonical bencoding (sorted keys, compact peers) of its value. Two minor findings are refuted with witnesses (non-ASCII 'hex' "
         "after %, writer emits requests its parser rejects). Partial: serde_bencode / httparse are only exercised, not modelled.",
    design_ref="DESIGN.md §7 C14", technique="Coq round-trip / exactness proofs + in-Coq differential check of parser and writers",
    note="Trusted: Coq kernel, model, harness; urlencoding crate as table; third-party parsers untouched (partial).")

LEVELS["C15"] = dict(
    text="Theorems for all strings and messages: identifier decoding accepts exactly the 20-character strings over U+0000..U+00FF and inverts "
         "the encoder; every announce (all optional fields, offers, answers) and every scrape form survives the mapping to a JSON tree and "
         "back through the untagged-enum / Option / unknown-field rules of serde. The original code accepted over-long identifier strings "
         "(recorded as a fixed finding). Partial: the JSON text layer (printer / tokenizer) is third-party and only exercised.",
    design_ref="DESIGN.md §7 C15", technique="Coq exactness / round-trip proofs at JSON-tree level + in-Coq differential check bridged by serde_json",
    note="Trusted: Coq kernel, model, harness, serde_json as the text<->tree bridge; simd-json untouched (partial).")

NOT_APPLICABLE = [
    dict(property_id=p, reason="check not built yet in this round (work in progress; planned per DESIGN.md §10)")
    for p in ["C%02d" % i for i in range(1, 21)] if p not in PROPS
]

# Where the executable model of a pure function IS the specification the theorems characterise
# (validator window, access-list grammar, ValidUntil arithmetic, export crash view, BEP 15 codec),
# the suite's monitor is the model itself: a disagreeing case is then a concrete input on which
# the implementation deviates from the proven specification.
