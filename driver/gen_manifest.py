#!/usr/bin/env python3
"""Regenerates /verif/MANIFEST.json from driver/props.py (kept valid at all times)."""
import json, os, sys
sys.path.insert(0, os.path.dirname(os.path.dirname(os.path.abspath(__file__))))
from driver.props import PROPS, NOT_APPLICABLE, LEVELS

BASELINE = ("cd /repo && cargo nextest run --workspace --no-fail-fast --tool-config-file pb:/w/lib/nextest.toml --profile pb "
            "--test-threads 8 --offline || cargo test --workspace --no-fail-fast --offline")

def main():
    checks = []
    for pid in sorted(PROPS):
        lv = LEVELS[pid]
        checks.append(dict(
            property_id=pid,
            quick_cmd="./vcheck %s --tier quick" % pid,
            thorough_cmd="./vcheck %s --tier thorough" % pid,
            evidence_file="/verif/evidence/%s.json" % pid,
            replay_cmd_template="./vcheck %s --replay {path}" % pid,
            engine="coq-model+correspondence",
            level_claimed=dict(category="proof", text=lv["text"], design_ref=lv["design_ref"]),
            level_note=lv["note"],
            technique=lv["technique"],
        ))
    m = dict(
        version=1,
        setup_cmd="./setup.sh",
        hooks=dict(guard="aquatic_verif", enable="RUSTFLAGS='--cfg aquatic_verif' (set in /verif/harness/.cargo/config.toml)",
                   baseline_off_cmd=BASELINE, source_commits=HOOK_COMMITS, add_only=True),
        engines=[dict(name="coq-model+correspondence", path="/verif/vcheck", serves_properties=sorted(PROPS),
                      kind_free_text="Coq 8.16 theorems about hand-written executable Gallina models (coq/), facts regenerated from source by "
                                     "translator/facts.py, correspondence of model and real code evaluated inside Coq on harness-generated cases")],
        checks=checks,
        notes="See DESIGN.md. Every check rebuilds the harness from /repo's working tree and regenerates coq/Gen from the sources.",
        not_applicable=NOT_APPLICABLE,
    )
    with open(os.path.join(os.path.dirname(os.path.dirname(os.path.abspath(__file__))), "MANIFEST.json"), "w") as f:
        json.dump(m, f, indent=1)
        f.write("\n")

HOOK_COMMITS = []
try:
    HOOK_COMMITS = [l.strip() for l in open(os.path.join(os.path.dirname(os.path.dirname(os.path.abspath(__file__))), "hooks_commits.txt")) if l.strip()]
except FileNotFoundError:
    pass

if __name__ == "__main__":
    main()
