"""Shared machinery of /verif/vcheck: build steps, correspondence runs, evidence, verdicts."""
import fcntl, hashlib, json, os, re, shutil, subprocess, sys, time
from concurrent.futures import ThreadPoolExecutor

VERIF = os.path.dirname(os.path.dirname(os.path.abspath(__file__)))
REPO = os.environ.get("VERIF_REPO", "/repo")
CACHE = os.path.join(VERIF, ".cache")
COQ = os.path.join(VERIF, "coq")
HARNESS_DIR = os.path.join(VERIF, "harness")
TARGET = os.path.join(CACHE, "cargo-target")
NCPU = os.cpu_count() or 8

ENV = dict(os.environ)
ENV.update({"CARGO_NET_OFFLINE": "true", "CARGO_TARGET_DIR": TARGET})


def log(*a):
    print("[vcheck]", *a, file=sys.stderr, flush=True)


class Lock:
    """Serialise builds when several checks run at once."""

    def __init__(self, name):
        os.makedirs(CACHE, exist_ok=True)
        self.path = os.path.join(CACHE, name + ".lock")

    def __enter__(self):
        self.f = open(self.path, "w")
        fcntl.flock(self.f, fcntl.LOCK_EX)
        return self

    def __exit__(self, *a):
        fcntl.flock(self.f, fcntl.LOCK_UN)
        self.f.close()


class InfraError(Exception):
    """The machinery itself failed (build tool missing, port bind, ...): not a property verdict."""


def run(cmd, cwd=None, timeout=1800, env=None, check=False):
    t0 = time.time()
    p = subprocess.run(cmd, cwd=cwd, env=env or ENV, stdout=subprocess.PIPE, stderr=subprocess.STDOUT,
                       text=True, timeout=timeout, shell=isinstance(cmd, str))
    if check and p.returncode != 0:
        raise InfraError("command failed: %s\n%s" % (cmd, p.stdout[-4000:]))
    return p.returncode, p.stdout, time.time() - t0


# ---------------------------------------------------------------- translator + Coq build

def regenerate_facts():
    """Re-read /repo's sources and regenerate coq/Gen/*.v (written only when changed)."""
    rc, out, _ = run([sys.executable, os.path.join(VERIF, "translator", "facts.py"), REPO, os.path.join(COQ, "Gen")])
    if rc != 0:
        return False, out
    return True, out


def coq_makefile():
    mk = os.path.join(COQ, "Makefile")
    proj = os.path.join(COQ, "_CoqProject")
    if not os.path.exists(mk) or os.path.getmtime(mk) < os.path.getmtime(proj):
        run(["coq_makefile", "-f", "_CoqProject", "-o", "Makefile"], cwd=COQ, check=True)


def coq_build(targets, timeout=1500):
    """Full .vo build (no -vos) of the given targets with make -k. Returns (ok, output)."""
    coq_makefile()
    cmd = ["timeout", str(timeout), "make", "-k", "-j%d" % NCPU] + targets
    rc, out, dt = run(cmd, cwd=COQ, timeout=timeout + 60)
    return rc == 0, out


THEOREM_RE = re.compile(r"^\s*(Theorem|Corollary)\s+([A-Za-z0-9_']+)", re.M)


def property_theorems(pid):
    """Names of the theorems stated in Properties/<pid>*.v (the proof obligations)."""
    names = []
    files = sorted(f for f in os.listdir(os.path.join(COQ, "Properties")) if f.startswith(pid) and f.endswith(".v"))
    for f in files:
        src = open(os.path.join(COQ, "Properties", f)).read()
        src = re.sub(r"\(\*.*?\*\)", "", src, flags=re.S)
        for m in THEOREM_RE.finditer(src):
            names.append((f, m.group(2)))
    return files, names


ALLOWED_AXIOMS = set()  # the development is axiom-free; anything printed is an error


def parse_assumptions(out):
    """Parse the output of `Print Assumptions` commands: returns list of (closed?, axioms)."""
    res = []
    # coqc prints either "Closed under the global context" or "Axioms:\n name : type ..."
    for m in re.finditer(r"(Closed under the global context)|(Axioms:\n(?:.+\n?)+?)(?=\n\S|\Z)", out):
        if m.group(1):
            res.append((True, []))
        else:
            axs = re.findall(r"^([A-Za-z0-9_.']+)\s*:", m.group(2), flags=re.M)
            res.append((False, axs))
    return res


FORBIDDEN_RE = re.compile(r"\b(Admitted|admit|Axiom|Axioms|Parameter|Parameters|Conjecture|Hypothesis|Variable)\b|Unset\s+Guard|bypass_check|Admit\s+Obligations|-type-in-type|-impredicative-set")


def grep_forbidden():
    """No Admitted/admit/Axiom/Parameter/... anywhere in the development (Variables are allowed
    only inside Sections, which is checked by looking at the enclosing Section)."""
    bad = []
    for root, _, files in os.walk(COQ):
        for f in files:
            if not f.endswith(".v") or f.startswith("_goal_tmp"):
                continue
            path = os.path.join(root, f)
            src = open(path).read()
            nocom = re.sub(r"\(\*.*?\*\)", lambda m: " " * len(m.group(0)), src, flags=re.S)
            depth = 0
            for ln, line in enumerate(nocom.split("\n"), 1):
                if re.match(r"\s*Section\s", line):
                    depth += 1
                if re.match(r"\s*End\s", line) and depth > 0:
                    depth -= 1
                for m in FORBIDDEN_RE.finditer(line):
                    w = m.group(0)
                    if w in ("Variable", "Hypothesis") and depth > 0:
                        continue
                    bad.append("%s:%d: %s" % (os.path.relpath(path, COQ), ln, w))
    proj = open(os.path.join(COQ, "_CoqProject")).read()
    if "type-in-type" in proj or "impredicative-set" in proj:
        bad.append("_CoqProject: forbidden flag")
    return bad


def check_proofs(pid):
    """Build Properties/<pid>*.vo; return dict(obligations, discharged, failed=[...], axioms=[...], output)."""
    files, names = property_theorems(pid)
    targets = ["Properties/" + f + "o" for f in files]
    # force re-check of the property files themselves so Print Assumptions output is captured
    for f in files:
        for ext in ("o", "ok", "os"):
            try:
                os.remove(os.path.join(COQ, "Properties", f + ext))
            except FileNotFoundError:
                pass
    ok, out = coq_build(targets)
    # everything else (the models and checkers the case files import) must be consistent with the
    # regenerated Gen files as well; failures of other properties' files are not this check's business
    coq_build([])
    failed_files = set()
    for m in re.finditer(r'File "\./([^"]+)", line (\d+)', out):
        failed_files.add(m.group(1))
    for m in re.finditer(r"\*\*\* \[[^\]]*: ([^\]\s]+\.vo)\] Error", out):
        failed_files.add(m.group(1)[:-1])
    discharged = []
    failed = []
    for f, n in names:
        if os.path.exists(os.path.join(COQ, "Properties", f + "o")):
            discharged.append(n)
        else:
            failed.append(n)
    assum = parse_assumptions(out)
    axioms = sorted({a for closed, axs in assum if not closed for a in axs})
    return dict(obligations=len(names), discharged=len(discharged), failed=failed, names=[n for _, n in names],
                failed_files=sorted(failed_files), axioms=axioms, assumption_reports=len(assum), ok=ok, output=out)


# ---------------------------------------------------------------- harness

def build_harness(release=False):
    lock = os.path.join(HARNESS_DIR, "Cargo.lock")
    src_lock = os.path.join(REPO, "Cargo.lock")
    if not os.path.exists(lock) or open(lock).read() != open(src_lock).read():
        # the harness resolves against the repository's own lock file (offline)
        if not os.path.exists(lock):
            shutil.copy(src_lock, lock)
    cmd = ["cargo", "build", "--offline"] + (["--release"] if release else [])
    rc, out, dt = run(cmd, cwd=HARNESS_DIR, timeout=1800)
    if rc != 0:
        # retry once from the repository's lock file (a dependency change in /repo)
        shutil.copy(src_lock, lock)
        rc, out, dt = run(cmd, cwd=HARNESS_DIR, timeout=1800)
    if rc != 0:
        raise InfraError("harness build failed:\n" + out[-6000:])
    return os.path.join(TARGET, "release" if release else "debug", "aquatic_verif_harness")


def run_harness(binary, suite, seed, count, extra=None, only=None, keep=None, timeout=900):
    cmd = [binary, suite, "--seed", str(seed), "--count", str(count)]
    if only is not None:
        cmd += ["--only", str(only)]
    if keep is not None:
        cmd += ["--keep", ",".join(map(str, keep)) if keep else ","]
    for k, v in (extra or {}).items():
        cmd += ["--" + k, str(v)]
    p = subprocess.run(cmd, stdout=subprocess.PIPE, stderr=subprocess.PIPE, text=True, timeout=timeout, env=ENV)
    cases, stat, panics = [], {}, {}
    for line in p.stdout.split("\n"):
        if line.startswith("CASE "):
            _, idx, nops, term = line.split(" ", 3)
            cases.append((int(idx), int(nops), term))
        elif line.startswith("PANIC "):
            _, idx, step, msg = (line.split(" ", 3) + [""])[:4]
            panics[int(idx)] = (int(step), msg)
        elif line.startswith("STAT ") or line.startswith("STAT2 "):
            stat.update(json.loads(line.split(" ", 1)[1]))
    if p.returncode != 0:
        raise HarnessCrash(p.returncode, p.stdout[-3000:], p.stderr[-6000:], cases, stat)
    stat["_panics"] = panics
    return cases, stat


class HarnessCrash(Exception):
    def __init__(self, rc, out, err, cases, stat):
        super().__init__("harness exited %s" % rc)
        self.rc, self.out, self.err, self.cases, self.stat = rc, out, err, cases, stat


# ---------------------------------------------------------------- model evaluation in Coq

def eval_cases(tag, imports, check_expr, case_type, cases, shards=None, timeout=900):
    """Evaluate `check_expr case : N` for every case inside Coq (vm_compute), sharded over coqc
    processes.  Result code: code / 4 = 0 (agree) or 1 + index of the first disagreeing step;
    code mod 4 = flag bits (bit 0: non-trivial by the suite's rule).  Returns {idx: code}."""
    d = os.path.join(CACHE, "cases", tag)
    shutil.rmtree(d, ignore_errors=True)
    os.makedirs(d)
    if not cases:
        return {}
    shards = shards or min(NCPU, max(1, len(cases) // 8))
    groups = [cases[i::shards] for i in range(shards)]
    groups = [g for g in groups if g]

    def one(k):
        g = groups[k]
        path = os.path.join(d, "shard%d.v" % k)
        with open(path, "w") as f:
            f.write("From Coq Require Import String.\nFrom Aquatic Require Import %s.\nImport ListNotations.\nOpen Scope string_scope.\nSet Printing Width 200.\n" % " ".join(imports))
            f.write("Definition cases : list (%s) := [\n" % case_type)
            f.write(";\n".join(t for _, _, t in g))
            f.write("\n].\nEval vm_compute in (map (fun c => %s c) cases).\n" % check_expr)
        p = subprocess.run(["timeout", str(timeout), "coqc", "-noglob", "-Q", COQ, "Aquatic", "-w", "none", path],
                           stdout=subprocess.PIPE, stderr=subprocess.STDOUT, text=True)
        if p.returncode != 0:
            return k, None, p.stdout[-3000:]
        codes = [int(x) for x in re.findall(r"(\d+)%N", p.stdout[:p.stdout.rfind(": list N")])]
        if len(codes) != len(g):
            return k, None, "could not parse %d results from coqc output: %s" % (len(g), p.stdout[-2000:])
        return k, codes, ""

    res = {}
    with ThreadPoolExecutor(max_workers=NCPU) as ex:
        for k, codes, err in ex.map(one, range(len(groups))):
            if codes is None:
                raise CoqEvalError(err, os.path.join(d, "shard%d.v" % k))
            for (idx, _, _), c in zip(groups[k], codes):
                res[idx] = c
    return res


class CoqEvalError(Exception):
    def __init__(self, msg, path):
        super().__init__(msg)
        self.msg, self.path = msg, path


def ddmin(n, test):
    """Delta debugging over op indices 0..n-1; test(keep) -> True when the failure persists."""
    keep = list(range(n))
    gran = 2
    while len(keep) >= 2:
        chunk = max(1, len(keep) // gran)
        subsets = [keep[i:i + chunk] for i in range(0, len(keep), chunk)]
        reduced = False
        for sub in subsets:
            comp = [x for x in keep if x not in sub]
            if comp and test(comp):
                keep, gran, reduced = comp, max(gran - 1, 2), True
                break
        if not reduced:
            if gran >= len(keep):
                break
            gran = min(len(keep), gran * 2)
    return keep


# ---------------------------------------------------------------- evidence / verdict

def write_evidence(pid, tier, seed, coverage, assumptions, wall, violations):
    os.makedirs(os.path.join(VERIF, "evidence"), exist_ok=True)
    ev = dict(property_id=pid, tier=tier, seed=seed, level="proof", coverage=coverage,
              assumptions=assumptions, wall_s=round(wall, 2), violations=violations)
    with open(os.path.join(VERIF, "evidence", pid + ".json"), "w") as f:
        json.dump(ev, f, indent=1, sort_keys=True)
        f.write("\n")


def write_replay(pid, name, payload):
    d = os.path.join(VERIF, "replays")
    os.makedirs(d, exist_ok=True)
    path = os.path.join(d, "%s_%s.json" % (pid, name))
    with open(path, "w") as f:
        json.dump(payload, f, indent=1)
        f.write("\n")
    return path


def load_known_findings():
    p = os.path.join(VERIF, "known_findings.json")
    if not os.path.exists(p):
        return []
    return json.load(open(p)).get("findings", [])
