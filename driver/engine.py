"""Per-property flow of vcheck."""
import json, os, sys, time, traceback

from . import core
from .core import log
from .props import PROPS


class Finding:
    """One reason why the property is not shown to hold on this tree."""

    def __init__(self, kind, what, replay=None, failing_input=False, klass=None):
        self.kind = kind            # 'proof' | 'translator' | 'correspondence' | 'monitor' | 'forbidden' | 'crash'
        self.what = what            # theorem / suite name and short description
        self.replay = replay or {}  # payload of the replay file
        self.failing_input = failing_input  # a concrete input on which the PROPERTY fails was found
        self.klass = klass          # known-finding class this belongs to, if any


def run_suite(pid, suite, tier, seed, binary):
    """Run one correspondence suite. Returns (coverage dict, findings)."""
    count = suite.get("count_" + tier, suite.get("count_quick", 200))
    findings = []
    cov = dict(suite=suite["name"], evaluations=0, distinct_nontrivial=0)
    try:
        cases, stat = core.run_harness(binary, suite["harness"], seed, count, extra=suite.get("extra"))
    except core.HarnessCrash as e:
        findings.append(Finding("crash", "%s: harness process died (exit %s) - the implementation panicked or aborted" % (suite["name"], e.rc),
                                dict(suite=suite["name"], seed=seed, stderr=e.err[-3000:], last_cases=[c[0] for c in e.cases[-3:]]),
                                failing_input=suite.get("crash_is_violation", False)))
        return cov, findings
    panics = stat.pop("_panics", {})
    tag = "%s_%s" % (pid, suite["name"])
    # a case during which the implementation (or the harness waiting for it) panicked may carry an
    # incomplete term: it is reported as a crash below and left out of the Coq evaluation
    all_cases = cases
    cases = [c for c in cases if c[0] not in panics]
    try:
        codes = core.eval_cases(tag, suite["imports"], suite["check"], suite["case_type"], cases)
        for i in panics:
            codes.setdefault(i, 0) if isinstance(codes, dict) else None
    except core.CoqEvalError as e:
        findings.append(Finding("correspondence", "%s: the model could not be evaluated on the generated cases: %s" % (suite["name"], e.msg[-1500:]),
                                dict(suite=suite["name"], seed=seed, file=e.path)))
        return cov, findings
    cov["evaluations"] = len(cases)
    cov["steps"] = sum(n for _, n, _ in cases)
    nt = set()
    for idx, n, term in cases:
        if codes[idx] % 4 == suite.get("nontrivial_bits", 3) or (suite.get("nontrivial_any") and codes[idx] % 4 != 0):
            nt.add(term)
    cov["distinct_nontrivial"] = len(nt)
    cov["distinct_cases"] = len({t for _, _, t in cases})
    cov["harness_stat"] = stat
    cov["samples"] = [dict(case=idx, steps=n, term=term[:700]) for idx, n, term in cases[:2]]
    bad = [(idx, n, term) for idx, n, term in cases if codes[idx] // 4 != 0 and idx not in panics]
    cov["disagreements"] = len(bad)
    cov["implementation_panics"] = len(panics)
    for idx in sorted(panics)[:2]:
        step, msg = panics[idx]
        n, term = [(n, t) for i, n, t in all_cases if i == idx][0]
        agree = True
        findings.append(Finding(
            "crash", "%s: the implementation PANICKED in case %d at step %d (%s); %s%s" % (
                suite["name"], idx, step, msg[:300], suite.get("crash_note", "the model proves this step cannot panic"), "" if agree else "; the trace before it already disagrees with the model at step %d" % (codes[idx] // 4 - 1)),
            dict(suite=suite["name"], harness_suite=suite["harness"], seed=seed, count=count, case=idx, keep=None, panic_at_step=step,
                 panic_message=msg, trace_before_panic=term[:20000], extra=suite.get("extra", {})),
            failing_input=True))
    inv = [investigate(pid, suite, seed, count, binary, idx, n, term, codes[idx] // 4 - 1) for idx, n, term in bad[:3]]
    if bad and suite.get("monitor") and not suite.get("classify") and not any(f.failing_input for f in inv):
        # the correspondence broke but the property holds on the disagreeing traces looked at so
        # far: search for a concrete input on which the PROPERTY fails - the monitor over every
        # disagreeing case, then over fresh cases of the same generator (other seeds)
        hit = search_failing_input(pid, suite, seed, count, binary, bad)
        if hit:
            inv = [hit] + inv[:1]
    findings.extend(inv)
    return cov, findings


def search_failing_input(pid, suite, seed, count, binary, bad):
    mon = suite["monitor"]
    tag = "%s_%s_search" % (pid, suite["name"])

    def first_failure(cases, s, c):
        try:
            codes = core.eval_cases(tag, suite["imports"], mon, suite["case_type"], cases)
        except core.CoqEvalError:
            return None
        for idx, n, term in cases:
            if codes.get(idx, 0) // 4 != 0:
                step = codes[idx] // 4 - 1
                return Finding("monitor", "correspondence %s (%s) no longer checks; property monitor %s fails on the implementation's trace of case %d, seed %d (step %d)" % (
                                   suite["name"], suite["check"], mon, idx, s, step),
                               dict(property=pid, suite=suite["name"], harness_suite=suite["harness"], seed=s, count=c, case=idx, keep=None,
                                    monitor=mon, monitor_failed_at_step=step, minimized_case=term[:20000], extra=suite.get("extra", {})),
                               failing_input=True)
        return None

    hit = first_failure(bad, seed, count)
    if hit:
        return hit
    extra_n = suite.get("search_count", 0)
    for round_ in range(suite.get("search_rounds", 3) if extra_n else 0):
        s2 = seed + 7919 * (round_ + 1)
        log("correspondence %s broke without a failing input so far; searching %d fresh cases (seed %d)" % (suite["name"], extra_n, s2))
        try:
            cases, _ = core.run_harness(binary, suite["harness"], s2, extra_n, extra=suite.get("extra"))
        except core.HarnessCrash:
            continue
        hit = first_failure(cases, s2, extra_n)
        if hit:
            return hit
    return None


def investigate(pid, suite, seed, count, binary, idx, nops, term, pos):
    """Model and implementation disagree on case idx at step pos: minimise, then ask the property
    monitor whether the PROPERTY fails on the implementation's own trace."""
    log("disagreement in suite %s case %d at step %d; minimising" % (suite["name"], idx, pos))
    tag = "%s_%s_min" % (pid, suite["name"])

    def still_fails(keep):
        try:
            cs, _ = core.run_harness(binary, suite["harness"], seed, count, extra=suite.get("extra"), only=idx, keep=keep)
        except core.HarnessCrash:
            return False
        if not cs:
            return False
        codes = core.eval_cases(tag, suite["imports"], suite["check"], suite["case_type"], cs, shards=1)
        return codes[idx] // 4 != 0

    keep = list(range(nops))
    min_term = term
    if suite.get("shrink", True) and nops > 1:
        try:
            keep = core.ddmin(min(nops, pos + 1), lambda k: still_fails(k))
            cs, _ = core.run_harness(binary, suite["harness"], seed, count, extra=suite.get("extra"), only=idx, keep=keep)
            if cs:
                min_term = cs[0][2]
        except Exception as e:  # minimisation is best effort
            log("minimisation failed: %r" % (e,))
            keep = list(range(nops))
    payload = dict(property=pid, suite=suite["name"], harness_suite=suite["harness"], seed=seed, count=count, case=idx,
                   keep=keep, first_disagreeing_step=pos, correspondence=suite["check"], minimized_case=min_term[:20000],
                   extra=suite.get("extra", {}))
    failing = False
    what = "correspondence %s (%s) no longer checks: model and implementation disagree on case %d" % (suite["name"], suite["check"], idx)
    mon = suite.get("monitor")
    if mon:
        try:
            codes = core.eval_cases(tag + "_mon", suite["imports"], mon, suite["case_type"], [(0, len(keep), min_term)], shards=1)
            if codes[0] // 4 != 0:
                failing = True
                payload["monitor"] = mon
                payload["monitor_failed_at_step"] = codes[0] // 4 - 1
                what = "property monitor %s fails on the implementation's trace of case %d (step %d)" % (mon, idx, codes[0] // 4 - 1)
        except core.CoqEvalError as e:
            payload["monitor_error"] = e.msg[-1000:]
    klass = None
    if failing and suite.get("classify"):
        try:
            expr, names = suite["classify"]
            codes = core.eval_cases(tag + "_cls", suite["imports"], expr, suite["case_type"], [(0, len(keep), min_term)], shards=1)
            bits = codes[0] // 4
            present = [n for b, n in names.items() if bits & b]
            if present:
                klass = present[0]
                payload["known_classes_present"] = present
        except core.CoqEvalError as e:
            payload["classify_error"] = e.msg[-500:]
    return Finding("monitor" if failing else "correspondence", what, payload, failing_input=failing, klass=klass)


def main(pid, tier, seed, replay):
    if pid not in PROPS:
        print("unknown or unclaimed property %s" % pid)
        return 2
    cfg = PROPS[pid]
    t0 = time.time()
    if replay:
        return do_replay(pid, cfg, replay)
    findings = []
    coverage = dict(checker_cmd="cd /verif/coq && coq_makefile -f _CoqProject -o Makefile && make -k -j16 Properties/%s.vo  (Coq 8.16.1, full .vo build)" % pid,
                    suites=[])
    try:
        with core.Lock("build"):
            ok, out = core.regenerate_facts()
            if not ok:
                findings.append(Finding("translator", "translator could not re-read a declared fact from the sources: " + out.strip()[-500:],
                                        dict(translator_output=out[-2000:])))
            proofs = core.check_proofs(pid)
            binary = core.build_harness()
        forbidden = core.grep_forbidden()
        coverage.update(obligations=proofs["obligations"], discharged=proofs["discharged"], theorems=proofs["names"],
                        assumption_reports=proofs["assumption_reports"], axioms=proofs["axioms"])
        if proofs["failed"] or not proofs["ok"]:
            errs = [l for l in proofs["output"].split("\n") if "Error" in l or l.startswith("File ")]
            names = proofs["failed"] or ["<build>"]
            findings.append(Finding("proof", "%d theorem(s) no longer accepted by Coq: %s (files: %s)" % (
                                        len(names), ", ".join(names[:30]), ", ".join(proofs["failed_files"])),
                                    dict(theorems=names, files=proofs["failed_files"], coq_errors=errs[:20], output_tail=proofs["output"][-3000:])))
        if proofs["axioms"]:
            findings.append(Finding("forbidden", "axioms outside the allowlist: %s" % proofs["axioms"], dict(axioms=proofs["axioms"])))
        if forbidden:
            findings.append(Finding("forbidden", "forbidden declarations in the development: %s" % forbidden[:5], dict(lines=forbidden)))
        # model-side searches attached to broken Gen-dependent theorems
        for hook in cfg.get("on_proof_failure", []):
            if proofs["failed"]:
                extra_f = hook(pid, proofs, seed)
                if extra_f:
                    # a concrete failing input was computed: it replaces the bare "theorem no longer accepted" report
                    findings = [f for f in findings if f.kind != "proof"] + extra_f
        for suite in cfg.get("suites", []):
            cov, fs = run_suite(pid, suite, tier, seed, binary)
            coverage["suites"].append(cov)
            findings.extend(fs)
        for extra in cfg.get("extra_checks", []):
            cov, fs = extra(pid, tier, seed, binary)
            coverage["suites"].append(cov)
            findings.extend(fs)
    except core.InfraError as e:
        print("INFRASTRUCTURE-ERROR: %s" % e)
        return 3
    except Exception:
        traceback.print_exc()
        print("INFRASTRUCTURE-ERROR: unexpected exception in the driver")
        return 3

    # ---- aggregate coverage in the keys the evidence schema wants
    ev = sum(s.get("evaluations", 0) for s in coverage["suites"])
    nt = sum(s.get("distinct_nontrivial", 0) for s in coverage["suites"])
    samples = [x for s in coverage["suites"] for x in s.pop("samples", [])][:3]
    coverage.update(evaluations=ev, distinct_nontrivial=nt, samples=samples or [dict(theorems=coverage.get("theorems", []))],
                    traces_validated_against_impl=ev, rule=cfg.get("rule", ""), trusted_base=cfg.get("trusted_base", []) + core_trusted_base(),
                    modelled_not_verified=cfg.get("modelled", ""))
    # ---- known findings
    known = [k for k in core.load_known_findings() if k.get("property") == pid and k.get("status") == "known"]
    exit_code = 0
    reported = 0
    for kf in known:
        if cfg.get("known_reproduces", lambda kf: True)(kf):
            print("KNOWN-FINDING: property=%s %s" % (pid, kf["what"]))
    n = 0
    for f in findings:
        if f.klass and any(k.get("class") == f.klass for k in known):
            continue
        n += 1
        path = core.write_replay(pid, "%s_%d" % (f.kind, n), dict(kind=f.kind, what=f.what, **f.replay))
        tail = "" if f.failing_input else " no-failing-input-found"
        print("%s" % f.what)
        print("VIOLATION property=%s replay=%s%s" % (pid, path, tail))
        reported += 1
        exit_code = 1
    core.write_evidence(pid, tier, seed, coverage, cfg.get("assumptions", []), time.time() - t0, reported)
    if exit_code == 0:
        print("OK property=%s obligations=%d discharged=%d correspondence_cases=%d nontrivial=%d wall=%.1fs" % (
            pid, coverage.get("obligations", 0), coverage.get("discharged", 0), ev, nt, time.time() - t0))
    return exit_code


def core_trusted_base():
    return ["Coq 8.16.1 kernel and vm_compute (no native_compute)",
            "axioms: none (Print Assumptions under every property theorem reports 'Closed under the global context'; checked each run)",
            "translator /verif/translator/facts.py (declarative facts -> coq/Gen/*.v)",
            "correspondence harness /verif/harness (Rust, path dependencies on /repo/crates/*, built with --cfg aquatic_verif) and its generators/canonicalisers",
            "rustc 1.95 / cargo; coqc as evaluator of the model on generated cases"]


def do_replay(pid, cfg, path):
    payload = json.load(open(path))
    print(json.dumps({k: payload[k] for k in payload if k not in ("minimized_case", "output_tail")}, indent=1))
    if "harness_suite" in payload:
        with core.Lock("build"):
            core.regenerate_facts()
            core.coq_build(["Model/UdpCheck.vo"])
            binary = core.build_harness()
        suite = [s for s in cfg["suites"] if s["name"] == payload["suite"]][0]
        cs, st = core.run_harness(binary, payload["harness_suite"], payload["seed"], payload["count"], extra=payload.get("extra"),
                                  only=payload["case"], keep=payload["keep"])
        if st.get("_panics"):
            print("implementation PANICKED: %s" % (st["_panics"],))
            return 1
        print("implementation trace (Coq term):")
        print(cs[0][2])
        codes = core.eval_cases(pid + "_replay", suite["imports"], suite["check"], suite["case_type"], cs, shards=1)
        c = codes[payload["case"]]
        print("model vs implementation: %s" % ("agree" if c // 4 == 0 else "first differing observation at step %d" % (c // 4 - 1)))
        if suite.get("monitor"):
            codes = core.eval_cases(pid + "_replay_mon", suite["imports"], suite["monitor"], suite["case_type"], cs, shards=1)
            c2 = codes[payload["case"]]
            print("property monitor: %s" % ("holds" if c2 // 4 == 0 else "FAILS at step %d" % (c2 // 4 - 1)))
            return 1 if (c // 4 or c2 // 4) else 0
        return 1 if c // 4 else 0
    return 0
