#!/usr/bin/env python3
"""Prints the prompt given to an independent sub-agent that seeds a property-breaking change."""
import json, sys
pid, tag = sys.argv[1], sys.argv[2]
p = [json.loads(l) for l in open('/verif/properties.jsonl') if json.loads(l)['id'] == pid][0]
wt = "/tmp/mut_%s_%s" % (pid, tag)
print(f"""You are helping to evaluate a verification effort for the Rust project greatest-ape/aquatic (a BitTorrent tracker: UDP, HTTP and WebTorrent servers plus protocol crates). Your job: produce ONE realistic code change that BREAKS the semantic property below while the project still compiles and its existing test suite still passes, plus a demonstration that fails with your change and passes without it.

Work ONLY in your own scratch git worktree. Create it with:
  git -C /repo worktree add --detach {wt} HEAD
and do everything inside {wt} (never edit /repo itself, never look at or use anything under /verif). To speed up builds you may first `cp -r /repo/target {wt}/target`. The sandbox is offline: always pass --offline to cargo (CARGO_NET_OFFLINE=true). The existing test suite is run with:
  cd {wt} && cargo nextest run --workspace --no-fail-fast --offline    (fallback: cargo test --workspace --no-fail-fast --offline)
All 62 existing tests must still pass with your change applied.

THE PROPERTY ({p['id']}: {p['title']})
Statement: {p['statement']}
Quantified over: {p['quantifier']['text']}
Why the existing tests cannot settle it: {p['why_tests_cant']}
Code it is anchored in: {', '.join(p['anchors']['files'])}

REQUIREMENTS FOR THE CHANGE
- It must look like something a developer could plausibly write (an off-by-one, a wrong comparison, a dropped branch, a refactor that loses a case, a reordered pair of statements, an "optimisation"), not sabotage with an obvious marker. Keep it small (a few lines) and in the non-test source of the crates.
- It must need something SPECIFIC to manifest: a multi-step sequence of operations, an unusual input or boundary value, a particular representation state (e.g. a swarm just above/below a size threshold), a particular interleaving or fault, or two cooperating sites that each look fine alone. Ordinary everyday use should NOT expose it at once.
- The project must still compile and all existing tests must still pass with it.
- Do not add cfg flags or features; do not touch tests.

DELIVERABLES (write them into {wt}/_seeded/):
1. patch.diff  — `git -C {wt} diff` of your source change ONLY (not the demonstration), applicable to /repo HEAD with `git apply`.
2. demo/ — a demonstration: preferably a new integration test file or small Rust program (say where it goes, e.g. crates/udp/tests/seeded_demo.rs, and the exact cargo command to run it) that FAILS with the change and PASSES without it. Put a copy of the file(s) in _seeded/demo/ and make sure they are NOT part of patch.diff.
3. meta.json — {{"property": "{p['id']}", "summary": "...what the change does...", "needs_to_manifest": "...the specific sequence/input/state...", "files_changed": [...], "demo_cmd": "...", "demo_files": {{"<path relative to repo root>": "<file name under _seeded/demo/>"}}, "ran": ["commands you ran and their outcome"]}}

Before finishing, VERIFY yourself: (a) with the change: existing suite passes, demo fails; (b) with the change reverted (save it with `git diff > /tmp/my.patch`, revert with `git checkout -- <files>`, re-apply with `git apply` - do NOT use `git stash`, the stash is shared between worktrees): demo passes. Report the outcome of each. When done, leave the worktree in place (the caller will collect _seeded/ and remove it) but delete {wt}/target to save disk. Reply with a short summary: what you changed, what it needs to manifest, and the verification results.""")
