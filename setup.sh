#!/bin/bash
# Build the verification framework from files on disk only (offline): regenerate the facts
# from /repo, full .vo build of the Coq development, build the correspondence harness.
set -e
cd "$(dirname "$0")"
export CARGO_NET_OFFLINE=true
mkdir -p .cache evidence replays
python3 translator/facts.py "${VERIF_REPO:-/repo}" coq/Gen
( cd coq && coq_makefile -f _CoqProject -o Makefile && timeout 3000 make -k -j16 )
cp "${VERIF_REPO:-/repo}/Cargo.lock" harness/Cargo.lock
( cd harness && cargo build --offline )
echo "setup done"
