#!/bin/bash
# Runs every registered quick check on /repo's current tree (refreshes evidence/*.json).
cd "$(dirname "$0")"
fail=0
for id in $(python3 -c "import json;print(' '.join(c['property_id'] for c in json.load(open('MANIFEST.json'))['checks']))"); do
  out=$(./vcheck $id --tier ${1:-quick} 2>&1 | grep -v '^KNOWN-FINDING' | tail -1)
  echo "$id: $out"
  case "$out" in OK*) ;; *) fail=1;; esac
done
exit $fail
