//! C15 (and the ws part of C12): the real `InMessage::{to_ws_message,from_ws_message}` and
//! `OutMessage::{to_ws_message,from_ws_message}` on generated messages (adversarial SDP strings,
//! identifiers with every byte value) and on hand-built JSON texts (identifier strings of length
//! 0..40, characters above U+00FF, null / missing / wrongly typed / unknown fields).  The JSON
//! text layer is bridged with serde_json::Value: the model sees the tree of the text.
use aquatic_ws_protocol::common::*;
use aquatic_ws_protocol::incoming::*;
use aquatic_ws_protocol::outgoing::*;
use serde_json::Value;

use crate::coqfmt as cq;
use crate::prng::Prng;
use crate::Args;

fn cps(s: &str) -> String {
    let items: Vec<String> = s.chars().map(|c| (c as u32).to_string()).collect();
    format!("[{}]%N", items.join("; "))
}
fn bytes(b: &[u8]) -> String {
    let items: Vec<String> = b.iter().map(|c| c.to_string()).collect();
    format!("[{}]%N", items.join("; "))
}

fn tree(v: &Value) -> String {
    match v {
        Value::Null => "RNull".to_string(),
        Value::Bool(b) => format!("RBool {}", b),
        Value::Number(n) => match n.as_u64() {
            Some(u) if !n.is_f64() => format!("RNum {}", cq::n(u)),
            _ => "ROther".to_string(),
        },
        Value::String(s) => format!("RStr {}", cps(s)),
        Value::Array(a) => format!("RArr {}", cq::list(&a.iter().map(|x| format!("({})", tree(x))).collect::<Vec<_>>())),
        Value::Object(o) => {
            let fs: Vec<String> = o.iter().map(|(k, x)| format!("({}, {})", cps(k), tree(x))).collect();
            format!("RObj {}", cq::list(&fs))
        }
    }
}

fn id(rng: &mut Prng) -> [u8; 20] {
    let mut b = [0u8; 20];
    match rng.below(6) {
        0 => {}
        1 => b = [0xff; 20],
        // bytes that are JSON structure when they stand outside a string
        4 => b = [b'['; 20],
        5 => b = *b"{{{{{{{{{{[[[[[[[[[[",
        2 => {
            for (i, x) in b.iter_mut().enumerate() {
                *x = (i as u8).wrapping_mul(13).wrapping_add(rng.below(256) as u8)
            }
        }
        _ => b = *b"\"\\\x00\x1f\x7f\x80/abcdefghijklm",
    }
    b
}

fn sdp(rng: &mut Prng) -> String {
    if rng.chance(1, 4) {
        // texts of boundary lengths (bytes), with the odd escape-worthy or multi-byte character
        let len = *rng.pick(&[19usize, 20, 21, 63, 64, 65, 255, 256, 257, 1000, 4000]);
        let mut m = String::new();
        while m.len() < len {
            match rng.below(24) {
                0 => m.push('"'),
                1 => m.push('\\'),
                2 => m.push('\n'),
                3 if m.len() + 2 <= len => m.push('\u{e9}'),
                _ => m.push((b'a' + rng.below(26) as u8) as char),
            }
        }
        return m;
    }
    if rng.chance(1, 4) {
        // texts that END in a backslash / an escaped quote, or are full of brackets: whatever scans
        // the JSON text for structure must know exactly where each string ends
        return match rng.below(5) {
            0 => "ends in a backslash\\".to_string(),
            1 => "\\".to_string(),
            2 => "[".repeat(40),
            3 => format!("{}\\", "{".repeat(40)),
            _ => format!("x\\\"{}", "[{".repeat(20)),
        };
    }
    rng.pick(&["", "v=0\r\no=- 1 2 IN IP4 127.0.0.1", "q\"uote\\back/slash", "\u{0}\u{1}\u{1f}\u{7f}", "\u{1F600} non-BMP \u{10FFFF}", "h\u{e9}llo \u{2028}\u{2029}"])
        .to_string()
}

fn in_term(m: &InMessage) -> String {
    match m {
        InMessage::AnnounceRequest(a) => {
            let ev = a.event.map(|e| {
                match e {
                    AnnounceEvent::Started => "WEvStarted",
                    AnnounceEvent::Stopped => "WEvStopped",
                    AnnounceEvent::Completed => "WEvCompleted",
                    AnnounceEvent::Update => "WEvUpdate",
                }
                .to_string()
            });
            let offers = a.offers.as_ref().map(|os| {
                cq::list(&os.iter().map(|o| format!("mkWoffer {} {}", cps(&o.offer.sdp), bytes(&o.offer_id.0))).collect::<Vec<_>>())
            });
            format!(
                "InAnnounce (mkWann {} {} {} {} {} {} {} {} {})",
                bytes(&a.info_hash.0),
                bytes(&a.peer_id.0),
                cq::opt(a.bytes_left.map(cq::n)),
                cq::opt(ev),
                cq::opt(offers),
                cq::opt(a.numwant.map(cq::n)),
                cq::opt(a.answer.as_ref().map(|x| cps(&x.sdp))),
                cq::opt(a.answer_to_peer_id.map(|p| bytes(&p.0))),
                cq::opt(a.answer_offer_id.map(|p| bytes(&p.0)))
            )
        }
        InMessage::ScrapeRequest(s) => {
            let h = s.info_hashes.as_ref().map(|h| match h {
                ScrapeRequestInfoHashes::Single(x) => format!("(WSingle {})", bytes(&x.0)),
                ScrapeRequestInfoHashes::Multiple(xs) => {
                    format!("(WMultiple {})", cq::list(&xs.iter().map(|x| bytes(&x.0)).collect::<Vec<_>>()))
                }
            });
            format!("InScrape {}", cq::opt(h))
        }
    }
}

/// messages built to confuse anything that scans the JSON text for structure: an early string ends
/// in a backslash, later strings hold more than 32 brackets
fn gen_in_adversarial(rng: &mut Prng) -> InMessage {
    let tail = *rng.pick(&["\\", "a\\", "\"\\", "\\\\\\"]);
    let brackets: [[u8; 20]; 3] = [[b'['; 20], [b'{'; 20], *b"{{{{{{{{{{[[[[[[[[[["];
    let n_off = 2 + rng.below(4) as usize;
    let with_answer = rng.chance(1, 2);
    InMessage::AnnounceRequest(AnnounceRequest {
        action: AnnounceAction::Announce,
        info_hash: InfoHash(*rng.pick(&[*b"ABCDEFGHIJKLMNOPQRS\\", [b'h'; 20]])),
        peer_id: PeerId(*rng.pick(&[*b"abcdefghijklmnopqrs\\", [b'p'; 20]])),
        bytes_left: Some(1),
        event: None,
        offers: Some(
            (0..n_off)
                .map(|i| AnnounceRequestOffer {
                    offer: RtcOffer { t: RtcOfferType::Offer, sdp: if i == 0 { tail.to_string() } else { sdp(rng) } },
                    offer_id: OfferId(*rng.pick(&brackets)),
                })
                .collect(),
        ),
        numwant: None,
        answer: if with_answer { Some(RtcAnswer { t: RtcAnswerType::Answer, sdp: tail.to_string() }) } else { None },
        answer_to_peer_id: if with_answer { Some(PeerId(*rng.pick(&brackets))) } else { None },
        answer_offer_id: if with_answer { Some(OfferId(*rng.pick(&brackets))) } else { None },
    })
}

fn gen_in(rng: &mut Prng) -> InMessage {
    if rng.chance(1, 8) {
        return gen_in_adversarial(rng);
    }
    if rng.chance(2, 3) {
        let n_off = rng.below(3) as usize;
        let with_answer = rng.chance(1, 3);
        InMessage::AnnounceRequest(AnnounceRequest {
            action: AnnounceAction::Announce,
            info_hash: InfoHash(id(rng)),
            peer_id: PeerId(id(rng)),
            bytes_left: *rng.pick(&[None, Some(0usize), Some(5), Some(usize::MAX)]),
            event: *rng.pick(&[None, Some(AnnounceEvent::Started), Some(AnnounceEvent::Stopped), Some(AnnounceEvent::Completed), Some(AnnounceEvent::Update)]),
            offers: if rng.chance(1, 2) {
                Some((0..n_off).map(|_| AnnounceRequestOffer { offer: RtcOffer { t: RtcOfferType::Offer, sdp: sdp(rng) }, offer_id: OfferId(id(rng)) }).collect())
            } else {
                None
            },
            numwant: *rng.pick(&[None, Some(0usize), Some(10)]),
            answer: if with_answer { Some(RtcAnswer { t: RtcAnswerType::Answer, sdp: sdp(rng) }) } else { None },
            answer_to_peer_id: if with_answer { Some(PeerId(id(rng))) } else { None },
            answer_offer_id: if with_answer { Some(OfferId(id(rng))) } else { None },
        })
    } else {
        InMessage::ScrapeRequest(ScrapeRequest {
            action: ScrapeAction::Scrape,
            info_hashes: match rng.below(4) {
                0 => None,
                1 => Some(ScrapeRequestInfoHashes::Single(InfoHash(id(rng)))),
                2 => Some(ScrapeRequestInfoHashes::Multiple(vec![])),
                _ => Some(ScrapeRequestInfoHashes::Multiple((0..1 + rng.below(3)).map(|_| InfoHash(id(rng))).collect())),
            },
        })
    }
}

fn out_term(m: &OutMessage) -> String {
    match m {
        OutMessage::OfferOutMessage(o) => {
            format!("OutOffer {} {} {} {}", bytes(&o.peer_id.0), bytes(&o.info_hash.0), cps(&o.offer.sdp), bytes(&o.offer_id.0))
        }
        OutMessage::AnswerOutMessage(o) => {
            format!("OutAnswer {} {} {} {}", bytes(&o.peer_id.0), bytes(&o.info_hash.0), cps(&o.answer.sdp), bytes(&o.offer_id.0))
        }
        OutMessage::AnnounceResponse(a) => {
            format!("OutAnnounce {} {} {} {}", bytes(&a.info_hash.0), cq::n(a.complete), cq::n(a.incomplete), cq::n(a.announce_interval))
        }
        OutMessage::ScrapeResponse(s) => {
            let mut fs: Vec<(&InfoHash, &ScrapeStatistics)> = s.files.iter().collect();
            fs.sort_by_key(|x| x.0 .0);
            let items: Vec<String> =
                fs.iter().map(|(h, st)| format!("({}, ({}, {}, {}))", bytes(&h.0), cq::n(st.complete), cq::n(st.incomplete), cq::n(st.downloaded))).collect();
            format!("OutScrape {}", cq::list(&items))
        }
        OutMessage::ErrorResponse(e) => {
            let act = e.action.as_ref().map(|a| match a {
                ErrorResponseAction::Announce => "ErrAnnounce".to_string(),
                ErrorResponseAction::Scrape => "ErrScrape".to_string(),
            });
            format!("OutError {} {} {}", cps(&e.failure_reason), cq::opt(act), cq::opt(e.info_hash.map(|h| bytes(&h.0))))
        }
    }
}

fn gen_out(rng: &mut Prng) -> OutMessage {
    if rng.chance(1, 8) {
        // see gen_in_adversarial
        let brackets: [[u8; 20]; 3] = [[b'['; 20], [b'{'; 20], *b"{{{{{{{{{{[[[[[[[[[["];
        let tail_id = *b"abcdefghijklmnopqrs\\";
        let tail_sdp = rng.pick(&["\\", "v=0\\"]).to_string();
        return if rng.chance(1, 2) {
            OutMessage::AnswerOutMessage(AnswerOutMessage {
                action: AnnounceAction::Announce,
                peer_id: PeerId(if rng.chance(1, 2) { tail_id } else { *rng.pick(&brackets) }),
                info_hash: InfoHash(*rng.pick(&brackets)),
                answer: RtcAnswer { t: RtcAnswerType::Answer, sdp: tail_sdp },
                offer_id: OfferId(*rng.pick(&brackets)),
            })
        } else {
            OutMessage::OfferOutMessage(OfferOutMessage {
                action: AnnounceAction::Announce,
                peer_id: PeerId(if rng.chance(1, 2) { tail_id } else { *rng.pick(&brackets) }),
                info_hash: InfoHash(*rng.pick(&brackets)),
                offer: RtcOffer { t: RtcOfferType::Offer, sdp: tail_sdp },
                offer_id: OfferId(*rng.pick(&brackets)),
            })
        };
    }
    match rng.below(5) {
        0 => OutMessage::OfferOutMessage(OfferOutMessage {
            action: AnnounceAction::Announce,
            peer_id: PeerId(id(rng)),
            info_hash: InfoHash(id(rng)),
            offer: RtcOffer { t: RtcOfferType::Offer, sdp: sdp(rng) },
            offer_id: OfferId(id(rng)),
        }),
        1 => OutMessage::AnswerOutMessage(AnswerOutMessage {
            action: AnnounceAction::Announce,
            peer_id: PeerId(id(rng)),
            info_hash: InfoHash(id(rng)),
            answer: RtcAnswer { t: RtcAnswerType::Answer, sdp: sdp(rng) },
            offer_id: OfferId(id(rng)),
        }),
        2 => OutMessage::AnnounceResponse(AnnounceResponse {
            action: AnnounceAction::Announce,
            info_hash: InfoHash(id(rng)),
            complete: rng.below(1000) as usize,
            incomplete: *rng.pick(&[0usize, 7, usize::MAX]),
            announce_interval: 120,
        }),
        3 => {
            let mut files = hashbrown::HashMap::new();
            for _ in 0..rng.below(4) {
                files.insert(InfoHash(id(rng)), ScrapeStatistics { complete: rng.below(9) as usize, incomplete: rng.below(9) as usize, downloaded: 0 });
            }
            OutMessage::ScrapeResponse(ScrapeResponse { action: ScrapeAction::Scrape, files })
        }
        _ => OutMessage::ErrorResponse(ErrorResponse {
            failure_reason: rng.pick(&["Invalid request", "q\"\\", "\u{1F600}"]).to_string().into(),
            action: match rng.below(3) { 0 => None, 1 => Some(ErrorResponseAction::Announce), _ => Some(ErrorResponseAction::Scrape) },
            info_hash: if rng.chance(1, 2) { Some(InfoHash(id(rng))) } else { None },
        }),
    }
}

/// identifier text whose UTF-8 BYTE length (not its character count) is 20, 19 or 21: some
/// two-, three- or four-byte characters and ASCII filling, in random order
fn id_text_by_bytes(rng: &mut Prng) -> String {
    let target = *rng.pick(&[20usize, 20, 20, 19, 21]);
    let mut chars: Vec<char> = Vec::new();
    let mut bytes = 0usize;
    let n_wide = 1 + rng.below(5) as usize;
    for _ in 0..n_wide {
        let c = match rng.below(4) {
            0 | 1 => char::from_u32(0x80 + rng.below(0x80) as u32).unwrap(), // 2 bytes, a valid id character
            2 => *rng.pick(&['\u{100}', '\u{20ac}', '\u{7ff}', '\u{800}']),
            _ => '\u{1f600}',
        };
        if bytes + c.len_utf8() <= target {
            bytes += c.len_utf8();
            chars.push(c);
        }
    }
    while bytes < target {
        chars.push((b'a' + rng.below(26) as u8) as char);
        bytes += 1;
    }
    for i in (1..chars.len()).rev() {
        let j = rng.below(i as u64 + 1) as usize;
        chars.swap(i, j);
    }
    chars.into_iter().collect()
}

fn id_text(rng: &mut Prng) -> String {
    if rng.chance(1, 5) {
        return id_text_by_bytes(rng);
    }
    let len = *rng.pick(&[0usize, 1, 19, 20, 20, 20, 20, 20, 20, 20, 20, 20, 20, 21, 25, 40]);
    let mut s = String::new();
    for _ in 0..len {
        let c = match rng.below(6) {
            0 => 'a',
            1 => '\u{ff}',
            2 => '\u{0}',
            3 => '"',
            4 => if rng.chance(1, 12) { '\u{100}' } else { 'z' },
            _ => char::from(rng.below(256) as u8),
        };
        s.push(c);
    }
    s
}

fn handbuilt(rng: &mut Prng) -> Value {
    use serde_json::json;
    let mut o = serde_json::Map::new();
    let kind = rng.below(10);
    o.insert("action".into(), json!(*rng.pick(&["announce", "announce", "announce", "scrape", "Announce", ""])));
    if rng.chance(9, 10) {
        let v = if kind == 0 { json!([id_text(rng)]) } else { json!(id_text(rng)) };
        o.insert("info_hash".into(), v);
    }
    if rng.chance(9, 10) {
        o.insert("peer_id".into(), if rng.chance(1, 12) { json!(5) } else { json!(id_text(rng)) });
    }
    match rng.below(6) {
        0 => {}
        1 => { o.insert("left".into(), Value::Null); }
        2 => { o.insert("left".into(), json!(0)); }
        3 => { o.insert("left".into(), json!(-1)); }
        4 => { o.insert("left".into(), json!("5")); }
        _ => { o.insert("left".into(), json!(18446744073709551615u64)); }
    }
    if rng.chance(1, 2) {
        o.insert("event".into(), json!(*rng.pick(&["started", "stopped", "completed", "update", "paused"])));
    }
    if rng.chance(1, 2) {
        let n = rng.below(3);
        let mut arr = Vec::new();
        for _ in 0..n {
            let mut off = serde_json::Map::new();
            off.insert("offer".into(), json!({"type": *rng.pick(&["offer", "offer", "answer"]), "sdp": sdp(rng)}));
            off.insert("offer_id".into(), json!(id_text(rng)));
            if rng.chance(1, 4) {
                off.insert("extra".into(), json!(true));
            }
            arr.push(Value::Object(off));
        }
        o.insert("offers".into(), if rng.chance(1, 8) { Value::Null } else { Value::Array(arr) });
    }
    if rng.chance(1, 3) {
        o.insert("answer".into(), json!({"type": "answer", "sdp": sdp(rng)}));
        o.insert("to_peer_id".into(), json!(id_text(rng)));
        o.insert("offer_id".into(), json!(id_text(rng)));
    }
    if rng.chance(1, 3) {
        o.insert("unknown_field".into(), json!({"a": [1, 2, null]}));
    }
    if rng.chance(1, 6) {
        o.insert("numwant".into(), json!(*rng.pick(&[0i64, 10, -5])));
    }
    Value::Object(o)
}

pub fn run(args: &Args) {
    crate::drive(args, 0xc15, |rng, _keep, _seed, header, items| {
        *header = "true".to_string();
        for _ in 0..5 {
            match rng.below(3) {
                0 => {
                    let m = gen_in(rng);
                    let ws = m.to_ws_message();
                    let text = ws.to_text().unwrap().to_string();
                    let v: Value = serde_json::from_str(&text).unwrap();
                    let back_text = InMessage::from_ws_message(tungstenite::Message::text(text.clone())).ok() == Some(m.clone());
                    let back_bin = InMessage::from_ws_message(tungstenite::Message::binary(text.clone().into_bytes())).ok() == Some(m.clone());
                    items.push(format!("WIn ({}) ({}) {}", in_term(&m), tree(&v), cq::b(back_text && back_bin)));
                }
                1 => {
                    let v = handbuilt(rng);
                    let text = serde_json::to_string(&v).unwrap();
                    let r1 = InMessage::from_ws_message(tungstenite::Message::text(text.clone())).ok();
                    let r2 = InMessage::from_ws_message(tungstenite::Message::binary(text.clone().into_bytes())).ok();
                    assert_eq!(r1, r2, "text and binary frames parse differently");
                    items.push(format!("WParse ({}) {}", tree(&v), cq::opt(r1.as_ref().map(|m| format!("({})", in_term(m))))));
                }
                _ => {
                    let m = gen_out(rng);
                    let ws = m.to_ws_message();
                    let text = ws.to_text().unwrap().to_string();
                    let v: Value = serde_json::from_str(&text).unwrap();
                    let back = OutMessage::from_ws_message(tungstenite::Message::text(text.clone())).ok() == Some(m.clone());
                    items.push(format!("WOut ({}) ({}) {}", out_term(&m), tree(&v), cq::b(back)));
                }
            }
        }
    });
}
