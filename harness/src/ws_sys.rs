//! C17: histories against a RUNNING WebTorrent tracker. Every case runs in its own child process
//! of the harness (`ws-sys-case`): the child starts aquatic_ws::run in-process (socket_workers x
//! swarm_workers in {1,2,3}^2, plain TCP), learns through the hook probe `ws_conn_open` which
//! (socket worker, connection id) each of its WebSocket client connections got, plays the
//! history - announces with offers and answers, scrapes (several workers, empty, absent,
//! more than max_scrape_torrents), invalid messages, a second peer id, orderly closes and abrupt
//! TCP drops, re-opened connections - and after EVERY action collects what EVERY connection
//! received.
use std::collections::HashMap;
use std::io::{BufRead, BufReader};
use std::net::TcpStream;
use std::sync::Mutex;
use std::time::{Duration, Instant};

use aquatic_ws::config::Config;
use aquatic_ws_protocol::outgoing::OutMessage;
use tungstenite::{Message, WebSocket};

use crate::coqfmt as cq;
use crate::prng::Prng;
use crate::Args;

static CONNS: Mutex<Option<HashMap<u16, (u8, u64)>>> = Mutex::new(None);

fn sdp_num(s: &str) -> u64 {
    s.trim_start_matches('s').parse().unwrap_or(0)
}

struct Client {
    ws: WebSocket<TcpStream>,
    consumer: u8,
    conn: u64,
}

fn open(port: u16) -> Client {
    let stream = TcpStream::connect(("127.0.0.1", port)).unwrap();
    stream.set_nodelay(true).unwrap();
    let local_port = stream.local_addr().unwrap().port();
    let (ws, _) = tungstenite::client::client(format!("ws://127.0.0.1:{}/", port), stream).expect("ws handshake");
    ws.get_ref().set_read_timeout(Some(Duration::from_millis(20))).unwrap();
    let deadline = Instant::now() + Duration::from_secs(5);
    loop {
        if let Some((consumer, conn)) = CONNS.lock().unwrap().as_ref().unwrap().get(&local_port).copied() {
            return Client { ws, consumer, conn };
        }
        if Instant::now() > deadline {
            panic!("harness: the tracker never reported the connection from port {}", local_port);
        }
        std::thread::sleep(Duration::from_millis(2));
    }
}

fn hex20(s: &str) -> [u8; 20] {
    // identifiers travel as 20 latin-1 characters
    let mut out = [0u8; 20];
    for (i, c) in s.chars().take(20).enumerate() {
        out[i] = c as u32 as u8;
    }
    out
}

fn id_str(b: &[u8; 20]) -> String {
    // JSON string escape of 20 latin-1 characters
    let mut s = String::new();
    for &x in b {
        let c = x as char;
        match c {
            '"' => s.push_str("\\\""),
            '\\' => s.push_str("\\\\"),
            c if (c as u32) < 0x20 => s.push_str(&format!("\\u{:04x}", c as u32)),
            c => s.push(c),
        }
    }
    s
}

fn msg_term(c: &Client, m: &OutMessage) -> String {
    let cc = cq::n(c.consumer);
    let k = cq::n(c.conn);
    match m {
        OutMessage::OfferOutMessage(o) => format!(
            "DOut (WOffer {} {} {} {} {} {})",
            cc, k, cq::id20(&o.info_hash.0), cq::id20(&o.peer_id.0), cq::id20(&o.offer_id.0), cq::n(sdp_num(&o.offer.sdp))
        ),
        OutMessage::AnswerOutMessage(a) => format!(
            "DOut (WAnswer {} {} {} {} {} {})",
            cc, k, cq::id20(&a.info_hash.0), cq::id20(&a.peer_id.0), cq::id20(&a.offer_id.0), cq::n(sdp_num(&a.answer.sdp))
        ),
        OutMessage::ErrorResponse(e) => {
            let kind = match e.failure_reason.as_ref() {
                "Invalid request" => 1,
                "Only one peer id can be used per torrent" => 2,
                "Full scrapes are not allowed" => 3,
                "Info hash not allowed" => 4,
                _ => 0,
            };
            if kind == 0 {
                format!("DOut (WError {} {} {})", cc, k, e.info_hash.map(|h| cq::id20(&h.0)).unwrap_or("0%N".into()))
            } else {
                format!("DErr {} {} {}", cc, k, cq::n(kind))
            }
        }
        OutMessage::AnnounceResponse(a) => {
            format!("DOut (WAnnounce {} {} {} {} {})", cc, k, cq::id20(&a.info_hash.0), cq::nat(a.complete), cq::nat(a.incomplete))
        }
        OutMessage::ScrapeResponse(s) => {
            let mut files: Vec<([u8; 20], usize, usize)> = s.files.iter().map(|(h, st)| (h.0, st.complete, st.incomplete)).collect();
            files.sort();
            let items: Vec<String> = files.iter().map(|(h, c, i)| format!("({}, ({}, {}))", cq::id20(h), cq::nat(*c), cq::nat(*i))).collect();
            format!("DOut (WScrape {} {} {})", cc, k, cq::list(&items))
        }
    }
}

/// drain every live connection until nothing has arrived for `quiet`
fn collect(clients: &mut [Option<Client>], first_wait: Duration, quiet: Duration) -> Vec<(usize, Option<OutMessage>, String)> {
    let mut got: Vec<(usize, Option<OutMessage>, String)> = Vec::new();
    let start = Instant::now();
    let mut last = Instant::now();
    loop {
        let mut any = false;
        for (slot_idx, slot) in clients.iter_mut().enumerate() {
            let mut dead = false;
            if let Some(c) = slot.as_mut() {
                loop {
                    match c.ws.read() {
                        Ok(Message::Text(t)) => {
                            any = true;
                            match OutMessage::from_ws_message(Message::text(t.to_string())) {
                                Ok(m) => {
                                    let t = msg_term(c, &m);
                                    got.push((slot_idx, Some(m), t))
                                }
                                Err(_) => got.push((slot_idx, None, format!("DErr {} {} 99", cq::n(c.consumer), cq::n(c.conn)))),
                            }
                        }
                        Ok(Message::Close(_)) => {
                            dead = true;
                            break;
                        }
                        Ok(_) => {}
                        Err(tungstenite::Error::Io(e)) if e.kind() == std::io::ErrorKind::WouldBlock || e.kind() == std::io::ErrorKind::TimedOut => break,
                        Err(_) => {
                            dead = true;
                            break;
                        }
                    }
                }
            }
            if dead {
                // the tracker closed this connection; keep the slot's identity for the term but stop reading
                if let Some(c) = slot.as_mut() {
                    let _ = c.ws.get_ref().shutdown(std::net::Shutdown::Both);
                }
                // mark by a poisoned socket: reads fail fast from now on
            }
        }
        if any {
            last = Instant::now();
        }
        let waited_enough = if got.is_empty() { start.elapsed() >= first_wait } else { last.elapsed() >= quiet };
        if waited_enough {
            return got;
        }
    }
}

/// `ws-sys-case`: the child process running one case
pub fn case_child(args: &Args) {
    let idx = args.only.unwrap_or(0);
    let mut rng = Prng::new(args.seed ^ ((idx as u64) << 20) ^ 0x17c);
    *CONNS.lock().unwrap() = Some(HashMap::new());
    aquatic_common::verif::set_probe(Some(Box::new(|name, arg| {
        if name == "ws_conn_open" {
            let port = (arg >> 40) as u16;
            let consumer = ((arg >> 32) & 0xff) as u8;
            let conn = arg & 0xffff_ffff;
            if let Some(m) = CONNS.lock().unwrap().as_mut() {
                m.insert(port, (consumer, conn));
            }
        }
    })));
    let sw = 1 + rng.below(3) as usize;
    let k = 1 + rng.below(3) as usize;
    let max_scrape = *rng.pick(&[1usize, 2, 100]);
    let max_offers = 10usize;
    let port = std::net::TcpListener::bind("127.0.0.1:0").unwrap().local_addr().unwrap().port();
    let mut c = Config::default();
    c.socket_workers = sw;
    c.swarm_workers = k;
    c.network.address = format!("127.0.0.1:{}", port).parse().unwrap();
    c.network.enable_tls = false;
    c.protocol.max_scrape_torrents = max_scrape;
    c.protocol.max_offers = max_offers;
    c.cleaning.torrent_cleaning_interval = 100_000;
    c.cleaning.connection_cleaning_interval = 100_000;
    // torrents (3 routing bytes) are drawn here so that the access list can name one of them
    let pool: Vec<[u8; 20]> = (0..3u8)
        .map(|i| {
            let mut h = [0u8; 20];
            for b in h.iter_mut() {
                *b = 0x30 + rng.below(60) as u8;
            }
            h[0] = i + 1;
            h
        })
        .collect();
    let acl_mode = *rng.pick(&[0u8, 0, 1, 2]);
    let acl_file = format!("/verif/.cache/scratch/ws-sys-acl-{}.txt", std::process::id());
    if acl_mode != 0 {
        let path = acl_file.clone();
        std::fs::create_dir_all("/verif/.cache/scratch").unwrap();
        std::fs::write(&path, format!("{}\n", pool[0].iter().map(|b| format!("{:02x}", b)).collect::<String>())).unwrap();
        c.access_list.path = path.into();
        c.access_list.mode = if acl_mode == 1 { aquatic_common::access_list::AccessListMode::Allow } else { aquatic_common::access_list::AccessListMode::Deny };
    }
    std::thread::spawn(move || {
        let r = aquatic_ws::run(c);
        eprintln!("tracker returned: {:?}", r.err());
        std::process::exit(4);
    });
    let deadline = Instant::now() + Duration::from_secs(8);
    while TcpStream::connect(("127.0.0.1", port)).is_err() {
        if Instant::now() > deadline {
            eprintln!("tracker did not start");
            std::process::exit(5);
        }
        std::thread::sleep(Duration::from_millis(20));
    }
    // warm up: until a scrape is answered through every socket worker we happen to reach
    for _ in 0..(3 * sw) {
        let mut w = open(port);
        w.ws.get_ref().set_read_timeout(Some(Duration::from_secs(8))).unwrap();
        let _ = w.ws.send(Message::text("{\"action\":\"scrape\",\"info_hash\":[\"\\u00fa\\u00fa\\u00fa\\u00fa\\u00fa\\u00fa\\u00fa\\u00fa\\u00fa\\u00fa\\u00fa\\u00fa\\u00fa\\u00fa\\u00fa\\u00fa\\u00fa\\u00fa\\u00fa\\u00fa\",\"\\u0001\\u00fa\\u00fa\\u00fa\\u00fa\\u00fa\\u00fa\\u00fa\\u00fa\\u00fa\\u00fa\\u00fa\\u00fa\\u00fa\\u00fa\\u00fa\\u00fa\\u00fa\\u00fa\\u00fa\",\"\\u0002\\u00fa\\u00fa\\u00fa\\u00fa\\u00fa\\u00fa\\u00fa\\u00fa\\u00fa\\u00fa\\u00fa\\u00fa\\u00fa\\u00fa\\u00fa\\u00fa\\u00fa\\u00fa\\u00fa\"]}".to_string()));
        let _ = w.ws.read();
        let _ = w.ws.close(None);
    }
    println!(
        "HEADER {}, {}, {}, {}, {}, {}",
        cq::nat(sw),
        cq::nat(k),
        cq::nat(max_scrape),
        cq::nat(max_offers),
        match acl_mode { 0 => "AclOff", 1 => "AclAllow", _ => "AclDeny" },
        if acl_mode == 0 { "[]".to_string() } else { cq::list(&[cq::id20(&pool[0])]) }
    );
    // 3 torrents on different first bytes (drawn above); 5 client slots; connection i uses peer id P_i
    let pids: Vec<[u8; 20]> = (0..5u8).map(|i| [0x41 + i; 20]).collect();
    let offer_id = |n: u8| -> [u8; 20] { [0x61 + n; 20] };
    let mut clients: Vec<Option<Client>> = (0..5).map(|_| None).collect();
    // which torrents a slot may announce: at most 3 announcers per torrent keeps the receiver
    // selection deterministic (len <= max + 1)
    let may: [[usize; 2]; 5] = [[0, 1], [0, 1], [0, 2], [1, 2], [2, 2]];
    let who = |c: &Client| format!("({}, {})", cq::n(c.consumer), cq::n(c.conn));
    let mut pending_offers: Vec<(usize, [u8; 20], [u8; 20], [u8; 20])> = Vec::new(); // (receiver slot, hash, from pid, offer id)
    let n_steps = 10 + rng.below(16) as usize;
    let mut sdp = 1u64;
    for step in 0..n_steps {
        let i = rng.below(5) as usize;
        if clients[i].is_none() {
            let c = open(port);
            println!("ITEM WSysStep {} (COpen false) []", who(&c));
            clients[i] = Some(c);
            continue;
        }
        if acl_mode != 0 && rng.chance(1, 8) {
            // rewrite the access list and signal the tracker (SIGUSR1); sometimes the new file is unreadable
            let ok = rng.chance(3, 4);
            let listed: Vec<[u8; 20]> = pool.iter().copied().filter(|_| rng.chance(1, 2)).collect();
            let mut text: String = listed.iter().map(|h| format!("{}\n", h.iter().map(|b| format!("{:02x}", b)).collect::<String>())).collect();
            if !ok {
                text.push_str("zz\n");
            }
            std::fs::write(&acl_file, text).unwrap();
            unsafe {
                libc::kill(libc::getpid(), libc::SIGUSR1);
            }
            std::thread::sleep(Duration::from_millis(250));
            println!("ITEM WSysReload {} {}", cq::list(&listed.iter().map(cq::id20).collect::<Vec<_>>()), cq::b(ok));
            continue;
        }
        let kind = rng.below(22);
        let me = who(clients[i].as_ref().unwrap());
        if kind >= 20 {
            // burst: 2..5 scrapes written back to back on this connection before anything is read
            let n = 2 + rng.below(4) as usize;
            let mut acts: Vec<String> = Vec::new();
            {
                let c = clients[i].as_mut().unwrap();
                for _ in 0..n {
                    let m = 1 + rng.below(3) as usize;
                    let hs: Vec<[u8; 20]> = (0..m).map(|j| if rng.chance(4, 5) { *rng.pick(&pool) } else { let mut h = [0x7b; 20]; h[0] = j as u8; h }).collect();
                    let items: Vec<String> = hs.iter().map(|h| format!("\"{}\"", id_str(h))).collect();
                    let text = format!("{{\"action\":\"scrape\",\"info_hash\":[{}]}}", items.join(","));
                    let _ = c.ws.write(Message::text(text));
                    acts.push(format!("CScrape (Some {})", cq::list(&hs.iter().map(cq::id20).collect::<Vec<_>>())));
                }
                let _ = c.ws.flush();
            }
            let mut got = collect(&mut clients, Duration::from_millis(5000), Duration::from_millis(60));
            // all n replies are expected: keep collecting for a while if some are missing
            let deadline = Instant::now() + Duration::from_secs(3);
            while got.len() < n && Instant::now() < deadline {
                let more = collect(&mut clients, Duration::from_millis(200), Duration::from_millis(60));
                got.extend(more);
            }
            let terms: Vec<String> = got.iter().map(|g| g.2.clone()).collect();
            println!("ITEM WSysBurst {} {} {}", me, cq::list(&acts), cq::list(&terms));
            // the tracker may have torn the connection down
            if let Some(c) = clients[i].as_mut() {
                if c.ws.write(Message::Ping(Vec::new().into())).is_err() || c.ws.flush().is_err() {
                    clients[i] = None;
                }
            }
            continue;
        }
        let (consumer, conn) = {
            let c = clients[i].as_ref().unwrap();
            (c.consumer, c.conn)
        };
        let (action, text, wait_ms): (String, Option<String>, u64) = match kind {
            0..=9 => {
                let hash = pool[*rng.pick(&may[i])];
                let second_pid = rng.chance(1, 6);
                let pid = if second_pid { pids[(i + 1) % 5] } else { pids[i] };
                let ev = if second_pid { *rng.pick(&[3u8, 3, 0, 2]) } else { *rng.pick(&[0u8, 0, 2, 2, 1, 3]) };
                let left: Option<u64> = *rng.pick(&[None, Some(0), Some(5)]);
                let offers: Option<Vec<(u8, u64)>> = if ev != 3 && rng.chance(1, 2) {
                    Some((0..2).map(|_| { sdp += 1; (rng.below(4) as u8, sdp) }).collect())
                } else {
                    None
                };
                // answer: a pending offer forwarded to this slot, or a bogus one
                let answer: Option<([u8; 20], [u8; 20], u64)> = if ev != 3 && rng.chance(1, 3) {
                    sdp += 1;
                    let mine: Vec<&(usize, [u8; 20], [u8; 20], [u8; 20])> = pending_offers.iter().filter(|p| p.0 == i && p.1 == hash).collect();
                    if !mine.is_empty() && rng.chance(3, 4) {
                        let p = **rng.pick(&mine);
                        Some((p.2, p.3, sdp))
                    } else {
                        Some((pids[(i + 2) % 5], offer_id(rng.below(4) as u8), sdp))
                    }
                } else {
                    None
                };
                let mut fields = vec![
                    "\"action\":\"announce\"".to_string(),
                    format!("\"info_hash\":\"{}\"", id_str(&hash)),
                    format!("\"peer_id\":\"{}\"", id_str(&pid)),
                ];
                if let Some(l) = left {
                    fields.push(format!("\"left\":{}", l));
                }
                match ev {
                    1 => fields.push("\"event\":\"completed\"".into()),
                    2 => fields.push("\"event\":\"started\"".into()),
                    3 => fields.push("\"event\":\"stopped\"".into()),
                    _ => {}
                }
                if let Some(os) = &offers {
                    let items: Vec<String> = os
                        .iter()
                        .map(|(id, s)| format!("{{\"offer\":{{\"type\":\"offer\",\"sdp\":\"s{}\"}},\"offer_id\":\"{}\"}}", s, id_str(&offer_id(*id))))
                        .collect();
                    fields.push(format!("\"offers\":[{}]", items.join(",")));
                    fields.push(format!("\"numwant\":{}", os.len()));
                }
                if let Some((to, oid, s)) = &answer {
                    fields.push(format!("\"answer\":{{\"type\":\"answer\",\"sdp\":\"s{}\"}}", s));
                    fields.push(format!("\"to_peer_id\":\"{}\"", id_str(to)));
                    fields.push(format!("\"offer_id\":\"{}\"", id_str(oid)));
                }
                let left_t = match left {
                    None => "None".to_string(),
                    Some(n) => format!("(Some {})", cq::n(n)),
                };
                let offers_t = match &offers {
                    None => "None".to_string(),
                    Some(os) => format!("(Some {})", cq::list(&os.iter().map(|(id, s)| format!("({}, {})", cq::id20(&offer_id(*id)), cq::n(*s))).collect::<Vec<_>>())),
                };
                let answer_t = match &answer {
                    None => "None".to_string(),
                    Some((to, oid, s)) => format!("(Some ({}, {}, {}))", cq::id20(to), cq::id20(oid), cq::n(*s)),
                };
                let term = format!(
                    "CAnnounce (mkWreq {} {} false {} {} {} {} {} {})",
                    cq::n(consumer), cq::n(conn), cq::id20(&hash), cq::id20(&pid), cq::b(ev == 3), left_t, offers_t, answer_t
                );
                (term, Some(format!("{{{}}}", fields.join(","))), 160)
            }
            10..=13 => {
                let shape = rng.below(6);
                let (hs, text): (Option<Vec<[u8; 20]>>, String) = match shape {
                    0 => (None, "{\"action\":\"scrape\"}".to_string()),
                    1 => (Some(vec![]), "{\"action\":\"scrape\",\"info_hash\":[]}".to_string()),
                    2 => {
                        let h = *rng.pick(&pool);
                        (Some(vec![h]), format!("{{\"action\":\"scrape\",\"info_hash\":\"{}\"}}", id_str(&h)))
                    }
                    _ => {
                        let n = 1 + rng.below(4) as usize;
                        let hs: Vec<[u8; 20]> = (0..n)
                            .map(|j| if rng.chance(3, 4) { *rng.pick(&pool) } else { let mut h = [0x7a; 20]; h[0] = j as u8; h })
                            .collect();
                        let items: Vec<String> = hs.iter().map(|h| format!("\"{}\"", id_str(h))).collect();
                        (Some(hs.clone()), format!("{{\"action\":\"scrape\",\"info_hash\":[{}]}}", items.join(",")))
                    }
                };
                let t = match &hs {
                    None => "CScrape None".to_string(),
                    Some(v) => format!("CScrape (Some {})", cq::list(&v.iter().map(cq::id20).collect::<Vec<_>>())),
                };
                (t, Some(text), 160)
            }
            14 => ("CInvalid".to_string(), Some(rng.pick(&["{\"action\":\"nonsense\"}", "not json", "{\"action\":\"announce\",\"info_hash\":\"short\"}"]).to_string()), 160),
            _ => ("CClose".to_string(), None, 60),
        };
        let _ = step;
        match text {
            Some(t) => {
                let c = clients[i].as_mut().unwrap();
                if c.ws.send(Message::text(t)).is_err() {
                    // the tracker had closed this connection: model it as a close
                    clients[i] = None;
                    println!("ITEM WSysStep {} CClose []", me);
                    continue;
                }
            }
            None => {
                let mut c = clients[i].take().unwrap();
                if rng.chance(1, 2) {
                    let _ = c.ws.close(None);
                    let _ = c.ws.flush();
                    // read until the close handshake completes or times out
                    for _ in 0..10 {
                        if c.ws.read().is_err() {
                            break;
                        }
                    }
                } else {
                    // abrupt: drop the TCP stream
                    let _ = c.ws.get_ref().shutdown(std::net::Shutdown::Both);
                }
                drop(c);
                // the tracker needs a moment to run after_close
                std::thread::sleep(Duration::from_millis(40));
            }
        }
        // a scrape or an invalid message is always answered: wait for it as long as it takes (5 s);
        // an announce may legitimately stay unanswered (ownership rule, second peer id): if nothing
        // came, measure how long the tracker takes to answer a control scrape on a connection of
        // its own right now, and wait that long again (keeps the verdict independent of machine load)
        let always_answered = action.starts_with("CScrape") || action.starts_with("CInvalid");
        let mut got = collect(&mut clients, Duration::from_millis(if always_answered { 5000 } else { wait_ms }), Duration::from_millis(35));
        if got.is_empty() && !action.starts_with("CClose") {
            let t0 = Instant::now();
            let mut ctl = open(port);
            ctl.ws.get_ref().set_read_timeout(Some(Duration::from_secs(8))).unwrap();
            let _ = ctl.ws.send(Message::text("{\"action\":\"scrape\",\"info_hash\":[\"\\u00fa\\u00fa\\u00fa\\u00fa\\u00fa\\u00fa\\u00fa\\u00fa\\u00fa\\u00fa\\u00fa\\u00fa\\u00fa\\u00fa\\u00fa\\u00fa\\u00fa\\u00fa\\u00fa\\u00fa\",\"\\u0001\\u00fa\\u00fa\\u00fa\\u00fa\\u00fa\\u00fa\\u00fa\\u00fa\\u00fa\\u00fa\\u00fa\\u00fa\\u00fa\\u00fa\\u00fa\\u00fa\\u00fa\\u00fa\\u00fa\",\"\\u0002\\u00fa\\u00fa\\u00fa\\u00fa\\u00fa\\u00fa\\u00fa\\u00fa\\u00fa\\u00fa\\u00fa\\u00fa\\u00fa\\u00fa\\u00fa\\u00fa\\u00fa\\u00fa\\u00fa\"]}".to_string()));
            let _ = ctl.ws.read();
            let _ = ctl.ws.close(None);
            let lat = t0.elapsed();
            got = collect(&mut clients, lat * 2 + Duration::from_millis(100), Duration::from_millis(35));
        }
        // remember forwarded offers for later answers
        for (slot, m, _) in got.iter() {
            if let Some(OutMessage::OfferOutMessage(o)) = m {
                pending_offers.push((*slot, o.info_hash.0, o.peer_id.0, o.offer_id.0));
            }
        }
        let terms: Vec<String> = got.iter().map(|g| g.2.clone()).collect();
        println!("ITEM WSysStep {} ({}) {}", me, action, cq::list(&terms));
        // a connection refused for a second peer id is closed by the tracker
        if action.starts_with("CAnnounce") && terms.iter().any(|g| g.starts_with("DErr") && g.ends_with(" 2%N")) {
            clients[i] = None;
        }
        let _ = hex20;
    }
    // audit: close every connection still open except one, then a fresh connection scrapes all three
    // torrents (max_scrape_torrents permitting) - what is left in the swarm workers must be what
    // the model holds
    for i in 0..5 {
        if i != 0 {
            if let Some(mut c) = clients[i].take() {
                let me = who(&c);
                let _ = c.ws.get_ref().shutdown(std::net::Shutdown::Both);
                drop(c);
                std::thread::sleep(Duration::from_millis(60));
                let got = collect(&mut clients, Duration::from_millis(60), Duration::from_millis(35));
                let terms: Vec<String> = got.iter().map(|g| g.2.clone()).collect();
                println!("ITEM WSysStep {} (CClose) {}", me, cq::list(&terms));
            }
        }
    }
    {
        let c = open(port);
        let me = who(&c);
        println!("ITEM WSysStep {} (COpen false) []", me);
        clients.push(Some(c));
        let idx = clients.len() - 1;
        for h in pool.iter() {
            let text = format!("{{\"action\":\"scrape\",\"info_hash\":\"{}\"}}", id_str(h));
            let _ = clients[idx].as_mut().unwrap().ws.send(Message::text(text));
            let got = collect(&mut clients, Duration::from_millis(5000), Duration::from_millis(35));
            let terms: Vec<String> = got.iter().map(|g| g.2.clone()).collect();
            println!("ITEM WSysStep {} (CScrape (Some [{}])) {}", me, cq::id20(h), cq::list(&terms));
        }
    }
    let _ = std::fs::remove_file(&acl_file);
    std::process::exit(0);
}

pub fn run(args: &Args) {
    crate::drive(args, 0x17c, |_rng, _keep, _seed, header, items| {
        // the case index is recovered from the per-case seed: drive() calls us in index order
        let idx = _seed.wrapping_sub(args.seed) as usize;
        let out = std::process::Command::new(std::env::current_exe().unwrap())
            .args(["ws-sys-case", "--seed", &args.seed.to_string(), "--only", &idx.to_string()])
            .stderr(std::process::Stdio::piped())
            .output()
            .unwrap();
        let reader = BufReader::new(&out.stdout[..]);
        for line in reader.lines().map_while(Result::ok) {
            if let Some(h) = line.strip_prefix("HEADER ") {
                *header = h.to_string();
            } else if let Some(i) = line.strip_prefix("ITEM ") {
                items.push(i.to_string());
            }
        }
        if !out.status.success() {
            panic!(
                "the tracker process died or the case could not run (exit {:?}): {}",
                out.status.code(),
                String::from_utf8_lossy(&out.stderr).lines().last().unwrap_or("")
            );
        }
    });
}
