//! Histories of announce / scrape / clean on the real `aquatic_udp::swarm::TorrentMaps`
//! (public API, no hook).  Used by C01 C02 C03 C10 C11 C20.
use std::net::{IpAddr, Ipv4Addr, Ipv6Addr, SocketAddr};
use std::num::NonZeroU16;
use std::sync::Arc;

use aquatic_common::access_list::{AccessList, AccessListArcSwap, AccessListMode};
use aquatic_common::{CanonicalSocketAddr, SecondsSinceServerStart, ValidUntil};
use aquatic_udp::common::{Statistics, StatisticsMessage};
use aquatic_udp::config::Config;
use aquatic_udp::swarm::TorrentMaps;
use aquatic_udp_protocol::*;
use rand::prelude::*;

use crate::coqfmt as cq;
use crate::prng::Prng;
use crate::Args;

#[derive(Clone, Debug)]
pub enum Op {
    Announce {
        src: IpAddr,
        hash: [u8; 20],
        port: u16,
        ev: u8,
        left: i64,
        pid: [u8; 20],
        until: u32,
        want: i32,
        req_ip: [u8; 4],
    },
    Scrape {
        v6: bool,
        hashes: Vec<[u8; 20]>,
    },
    Clean {
        now: u32,
        mode: u8, // 0 allow 1 deny 2 off
        acl: Vec<[u8; 20]>,
    },
}

pub struct History {
    pub max_resp: usize,
    pub peer_clients: bool,
    pub ops: Vec<Op>,
}

pub fn hash_pool() -> Vec<[u8; 20]> {
    let mut v = Vec::new();
    for first in [0x00u8, 0x01, 0x10, 0xff] {
        let mut h = [0u8; 20];
        h[0] = first;
        h[1] = first ^ 0x5a;
        v.push(h);
    }
    v
}

fn pid_pool() -> Vec<[u8; 20]> {
    let mut v = Vec::new();
    for i in 0..5u8 {
        let mut p = [0u8; 20];
        p[0] = b'-';
        p[1] = b'A' + i;
        p[2] = i + 1;
        v.push(p);
    }
    v
}

fn addr_pool() -> Vec<IpAddr> {
    vec![
        IpAddr::V4(Ipv4Addr::new(10, 0, 0, 1)),
        IpAddr::V4(Ipv4Addr::new(10, 0, 0, 2)),
        IpAddr::V4(Ipv4Addr::new(192, 168, 1, 3)),
        IpAddr::V6(Ipv6Addr::new(0x2001, 0xdb8, 0, 0, 0, 0, 0, 1)),
        IpAddr::V6(Ipv6Addr::new(0x2001, 0xdb8, 0, 0, 0, 0, 0, 2)),
        IpAddr::V6(Ipv6Addr::new(0, 0, 0, 0, 0, 0xffff, 0x0a00, 0x0001)), // ::ffff:10.0.0.1
        IpAddr::V6(Ipv6Addr::new(0, 0, 0, 0, 0, 0xfffe, 0x0a00, 0x0001)), // near-mapped
    ]
}

pub fn gen_history(rng: &mut Prng) -> History {
    let hashes = hash_pool();
    let pids = pid_pool();
    let addrs = addr_pool();
    // bias: most histories concentrate on one torrent and one family so that swarms grow
    let focus_hash = *rng.pick(&hashes);
    let focus_v6 = rng.chance(1, 3);
    let n_ops = 6 + rng.below(50) as usize;
    let max_resp = *rng.pick(&[0usize, 1, 2, 3, 4, 5, 6, 30]);
    let peer_clients = rng.chance(2, 3);
    let mut now: u32 = rng.below(5) as u32;
    let mut deadlines: Vec<u32> = Vec::new();
    let mut ops = Vec::new();
    let mode = *rng.pick(&[2u8, 2, 2, 0, 1]);
    for _ in 0..n_ops {
        let r = rng.below(100);
        if r < 72 {
            let src = if rng.chance(3, 4) {
                let fam: Vec<IpAddr> = addrs
                    .iter()
                    .copied()
                    .filter(|a| CanonicalSocketAddr::new(SocketAddr::new(*a, 1)).is_ipv4() != focus_v6)
                    .collect();
                *rng.pick(&fam)
            } else {
                *rng.pick(&addrs)
            };
            let hash = if rng.chance(4, 5) { focus_hash } else { *rng.pick(&hashes) };
            let port = *rng.pick(&[1000u16, 1001, 1002, 1003, 65535]);
            let ev = *rng.pick(&[0u8, 0, 1, 2, 2, 3, 3]);
            let left = *rng.pick(&[0i64, 0, 1, 1 << 40, -1, i64::MIN]);
            let pid = *rng.pick(&pids);
            let age = *rng.pick(&[1u32, 2, 3, 5, 20]);
            let until = now + age;
            deadlines.push(until);
            let want = *rng.pick(&[i32::MIN, -1, 0, 1, 2, 3, 4, 5, 7, 50, i32::MAX]);
            let req_ip = if rng.chance(1, 2) { [0, 0, 0, 0] } else { [rng.below(256) as u8, 1, 2, 3] };
            ops.push(Op::Announce { src, hash, port, ev, left, pid, until, want, req_ip });
        } else if r < 84 {
            let n = rng.below(4) as usize + 1;
            let hs = (0..n).map(|_| if rng.chance(1, 2) { focus_hash } else { *rng.pick(&hashes) }).collect();
            let v6 = if rng.chance(3, 4) { focus_v6 } else { !focus_v6 };
            ops.push(Op::Scrape { v6, hashes: hs });
        } else {
            // clean around a stored deadline: d-1, d, d+1, or the running clock
            let t = if !deadlines.is_empty() && rng.chance(3, 4) {
                let d = *rng.pick(&deadlines);
                match rng.below(3) {
                    0 => d.saturating_sub(1),
                    1 => d,
                    _ => d + 1,
                }
            } else {
                now
            };
            let acl = if mode == 2 {
                Vec::new()
            } else {
                hashes.iter().copied().filter(|_| rng.chance(1, 2)).collect()
            };
            ops.push(Op::Clean { now: t, mode, acl });
        }
        now += rng.below(3) as u32;
    }
    History { max_resp, peer_clients, ops }
}

fn key_num(ip: IpAddr, port: u16) -> String {
    match ip {
        IpAddr::V4(a) => cq::n(((u32::from(a) as u128) << 16) | port as u128),
        IpAddr::V6(a) => {
            // 128-bit address * 65536 + port does not fit u128: print as (ip * 65536 + port)%N
            format!("({} * 65536 + {})%N", u128::from(a), port)
        }
    }
}

fn msgs_term(msgs: &[StatisticsMessage]) -> String {
    let items: Vec<String> = msgs
        .iter()
        .filter_map(|m| match m {
            StatisticsMessage::PeerAdded(p) => Some(format!("PeerAdded {}", cq::id20(&p.0))),
            StatisticsMessage::PeerRemoved(p) => Some(format!("PeerRemoved {}", cq::id20(&p.0))),
            _ => None,
        })
        .collect();
    cq::list(&items)
}

pub struct RunStats {
    pub announces: usize,
    pub scrapes: usize,
    pub cleans: usize,
    pub stops: usize,
    pub max_reply_peers: usize,
}

/// Run a history on the real TorrentMaps, returning the Coq term `(max_resp, pc, [(op, out)..])`.
pub fn run_history(h: &History, scratch: &std::path::Path, seed: u64, st: &mut RunStats, items: &mut Vec<String>) {
    let mut config = Config::default();
    config.protocol.max_response_peers = h.max_resp;
    config.statistics.peer_clients = h.peer_clients;
    config.statistics.print_to_stdout = true; // makes statistics.active() true
    config.statistics.interval = 5;
    config.scrape_exports.enable_scrape_exports = true;
    config.scrape_exports.path = scratch.join("export.txt");
    let maps = TorrentMaps::default();
    let statistics = Statistics::new(&config).swarm;
    let (tx, rx) = crossbeam_channel::unbounded();
    let access_list: Arc<AccessListArcSwap> = Arc::new(AccessListArcSwap::default());
    let mut rng = SmallRng::seed_from_u64(seed);
    for op in &h.ops {
        match op {
            Op::Announce { src, hash, port, ev, left, pid, until, want, req_ip } => {
                st.announces += 1;
                if *ev == 3 {
                    st.stops += 1;
                }
                let event = match ev {
                    0 => AnnounceEvent::None,
                    1 => AnnounceEvent::Completed,
                    2 => AnnounceEvent::Started,
                    _ => AnnounceEvent::Stopped,
                };
                let request = AnnounceRequest {
                    connection_id: ConnectionId::new(7),
                    action_placeholder: Default::default(),
                    transaction_id: TransactionId::new(9),
                    info_hash: InfoHash(*hash),
                    peer_id: PeerId(*pid),
                    bytes_downloaded: NumberOfBytes::new(0),
                    bytes_uploaded: NumberOfBytes::new(0),
                    bytes_left: NumberOfBytes::new(*left),
                    event,
                    ip_address: Ipv4AddrBytes(*req_ip),
                    key: PeerKey::new(0),
                    peers_wanted: NumberOfPeers::new(*want),
                    port: Port::new(NonZeroU16::new(*port).unwrap()),
                };
                let csrc = CanonicalSocketAddr::new(SocketAddr::new(*src, 40000));
                let vu = ValidUntil::new_raw(SecondsSinceServerStart::new_raw(*until));
                let resp = maps.announce(&config, &tx, &mut rng, &request, csrc, vu);
                let (v6, s, l, peers): (bool, i32, i32, Vec<String>) = match resp {
                    Response::AnnounceIpv4(r) => (
                        false,
                        r.fixed.seeders.0.get(),
                        r.fixed.leechers.0.get(),
                        r.peers
                            .iter()
                            .map(|p| key_num(IpAddr::V4(Ipv4Addr::from(p.ip_address.0)), p.port.0.get()))
                            .collect(),
                    ),
                    Response::AnnounceIpv6(r) => (
                        true,
                        r.fixed.seeders.0.get(),
                        r.fixed.leechers.0.get(),
                        r.peers
                            .iter()
                            .map(|p| key_num(IpAddr::V6(Ipv6Addr::from(p.ip_address.0)), p.port.0.get()))
                            .collect(),
                    ),
                    _ => panic!("unexpected response kind"),
                };
                st.max_reply_peers = st.max_reply_peers.max(peers.len());
                let msgs: Vec<StatisticsMessage> = rx.try_iter().collect();
                let key = key_num(csrc.get().ip(), *port);
                items.push(format!(
                    "(UAnnounce {} {} {} {} {} {} {} {} 0 0, OAnnounce {} {} {} {})",
                    cq::b(v6),
                    cq::id20(hash),
                    key,
                    cq::n(*ev),
                    cq::z(*left as i128),
                    cq::id20(pid),
                    cq::n(*until),
                    cq::z(*want as i128),
                    cq::z(s as i128),
                    cq::z(l as i128),
                    cq::list(&peers),
                    msgs_term(&msgs)
                ));
            }
            Op::Scrape { v6, hashes } => {
                st.scrapes += 1;
                let request = ScrapeRequest {
                    connection_id: ConnectionId::new(7),
                    transaction_id: TransactionId::new(9),
                    info_hashes: hashes.iter().map(|h| InfoHash(*h)).collect(),
                };
                let ip = if *v6 {
                    IpAddr::V6(Ipv6Addr::new(0x2001, 0xdb8, 0, 0, 0, 0, 0, 9))
                } else {
                    IpAddr::V4(Ipv4Addr::new(10, 9, 9, 9))
                };
                let resp = maps.scrape(request, CanonicalSocketAddr::new(SocketAddr::new(ip, 1)));
                let stats: Vec<String> = resp
                    .torrent_stats
                    .iter()
                    .map(|s| format!("({}, {})", cq::z(s.seeders.0.get() as i128), cq::z(s.leechers.0.get() as i128)))
                    .collect();
                let hs: Vec<String> = hashes.iter().map(cq::id20).collect();
                items.push(format!(
                    "(UScrape {} {}, OScrape {})",
                    cq::b(*v6),
                    cq::list(&hs),
                    cq::list(&stats)
                ));
            }
            Op::Clean { now, mode, acl } => {
                st.cleans += 1;
                config.access_list.mode = match mode {
                    0 => AccessListMode::Allow,
                    1 => AccessListMode::Deny,
                    _ => AccessListMode::Off,
                };
                let mut list = AccessList::default();
                for h in acl {
                    let line: String = h.iter().map(|b| format!("{:02x}", b)).collect();
                    list.insert_from_line(&line).unwrap();
                }
                access_list.store(Arc::new(list));
                let _ = std::fs::remove_file(&config.scrape_exports.path);
                maps.clean_and_update_statistics(
                    &config,
                    &statistics,
                    &tx,
                    &access_list,
                    SecondsSinceServerStart::new_raw(*now),
                    true,
                );
                use std::sync::atomic::Ordering;
                let t4 = statistics.ipv4.torrents.load(Ordering::Relaxed);
                let p4 = statistics.ipv4.peers.load(Ordering::Relaxed);
                let t6 = statistics.ipv6.torrents.load(Ordering::Relaxed);
                let p6 = statistics.ipv6.peers.load(Ordering::Relaxed);
                let msgs: Vec<StatisticsMessage> = rx.try_iter().collect();
                let text = std::fs::read_to_string(&config.scrape_exports.path).unwrap_or_default();
                let mut lines: Vec<String> = Vec::new();
                for line in text.lines() {
                    let parts: Vec<&str> = line.split(' ').collect();
                    assert!(parts.len() == 4, "export line shape: {:?}", line);
                    let mut hb = [0u8; 20];
                    for i in 0..20 {
                        hb[i] = u8::from_str_radix(&parts[1][2 * i..2 * i + 2], 16).unwrap();
                    }
                    lines.push(format!(
                        "({}, {}, {}, {})",
                        cq::b(parts[0] == "6"),
                        cq::id20(&hb),
                        cq::nat(parts[2]),
                        cq::nat(parts[3])
                    ));
                }
                let m = match mode {
                    0 => "AclAllow",
                    1 => "AclDeny",
                    _ => "AclOff",
                };
                let acl_t: Vec<String> = acl.iter().map(cq::id20).collect();
                items.push(format!(
                    "(UClean {} {} {}, OClean {} {} {} {} {} {})",
                    cq::n(*now),
                    m,
                    cq::list(&acl_t),
                    cq::nat(t4),
                    cq::nat(p4),
                    cq::nat(t6),
                    cq::nat(p6),
                    msgs_term(&msgs),
                    cq::list(&lines)
                ));
            }
        }
    }
}

pub fn run(args: &Args) {
    let scratch = std::path::PathBuf::from(format!("/verif/.cache/scratch/udp-swarm-{}", std::process::id()));
    std::fs::create_dir_all(&scratch).unwrap();
    let mut st = RunStats { announces: 0, scrapes: 0, cleans: 0, stops: 0, max_reply_peers: 0 };
    crate::drive(args, 0x5eed, |rng, keep, case_seed, header, items| {
        let mut h = gen_history(rng);
        if let Some(keep) = keep {
            h.ops = h.ops.iter().enumerate().filter(|(i, _)| keep.contains(i)).map(|(_, o)| o.clone()).collect();
        }
        *header = format!("{}, {}", cq::nat(h.max_resp), cq::b(h.peer_clients));
        run_history(&h, &scratch, case_seed, &mut st, items);
    });
    println!(
        "STAT2 {{\"announces\": {}, \"stops\": {}, \"scrapes\": {}, \"cleans\": {}, \"max_reply_peers\": {}}}",
        st.announces, st.stops, st.scrapes, st.cleans, st.max_reply_peers
    );
    let _ = std::fs::remove_dir_all(&scratch);
}
