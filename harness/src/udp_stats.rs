//! C20 at system level: the statistics WORKER (crates/udp/src/workers/statistics) of a running udp
//! tracker. Statistics every second into an HTML file, cleaning (which refreshes the torrent / peer
//! totals) every second, per-client tallies on. Three phases of announces and stops from one
//! address with several ports and peer ids of three client kinds (a peer id may sit in two
//! torrents: it must be counted once); after each phase the HTML report is read back.
use std::collections::HashMap;
use std::net::UdpSocket;
use std::time::{Duration, Instant};

use aquatic_peer_id::PeerId;
use aquatic_udp::config::Config;

use crate::coqfmt as cq;
use crate::Args;

fn connect_bytes(tid: i32) -> Vec<u8> {
    let mut v = 0x0417_2710_1980i64.to_be_bytes().to_vec();
    v.extend_from_slice(&0i32.to_be_bytes());
    v.extend_from_slice(&tid.to_be_bytes());
    v
}

fn announce_bytes(cid: &[u8], hash: &[u8; 20], pid: &[u8; 20], ev: i32, port: u16) -> Vec<u8> {
    let mut v = cid.to_vec();
    v.extend_from_slice(&1i32.to_be_bytes());
    v.extend_from_slice(&77i32.to_be_bytes());
    v.extend_from_slice(hash);
    v.extend_from_slice(pid);
    v.extend_from_slice(&0i64.to_be_bytes());
    v.extend_from_slice(&1i64.to_be_bytes());
    v.extend_from_slice(&0i64.to_be_bytes());
    v.extend_from_slice(&ev.to_be_bytes());
    v.extend_from_slice(&[0; 4]);
    v.extend_from_slice(&7i32.to_be_bytes());
    v.extend_from_slice(&(-1i32).to_be_bytes());
    v.extend_from_slice(&port.to_be_bytes());
    v
}

fn cell_after(html: &str, label: &str) -> Option<String> {
    let i = html.find(label)?;
    let rest = &html[i..];
    let a = rest.find("<td>")? + 4;
    let b = rest[a..].find("</td>")? + a;
    Some(rest[a..b].trim().trim_end_matches('*').trim().replace(',', ""))
}

fn client_rows(html: &str) -> Vec<(String, u64)> {
    let mut out = Vec::new();
    if let Some(i) = html.find("<h2>Peer clients</h2>") {
        let body = &html[i..];
        if let Some(tb) = body.find("<tbody>") {
            let mut rest = &body[tb..];
            while let Some(a) = rest.find("<td>") {
                let b = rest[a..].find("</td>").unwrap() + a;
                let name = rest[a + 4..b].trim().to_string();
                rest = &rest[b + 5..];
                let a2 = match rest.find("<td>") {
                    Some(x) => x,
                    None => break,
                };
                let b2 = rest[a2..].find("</td>").unwrap() + a2;
                let count: u64 = rest[a2 + 4..b2].trim().replace(',', "").parse().unwrap_or(u64::MAX);
                rest = &rest[b2 + 5..];
                out.push((name, count));
            }
        }
    }
    out
}

pub fn run(args: &Args) {
    crate::drive(args, 0x57a7, |rng, _keep, _seed, header, items| {
        let dir = std::path::PathBuf::from(format!("/verif/.cache/scratch/udp-stats-{}-{}", std::process::id(), rng.next() % 100000));
        std::fs::create_dir_all(&dir).unwrap();
        let html_path = dir.join("stats.html");
        let port = UdpSocket::bind("127.0.0.1:0").unwrap().local_addr().unwrap().port();
        let mut c = Config::default();
        c.socket_workers = 1 + rng.below(2) as usize;
        c.network.address_ipv4 = format!("127.0.0.1:{}", port).parse().unwrap();
        c.network.address_ipv6 = format!("[::1]:{}", port).parse().unwrap();
        c.network.use_io_uring = rng.chance(1, 2);
        c.network.socket_recv_buffer_size = 0;
        c.cleaning.torrent_cleaning_interval = 1;
        c.cleaning.max_peer_age = 10_000;
        c.statistics.interval = 1;
        c.statistics.write_html_to_file = true;
        c.statistics.html_file_path = html_path.clone();
        c.statistics.peer_clients = true;
        c.statistics.torrent_peer_histograms = true; // the report shows the client table only then
        std::thread::spawn(move || {
            let _ = aquatic_udp::run(c);
        });
        let sock = UdpSocket::bind("127.0.0.1:0").unwrap();
        sock.set_read_timeout(Some(Duration::from_millis(300))).unwrap();
        let dst = format!("127.0.0.1:{}", port);
        let mut buf = [0u8; 2048];
        let mut cid: Option<Vec<u8>> = None;
        let deadline = Instant::now() + Duration::from_secs(6);
        while cid.is_none() && Instant::now() < deadline {
            let _ = sock.send_to(&connect_bytes(5), &dst);
            if let Ok((16, _)) = sock.recv_from(&mut buf) {
                cid = Some(buf[8..16].to_vec());
            }
        }
        let cid = cid.expect("harness: the udp tracker did not answer a connect request");
        // peer ids of three client kinds; index -> (id, client name as the tracker prints it)
        let prefixes: [&[u8; 8]; 3] = [b"-TR3000-", b"-qB4250-", b"-DE13F0-"];
        let pids: Vec<[u8; 20]> = (0..6u8)
            .map(|i| {
                let mut p = [b'0' + i; 20];
                p[..8].copy_from_slice(prefixes[(i % 3) as usize]);
                p
            })
            .collect();
        let names: Vec<String> = pids.iter().map(|p| PeerId(*p).client().to_string()).collect();
        let hashes: [[u8; 20]; 2] = [[0x31; 20], [0x32; 20]];
        // the reference: which (torrent, port) holds which peer id index; a port always uses the same id
        let mut stored: HashMap<(usize, u16), usize> = HashMap::new();
        *header = cq::list(&names.iter().map(|n| cq::hex(n.as_bytes())).collect::<Vec<_>>());
        for phase in 0..3 {
            let mut ops: Vec<String> = Vec::new();
            // from the second phase on: take one stored peer id out of EVERY torrent it is in (its
            // tally entry must disappear, not linger at zero)
            if phase >= 1 {
                let mut keys: Vec<(usize, u16)> = stored.keys().copied().collect();
                keys.sort();
                if let Some(&(_, victim_port)) = keys.first() {
                    for (t, aport) in keys.iter().copied().filter(|k| k.1 == victim_port) {
                        let pi = stored[&(t, aport)];
                        let _ = sock.send_to(&announce_bytes(&cid, &hashes[t], &pids[pi], 3, aport), &dst);
                        let _ = sock.recv_from(&mut buf);
                        stored.remove(&(t, aport));
                        ops.push(format!("({}, {}, {})", cq::n(t), cq::n(pi), cq::b(true)));
                    }
                }
            }
            for _ in 0..(1 + rng.below(6)) {
                let t = rng.below(2) as usize;
                let pi = rng.below(6) as usize;
                let aport = 7000 + pi as u16; // one port per peer id: no peer-id change under a key
                let stop = rng.chance(1, 3) && stored.contains_key(&(t, aport));
                let _ = sock.send_to(&announce_bytes(&cid, &hashes[t], &pids[pi], if stop { 3 } else { 2 }, aport), &dst);
                let _ = sock.recv_from(&mut buf);
                if stop {
                    stored.remove(&(t, aport));
                } else {
                    stored.insert((t, aport), pi);
                }
                ops.push(format!("({}, {}, {})", cq::n(t), cq::n(pi), cq::b(stop)));
            }
            // two cleaning passes and two statistics rounds later the report must have settled
            std::thread::sleep(Duration::from_millis(3300));
            let html = std::fs::read_to_string(&html_path).unwrap_or_default();
            let i4 = html.find("<h2>IPv4</h2>").unwrap_or(0);
            let torrents: u64 = cell_after(&html[i4..], "Number of torrents").and_then(|s| s.parse().ok()).unwrap_or(u64::MAX);
            let peers: u64 = cell_after(&html[i4..], "Number of peers").and_then(|s| s.parse().ok()).unwrap_or(u64::MAX);
            let mut rows = client_rows(&html);
            rows.sort();
            items.push(format!(
                "({}, {}, {}, {})",
                cq::list(&ops),
                cq::n(torrents),
                cq::n(peers),
                cq::list(&rows.iter().map(|(n, c)| format!("({}, {})", cq::hex(n.as_bytes()), cq::n(c))).collect::<Vec<_>>())
            ));
        }
        let _ = std::fs::remove_dir_all(&dir);
    });
}
