//! C03: `CanonicalSocketAddr::new`, `IpVersion::canonical_from_ip` and the reverse-proxy header
//! handling of aquatic_http's `parse_request` (hook H5) on generated addresses / header layouts.
//! httparse's own view of the headers is what the model is given (httparse is not modelled);
//! `str::parse::<IpAddr>` is passed as a table.
use std::collections::BTreeMap;
use std::net::{IpAddr, Ipv4Addr, Ipv6Addr, SocketAddr};

use aquatic_common::CanonicalSocketAddr;
use aquatic_http::config::Config;
use aquatic_http::verif::{parse_request, RequestParseError};
use aquatic_ws::common::IpVersion;

use crate::coqfmt as cq;
use crate::prng::Prng;
use crate::Args;

fn octets(ip: &IpAddr) -> Vec<u8> {
    match ip {
        IpAddr::V4(a) => a.octets().to_vec(),
        IpAddr::V6(a) => a.octets().to_vec(),
    }
}

fn gen_ip(rng: &mut Prng) -> IpAddr {
    match rng.below(8) {
        0 | 1 => IpAddr::V4(Ipv4Addr::new(rng.below(256) as u8, rng.below(256) as u8, 0, rng.below(256) as u8)),
        2 | 3 => {
            // IPv4-mapped
            let mut o = [0u8; 16];
            o[10] = 0xff;
            o[11] = 0xff;
            for b in o[12..].iter_mut() {
                *b = rng.below(256) as u8;
            }
            IpAddr::V6(Ipv6Addr::from(o))
        }
        4 | 5 => {
            // near-mapped: one octet of the pattern off
            let mut o = [0u8; 16];
            o[10] = 0xff;
            o[11] = 0xff;
            for b in o[12..].iter_mut() {
                *b = rng.below(256) as u8;
            }
            let i = rng.below(12) as usize;
            o[i] = if i >= 10 { 0xfe } else { *rng.pick(&[1u8, 0xff]) };
            IpAddr::V6(Ipv6Addr::from(o))
        }
        6 => IpAddr::V6(Ipv6Addr::LOCALHOST),
        _ => {
            let mut o = [0u8; 16];
            for b in o.iter_mut() {
                *b = rng.below(256) as u8;
            }
            IpAddr::V6(Ipv6Addr::from(o))
        }
    }
}

fn gen_value(rng: &mut Prng) -> String {
    let pieces = [
        "1.2.3.4", "200.0.0.1", " 5.6.7.8", "9.10.11.12 ", "::1", "::ffff:10.0.0.1", "2001:db8::7", "abc", "", "1.2.3", "1.2.3.4.5",
        "\t7.7.7.7", "0.0.0.0", "::ffff:0a00:0001",
    ];
    let n = 1 + rng.below(3) as usize;
    let mut v = String::new();
    for i in 0..n {
        if i > 0 {
            v.push(',');
            if rng.chance(1, 2) {
                v.push(' ');
            }
        }
        v.push_str(*rng.pick(&pieces));
    }
    if rng.chance(1, 10) {
        v.push(',');
    }
    v
}

pub fn run(args: &Args) {
    crate::drive(args, 0xadd2, |rng, _keep, _seed, header, items| {
        *header = "true".to_string();
        for _ in 0..4 {
            let ip = gen_ip(rng);
            let port = *rng.pick(&[0u16, 1, 6881, 65535]);
            let c = CanonicalSocketAddr::new(SocketAddr::new(ip, port)).get();
            let ws_v6 = matches!(IpVersion::canonical_from_ip(ip), IpVersion::V6);
            assert_eq!(c.is_ipv4(), CanonicalSocketAddr::new(SocketAddr::new(ip, port)).is_ipv4());
            items.push(format!(
                "ACanon {} {} {} {} {}",
                cq::hex(&octets(&ip)),
                cq::n(port),
                cq::hex(&octets(&c.ip())),
                cq::n(c.port()),
                cq::b(ws_v6)
            ));
        }
        for _ in 0..4 {
            let behind = rng.chance(4, 5);
            let name = *rng.pick(&["X-Forwarded-For", "X-Forwarded-For", "X-Real-IP", "x-forwarded-for"]);
            let mut config = Config::default();
            config.network.runs_behind_reverse_proxy = behind;
            config.network.reverse_proxy_ip_header_name = name.to_string();
            let mut req = String::from(
                "GET /announce?info_hash=%04%0bkV%3f%5cr%14%a6%b7%98%adC%c3%c9.%40%24%00%b9&peer_id=-ABC940-5ert69muw5t8&port=12345&uploaded=1&downloaded=2&left=3 HTTP/1.1\r\nHost: example.com\r\n",
            );
            let n_headers = rng.below(4);
            for _ in 0..n_headers {
                let hn = *rng.pick(&["X-Forwarded-For", "X-Forwarded-For", "x-forwarded-for", "X-Real-IP", "Accept", "X-Forwarded-For2"]);
                let sep = *rng.pick(&[": ", ":", ":  ", ":\t"]);
                req.push_str(&format!("{}{}{}\r\n", hn, sep, gen_value(rng)));
            }
            req.push_str("\r\n");
            let remote_ip = gen_ip(rng);
            let remote_port = *rng.pick(&[1u16, 40000, 65535]);
            // httparse's own view of the headers
            let mut hbuf = [httparse::EMPTY_HEADER; 16];
            let mut hreq = httparse::Request::new(&mut hbuf);
            if !matches!(hreq.parse(req.as_bytes()), Ok(httparse::Status::Complete(_))) {
                continue;
            }
            let headers: Vec<(String, Vec<u8>)> = hreq.headers.iter().map(|h| (h.name.to_string(), h.value.to_vec())).collect();
            let mut table: BTreeMap<Vec<u8>, Option<Vec<u8>>> = BTreeMap::new();
            for (_, v) in &headers {
                if let Ok(s) = std::str::from_utf8(v) {
                    for piece in s.split(',') {
                        let t = piece.trim();
                        table.insert(t.as_bytes().to_vec(), t.parse::<IpAddr>().ok().map(|ip| octets(&ip)));
                    }
                }
            }
            let impl_t = match parse_request(&config, req.as_bytes()) {
                Ok((_, opt_ip)) => {
                    let addr = if behind {
                        CanonicalSocketAddr::new(SocketAddr::new(opt_ip.expect("ip extracted"), remote_port))
                    } else {
                        assert!(opt_ip.is_none());
                        CanonicalSocketAddr::new(SocketAddr::new(remote_ip, remote_port))
                    };
                    format!("(Some ({}, {}))", cq::hex(&octets(&addr.get().ip())), cq::n(addr.get().port()))
                }
                Err(RequestParseError::RequiredPeerIpHeaderMissing(_)) => "None".to_string(),
                Err(_) => continue,
            };
            let hs: Vec<String> = headers.iter().map(|(n, v)| format!("({}, {})", cq::hex(n.as_bytes()), cq::hex(v))).collect();
            let tbl: Vec<String> = table
                .iter()
                .map(|(k, v)| format!("({}, {})", cq::hex(k), cq::opt(v.as_ref().map(|o| cq::hex(o)))))
                .collect();
            items.push(format!(
                "AHeader {} {} {} {} {} {} {}",
                cq::b(behind),
                cq::hex(name.as_bytes()),
                cq::hex(&octets(&remote_ip)),
                cq::n(remote_port),
                cq::list(&hs),
                cq::list(&tbl),
                impl_t
            ));
        }
    });
}
