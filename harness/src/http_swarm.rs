//! Histories of announce / scrape / clean on the real aquatic_http swarm storage
//! (`aquatic_http::verif::TorrentMaps`, hook H5; clean reads the mock clock, hook H1).
//! Used by C07 C02 C10 C11.
use std::net::{IpAddr, Ipv4Addr, Ipv6Addr, SocketAddr};
use std::sync::Arc;

use aquatic_common::access_list::{AccessList, AccessListArcSwap, AccessListMode};
use aquatic_common::{CanonicalSocketAddr, SecondsSinceServerStart, ServerStartInstant, ValidUntil};
use aquatic_http::config::Config;
use aquatic_http::verif::TorrentMaps;
use aquatic_http_protocol::common::{AnnounceEvent, InfoHash, PeerId};
use aquatic_http_protocol::request::{AnnounceRequest, ScrapeRequest};
use rand::prelude::*;

use crate::coqfmt as cq;
use crate::prng::Prng;
use crate::Args;

#[derive(Clone, Debug)]
pub enum Op {
    Announce { src: IpAddr, hash: [u8; 20], port: u16, ev: u8, left: usize, until: u32, want: Option<usize> },
    Scrape { v6: bool, hashes: Vec<[u8; 20]> },
    Clean { now: u32, mode: u8, acl: Vec<[u8; 20]> },
}

pub struct History {
    pub max_peers: usize,
    pub max_scrape: usize,
    pub ops: Vec<Op>,
}

fn addr_pool() -> Vec<IpAddr> {
    let mut v = Vec::new();
    for i in 1..=4u8 {
        v.push(IpAddr::V4(Ipv4Addr::new(10, 0, 0, i)));
    }
    for i in 1..=3u16 {
        v.push(IpAddr::V6(Ipv6Addr::new(0x2001, 0xdb8, 0, 0, 0, 0, 0, i)));
    }
    v.push(IpAddr::V6(Ipv6Addr::new(0, 0, 0, 0, 0, 0xffff, 0x0a00, 0x0001)));
    v
}

pub fn gen_history(rng: &mut Prng) -> History {
    let hashes = crate::udp_swarm::hash_pool();
    let addrs = addr_pool();
    let focus_hash = *rng.pick(&hashes);
    let focus_v6 = rng.chance(1, 3);
    let n_ops = 8 + rng.below(60) as usize;
    let max_peers = *rng.pick(&[0usize, 1, 2, 3, 4, 5, 6, 7, 50]);
    let max_scrape = *rng.pick(&[0usize, 1, 2, 3, 100]);
    let mode = *rng.pick(&[2u8, 2, 2, 0, 1]);
    let mut now: u32 = rng.below(5) as u32;
    let mut deadlines: Vec<u32> = Vec::new();
    let mut ops = Vec::new();
    for _ in 0..n_ops {
        let r = rng.below(100);
        if r < 74 {
            let src = if rng.chance(4, 5) {
                let fam: Vec<IpAddr> = addrs
                    .iter()
                    .copied()
                    .filter(|a| CanonicalSocketAddr::new(SocketAddr::new(*a, 1)).is_ipv4() != focus_v6)
                    .collect();
                *rng.pick(&fam)
            } else {
                *rng.pick(&addrs)
            };
            let hash = if rng.chance(5, 6) { focus_hash } else { *rng.pick(&hashes) };
            let port = *rng.pick(&[1000u16, 1001, 1002, 0, 65535]);
            let ev = *rng.pick(&[0u8, 0, 1, 2, 2, 3, 3]);
            let left = *rng.pick(&[0usize, 0, 1, usize::MAX]);
            let until = now + *rng.pick(&[1u32, 2, 3, 5, 20]);
            deadlines.push(until);
            let want = *rng.pick(&[None, Some(0usize), Some(1), Some(2), Some(3), Some(4), Some(5), Some(9), Some(usize::MAX)]);
            ops.push(Op::Announce { src, hash, port, ev, left, until, want });
        } else if r < 86 {
            let n = rng.below(5) as usize;
            let hs = (0..n).map(|_| if rng.chance(1, 2) { focus_hash } else { *rng.pick(&hashes) }).collect();
            let v6 = if rng.chance(3, 4) { focus_v6 } else { !focus_v6 };
            ops.push(Op::Scrape { v6, hashes: hs });
        } else {
            let t = if !deadlines.is_empty() && rng.chance(3, 4) {
                let d = *rng.pick(&deadlines);
                match rng.below(3) {
                    0 => d.saturating_sub(1),
                    1 => d,
                    _ => d + 1,
                }
            } else {
                now
            };
            let acl = if mode == 2 { Vec::new() } else { hashes.iter().copied().filter(|_| rng.chance(1, 2)).collect() };
            ops.push(Op::Clean { now: t, mode, acl });
        }
        now += rng.below(3) as u32;
    }
    History { max_peers, max_scrape, ops }
}

pub fn key_num(ip: IpAddr, port: u16) -> String {
    match ip {
        IpAddr::V4(a) => cq::n(((u32::from(a) as u128) << 16) | port as u128),
        IpAddr::V6(a) => format!("({} * 65536 + {})%N", u128::from(a), port),
    }
}

pub fn run_history(h: &History, seed: u64, items: &mut Vec<String>) {
    let mut config = Config::default();
    config.protocol.max_peers = h.max_peers;
    config.protocol.max_scrape_torrents = h.max_scrape;
    let mut maps = TorrentMaps::new(0);
    let access_list: Arc<AccessListArcSwap> = Arc::new(AccessListArcSwap::default());
    let start = ServerStartInstant::new();
    let mut rng = SmallRng::seed_from_u64(seed);
    for op in &h.ops {
        match op {
            Op::Announce { src, hash, port, ev, left, until, want } => {
                let event = match ev {
                    0 => AnnounceEvent::Empty,
                    1 => AnnounceEvent::Completed,
                    2 => AnnounceEvent::Started,
                    _ => AnnounceEvent::Stopped,
                };
                let request = AnnounceRequest {
                    info_hash: InfoHash(*hash),
                    peer_id: PeerId([7u8; 20]),
                    port: *port,
                    bytes_uploaded: 0,
                    bytes_downloaded: 0,
                    bytes_left: *left,
                    event,
                    numwant: *want,
                    key: None,
                };
                let csrc = CanonicalSocketAddr::new(SocketAddr::new(*src, 40000));
                let vu = ValidUntil::new_raw(SecondsSinceServerStart::new_raw(*until));
                let resp = maps.handle_announce_request(&config, &mut rng, vu, csrc, request);
                let v6 = !csrc.is_ipv4();
                let peers: Vec<String> = if v6 {
                    assert!(resp.peers.0.is_empty());
                    resp.peers6.0.iter().map(|p| key_num(IpAddr::V6(p.ip_address), p.port)).collect()
                } else {
                    assert!(resp.peers6.0.is_empty());
                    resp.peers.0.iter().map(|p| key_num(IpAddr::V4(p.ip_address), p.port)).collect()
                };
                let want_t = match want {
                    None => "None".to_string(),
                    // numwant above 2^31 would be materialised as a unary nat: the model's
                    // limit is min(numwant, max_peers), so any value > max_peers behaves alike
                    Some(n) => format!("(Some {})", cq::nat((*n).min(1_000))),
                };
                items.push(format!(
                    "(HAnnounce {} {} {} {} {} {} {} 0 0, HOAnnounce {} {} {})",
                    cq::b(v6),
                    cq::id20(hash),
                    key_num(csrc.get().ip(), *port),
                    cq::b(*ev == 3),
                    cq::n(*left),
                    cq::n(*until),
                    want_t,
                    cq::nat(resp.complete),
                    cq::nat(resp.incomplete),
                    cq::list(&peers)
                ));
            }
            Op::Scrape { v6, hashes } => {
                let request = ScrapeRequest { info_hashes: hashes.iter().map(|h| InfoHash(*h)).collect() };
                let ip = if *v6 {
                    IpAddr::V6(Ipv6Addr::new(0x2001, 0xdb8, 0, 0, 0, 0, 0, 9))
                } else {
                    IpAddr::V4(Ipv4Addr::new(10, 9, 9, 9))
                };
                let resp = maps.handle_scrape_request(&config, CanonicalSocketAddr::new(SocketAddr::new(ip, 1)), request);
                let files: Vec<String> = resp
                    .files
                    .iter()
                    .map(|(h, s)| {
                        assert_eq!(s.downloaded, 0);
                        format!("({}, ({}, {}))", cq::id20(&h.0), cq::nat(s.complete), cq::nat(s.incomplete))
                    })
                    .collect();
                let hs: Vec<String> = hashes.iter().map(cq::id20).collect();
                items.push(format!("(HScrape {} {}, HOScrape {})", cq::b(*v6), cq::list(&hs), cq::list(&files)));
            }
            Op::Clean { now, mode, acl } => {
                config.access_list.mode = match mode {
                    0 => AccessListMode::Allow,
                    1 => AccessListMode::Deny,
                    _ => AccessListMode::Off,
                };
                let mut list = AccessList::default();
                for h in acl {
                    let line: String = h.iter().map(|b| format!("{:02x}", b)).collect();
                    list.insert_from_line(&line).unwrap();
                }
                access_list.store(Arc::new(list));
                aquatic_common::verif::set_mock_seconds(Some(*now));
                maps.clean(&config, &access_list, start);
                aquatic_common::verif::set_mock_seconds(None);
                let m = match mode {
                    0 => "AclAllow",
                    1 => "AclDeny",
                    _ => "AclOff",
                };
                let acl_t: Vec<String> = acl.iter().map(cq::id20).collect();
                items.push(format!(
                    "(HClean {} {} {}, HOClean {} {})",
                    cq::n(*now),
                    m,
                    cq::list(&acl_t),
                    cq::nat(maps.ipv4.verif_len()),
                    cq::nat(maps.ipv6.verif_len())
                ));
            }
        }
    }
}

pub fn run(args: &Args) {
    crate::drive(args, 0x477, |rng, keep, case_seed, header, items| {
        let mut h = gen_history(rng);
        if let Some(keep) = keep {
            h.ops = h.ops.iter().enumerate().filter(|(i, _)| keep.contains(i)).map(|(_, o)| o.clone()).collect();
        }
        *header = format!("{}, {}", cq::nat(h.max_peers), cq::nat(h.max_scrape));
        run_history(&h, case_seed, items);
        aquatic_common::verif::set_mock_seconds(None);
    });
}
