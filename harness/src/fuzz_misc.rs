//! C12 (testing part): byte strings thrown at every parser the trackers and the bundled client
//! libraries expose, under catch_unwind (a panic is reported with the input): random bytes,
//! structure-aware mutations, deep JSON nesting, over-long identifiers, peer-id client detection.
use aquatic_peer_id::PeerId;

use crate::coqfmt as cq;
use crate::prng::Prng;
use crate::Args;

fn random_bytes(rng: &mut Prng, max: usize) -> Vec<u8> {
    let n = rng.below(max as u64 + 1) as usize;
    (0..n).map(|_| rng.below(256) as u8).collect()
}

pub fn run(args: &Args) {
    let deep = args.extra.get("deep").map(|s| s.parse::<usize>().unwrap()).unwrap_or(2000);
    let max_msg = args.extra.get("maxmsg").map(|s| s.parse::<usize>().unwrap()).unwrap_or(64 * 1024);
    // one-time lazy initialisation (the client-detection regexes) is not per-input allocation
    for id in [b"-TR0072-aaaaaaaaaaaa", b"M7-10-5--aaaaaaaaaaa", b"abc-aaaaaaaaaaaaaaaa", b"\xff\xff\xff\xff\xff\xff\xff\xff\xff\xff\xff\xff\xff\xff\xff\xff\xff\xff\xff\xff"] {
        let _ = format!("{}", PeerId(*id).client());
    }
    let http_cfg_plain = aquatic_http::config::Config::default();
    let http_cfg_proxy = {
        let mut c = aquatic_http::config::Config::default();
        c.network.runs_behind_reverse_proxy = true;
        c
    };
    crate::drive(args, 0xf022, |rng, _keep, _seed, header, items| {
        *header = "true".to_string();
        // one message per case nested as deep as websocket_max_message_size (64 KiB by default)
        // allows, parsed where the socket workers parse it: on a thread with std's default 2 MiB
        // stack. A stack overflow cannot be caught, so the parse runs in a child process.
        {
            // shapes 0-3: JSON for the ws server and client parsers; 4-6: bencode for the http
            // client parser, whose bundled user (the load tester) reads into 2048 bytes
            let shape = rng.below(7);
            let per_level = match shape { 3 => 6, 6 => 5, _ => 2 };
            let max_depth = if shape >= 4 { 2048 / per_level } else { (max_msg - 40) / per_level };
            let depth = if rng.chance(1, 2) { max_depth } else { 1 + rng.below(max_depth as u64) as usize };
            let out = std::process::Command::new(std::env::current_exe().unwrap())
                .args(["deep-json", "--depth", &depth.to_string(), "--shape", &shape.to_string(), "--stack", "2097152"])
                .output()
                .unwrap();
            if !out.status.success() {
                panic!(
                    "parsing killed the process ({}) on a {}-byte message nested {} deep (shape {}: 0-3 ws JSON, 4-6 bencode reply): {}",
                    out.status,
                    depth * per_level + 30,
                    depth,
                    shape,
                    String::from_utf8_lossy(&out.stderr).lines().last().unwrap_or("")
                );
            }
            items.push(format!("({}, {}, {})", cq::n(7), cq::n((depth * per_level) as u64), cq::n(0)));
        }
        for _ in 0..8 {
            let kind = rng.below(7);
            let input: Vec<u8> = match kind {
                0 => random_bytes(rng, 120),
                1 => {
                    // peer ids: azureus style (-XXnnnn-), mainline style (Xn-n-n--), other dashed
                    // prefixes, fixed well-known ones - each character class drawn at random
                    let alnum = b"0123456789ABCDEFGHIJKLMNOPQRSTUVWXYZabcdefghijklmnopqrstuvwxyz";
                    let letters = b"ABCDEFGHIJKLMNOPQRSTUVWXYZabcdefghijklmnopqrstuvwxyz";
                    let mut id: Vec<u8> = Vec::new();
                    match rng.below(5) {
                        0 => {
                            id.push(b'-');
                            for _ in 0..2 {
                                id.push(*rng.pick(letters));
                            }
                            for _ in 0..3 {
                                id.push(b'0' + rng.below(10) as u8);
                            }
                            id.push(*rng.pick(alnum));
                            if rng.chance(3, 4) {
                                id.push(b'-');
                            }
                        }
                        1 => {
                            id.push(*rng.pick(letters));
                            for _ in 0..6 {
                                id.push(*rng.pick(b"0123456789-"));
                            }
                            id.push(b'-');
                        }
                        2 => {
                            for _ in 0..(1 + rng.below(12)) {
                                id.push(*rng.pick(b"0123456789ABCDEFGHIJKLMNOPQRSTUVWXYZabcdefghijklmnopqrstuvwxyz-"));
                            }
                            id.push(b'-');
                        }
                        3 => {
                            let pre: &[&[u8]] = &[b"-qB4250-", b"-TR0072-", b"-WW0102-", b"-UT355S-", b"M7-10-5-", b"M4-4-0--", b"-lt0D60-", b"-\xff\xff\xff\xff\xff\xff-", b"--------", b"-AZ", b"-BT7a5S-", b"-DE13F0-", b"-TR300Z-", b"-FD51\xc3\xa9-"];
                            id.extend_from_slice(*rng.pick(pre));
                        }
                        _ => {}
                    }
                    while id.len() < 20 {
                        id.push(rng.below(256) as u8);
                    }
                    id.truncate(20);
                    id
                }
                2 => {
                    // deep JSON nesting
                    let d = 1 + rng.below(deep as u64) as usize;
                    let mut s = "{\"action\":\"announce\",\"offers\":".to_string();
                    s.push_str(&"[".repeat(d));
                    s.push_str(&"]".repeat(d));
                    s.push('}');
                    s.into_bytes()
                }
                3 => {
                    // over-long strings in a ws announce
                    let n = rng.below(5000) as usize;
                    format!("{{\"action\":\"announce\",\"info_hash\":\"{}\",\"peer_id\":\"{}\"}}", "a".repeat(n), "\u{ff}".repeat(n)).into_bytes()
                }
                4 => {
                    // http request text with odd '=' / '&' / '%' placement and non-UTF-8
                    let mut s = b"GET /announce?".to_vec();
                    for _ in 0..rng.below(12) {
                        let parts: &[&[u8]] = &[b"info_hash=", b"=", b"&", b"%", b"%f", b"%zz", b"port=", b"key=", b"\xff\xfe", b"aaaa", b"compact=1", b"left=", b"numwant=-1", b"?"];
                        s.extend_from_slice(*rng.pick(parts));
                    }
                    s.extend_from_slice(b" HTTP/1.1\r\nHost: x\r\n");
                    for _ in 0..rng.below(4) {
                        let hs: &[&[u8]] = &[b"X-Forwarded-For: 1.2.3.4\r\n", b"X-Forwarded-For: \r\n", b"X-Forwarded-For: ,,,\r\n", b"X-Forwarded-For: ::ffff:1.2.3.4, zz\r\n",
                                            b"X-Forwarded-For: \xff\xfe\r\n", b"X-Forwarded-For: 1.2.3.4,\r\n", b"x-forwarded-for: 9.9.9.9\r\n", b"X-Forwarded-For:1.2.3.4 , 5.6.7.8\r\n"];
                        s.extend_from_slice(*rng.pick(hs));
                    }
                    s.extend_from_slice(b"\r\n");
                    s
                }
                5 => {
                    // bencode-ish reply bytes for the client-side parser
                    let mut s = Vec::new();
                    for _ in 0..rng.below(10) {
                        let parts: &[&[u8]] = &[b"d", b"e", b"i", b"i-5e", b"8:complete", b"5:peers", b"3:abc", b"999999999999999999999:", b"l", b"0:", b"5:files"];
                        s.extend_from_slice(*rng.pick(parts));
                    }
                    s
                }
                _ => {
                    // udp datagrams: valid header + junk
                    let mut s = vec![0, 0, 4, 0x17, 0x27, 0x10, 0x19, 0x80, 0, 0, 0, rng.below(4) as u8];
                    s.extend(random_bytes(rng, 200));
                    s
                }
            };
            // everything goes through every parser: none may panic, none may allocate more than
            // a fixed multiple of the input length
            let mut worst = 0usize;
            let mut calls = 0usize;
            let mut measure = |f: &mut dyn FnMut()| {
                let before = crate::ALLOCATED.load(std::sync::atomic::Ordering::Relaxed);
                f();
                let used = crate::ALLOCATED.load(std::sync::atomic::Ordering::Relaxed) - before;
                if std::env::var("FUZZ_DEBUG").is_ok() && used > 20000 { eprintln!("big alloc {} at call #{} len {}", used, calls, input.len()); }
                calls += 1;
                worst = worst.max(used);
            };
            let max_scrape = *rng.pick(&[0u8, 1, 70, 255]);
            measure(&mut || drop(aquatic_udp_protocol::Request::parse_bytes(&input, max_scrape)));
            measure(&mut || drop(aquatic_udp_protocol::Response::parse_bytes(&input, true)));
            measure(&mut || drop(aquatic_udp_protocol::Response::parse_bytes(&input, false)));
            measure(&mut || drop(aquatic_http_protocol::request::Request::parse_bytes(&input)));
            // the http socket worker's parser (hook H5), not behind and behind a reverse proxy
            measure(&mut || drop(aquatic_http::verif::parse_request(&http_cfg_plain, &input)));
            measure(&mut || drop(aquatic_http::verif::parse_request(&http_cfg_proxy, &input)));
            if let Ok(text) = std::str::from_utf8(&input) {
                measure(&mut || drop(aquatic_http_protocol::request::Request::parse_http_get_path(text)));
                let m = tungstenite::Message::text(text.to_string());
                measure(&mut || drop(aquatic_ws_protocol::incoming::InMessage::from_ws_message(m.clone())));
            }
            measure(&mut || drop(aquatic_http_protocol::response::Response::parse_bytes(&input)));
            let m = tungstenite::Message::binary(input.clone());
            measure(&mut || drop(aquatic_ws_protocol::incoming::InMessage::from_ws_message(m.clone())));
            measure(&mut || drop(aquatic_ws_protocol::outgoing::OutMessage::from_ws_message(m.clone())));
            if input.len() >= 20 {
                let mut id = [0u8; 20];
                id.copy_from_slice(&input[..20]);
                let pid = PeerId(id);
                measure(&mut || {
                    let c = pid.client();
                    let _ = format!("{}", c);
                    let _ = pid.first_8_bytes_hex();
                });
            }
            items.push(format!("({}, {}, {})", cq::n(kind), cq::n(input.len() as u64), cq::n(worst as u64)));
        }
    });
}

/// `deep-json --depth D --stack BYTES --shape K`: one ws text message nested D deep, parsed on a
/// thread with the given stack (socket workers run on std's default 2 MiB). Prints `DEEP ok` or
/// dies of stack overflow (SIGABRT) - the driver runs it as a child.
pub fn deep_json(args: &Args) {
    let depth: usize = args.extra.get("depth").map(|s| s.parse().unwrap()).unwrap_or(1000);
    let stack: usize = args.extra.get("stack").map(|s| s.parse().unwrap()).unwrap_or(2 * 1024 * 1024);
    let shape: usize = args.extra.get("shape").map(|s| s.parse().unwrap()).unwrap_or(0);
    let text = match shape {
        0 => format!("{{\"action\":\"announce\",\"offers\":{}{}}}", "[".repeat(depth), "]".repeat(depth)),
        1 => format!("{{\"action\":\"announce\",\"x\":{}{}}}", "[".repeat(depth), "]".repeat(depth)),
        2 => format!("{}{}", "[".repeat(depth), "]".repeat(depth)),
        _ => format!("{{\"action\":\"announce\",\"x\":{}1{}}}", "{\"a\":".repeat(depth), "}".repeat(depth)),
    };
    let len = text.len();
    let h = std::thread::Builder::new()
        .stack_size(stack)
        .spawn(move || {
            if shape >= 4 {
                // client side: bencode reply (http load test buffer: 2048 bytes) / ws reply
                let b = match shape {
                    4 => format!("{}{}", "l".repeat(depth), "e".repeat(depth)),
                    5 => format!("d5:peers{}{}e", "l".repeat(depth), "e".repeat(depth)),
                    _ => format!("{}{}", "d1:a".repeat(depth), "e".repeat(depth)),
                };
                return aquatic_http_protocol::response::Response::parse_bytes(b.as_bytes()).is_ok();
            }
            let r1 = aquatic_ws_protocol::incoming::InMessage::from_ws_message(tungstenite::Message::text(text.clone())).is_ok();
            let r2 = aquatic_ws_protocol::incoming::InMessage::from_ws_message(tungstenite::Message::binary(text.clone().into_bytes())).is_ok();
            let r3 = aquatic_ws_protocol::outgoing::OutMessage::from_ws_message(tungstenite::Message::text(text)).is_ok();
            r1 || r2 || r3
        })
        .unwrap();
    let ok = h.join().unwrap();
    println!("DEEP ok depth={} bytes={} parsed={}", depth, len, ok);
}
