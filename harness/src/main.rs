//! Correspondence harness: runs the real aquatic code on generated inputs / histories and
//! prints, one case per line, the inputs together with the implementation's observable
//! outputs as Coq terms.  The driver (/verif/vcheck) evaluates the Coq model on them.
mod coqfmt;
mod prng;
mod udp_swarm;
mod http_swarm;
mod valid_until;
mod export_crash;
mod access_list;
mod validator;
mod udp_codec;
mod ws_swarm;
mod addr;
mod http_resp;
mod http_req;
mod ws_codec;
mod fuzz_misc;
mod udp_sys;
mod http_sys;
mod ws_sys;
mod watchdog;
mod udp_conc;
mod udp_stats;

use std::collections::HashMap;

/// Counting allocator (C12: bytes requested during one parser call). Counts every allocation
/// and growth of every thread; the suites that read it are single-threaded.
pub struct Counting;
pub static ALLOCATED: std::sync::atomic::AtomicUsize = std::sync::atomic::AtomicUsize::new(0);
unsafe impl std::alloc::GlobalAlloc for Counting {
    unsafe fn alloc(&self, l: std::alloc::Layout) -> *mut u8 {
        ALLOCATED.fetch_add(l.size(), std::sync::atomic::Ordering::Relaxed);
        std::alloc::System.alloc(l)
    }
    unsafe fn dealloc(&self, p: *mut u8, l: std::alloc::Layout) {
        std::alloc::System.dealloc(p, l)
    }
    unsafe fn realloc(&self, p: *mut u8, l: std::alloc::Layout, n: usize) -> *mut u8 {
        if n > l.size() {
            ALLOCATED.fetch_add(n - l.size(), std::sync::atomic::Ordering::Relaxed);
        }
        std::alloc::System.realloc(p, l, n)
    }
}
#[global_allocator]
static GLOBAL: Counting = Counting;

pub struct Args {
    pub seed: u64,
    pub count: usize,
    pub only: Option<usize>,
    pub keep: Option<Vec<usize>>,
    pub extra: HashMap<String, String>,
}

fn parse_args(v: &[String]) -> Args {
    let mut a = Args {
        seed: 1,
        count: 100,
        only: None,
        keep: None,
        extra: HashMap::new(),
    };
    let mut i = 0;
    while i < v.len() {
        let k = v[i].as_str();
        let val = v.get(i + 1).cloned().unwrap_or_default();
        match k {
            "--seed" => a.seed = val.parse().expect("seed"),
            "--count" => a.count = val.parse().expect("count"),
            "--only" => a.only = Some(val.parse().expect("only")),
            "--keep" => {
                a.keep = Some(
                    val.split(',')
                        .filter(|s| !s.is_empty())
                        .map(|s| s.parse().expect("keep"))
                        .collect(),
                )
            }
            _ => {
                a.extra.insert(k.trim_start_matches("--").to_string(), val);
            }
        }
        i += 2;
    }
    a
}

/// Generic per-case driver: every case has its own PRNG stream (so `--only` reproduces it),
/// `--keep` restricts the generated operation list, and a panic of the implementation while a
/// case runs is caught and reported (`PANIC idx step message`) together with the trace so far.
pub fn drive<F>(args: &Args, salt: u64, mut f: F)
where
    F: FnMut(&mut prng::Prng, Option<&Vec<usize>>, u64, &mut String, &mut Vec<String>),
{
    std::panic::set_hook(Box::new(|_| {}));
    let mut total_ops = 0usize;
    let mut panics = 0usize;
    for idx in 0..args.count {
        if let Some(only) = args.only {
            if only != idx {
                continue;
            }
        }
        let mut rng = prng::Prng::new(args.seed ^ ((idx as u64) << 20) ^ salt);
        let mut header = String::new();
        let mut items: Vec<String> = Vec::new();
        let case_seed = args.seed.wrapping_add(idx as u64);
        let res = std::panic::catch_unwind(std::panic::AssertUnwindSafe(|| {
            f(&mut rng, args.keep.as_ref(), case_seed, &mut header, &mut items);
        }));
        total_ops += items.len();
        println!("CASE {} {} ({}, {})", idx, items.len(), header, coqfmt::list(&items));
        if let Err(e) = res {
            panics += 1;
            let msg = if let Some(s) = e.downcast_ref::<&str>() {
                s.to_string()
            } else if let Some(s) = e.downcast_ref::<String>() {
                s.clone()
            } else {
                "panic".to_string()
            };
            println!("PANIC {} {} {}", idx, items.len(), msg.replace('\n', " "));
        }
    }
    println!("STAT {{\"ops\": {}, \"panics\": {}}}", total_ops, panics);
}

fn main() {
    let argv: Vec<String> = std::env::args().collect();
    if argv.len() < 2 {
        eprintln!("usage: harness <suite> [--seed N] [--count N] [--only IDX] [--keep i,j,..]");
        std::process::exit(2);
    }
    let args = parse_args(&argv[2..]);
    match argv[1].as_str() {
        "udp-swarm" => udp_swarm::run(&args),
        "http-swarm" => http_swarm::run(&args),
        "valid-until" => valid_until::run(&args),
        "export-crash" => export_crash::run(&args),
        "access-list" => access_list::run(&args),
        "validator" => validator::run(&args),
        "udp-codec" => udp_codec::run(&args),
        "ws-swarm" => ws_swarm::run(&args),
        "addr" => addr::run(&args),
        "http-resp" => http_resp::run(&args),
        "http-req" => http_req::run(&args),
        "ws-codec" => ws_codec::run(&args),
        "fuzz-misc" => fuzz_misc::run(&args),
        "udp-sys" => udp_sys::run(&args),
        "udp-quiet" => udp_sys::run_quiet(&args),
        "http-sys" => http_sys::run(&args),
        "ws-sys" => ws_sys::run(&args),
        "watchdog" => watchdog::run(&args),
        "udp-conc" => udp_conc::run(&args),
        "udp-stats" => udp_stats::run(&args),
        "watchdog-case" => watchdog::case_child(&args),
        "ws-sys-case" => ws_sys::case_child(&args),
        "http-tracker" => http_sys::tracker_child(&args),
        "http-expiry-probe" => http_sys::expiry_probe(&args),
        "deep-json" => fuzz_misc::deep_json(&args),
        "config-refusal" => http_resp::run_refusal(&args),
        "export-child" => export_crash::child(&args),
        other => {
            eprintln!("unknown suite {}", other);
            std::process::exit(2);
        }
    }
}
