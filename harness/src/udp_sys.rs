//! C06: datagrams against RUNNING udp trackers (aquatic_udp::run in this process), mio and
//! io_uring backends, several client sockets on loopback (two on 127.0.0.1, one on 127.0.0.2,
//! one on ::1, and v4 clients reaching a dual-stack v6 socket as ::ffff:127.0.0.1).
//! Every test datagram is bracketed by two marker connects from the same client socket; the
//! marker replies carry the tracker's clock, and whatever the client socket received in between
//! is the step's reply list. Datagrams arriving on any other client socket are strays.
use std::collections::{HashMap, HashSet};
use std::net::{IpAddr, Ipv4Addr, Ipv6Addr, SocketAddr, SocketAddrV4, SocketAddrV6, UdpSocket};
use std::time::{Duration, Instant};

use aquatic_common::access_list::AccessListMode;
use aquatic_udp::config::Config;

use crate::coqfmt as cq;
use crate::prng::Prng;
use crate::Args;

#[derive(Clone, Copy, PartialEq, Eq, Hash, Debug)]
struct Variant {
    uring: bool,
    max_scrape: u8,
    max_resp: usize,
    age: u32,
    acl: u8, // 0 off, 1 allow, 2 deny
    workers: usize,
    dual_stack: bool, // only the v6 socket, accepting v4-mapped traffic
}

const VARIANTS: &[Variant] = &[
    Variant { uring: false, max_scrape: 3, max_resp: 4, age: 120, acl: 0, workers: 1, dual_stack: false },
    Variant { uring: true, max_scrape: 3, max_resp: 4, age: 120, acl: 0, workers: 1, dual_stack: false },
    Variant { uring: false, max_scrape: 1, max_resp: 2, age: 120, acl: 1, workers: 2, dual_stack: false },
    Variant { uring: true, max_scrape: 1, max_resp: 2, age: 120, acl: 2, workers: 2, dual_stack: false },
    Variant { uring: false, max_scrape: 70, max_resp: 30, age: 120, acl: 0, workers: 1, dual_stack: true },
    Variant { uring: true, max_scrape: 70, max_resp: 30, age: 120, acl: 0, workers: 1, dual_stack: true },
    Variant { uring: false, max_scrape: 2, max_resp: 1, age: 1, acl: 0, workers: 1, dual_stack: false },
    Variant { uring: true, max_scrape: 2, max_resp: 1, age: 1, acl: 0, workers: 1, dual_stack: false },
];

const INTERVAL: i32 = 1234;

/// the access list file names 4096 hashes; case i works with entry i % 4096, so that the
/// shared trackers hold nothing for it from earlier cases
fn acl_hash(i: usize) -> [u8; 20] {
    let mut h = [0xa1u8; 20];
    h[0] = (i >> 8) as u8;
    h[1] = i as u8;
    h
}
fn acl_hashes() -> Vec<[u8; 20]> {
    (0..4096).map(acl_hash).collect()
}

fn free_port() -> u16 {
    let s = UdpSocket::bind("127.0.0.1:0").unwrap();
    s.local_addr().unwrap().port()
}

fn start_tracker(v: &Variant, dir: &std::path::Path) -> u16 {
    for _attempt in 0..5 {
        let port = free_port();
        let mut c = Config::default();
        c.socket_workers = v.workers;
        c.network.use_ipv4 = !v.dual_stack;
        c.network.use_ipv6 = true;
        c.network.set_only_ipv6 = !v.dual_stack;
        c.network.address_ipv4 = SocketAddrV4::new(Ipv4Addr::UNSPECIFIED, port);
        c.network.address_ipv6 = SocketAddrV6::new(Ipv6Addr::UNSPECIFIED, port, 0, 0);
        c.network.use_io_uring = v.uring;
        c.network.socket_recv_buffer_size = 0;
        c.protocol.max_scrape_torrents = v.max_scrape;
        c.protocol.max_response_peers = v.max_resp;
        c.protocol.peer_announce_interval = INTERVAL;
        c.cleaning.max_connection_age = v.age;
        c.cleaning.torrent_cleaning_interval = 100_000;
        c.statistics.interval = 0;
        if v.acl != 0 {
            let path = dir.join(format!("acl-{}.txt", port));
            let text: String = acl_hashes().iter().map(|h| format!("{}\n", h.iter().map(|b| format!("{:02x}", b)).collect::<String>())).collect();
            std::fs::write(&path, text).unwrap();
            c.access_list.mode = if v.acl == 1 { AccessListMode::Allow } else { AccessListMode::Deny };
            c.access_list.path = path;
        }
        std::thread::spawn(move || {
            let _ = aquatic_udp::run(c);
        });
        // wait until it answers a connect
        let probe = if v.dual_stack { UdpSocket::bind("[::1]:0").unwrap() } else { UdpSocket::bind("127.0.0.1:0").unwrap() };
        probe.set_read_timeout(Some(Duration::from_millis(100))).unwrap();
        let dst: SocketAddr = if v.dual_stack { format!("[::1]:{}", port).parse().unwrap() } else { format!("127.0.0.1:{}", port).parse().unwrap() };
        let deadline = Instant::now() + Duration::from_secs(5);
        let mut buf = [0u8; 64];
        while Instant::now() < deadline {
            let _ = probe.send_to(&connect_bytes(0x7fff_0000), dst);
            if let Ok((16, _)) = probe.recv_from(&mut buf) {
                return port;
            }
        }
    }
    panic!("harness: could not start a udp tracker");
}

fn connect_bytes(tid: i32) -> Vec<u8> {
    let mut v = 0x0417_2710_1980i64.to_be_bytes().to_vec();
    v.extend_from_slice(&0i32.to_be_bytes());
    v.extend_from_slice(&tid.to_be_bytes());
    v
}

struct Client {
    sock: UdpSocket,
    dst: SocketAddr,
    /// the source address as the tracker's socket sees it
    seen_ip: Vec<u8>,
    port: u16,
    /// a connection id issued to this client (wire bytes)
    cid: Option<[u8; 8]>,
}

struct Ctx {
    table: Vec<(String, u64)>,
    marker: i32,
}

/// (elapsed, hash) halves of a connection id as the validator reads them
fn id_halves(wire: &[u8]) -> (u32, u32) {
    let v = i64::from_be_bytes(wire.try_into().unwrap());
    let ne = v.to_ne_bytes();
    (u32::from_ne_bytes(ne[..4].try_into().unwrap()), u32::from_ne_bytes(ne[4..].try_into().unwrap()))
}

fn canonical_ip(seen: &[u8]) -> Vec<u8> {
    if seen.len() == 16 && seen[..10] == [0; 10] && seen[10] == 0xff && seen[11] == 0xff {
        seen[12..].to_vec()
    } else {
        seen.to_vec()
    }
}

fn note_connect_reply(ctx: &mut Ctx, c: &Client, reply: &[u8]) -> Option<u32> {
    if reply.len() == 16 && reply[..4] == [0, 0, 0, 0] {
        let (elapsed, hash) = id_halves(&reply[8..16]);
        let mut key = elapsed.to_ne_bytes().to_vec();
        key.extend_from_slice(&canonical_ip(&c.seen_ip));
        ctx.table.push((cq::hex(&key), hash as u64));
        Some(elapsed)
    } else {
        None
    }
}

/// marker connect: returns (tracker clock, wire cid, datagrams received before the marker reply)
fn marker(ctx: &mut Ctx, c: &Client) -> (u32, [u8; 8], Vec<Vec<u8>>) {
    ctx.marker = ctx.marker.wrapping_add(1);
    let tid = 0x7000_0000 | (ctx.marker & 0x0fff_ffff);
    let mut before = Vec::new();
    let mut buf = [0u8; 16384];
    for _resend in 0..3 {
        c.sock.send_to(&connect_bytes(tid), c.dst).unwrap();
        let deadline = Instant::now() + Duration::from_millis(1500);
        while Instant::now() < deadline {
            match c.sock.recv_from(&mut buf) {
                Ok((n, _)) => {
                    let d = &buf[..n];
                    if n == 16 && d[..4] == [0, 0, 0, 0] && d[4..8] == tid.to_be_bytes() {
                        let now = note_connect_reply(ctx, c, d).unwrap();
                        return (now, d[8..16].try_into().unwrap(), before);
                    }
                    before.push(d.to_vec());
                }
                Err(_) => {}
            }
        }
    }
    panic!("harness: the tracker stopped answering connect requests");
}

fn announce_bytes(cid: &[u8; 8], tid: i32, hash: &[u8; 20], pid: &[u8; 20], left: i64, ev: i32, want: i32, port: u16) -> Vec<u8> {
    let mut v = cid.to_vec();
    v.extend_from_slice(&1i32.to_be_bytes());
    v.extend_from_slice(&tid.to_be_bytes());
    v.extend_from_slice(hash);
    v.extend_from_slice(pid);
    v.extend_from_slice(&0i64.to_be_bytes());
    v.extend_from_slice(&left.to_be_bytes());
    v.extend_from_slice(&0i64.to_be_bytes());
    v.extend_from_slice(&ev.to_be_bytes());
    v.extend_from_slice(&[0; 4]);
    v.extend_from_slice(&7i32.to_be_bytes());
    v.extend_from_slice(&want.to_be_bytes());
    v.extend_from_slice(&port.to_be_bytes());
    v
}

fn scrape_bytes(cid: &[u8; 8], tid: i32, hashes: &[[u8; 20]]) -> Vec<u8> {
    let mut v = cid.to_vec();
    v.extend_from_slice(&2i32.to_be_bytes());
    v.extend_from_slice(&tid.to_be_bytes());
    for h in hashes {
        v.extend_from_slice(h);
    }
    v
}

pub fn run(args: &Args) {
    let dir = std::path::PathBuf::from(format!("/verif/.cache/scratch/udp-sys-{}", std::process::id()));
    std::fs::create_dir_all(&dir).unwrap();
    let only_backend = args.extra.get("backend").cloned(); // "mio" / "uring"
    let mut trackers: HashMap<Variant, u16> = HashMap::new();
    let mut case_counter = 0usize;
    let mut answered_total = 0usize;
    let mut silent_total = 0usize;
    let mut kinds: HashMap<&'static str, usize> = HashMap::new();
    crate::drive(args, 0x5e5, |rng, _keep, _seed, header, items| {
        let candidates: Vec<&Variant> = VARIANTS
            .iter()
            .filter(|v| match only_backend.as_deref() {
                Some("mio") => !v.uring,
                Some("uring") => v.uring,
                _ => true,
            })
            .collect();
        let v = **rng.pick(&candidates);
        let port = *trackers.entry(v).or_insert_with(|| start_tracker(&v, &dir));
        let mut ctx = Ctx { table: Vec::new(), marker: (rng.next() & 0xffff) as i32 };
        // clients
        let mk = |bind: &str, dst: String, seen_ip: Vec<u8>| -> Client {
            let sock = UdpSocket::bind(bind).unwrap();
            sock.set_read_timeout(Some(Duration::from_millis(50))).unwrap();
            let port = sock.local_addr().unwrap().port();
            Client { sock, dst: dst.parse().unwrap(), seen_ip, port, cid: None }
        };
        let mapped = |a: [u8; 4]| -> Vec<u8> {
            let mut m = vec![0u8; 10];
            m.extend_from_slice(&[0xff, 0xff]);
            m.extend_from_slice(&a);
            m
        };
        let v4seen = |a: [u8; 4]| -> Vec<u8> { if v.dual_stack { mapped(a) } else { a.to_vec() } };
        let mut v6ip = vec![0u8; 15];
        v6ip.push(1);
        let mut clients = vec![
            mk("127.0.0.1:0", format!("127.0.0.1:{}", port), v4seen([127, 0, 0, 1])),
            mk("127.0.0.1:0", format!("127.0.0.1:{}", port), v4seen([127, 0, 0, 1])),
            mk("127.0.0.2:0", format!("127.0.0.1:{}", port), v4seen([127, 0, 0, 2])),
            mk("[::1]:0", format!("[::1]:{}", port), v6ip.clone()),
        ];
        // every client obtains an id first (not a recorded step)
        for i in 0..clients.len() {
            let (_, cid, _) = marker(&mut ctx, &clients[i]);
            clients[i].cid = Some(cid);
        }
        // an id issued to the same address by ANOTHER tracker instance (other key)
        let other_v = if v == VARIANTS[0] { VARIANTS[2] } else { VARIANTS[0] };
        let other_port = *trackers.entry(other_v).or_insert_with(|| start_tracker(&other_v, &dir));
        let foreign_id: [u8; 8] = {
            let mut throwaway = Ctx { table: Vec::new(), marker: 77 };
            let c = mk("127.0.0.1:0", format!("127.0.0.1:{}", other_port), vec![127, 0, 0, 1]);
            marker(&mut throwaway, &c).1
        };
        let case_no = case_counter + args.only.unwrap_or(0);
        case_counter += 1;
        // torrents of this case
        let mut pool: Vec<[u8; 20]> = (0..3)
            .map(|_| {
                let mut h = [0u8; 20];
                for b in h.iter_mut() {
                    *b = rng.below(256) as u8;
                }
                h
            })
            .collect();
        if v.acl != 0 {
            pool[0] = acl_hash((case_no + (args.seed as usize) * 131) % 4096);
        }
        let mut sent_hash_parts: HashSet<u32> = HashSet::new();
        let n_steps = 8 + rng.below(12) as usize;
        let mut waited = false;
        // the last six steps are an audit: the v4 client 0 and the v6 client 3 scrape each torrent of the
        // case on its own with a fresh valid id (what the tracker holds at the end must be the reference's)
        for step_no in 0..(n_steps + 6) {
            let audit: Option<usize> = if step_no >= n_steps { Some(step_no - n_steps) } else { None };
            if v.acl != 0 && audit.is_none() && rng.chance(1, 8) {
                // rewrite the tracker's access list file and signal the process (SIGUSR1): the case's own
                // entry may go, a second torrent of the case may come; sometimes the file is unreadable
                let ok = rng.chance(3, 4);
                let keep0 = rng.chance(1, 2);
                let add1 = rng.chance(1, 2);
                let mut text: String = acl_hashes()
                    .iter()
                    .filter(|h| keep0 || **h != pool[0])
                    .map(|h| format!("{}\n", h.iter().map(|b| format!("{:02x}", b)).collect::<String>()))
                    .collect();
                if add1 {
                    text.push_str(&format!("{}\n", pool[1].iter().map(|b| format!("{:02x}", b)).collect::<String>()));
                }
                if !ok {
                    text.push_str("not-an-info-hash\n");
                }
                std::fs::write(dir.join(format!("acl-{}.txt", port)), text).unwrap();
                unsafe {
                    libc::kill(libc::getpid(), libc::SIGUSR1);
                }
                std::thread::sleep(Duration::from_millis(250));
                let mut listed: Vec<String> = Vec::new();
                if keep0 {
                    listed.push(cq::hex(&pool[0]));
                }
                if add1 {
                    listed.push(cq::hex(&pool[1]));
                }
                items.push(format!("SysReload {} {}", cq::list(&listed), cq::b(ok)));
                continue;
            }
            let ci = match audit { Some(a) => if a < 3 { 0 } else { 3 }, None => rng.below(clients.len() as u64) as usize };
            if audit.is_some() {
                let (_, fresh, _) = marker(&mut ctx, &clients[ci]);
                clients[ci].cid = Some(fresh);
            }
            let tid = (rng.next() & 0x3fff_ffff) as i32 * if rng.chance(1, 4) { -1 } else { 1 };
            // which connection id the request carries
            let id_kind = if audit.is_some() { 0 } else { rng.below(10) };
            let own = clients[ci].cid.unwrap();
            let cid: [u8; 8] = match id_kind {
                0..=4 => own,
                5 => clients[(ci + 1) % clients.len()].cid.unwrap(), // same address (0<->1) or another one
                6 => clients[(ci + 2) % clients.len()].cid.unwrap(),
                7 => {
                    let mut r = [0u8; 8];
                    for b in r.iter_mut() {
                        *b = rng.below(256) as u8;
                    }
                    r
                }
                8 => foreign_id,
                _ => {
                    // own id with one bit of the hash half or of the clock half altered
                    let mut r = own;
                    let bit = rng.below(64) as usize;
                    r[bit / 8] ^= 1 << (bit % 8);
                    r
                }
            };
            let hash = *rng.pick(&pool);
            let mut pid = [0u8; 20];
            pid[0] = ci as u8;
            pid[1] = rng.below(3) as u8;
            let kind = rng.below(16);
            let (name, mut dgram): (&'static str, Vec<u8>) = match kind {
                _ if audit.is_some() => ("scrape", scrape_bytes(&cid, tid, &[pool[audit.unwrap() % 3]])),
                0 | 1 => ("connect", connect_bytes(tid)),
                2 => {
                    let mut d = connect_bytes(tid);
                    match rng.below(4) {
                        0 => d[rng.below(8) as usize] ^= 1 << rng.below(8),
                        1 => d.truncate(12 + rng.below(4) as usize),
                        2 => d.extend((0..1 + rng.below(80)).map(|_| rng.below(256) as u8)),
                        _ => d.truncate(rng.below(12) as usize),
                    }
                    ("connect-mutated", d)
                }
                3..=7 => {
                    let left = *rng.pick(&[0i64, 0, 1, -1, i64::MAX]);
                    let ev = *rng.pick(&[0, 0, 1, 2, 2, 3]);
                    let want = *rng.pick(&[-1, 0, 1, 2, 50, i32::MIN, i32::MAX]);
                    let aport = *rng.pick(&[6881u16, 6882, 1, 65535, 6883]);
                    ("announce", announce_bytes(&cid, tid, &hash, &pid, left, ev, want, aport))
                }
                8 => ("announce-port0", announce_bytes(&cid, tid, &hash, &pid, 1, 0, 5, 0)),
                9 => {
                    let mut d = announce_bytes(&cid, tid, &hash, &pid, 1, 2, 5, 6881);
                    match rng.below(4) {
                        0 => d.truncate(rng.below(98) as usize),
                        1 => d.extend((0..1 + rng.below(60)).map(|_| rng.below(256) as u8)),
                        2 => {
                            let bit = rng.below(98 * 8) as usize;
                            d[bit / 8] ^= 1 << (bit % 8);
                        }
                        _ => d[80..84].copy_from_slice(&(*rng.pick(&[4i32, -1, 255, 1 << 24])).to_be_bytes()),
                    }
                    ("announce-mutated", d)
                }
                10..=12 => {
                    let n = *rng.pick(&[1usize, 1, 2, 3, 4, 5, 22, 23, 24, 71]);
                    let hs: Vec<[u8; 20]> = (0..n).map(|i| if i % 2 == 0 { *rng.pick(&pool) } else { [i as u8; 20] }).collect();
                    ("scrape", scrape_bytes(&cid, tid, &hs))
                }
                13 => {
                    let mut d = scrape_bytes(&cid, tid, &[hash, hash]);
                    match rng.below(3) {
                        0 => d.truncate(16),
                        1 => d.truncate(16 + 1 + rng.below(39) as usize),
                        _ => d.truncate(12 + rng.below(4) as usize),
                    }
                    ("scrape-malformed", d)
                }
                14 => {
                    let mut d = announce_bytes(&cid, tid, &hash, &pid, 1, 0, 5, 6881);
                    d[8..12].copy_from_slice(&(*rng.pick(&[3i32, 4, -1, 256, 1 << 24])).to_be_bytes());
                    ("unknown-action", d)
                }
                _ => ("random", (0..rng.below(130)).map(|_| rng.below(256) as u8).collect()),
            };
            // sizes around the receive capacities (io_uring: 512 - 16 - sockaddr; mio: 8192)
            if (name == "announce" || name == "connect") && rng.chance(1, 5) {
                let target = *rng.pick(&[467usize, 468, 469, 479, 480, 481, 8192, 8193]);
                while dgram.len() < target {
                    dgram.push(rng.below(256) as u8);
                }
            }
            *kinds.entry(name).or_insert(0) += 1;
            if dgram.len() >= 8 {
                sent_hash_parts.insert(id_halves(&dgram[..8]).1);
            }
            // with the short-lived ids (age 1), sometimes let the id go stale first: the
            // tracker refreshes its clock every 256 polls, so keep it busy until it ticks
            if v.age == 1 && !waited && rng.chance(1, 3) {
                waited = true;
                let (t0, _, _) = marker(&mut ctx, &clients[ci]);
                let deadline = Instant::now() + Duration::from_millis(3500);
                loop {
                    let (t, _, _) = marker(&mut ctx, &clients[ci]);
                    if t >= t0 + 3 || Instant::now() > deadline {
                        break;
                    }
                }
            }
            let c = &clients[ci];
            let (now0, _, pre) = marker(&mut ctx, c);
            c.sock.send_to(&dgram, c.dst).unwrap();
            let (now1, fresh, mut replies) = marker(&mut ctx, c);
            // anything still in flight (io_uring completes sends asynchronously)
            let mut buf = [0u8; 16384];
            if replies.is_empty() && v.uring {
                c.sock.set_read_timeout(Some(Duration::from_millis(15))).unwrap();
                if let Ok((n, _)) = c.sock.recv_from(&mut buf) {
                    replies.push(buf[..n].to_vec());
                }
                c.sock.set_read_timeout(Some(Duration::from_millis(50))).unwrap();
            }
            let mut strays = pre.len();
            for (j, other) in clients.iter().enumerate() {
                if j != ci {
                    other.sock.set_nonblocking(true).unwrap();
                    while let Ok((_n, _)) = other.sock.recv_from(&mut buf) {
                        strays += 1;
                    }
                    other.sock.set_nonblocking(false).unwrap();
                }
            }
            for r in &replies {
                note_connect_reply(&mut ctx, c, r);
            }
            if replies.is_empty() {
                silent_total += 1;
            } else {
                answered_total += 1;
            }
            items.push(format!(
                "SysStep {} {} {} {} {} {} {}",
                cq::hex(&c.seen_ip),
                cq::n(c.port),
                cq::n(now0),
                cq::n(now1),
                cq::hex(&dgram),
                cq::list(&replies.iter().map(|r| cq::hex(r)).collect::<Vec<_>>()),
                cq::n(strays)
            ));
            // keep ids fresh where they expire quickly
            if v.age == 1 || rng.chance(1, 6) {
                clients[ci].cid = Some(fresh);
            }
        }
        let mut dflt = 1u64;
        while sent_hash_parts.contains(&(dflt as u32)) {
            dflt += 1;
        }
        let mode = match v.acl {
            0 => "AclOff",
            1 => "AclAllow",
            _ => "AclDeny",
        };
        let acl: Vec<String> = if v.acl == 0 { vec![] } else { vec![cq::hex(&pool[0])] };
        ctx.table.sort();
        ctx.table.dedup();
        *header = format!(
            "{}, {}, {}, {}, {}, {}, {}, {}, {}",
            cq::b(v.uring),
            cq::nat(v.max_scrape),
            cq::nat(v.max_resp),
            cq::n(v.age),
            mode,
            cq::list(&acl),
            cq::z(INTERVAL as i128),
            cq::n(dflt),
            cq::list(&ctx.table.iter().map(|(k, h)| format!("({}, {})", k, cq::n(h))).collect::<Vec<_>>())
        );
    });
    let _ = std::fs::remove_dir_all(&dir);
    let mut ks: Vec<_> = kinds.into_iter().collect();
    ks.sort();
    println!(
        "STAT {{\"answered\": {}, \"silent\": {}, \"trackers_started\": {}, \"kinds\": {{{}}}}}",
        answered_total,
        silent_total,
        trackers.len(),
        ks.iter().map(|(k, n)| format!("\"{}\": {}", k, n)).collect::<Vec<_>>().join(", ")
    );
    let _ = (IpAddr::V4(Ipv4Addr::LOCALHOST), 0);
}

/// `udp-quiet`: connection ids on a QUIET tracker. One tracker per case (mio with a 1 ms poll timeout,
/// or io_uring with its 5 s clock pulse), max_connection_age = 2 s: connect, announce (answered),
/// then no traffic at all for 5 s (mio) / 9 s (io_uring), then an announce with the OLD id, which
/// must stay unanswered: the validator's clock has to advance without any datagram arriving.
pub fn run_quiet(args: &Args) {
    crate::drive(args, 0x9e7, |_rng, _keep, seed, header, items| {
        let uring = seed.wrapping_sub(args.seed) % 2 == 1; // the two backends alternate
        let port = free_port();
        let mut c = Config::default();
        c.socket_workers = 1;
        c.network.address_ipv4 = SocketAddrV4::new(Ipv4Addr::UNSPECIFIED, port);
        c.network.address_ipv6 = SocketAddrV6::new(Ipv6Addr::UNSPECIFIED, port, 0, 0);
        c.network.use_io_uring = uring;
        c.network.poll_timeout_ms = 1;
        c.network.socket_recv_buffer_size = 0;
        c.cleaning.max_connection_age = 2;
        c.cleaning.torrent_cleaning_interval = 100_000;
        c.statistics.interval = 0;
        std::thread::spawn(move || {
            let _ = aquatic_udp::run(c);
        });
        let sock = UdpSocket::bind("127.0.0.1:0").unwrap();
        sock.set_read_timeout(Some(Duration::from_millis(300))).unwrap();
        let dst: SocketAddr = format!("127.0.0.1:{}", port).parse().unwrap();
        let mut buf = [0u8; 2048];
        let mut cid: Option<[u8; 8]> = None;
        let deadline = Instant::now() + Duration::from_secs(6);
        while cid.is_none() && Instant::now() < deadline {
            let _ = sock.send_to(&connect_bytes(5), dst);
            if let Ok((16, _)) = sock.recv_from(&mut buf) {
                cid = Some(buf[8..16].try_into().unwrap());
            }
        }
        let cid = cid.expect("harness: the udp tracker did not answer a connect request");
        let hash = [0x77u8; 20];
        let pid = [0x55u8; 20];
        let _ = sock.send_to(&announce_bytes(&cid, 11, &hash, &pid, 1, 2, 5, 6881), dst);
        let before = matches!(sock.recv_from(&mut buf), Ok((n, _)) if n >= 20 && buf[..4] == [0, 0, 0, 1]);
        std::thread::sleep(Duration::from_secs(if uring { 9 } else { 5 }));
        let _ = sock.send_to(&announce_bytes(&cid, 12, &hash, &pid, 1, 0, 5, 6881), dst);
        sock.set_read_timeout(Some(Duration::from_millis(800))).unwrap();
        let after = sock.recv_from(&mut buf).is_ok();
        *header = cq::b(uring).to_string();
        items.push(format!("({}, {})", cq::b(before), cq::b(after)));
    });
}
