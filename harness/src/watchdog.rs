//! C19: a dead worker brings the whole tracker down. One scenario per case, each in its own child
//! process (`watchdog-case`): the child arms one fault point (hook H7: a worker loop or task
//! panics, or returns, at its n-th pass), calls the tracker's real `run()` on a thread, drives
//! the traffic that reaches the fault point (datagrams, TCP / WebSocket connections, SIGUSR1)
//! and reports whether and when `run()` returned, and with what error text.
use std::io::{Read, Write};
use std::net::{TcpStream, UdpSocket};
use std::sync::atomic::{AtomicU64, Ordering};
use std::sync::mpsc;
use std::time::{Duration, Instant};

use crate::coqfmt as cq;
use crate::Args;

#[derive(Clone, Copy)]
struct Scenario {
    tracker: &'static str, // udp-mio / udp-uring / http / ws
    point: &'static str,
    panic: bool,
    after: usize,
    socket_workers: usize,
    swarm_workers: usize,
    index: usize, // worker index the fault is aimed at (usize::MAX = any)
}

const ANY: usize = usize::MAX;

fn scenarios() -> Vec<Scenario> {
    let mut v = Vec::new();
    for tracker in ["udp-mio", "udp-uring"] {
        for panic in [false, true] {
            for (after, sw) in [(0usize, 1usize), (40, 2)] {
                v.push(Scenario { tracker, point: "udp_socket", panic, after, socket_workers: sw, swarm_workers: 0, index: ANY });
            }
        }
    }
    for panic in [false, true] {
        for after in [0usize, 2] {
            v.push(Scenario { tracker: "udp-mio", point: "udp_cleaning", panic, after, socket_workers: 1, swarm_workers: 0, index: ANY });
            v.push(Scenario { tracker: "udp-mio", point: "udp_statistics", panic, after, socket_workers: 2, swarm_workers: 0, index: ANY });
        }
        v.push(Scenario { tracker: "udp-mio", point: "udp_signals", panic, after: 0, socket_workers: 1, swarm_workers: 0, index: ANY });
        v.push(Scenario { tracker: "http", point: "http_signals", panic, after: 0, socket_workers: 1, swarm_workers: 1, index: ANY });
        v.push(Scenario { tracker: "ws", point: "ws_signals", panic, after: 0, socket_workers: 1, swarm_workers: 1, index: ANY });
        v.push(Scenario { tracker: "ws", point: "ws_socket", panic, after: 0, socket_workers: 1, swarm_workers: 1, index: 0 });
        v.push(Scenario { tracker: "ws", point: "ws_socket", panic, after: 3, socket_workers: 2, swarm_workers: 2, index: ANY });
    }
    // faults inside detached async tasks of the glommio workers: only a panic is a worker failure
    for (sw, ww, after) in [(1usize, 1usize, 0usize), (2, 3, 2)] {
        v.push(Scenario { tracker: "http", point: "http_socket", panic: true, after, socket_workers: sw, swarm_workers: ww, index: ANY });
        v.push(Scenario { tracker: "http", point: "http_conn", panic: true, after, socket_workers: sw, swarm_workers: ww, index: ANY });
        v.push(Scenario { tracker: "http", point: "http_swarm", panic: true, after, socket_workers: sw, swarm_workers: ww, index: ANY });
        v.push(Scenario { tracker: "ws", point: "ws_conn", panic: true, after, socket_workers: sw, swarm_workers: ww, index: ANY });
        v.push(Scenario { tracker: "ws", point: "ws_swarm", panic: true, after, socket_workers: sw, swarm_workers: ww, index: ANY });
    }
    // a worker that cannot set up ONE of its listeners / sockets is a failed worker too: the
    // address is occupied by a socket without SO_REUSEPORT (setup_v4) or not assigned to any
    // interface (setup_v6); the other address family of the same worker is fine
    for tracker in ["http", "udp-mio", "udp-uring"] {
        for point in ["setup_v4", "setup_v6"] {
            v.push(Scenario { tracker, point, panic: false, after: 0, socket_workers: 1, swarm_workers: 1, index: ANY });
        }
    }
    v.push(Scenario { tracker: "ws", point: "setup_v4", panic: false, after: 0, socket_workers: 1, swarm_workers: 1, index: ANY });
    v
}

static FIRED_AT_MS: AtomicU64 = AtomicU64::new(0);

fn free_port() -> u16 {
    std::net::TcpListener::bind("127.0.0.1:0").unwrap().local_addr().unwrap().port()
}

/// `watchdog-case --only IDX`
pub fn case_child(args: &Args) {
    let all = scenarios();
    let sc = all[args.only.unwrap_or(0) % all.len()];
    let t0 = Instant::now();
    aquatic_common::verif::set_probe(Some(Box::new(move |name, _| {
        if name == "fault_fired" {
            FIRED_AT_MS.store(t0.elapsed().as_millis() as u64 + 1, Ordering::SeqCst);
        }
    })));
    let setup = sc.point.starts_with("setup_");
    if !setup {
        aquatic_common::verif::set_fault(sc.point, sc.index, sc.panic, sc.after);
    }
    if std::env::var("WD_DEBUG").is_err() {
        std::panic::set_hook(Box::new(|_| {}));
    }
    let port = free_port();
    // set-up failure scenarios: the fault exists from the start
    let _occupied_tcp;
    let _occupied_udp;
    let v6_host = if sc.point == "setup_v6" { "2001:db8::1" } else { "::1" };
    if sc.point == "setup_v4" {
        _occupied_tcp = std::net::TcpListener::bind(("127.0.0.1", port)).ok();
        _occupied_udp = UdpSocket::bind(("127.0.0.1", port)).ok();
    }
    if setup {
        FIRED_AT_MS.store(1, Ordering::SeqCst);
    }
    let dir = std::path::PathBuf::from(format!("/verif/.cache/scratch/watchdog-{}", std::process::id()));
    std::fs::create_dir_all(&dir).unwrap();
    let (tx, rx) = mpsc::channel::<(u64, Result<(), String>)>();
    match sc.tracker {
        "udp-mio" | "udp-uring" => {
            let mut c = aquatic_udp::config::Config::default();
            c.socket_workers = sc.socket_workers;
            c.network.address_ipv4 = format!("127.0.0.1:{}", port).parse().unwrap();
            c.network.address_ipv6 = format!("[{}]:{}", v6_host, port).parse().unwrap();
            c.network.use_io_uring = sc.tracker == "udp-uring";
            c.network.socket_recv_buffer_size = 0;
            c.cleaning.torrent_cleaning_interval = 1;
            if sc.point == "udp_statistics" {
                c.statistics.interval = 1;
                c.statistics.write_html_to_file = true;
                c.statistics.html_file_path = dir.join("stats.html");
            }
            std::thread::spawn(move || {
                let r = aquatic_udp::run(c).map_err(|e| format!("{:#}", e));
                let _ = tx.send((t0.elapsed().as_millis() as u64, r));
            });
        }
        "http" => {
            let mut c = aquatic_http::config::Config::default();
            c.socket_workers = sc.socket_workers;
            c.swarm_workers = sc.swarm_workers;
            c.network.address_ipv4 = format!("127.0.0.1:{}", port).parse().unwrap();
            c.network.address_ipv6 = format!("[{}]:{}", v6_host, port).parse().unwrap();
            std::thread::spawn(move || {
                let r = aquatic_http::run(c).map_err(|e| format!("{:#}", e));
                let _ = tx.send((t0.elapsed().as_millis() as u64, r));
            });
        }
        _ => {
            let mut c = aquatic_ws::config::Config::default();
            c.socket_workers = sc.socket_workers;
            c.swarm_workers = sc.swarm_workers;
            c.network.address = format!("127.0.0.1:{}", port).parse().unwrap();
            c.network.enable_tls = false;
            std::thread::spawn(move || {
                let r = aquatic_ws::run(c).map_err(|e| format!("{:#}", e));
                let _ = tx.send((t0.elapsed().as_millis() as u64, r));
            });
        }
    }
    // traffic until the fault has fired (at most 8 s), then wait for run() to return (at most 14 s more)
    let udp = UdpSocket::bind("127.0.0.1:0").unwrap();
    udp.set_read_timeout(Some(Duration::from_millis(30))).unwrap();
    let mut connect = 0x0417_2710_1980i64.to_be_bytes().to_vec();
    connect.extend_from_slice(&[0, 0, 0, 0, 0, 0, 0, 9]);
    let drive_deadline = Instant::now() + Duration::from_secs(20);
    let mut returned: Option<(u64, Result<(), String>)> = None;
    let mut n = 0u32;
    std::thread::sleep(Duration::from_millis(300));
    while FIRED_AT_MS.load(Ordering::SeqCst) == 0 && Instant::now() < drive_deadline && returned.is_none() {
        n += 1;
        match sc.tracker {
            "udp-mio" | "udp-uring" => {
                let _ = udp.send_to(&connect, ("127.0.0.1", port));
                let mut b = [0u8; 64];
                let _ = udp.recv_from(&mut b);
            }
            "http" => {
                if let Ok(mut s) = TcpStream::connect(("127.0.0.1", port)) {
                    let _ = s.set_read_timeout(Some(Duration::from_millis(150)));
                    // torrents with first bytes 0,1,2,..: every swarm worker gets requests
                    let h = format!("%{:02x}", n % 6) + &"%41".repeat(19);
                    let _ = s.write_all(format!("GET /announce?info_hash={}&peer_id={}&port=6881&uploaded=0&downloaded=0&left=1&compact=1 HTTP/1.1\r\nHost: t\r\n\r\n", h, "%42".repeat(20)).as_bytes());
                    let mut b = [0u8; 2048];
                    let _ = s.read(&mut b);
                }
            }
            _ => {
                if let Ok(s) = TcpStream::connect(("127.0.0.1", port)) {
                    let _ = s.set_read_timeout(Some(Duration::from_millis(1000)));
                    if let Ok((mut ws, _)) = tungstenite::client::client(format!("ws://127.0.0.1:{}/", port), s) {
                        let h: String = std::iter::once((b'0' + (n % 6) as u8) as char).chain(std::iter::repeat('A').take(19)).collect();
                        let _ = ws.send(tungstenite::Message::text(format!(
                            "{{\"action\":\"announce\",\"info_hash\":\"{}\",\"peer_id\":\"{}\",\"left\":1}}",
                            h,
                            "B".repeat(20)
                        )));
                        let _ = ws.read();
                    }
                }
            }
        }
        if sc.point.ends_with("_signals") {
            unsafe {
                libc::kill(libc::getpid(), libc::SIGUSR1);
            }
            std::thread::sleep(Duration::from_millis(50));
        }
        if let Ok(r) = rx.try_recv() {
            returned = Some(r);
        }
        std::thread::sleep(Duration::from_millis(10));
    }
    let fired = FIRED_AT_MS.load(Ordering::SeqCst);
    if returned.is_none() {
        if let Ok(r) = rx.recv_timeout(Duration::from_secs(14)) {
            returned = Some(r);
        }
    }
    let _ = std::fs::remove_dir_all(&dir);
    let (ret_ms, text) = match &returned {
        Some((ms, Ok(()))) => (*ms, "OK".to_string()),
        Some((ms, Err(e))) => (*ms, e.clone()),
        None => (0, "NO-RETURN".to_string()),
    };
    println!("RESULT {} {} {} {}", fired, returned.is_some(), ret_ms, text.replace('\n', " "));
    std::process::exit(0);
}

pub fn run(args: &Args) {
    let all = scenarios();
    // scenarios run in parallel children, in batches; the per-case closure below only formats
    let wanted: Vec<usize> = (0..args.count).filter(|i| args.only.map(|o| o == *i).unwrap_or(true)).collect();
    let mut results: std::collections::HashMap<usize, String> = std::collections::HashMap::new();
    for batch in wanted.chunks(6) {
        let children: Vec<(usize, std::process::Child)> = batch
            .iter()
            .map(|i| {
                let c = std::process::Command::new(std::env::current_exe().unwrap())
                    .args(["watchdog-case", "--only", &(i % all.len()).to_string()])
                    .stdout(std::process::Stdio::piped())
                    .stderr(std::process::Stdio::null())
                    .spawn()
                    .unwrap();
                (*i, c)
            })
            .collect();
        for (i, c) in children {
            let out = c.wait_with_output().unwrap();
            let text = String::from_utf8_lossy(&out.stdout).to_string();
            let line = text.lines().find(|l| l.starts_with("RESULT ")).unwrap_or("RESULT 0 false 0 CHILD-DIED").to_string();
            results.insert(i, line);
        }
    }
    crate::drive(args, 0x19, |_rng, _keep, seed, header, items| {
        let idx = seed.wrapping_sub(args.seed) as usize;
        let sc = all[idx % all.len()];
        let line = results.get(&idx).cloned().unwrap_or_default();
        let mut parts = line.splitn(5, ' ');
        let _ = parts.next();
        let fired: u64 = parts.next().unwrap_or("0").parse().unwrap_or(0);
        let returned: bool = parts.next().unwrap_or("false") == "true";
        let ret_ms: u64 = parts.next().unwrap_or("0").parse().unwrap_or(0);
        let text = parts.next().unwrap_or("").to_string();
        let tracker = match sc.tracker {
            "udp-mio" | "udp-uring" => "TUdp",
            "http" => "THttp",
            _ => "TWs",
        };
        *header = format!("{}, {}, {}, {}", tracker, cq::nat(sc.socket_workers), cq::nat(sc.swarm_workers), cq::b(sc.tracker == "udp-uring"));
        let worker = match sc.point {
            "udp_socket" | "http_socket" | "http_conn" | "ws_socket" | "ws_conn" | "setup_v4" | "setup_v6" => "WSocket",
            "http_swarm" | "ws_swarm" => "WSwarm",
            "udp_cleaning" => "WCleaning",
            "udp_statistics" => "WStatistics",
            _ => "WSignals",
        };
        // classify the error text
        let stopped = text.contains(" stopped");
        let panicked = text.contains(" panicked");
        let named = match worker {
            "WSocket" => text.contains("Socket worker"),
            "WSwarm" => text.contains("Swarm worker"),
            "WCleaning" => text.contains("Cleaning worker"),
            "WStatistics" => text.contains("Statistics worker"),
            _ => text.contains("Signals worker"),
        };
        let is_err = returned && text != "OK";
        let latency = if fired > 0 && returned { ret_ms.saturating_sub(fired - 1) } else { 0 };
        items.push(format!(
            "WdObs {} {} {} {} {} {} {} {} {}",
            worker,
            cq::b(sc.panic),
            cq::nat(sc.after),
            cq::b(fired > 0),
            cq::b(returned),
            cq::b(is_err),
            cq::b(named && ((sc.panic && panicked) || (!sc.panic && stopped))),
            cq::n(latency),
            cq::hex(text.as_bytes())
        ));
    });
}
