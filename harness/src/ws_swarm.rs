//! Histories on the real aquatic_ws swarm storage (hook H6, mock clock H1): announces with
//! offers / answers from several connections whose per-worker connection ids coincide, scrapes,
//! connection-closed notifications and cleaning passes.  Used by C08 C09 C02 C10 C11.
use std::sync::Arc;

use aquatic_common::access_list::{AccessList, AccessListArcSwap, AccessListMode};
use aquatic_common::ServerStartInstant;
use aquatic_ws::common::{ConnectionId, ConsumerId, InMessageMeta, IpVersion, OutMessageMeta};
use aquatic_ws::config::Config;
use aquatic_ws::workers::swarm::verif_storage::TorrentMaps;
use aquatic_ws_protocol::common::*;
use aquatic_ws_protocol::incoming::*;
use aquatic_ws_protocol::outgoing::OutMessage;
use rand::prelude::*;

use crate::coqfmt as cq;
use crate::prng::Prng;
use crate::Args;

#[derive(Clone, Debug)]
pub enum Op {
    Announce {
        conn: usize,
        hash: [u8; 20],
        pid: [u8; 20],
        ev: u8, // 0 none(update default) 1 started 2 completed 3 stopped 4 update
        left: Option<usize>,
        offers: Option<Vec<(u8, u32)>>,
        answer: Option<(usize, u8, u32)>, // (to pid index, offer id, sdp)
        answer_pending: bool,             // answer a really pending offer when one exists
        now: u32,
    },
    Scrape { conn: usize, hashes: Option<Vec<[u8; 20]>> },
    Closed { v6: bool, hash: [u8; 20], pid: [u8; 20] },
    Clean { now: u32, mode: u8, acl: Vec<[u8; 20]> },
}

pub struct History {
    pub max_offers: usize,
    pub max_scrape: usize,
    pub max_peer_age: u32,
    pub max_offer_age: u32,
    pub ops: Vec<Op>,
}

// (consumer, slot index, v6): slot indices deliberately coincide across socket workers
const CONNS: [(u8, u32, bool); 6] = [(0, 1, false), (1, 1, false), (0, 2, false), (1, 2, false), (0, 3, true), (1, 1, true)];

fn pid_pool() -> Vec<[u8; 20]> {
    (0..5u8)
        .map(|i| {
            let mut p = [0u8; 20];
            p[0] = 0x70 + i;
            p
        })
        .collect()
}

fn offer_id(n: u8) -> [u8; 20] {
    let mut o = [0u8; 20];
    o[0] = n;
    o[1] = 0xee;
    o
}

fn conn_key(slot: u32) -> u64 {
    (1u64 << 32) | slot as u64
}

pub fn gen_history(rng: &mut Prng) -> History {
    let hashes = crate::udp_swarm::hash_pool();
    let pids = pid_pool();
    let focus = *rng.pick(&hashes);
    let n_ops = 8 + rng.below(50) as usize;
    let max_offers = *rng.pick(&[0usize, 1, 2, 3, 10]);
    let max_scrape = *rng.pick(&[0usize, 1, 2, 255]);
    let max_peer_age = *rng.pick(&[1u32, 3, 10, 40]);
    let max_offer_age = *rng.pick(&[1u32, 2, 5, 40]);
    let mode = *rng.pick(&[2u8, 2, 2, 0, 1]);
    let mut now: u32 = rng.below(4) as u32;
    let mut ops = Vec::new();
    // mostly each connection sticks to "its" peer id, sometimes it borrows another one's
    for _ in 0..n_ops {
        let r = rng.below(100);
        if r < 70 {
            let conn = rng.below(CONNS.len() as u64) as usize;
            let pid = if rng.chance(3, 4) { pids[conn % pids.len()] } else { *rng.pick(&pids) };
            let hash = if rng.chance(5, 6) { focus } else { *rng.pick(&hashes) };
            let ev = *rng.pick(&[0u8, 0, 1, 2, 3, 3, 4]);
            let left = *rng.pick(&[None, Some(0usize), Some(0), Some(5)]);
            let offers = if rng.chance(1, 2) {
                let n = rng.below(5) as usize;
                Some((0..n).map(|_| (rng.below(4) as u8, 100 + rng.below(50) as u32)).collect())
            } else {
                None
            };
            let answer = if rng.chance(1, 3) {
                Some((rng.below(pids.len() as u64) as usize, rng.below(4) as u8, 500 + rng.below(50) as u32))
            } else {
                None
            };
            let answer_pending = rng.chance(1, 2);
            ops.push(Op::Announce { conn, hash, pid, ev, left, offers, answer, answer_pending, now });
        } else if r < 80 {
            let conn = rng.below(CONNS.len() as u64) as usize;
            let hs = if rng.chance(1, 8) {
                None
            } else {
                let n = rng.below(4) as usize;
                Some((0..n).map(|_| if rng.chance(1, 2) { focus } else { *rng.pick(&hashes) }).collect())
            };
            ops.push(Op::Scrape { conn, hashes: hs });
        } else if r < 90 {
            let hash = if rng.chance(5, 6) { focus } else { *rng.pick(&hashes) };
            ops.push(Op::Closed { v6: rng.chance(1, 4), hash, pid: *rng.pick(&pids) });
        } else {
            let acl = if mode == 2 { Vec::new() } else { hashes.iter().copied().filter(|_| rng.chance(2, 3)).collect() };
            ops.push(Op::Clean { now, mode, acl });
        }
        now += rng.below(3) as u32;
    }
    History { max_offers, max_scrape, max_peer_age, max_offer_age, ops }
}

fn meta_of(conn: usize) -> InMessageMeta {
    let (consumer, slot, v6) = CONNS[conn];
    InMessageMeta {
        out_message_consumer_id: ConsumerId(consumer),
        connection_id: ConnectionId::from(slotmap::KeyData::from_ffi(conn_key(slot))),
        ip_version: if v6 { IpVersion::V6 } else { IpVersion::V4 },
        pending_scrape_id: None,
    }
}

fn sdp_num(s: &str) -> u64 {
    s.trim_start_matches('s').parse().unwrap()
}

fn out_term(meta: &OutMessageMeta, m: &OutMessage) -> String {
    use slotmap::Key;
    let c = cq::n(meta.out_message_consumer_id.0);
    let k = cq::n(meta.connection_id.data().as_ffi());
    match m {
        OutMessage::OfferOutMessage(o) => format!(
            "WOffer {} {} {} {} {} {}",
            c, k, cq::id20(&o.info_hash.0), cq::id20(&o.peer_id.0), cq::id20(&o.offer_id.0), cq::n(sdp_num(&o.offer.sdp))
        ),
        OutMessage::AnswerOutMessage(a) => format!(
            "WAnswer {} {} {} {} {} {}",
            c, k, cq::id20(&a.info_hash.0), cq::id20(&a.peer_id.0), cq::id20(&a.offer_id.0), cq::n(sdp_num(&a.answer.sdp))
        ),
        OutMessage::ErrorResponse(e) => format!("WError {} {} {}", c, k, cq::id20(&e.info_hash.unwrap().0)),
        OutMessage::AnnounceResponse(a) => {
            format!("WAnnounce {} {} {} {} {}", c, k, cq::id20(&a.info_hash.0), cq::nat(a.complete), cq::nat(a.incomplete))
        }
        OutMessage::ScrapeResponse(s) => {
            let mut files: Vec<([u8; 20], usize, usize)> = s.files.iter().map(|(h, st)| (h.0, st.complete, st.incomplete)).collect();
            files.sort();
            let items: Vec<String> =
                files.iter().map(|(h, c, i)| format!("({}, ({}, {}))", cq::id20(h), cq::nat(*c), cq::nat(*i))).collect();
            format!("WScrape {} {} {}", c, k, cq::list(&items))
        }
    }
}

pub fn run_history(h: &History, seed: u64, items: &mut Vec<String>) {
    let mut config = Config::default();
    config.protocol.max_offers = h.max_offers;
    config.protocol.max_scrape_torrents = h.max_scrape;
    config.cleaning.max_peer_age = h.max_peer_age;
    config.cleaning.max_offer_age = h.max_offer_age;
    let mut maps = TorrentMaps::new(0);
    let access_list: Arc<AccessListArcSwap> = Arc::new(AccessListArcSwap::default());
    let start = ServerStartInstant::new();
    let mut rng = SmallRng::seed_from_u64(seed);
    let pids = pid_pool();
    let mut pending: Vec<(u8, u64, [u8; 20], [u8; 20], [u8; 20], bool, [u8; 20])> = Vec::new();
    for op in &h.ops {
        let mut out: Vec<(OutMessageMeta, OutMessage)> = Vec::new();
        let op_t = match op {
            Op::Announce { conn, hash, pid, ev, left, offers, answer, answer_pending, now } => {
                let meta = meta_of(*conn);
                // optionally answer an offer that the tracker really forwarded to this connection
                let (hash, pid, answer_ids): ([u8; 20], [u8; 20], Option<([u8; 20], [u8; 20], u32)>) = {
                    let mine = pending.iter().position(|p| p.0 == CONNS[*conn].0 && p.1 == conn_key(CONNS[*conn].1) && p.5 == CONNS[*conn].2);
                    match (answer_pending, mine) {
                        (true, Some(i)) => {
                            let p = pending.remove(i);
                            (p.2, p.6, Some((p.3, p.4, 900 + i as u32)))
                        }
                        _ => (*hash, *pid, answer.map(|(to, id, sdp)| (pids[to], offer_id(id), sdp))),
                    }
                };
                let hash = &hash;
                let pid = &pid;
                let event = match ev {
                    0 => None,
                    1 => Some(AnnounceEvent::Started),
                    2 => Some(AnnounceEvent::Completed),
                    3 => Some(AnnounceEvent::Stopped),
                    _ => Some(AnnounceEvent::Update),
                };
                let request = AnnounceRequest {
                    action: AnnounceAction::Announce,
                    info_hash: InfoHash(*hash),
                    peer_id: PeerId(*pid),
                    bytes_left: *left,
                    event,
                    offers: offers.as_ref().map(|os| {
                        os.iter()
                            .map(|(id, sdp)| AnnounceRequestOffer {
                                offer: RtcOffer { t: RtcOfferType::Offer, sdp: format!("s{}", sdp) },
                                offer_id: OfferId(offer_id(*id)),
                            })
                            .collect()
                    }),
                    numwant: None,
                    answer: answer_ids.map(|(_, _, sdp)| RtcAnswer { t: RtcAnswerType::Answer, sdp: format!("s{}", sdp) }),
                    answer_to_peer_id: answer_ids.map(|(to, _, _)| PeerId(to)),
                    answer_offer_id: answer_ids.map(|(_, id, _)| OfferId(id)),
                };
                aquatic_common::verif::set_mock_seconds(Some(*now));
                maps.handle_announce_request(&config, &mut rng, &mut out, start, meta, request);
                aquatic_common::verif::set_mock_seconds(None);
                let (consumer, slot, v6) = CONNS[*conn];
                let left_t = match left {
                    None => "None".to_string(),
                    Some(n) => format!("(Some {})", cq::n(*n)),
                };
                let offers_t = match offers {
                    None => "None".to_string(),
                    Some(os) => {
                        let items: Vec<String> =
                            os.iter().map(|(id, sdp)| format!("({}, {})", cq::id20(&offer_id(*id)), cq::n(*sdp))).collect();
                        format!("(Some {})", cq::list(&items))
                    }
                };
                let answer_t = match answer_ids {
                    None => "None".to_string(),
                    Some((to, id, sdp)) => format!("(Some ({}, {}, {}))", cq::id20(&to), cq::id20(&id), cq::n(sdp)),
                };
                // remember forwarded offers: (receiver consumer, receiver conn, hash, offerer pid, offer id, v6, receiver pid)
                for (m, o) in out.iter() {
                    if let OutMessage::OfferOutMessage(of) = o {
                        use slotmap::Key;
                        let rk = m.connection_id.data().as_ffi();
                        let rc = m.out_message_consumer_id.0;
                        // the receiving peer's id: the pid that connection announced with in this torrent (best effort: its default pid)
                        let rpid = CONNS.iter().position(|c| c.0 == rc && conn_key(c.1) == rk && c.2 == CONNS[*conn].2).map(|i| pids[i % pids.len()]).unwrap_or(pids[0]);
                        pending.push((rc, rk, of.info_hash.0, of.peer_id.0, of.offer_id.0, CONNS[*conn].2, rpid));
                    }
                }
                format!(
                    "WOpAnnounce (mkWreq {} {} {} {} {} {} {} {} {}) {} 0 0",
                    cq::n(consumer),
                    cq::n(conn_key(slot)),
                    cq::b(v6),
                    cq::id20(hash),
                    cq::id20(pid),
                    cq::b(*ev == 3),
                    left_t,
                    offers_t,
                    answer_t,
                    cq::n(*now)
                )
            }
            Op::Scrape { conn, hashes } => {
                let meta = meta_of(*conn);
                let request = ScrapeRequest {
                    action: ScrapeAction::Scrape,
                    info_hashes: hashes.as_ref().map(|hs| ScrapeRequestInfoHashes::Multiple(hs.iter().map(|h| InfoHash(*h)).collect())),
                };
                maps.handle_scrape_request(&config, &mut out, meta, request);
                let (consumer, slot, v6) = CONNS[*conn];
                let hs_t = match hashes {
                    None => "None".to_string(),
                    Some(hs) => format!("(Some {})", cq::list(&hs.iter().map(cq::id20).collect::<Vec<_>>())),
                };
                format!("WOpScrape {} {} {} {}", cq::n(consumer), cq::n(conn_key(slot)), cq::b(v6), hs_t)
            }
            Op::Closed { v6, hash, pid } => {
                maps.handle_connection_closed(InfoHash(*hash), PeerId(*pid), if *v6 { IpVersion::V6 } else { IpVersion::V4 });
                format!("WOpClosed {} {} {}", cq::b(*v6), cq::id20(hash), cq::id20(pid))
            }
            Op::Clean { now, mode, acl } => {
                config.access_list.mode = match mode {
                    0 => AccessListMode::Allow,
                    1 => AccessListMode::Deny,
                    _ => AccessListMode::Off,
                };
                let mut list = AccessList::default();
                for h in acl {
                    let line: String = h.iter().map(|b| format!("{:02x}", b)).collect();
                    list.insert_from_line(&line).unwrap();
                }
                access_list.store(Arc::new(list));
                aquatic_common::verif::set_mock_seconds(Some(*now));
                maps.clean(&config, &access_list, start);
                aquatic_common::verif::set_mock_seconds(None);
                let m = match mode {
                    0 => "AclAllow",
                    1 => "AclDeny",
                    _ => "AclOff",
                };
                format!("WOpClean {} {} {}", cq::n(*now), m, cq::list(&acl.iter().map(cq::id20).collect::<Vec<_>>()))
            }
        };
        let outs: Vec<String> = out.iter().map(|(m, o)| out_term(m, o)).collect();
        items.push(format!("({}, {})", op_t, cq::list(&outs)));
    }
}

pub fn run(args: &Args) {
    crate::drive(args, 0x3575, |rng, keep, case_seed, header, items| {
        let mut h = gen_history(rng);
        if let Some(keep) = keep {
            h.ops = h.ops.iter().enumerate().filter(|(i, _)| keep.contains(i)).map(|(_, o)| o.clone()).collect();
        }
        *header = format!(
            "{}, {}, {}, {}",
            cq::nat(h.max_offers),
            cq::nat(h.max_scrape),
            cq::n(h.max_peer_age),
            cq::n(h.max_offer_age)
        );
        run_history(&h, case_seed, items);
        aquatic_common::verif::set_mock_seconds(None);
    });
}
