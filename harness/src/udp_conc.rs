//! C04: small concurrent programs on the real shared `TorrentMaps`, one OS thread per operation,
//! serialised by a scheduler at the hook probes H3 (which sit only where no lock is held): a
//! schedule is a list of thread indices, each entry lets that thread run to its next probe or
//! to its end. Two torrents in two different shards; cleaning passes that find a torrent empty
//! while an announce for it is in flight are generated on purpose.
use std::cell::Cell;
use std::net::{IpAddr, Ipv4Addr, SocketAddr};
use std::num::NonZeroU16;
use std::sync::{Arc, Condvar, Mutex};

use aquatic_common::access_list::AccessListArcSwap;
use aquatic_common::{CanonicalSocketAddr, SecondsSinceServerStart, ValidUntil};
use aquatic_udp::common::Statistics;
use aquatic_udp::config::Config;
use aquatic_udp::swarm::TorrentMaps;
use aquatic_udp_protocol::*;
use rand::prelude::*;

use crate::coqfmt as cq;
use crate::prng::Prng;
use crate::Args;

#[derive(Clone, Debug)]
enum Op {
    Announce { hash: usize, port: u16, ev: u8, left: i64, until: u32 },
    Scrape { hashes: Vec<usize> },
    Clean { now: u32 },
}

#[derive(Clone, Copy, PartialEq, Debug)]
enum St {
    Waiting, // parked, not allowed to run
    Running,
    Done,
}

struct Sched {
    state: Mutex<Vec<St>>,
    cv: Condvar,
}

thread_local! {
    static SLOT: Cell<Option<usize>> = const { Cell::new(None) };
}

static CURRENT: Mutex<Option<Arc<Sched>>> = Mutex::new(None);

fn pause_here() {
    let slot = match SLOT.with(|s| s.get()) {
        Some(s) => s,
        None => return,
    };
    let sched = match CURRENT.lock().unwrap().clone() {
        Some(s) => s,
        None => return,
    };
    let mut st = sched.state.lock().unwrap();
    st[slot] = St::Waiting;
    sched.cv.notify_all();
    while st[slot] != St::Running {
        st = sched.cv.wait(st).unwrap();
    }
}

fn hashes() -> [[u8; 20]; 2] {
    let mut a = [0x11u8; 20];
    a[0] = 0; // shard 0
    let mut b = [0x22u8; 20];
    b[0] = 1; // shard 1
    [a, b]
}

fn key_num(port: u16) -> String {
    cq::n(((u32::from(Ipv4Addr::new(10, 0, 0, 1)) as u128) << 16) | port as u128)
}

pub fn run(args: &Args) {
    if args.extra.get("stress").is_some() {
        return run_stress(args);
    }
    aquatic_common::verif::set_probe(Some(Box::new(|name, _| {
        if name.starts_with("udp_announce_") || name.starts_with("udp_scrape_") || name.starts_with("udp_clean_") {
            pause_here();
        }
    })));
    let hs = hashes();
    let mut lost_window_cases = 0usize;
    crate::drive(args, 0xc04, |rng, _keep, seed, header, items| {
        // ---- the program
        let mut ops: Vec<Op> = Vec::new();
        let mut sched: Vec<usize> = Vec::new();
        // prefix (run alone, to completion): sometimes a peer that will have expired, so that a
        // later cleaning pass leaves the torrent EMPTY but present
        let mut prefix = 0;
        if rng.chance(2, 3) {
            ops.push(Op::Announce { hash: 0, port: 7000, ev: 2, left: 1, until: 10 });
            prefix += 1;
        }
        if rng.chance(1, 3) {
            ops.push(Op::Announce { hash: 1, port: 7001, ev: 2, left: 0, until: 1000 });
            prefix += 1;
        }
        if prefix > 0 && rng.chance(1, 2) {
            ops.push(Op::Clean { now: 50 }); // empties torrent 0 (deadline 10), keeps it until phase 2
            prefix += 1;
        }
        for t in 0..prefix {
            for _ in 0..12 {
                sched.push(t);
            }
        }
        // concurrent part: 2..4 operations
        let n_conc = 2 + rng.below(3) as usize;
        let mut has_clean = false;
        let mut has_announce0 = false;
        for _ in 0..n_conc {
            let op = match rng.below(6) {
                0 | 1 | 2 => {
                    let hash = if rng.chance(2, 3) { 0 } else { 1 };
                    if hash == 0 {
                        has_announce0 = true;
                    }
                    Op::Announce {
                        hash,
                        port: 6881 + rng.below(3) as u16,
                        ev: *rng.pick(&[0u8, 2, 2, 1, 3]),
                        left: *rng.pick(&[0i64, 1]),
                        until: *rng.pick(&[100u32, 1000]),
                    }
                }
                3 => Op::Scrape { hashes: if rng.chance(1, 2) { vec![0, 1] } else { vec![*rng.pick(&[0usize, 1])] } },
                _ => {
                    has_clean = true;
                    Op::Clean { now: *rng.pick(&[50u32, 60, 200]) }
                }
            };
            ops.push(op);
        }
        if has_clean && has_announce0 {
            lost_window_cases += 1;
        }
        let first_conc = prefix;
        let conc: Vec<usize> = (first_conc..ops.len()).collect();
        for _ in 0..(6 * conc.len()) {
            sched.push(*rng.pick(&conc));
        }
        for t in &conc {
            for _ in 0..12 {
                sched.push(*t);
            }
        }
        // final quiescent scrape of both torrents
        ops.push(Op::Scrape { hashes: vec![0, 1] });
        for _ in 0..4 {
            sched.push(ops.len() - 1);
        }
        // ---- run it
        let mut config = Config::default();
        config.protocol.max_response_peers = 30;
        let config = Arc::new(config);
        let maps = Arc::new(TorrentMaps::default());
        let statistics = Statistics::new(&config).swarm;
        let access_list: Arc<AccessListArcSwap> = Arc::new(AccessListArcSwap::default());
        let s = Arc::new(Sched { state: Mutex::new(vec![St::Waiting; ops.len()]), cv: Condvar::new() });
        *CURRENT.lock().unwrap() = Some(s.clone());
        let results: Arc<Mutex<Vec<Option<String>>>> = Arc::new(Mutex::new(vec![None; ops.len()]));
        let mut handles = Vec::new();
        for (i, op) in ops.iter().cloned().enumerate() {
            let (maps, config, s, results, statistics, access_list) = (maps.clone(), config.clone(), s.clone(), results.clone(), statistics.clone(), access_list.clone());
            let tseed = seed ^ ((i as u64) << 8);
            handles.push(std::thread::spawn(move || {
                SLOT.with(|c| c.set(Some(i)));
                // wait for the first permission
                {
                    let mut st = s.state.lock().unwrap();
                    while st[i] != St::Running {
                        st = s.cv.wait(st).unwrap();
                    }
                }
                let (tx, _rx) = crossbeam_channel::unbounded();
                let mut rng = SmallRng::seed_from_u64(tseed);
                let out = match op {
                    Op::Announce { hash, port, ev, left, until } => {
                        let event = match ev {
                            0 => AnnounceEvent::None,
                            1 => AnnounceEvent::Completed,
                            2 => AnnounceEvent::Started,
                            _ => AnnounceEvent::Stopped,
                        };
                        let request = AnnounceRequest {
                            connection_id: ConnectionId::new(7),
                            action_placeholder: Default::default(),
                            transaction_id: TransactionId::new(9),
                            info_hash: InfoHash(hashes()[hash]),
                            peer_id: PeerId([port as u8; 20]),
                            bytes_downloaded: NumberOfBytes::new(0),
                            bytes_uploaded: NumberOfBytes::new(0),
                            bytes_left: NumberOfBytes::new(left),
                            event,
                            ip_address: Ipv4AddrBytes([0; 4]),
                            key: PeerKey::new(0),
                            peers_wanted: NumberOfPeers::new(50),
                            port: Port::new(NonZeroU16::new(port).unwrap()),
                        };
                        let src = CanonicalSocketAddr::new(SocketAddr::new(IpAddr::V4(Ipv4Addr::new(10, 0, 0, 1)), 40000));
                        let vu = ValidUntil::new_raw(SecondsSinceServerStart::new_raw(until));
                        match maps.announce(&config, &tx, &mut rng, &request, src, vu) {
                            Response::AnnounceIpv4(r) => {
                                let peers: Vec<String> = r.peers.iter().map(|p| key_num(p.port.0.get())).collect();
                                format!("[EAnnounce {} {} {}]", cq::nat(r.fixed.seeders.0.get()), cq::nat(r.fixed.leechers.0.get()), cq::list(&peers))
                            }
                            _ => "[]".to_string(),
                        }
                    }
                    Op::Scrape { hashes: hl } => {
                        let request = ScrapeRequest {
                            connection_id: ConnectionId::new(7),
                            transaction_id: TransactionId::new(9),
                            info_hashes: hl.iter().map(|h| InfoHash(hashes()[*h])).collect(),
                        };
                        let src = CanonicalSocketAddr::new(SocketAddr::new(IpAddr::V4(Ipv4Addr::new(10, 9, 9, 9)), 1));
                        let resp = maps.scrape(request, src);
                        let mut evs: Vec<String> =
                            resp.torrent_stats.iter().map(|st| format!("EScrape {} {}", cq::nat(st.seeders.0.get()), cq::nat(st.leechers.0.get()))).collect();
                        evs.push("EScrapeEnd".to_string());
                        cq::list(&evs)
                    }
                    Op::Clean { now } => {
                        maps.clean_and_update_statistics(&config, &statistics, &tx, &access_list, SecondsSinceServerStart::new_raw(now), false);
                        "[]".to_string()
                    }
                };
                results.lock().unwrap()[i] = Some(out);
                let mut st = s.state.lock().unwrap();
                st[i] = St::Done;
                s.cv.notify_all();
            }));
        }
        // the scheduler
        let mut effective: Vec<usize> = Vec::new();
        for &t in &sched {
            let mut st = s.state.lock().unwrap();
            if st[t] == St::Done {
                continue;
            }
            effective.push(t);
            st[t] = St::Running;
            s.cv.notify_all();
            while st[t] == St::Running {
                st = s.cv.wait(st).unwrap();
            }
        }
        // anything left (should not happen): let it finish in index order
        loop {
            let mut st = s.state.lock().unwrap();
            match (0..ops.len()).find(|t| st[*t] != St::Done) {
                None => break,
                Some(t) => {
                    effective.push(t);
                    st[t] = St::Running;
                    s.cv.notify_all();
                    while st[t] == St::Running {
                        st = s.cv.wait(st).unwrap();
                    }
                }
            }
        }
        for h in handles {
            let _ = h.join();
        }
        *CURRENT.lock().unwrap() = None;
        // ---- the term
        let h_num: Vec<String> = hs.iter().map(cq::id20).collect();
        let op_terms: Vec<String> = ops
            .iter()
            .map(|op| match op {
                Op::Announce { hash, port, ev, left, until } => format!(
                    "OAnn {} (mkAargs {} {} {} {} 30 0 0)",
                    h_num[*hash],
                    key_num(*port),
                    if *ev == 3 { "Stopped" } else if *left == 0 { "Seeding" } else { "Leeching" },
                    cq::id20(&[*port as u8; 20]),
                    cq::n(*until)
                ),
                Op::Scrape { hashes } => format!("OScr {}", cq::list(&hashes.iter().map(|h| h_num[*h].clone()).collect::<Vec<_>>())),
                Op::Clean { now } => format!("OCl {} {}", cq::n(*now), cq::list(&h_num)),
            })
            .collect();
        let res = results.lock().unwrap();
        let obs: Vec<String> = res.iter().map(|r| r.clone().unwrap_or("[]".into())).collect();
        *header = format!(
            "{}, {}, {}",
            cq::list(&op_terms),
            cq::list(&effective.iter().map(|t| cq::nat(*t)).collect::<Vec<_>>()),
            cq::nat(prefix)
        );
        for o in obs {
            items.push(o);
        }
    });
    println!("STAT {{\"cases_with_clean_and_announce_on_the_emptied_torrent\": {}}}", lost_window_cases);
}

/// `udp-conc --stress 1`: free-running threads (no scheduler, no probes): in every round three
/// threads, released together, announce three different peers for a torrent that is not in
/// the map yet; then a quiescent scrape. The Coq monitor `lin_code` looks for a sequential
/// order with the same replies.
fn run_stress(args: &Args) {
    use std::sync::atomic::{AtomicUsize, Ordering};
    let config = Arc::new({
        let mut c = Config::default();
        c.protocol.max_response_peers = 30;
        c
    });
    let maps = Arc::new(TorrentMaps::default());
    crate::drive(args, 0xc05, |rng, _keep, seed, header, items| {
        // a fresh torrent per round; its first byte picks the shard
        let mut hash = [0u8; 20];
        for b in hash.iter_mut() {
            *b = rng.below(256) as u8;
        }
        let n = 3usize;
        let gate = Arc::new(AtomicUsize::new(0));
        let mut handles = Vec::new();
        for i in 0..n {
            let (maps, config, gate) = (maps.clone(), config.clone(), gate.clone());
            let tseed = seed ^ ((i as u64) << 8);
            handles.push(std::thread::spawn(move || {
                let (tx, _rx) = crossbeam_channel::unbounded();
                let mut rng = SmallRng::seed_from_u64(tseed);
                let port = 6881 + i as u16;
                let request = AnnounceRequest {
                    connection_id: ConnectionId::new(7),
                    action_placeholder: Default::default(),
                    transaction_id: TransactionId::new(9),
                    info_hash: InfoHash(hash),
                    peer_id: PeerId([port as u8; 20]),
                    bytes_downloaded: NumberOfBytes::new(0),
                    bytes_uploaded: NumberOfBytes::new(0),
                    bytes_left: NumberOfBytes::new(1),
                    event: AnnounceEvent::Started,
                    ip_address: Ipv4AddrBytes([0; 4]),
                    key: PeerKey::new(0),
                    peers_wanted: NumberOfPeers::new(50),
                    port: Port::new(NonZeroU16::new(port).unwrap()),
                };
                let src = CanonicalSocketAddr::new(SocketAddr::new(IpAddr::V4(Ipv4Addr::new(10, 0, 0, 1)), 40000));
                let vu = ValidUntil::new_raw(SecondsSinceServerStart::new_raw(1000));
                gate.fetch_add(1, Ordering::SeqCst);
                while gate.load(Ordering::SeqCst) < n {
                    std::hint::spin_loop();
                }
                match maps.announce(&config, &tx, &mut rng, &request, src, vu) {
                    Response::AnnounceIpv4(r) => {
                        let peers: Vec<String> = r.peers.iter().map(|p| key_num(p.port.0.get())).collect();
                        format!("[EAnnounce {} {} {}]", cq::nat(r.fixed.seeders.0.get()), cq::nat(r.fixed.leechers.0.get()), cq::list(&peers))
                    }
                    _ => "[]".to_string(),
                }
            }));
        }
        let mut obs: Vec<String> = handles.into_iter().map(|h| h.join().unwrap()).collect();
        let request = ScrapeRequest { connection_id: ConnectionId::new(7), transaction_id: TransactionId::new(9), info_hashes: vec![InfoHash(hash)] };
        let src = CanonicalSocketAddr::new(SocketAddr::new(IpAddr::V4(Ipv4Addr::new(10, 9, 9, 9)), 1));
        let resp = maps.scrape(request, src);
        let st = &resp.torrent_stats[0];
        obs.push(format!("[EScrape {} {}; EScrapeEnd]", cq::nat(st.seeders.0.get()), cq::nat(st.leechers.0.get())));
        let h = cq::id20(&hash);
        let mut op_terms: Vec<String> = (0..n)
            .map(|i| format!("OAnn {} (mkAargs {} Leeching {} 1000%N 30 0 0)", h, key_num(6881 + i as u16), cq::id20(&[(6881 + i as u16) as u8; 20])))
            .collect();
        op_terms.push(format!("OScr [{}]", h));
        *header = format!("{}, [], 0%nat", cq::list(&op_terms));
        for o in obs {
            items.push(o);
        }
    });
}
