//! C13 (and the udp part of C12): the real `Request::{write_bytes,parse_bytes}` and
//! `Response::{write_bytes,parse_bytes}` on generated datagrams: boundary and random field
//! values of every message kind, all four events, 0..255 hashes against several
//! max_scrape_torrents, 0..n peers of both families; then truncation at every kind of offset,
//! extension, bit flips and random bytes.
use std::num::NonZeroU16;

use aquatic_udp_protocol::*;

use crate::coqfmt as cq;
use crate::prng::Prng;
use crate::Args;

fn i64s(rng: &mut Prng) -> i64 {
    *rng.pick(&[0i64, 1, -1, i64::MAX, i64::MIN, 0x0102030405060708, 4_497_486_125_440])
        ^ if rng.chance(1, 3) { rng.next() as i64 } else { 0 }
}
fn i32s(rng: &mut Prng) -> i32 {
    *rng.pick(&[0i32, 1, -1, i32::MAX, i32::MIN, 0x01020304, 2, 3]) ^ if rng.chance(1, 3) { rng.next() as i32 } else { 0 }
}
fn bytes20(rng: &mut Prng) -> [u8; 20] {
    let mut b = [0u8; 20];
    match rng.below(3) {
        0 => {}
        1 => b = [0xff; 20],
        _ => {
            for x in b.iter_mut() {
                *x = rng.below(256) as u8
            }
        }
    }
    b
}

fn vint(z: i128) -> String {
    format!("VInt {}", cq::z(z))
}
fn vbytes(b: &[u8]) -> String {
    let items: Vec<String> = b.iter().map(|x| x.to_string()).collect();
    format!("VBytes [{}]%N", items.join("; "))
}

fn announce_fields(r: &AnnounceRequest) -> String {
    // values in BEP 15 field order
    let ev = match r.event {
        AnnounceEvent::None => 0,
        AnnounceEvent::Completed => 1,
        AnnounceEvent::Started => 2,
        AnnounceEvent::Stopped => 3,
    };
    let items = vec![
        vint(r.connection_id.0.get() as i128),
        vint(1),
        vint(r.transaction_id.0.get() as i128),
        vbytes(&r.info_hash.0),
        vbytes(&r.peer_id.0),
        vint(r.bytes_downloaded.0.get() as i128),
        vint(r.bytes_left.0.get() as i128),
        vint(r.bytes_uploaded.0.get() as i128),
        vint(ev),
        vbytes(&r.ip_address.0),
        vint(r.key.0.get() as i128),
        vint(r.peers_wanted.0.get() as i128),
        vint(r.port.0.get() as i128),
    ];
    cq::list(&items)
}

fn request_term(r: &Request) -> String {
    match r {
        Request::Connect(c) => format!("RConnect {}", cq::z(c.transaction_id.0.get() as i128)),
        Request::Announce(a) => format!("RAnnounce {}", announce_fields(a)),
        Request::Scrape(s) => {
            let hs: Vec<String> = s
                .info_hashes
                .iter()
                .map(|h| format!("[{}]%N", h.0.iter().map(|x| x.to_string()).collect::<Vec<_>>().join("; ")))
                .collect();
            format!(
                "RScrape {} {} {}",
                cq::z(s.connection_id.0.get() as i128),
                cq::z(s.transaction_id.0.get() as i128),
                cq::list(&hs)
            )
        }
    }
}

fn response_term(r: &Response) -> String {
    fn fixed(f: &AnnounceResponseFixedData) -> String {
        cq::list(&[
            vint(f.transaction_id.0.get() as i128),
            vint(f.announce_interval.0.get() as i128),
            vint(f.leechers.0.get() as i128),
            vint(f.seeders.0.get() as i128),
        ])
    }
    match r {
        Response::Connect(c) => format!(
            "SConnect {}",
            cq::list(&[vint(c.transaction_id.0.get() as i128), vint(c.connection_id.0.get() as i128)])
        ),
        Response::AnnounceIpv4(a) => {
            let ps: Vec<String> =
                a.peers.iter().map(|p| cq::list(&[vbytes(&p.ip_address.0), vint(p.port.0.get() as i128)])).collect();
            format!("SAnnounce false {} {}", fixed(&a.fixed), cq::list(&ps))
        }
        Response::AnnounceIpv6(a) => {
            let ps: Vec<String> =
                a.peers.iter().map(|p| cq::list(&[vbytes(&p.ip_address.0), vint(p.port.0.get() as i128)])).collect();
            format!("SAnnounce true {} {}", fixed(&a.fixed), cq::list(&ps))
        }
        Response::Scrape(s) => {
            let st: Vec<String> = s
                .torrent_stats
                .iter()
                .map(|t| {
                    cq::list(&[
                        vint(t.seeders.0.get() as i128),
                        vint(t.completed.0.get() as i128),
                        vint(t.leechers.0.get() as i128),
                    ])
                })
                .collect();
            format!("SScrape {} {}", cq::z(s.transaction_id.0.get() as i128), cq::list(&st))
        }
        Response::Error(e) => {
            let items: Vec<String> = e.message.as_bytes().iter().map(|x| x.to_string()).collect();
            format!("SError {} [{}]%N", cq::z(e.transaction_id.0.get() as i128), items.join("; "))
        }
    }
}

fn gen_request(rng: &mut Prng) -> Request {
    match rng.below(3) {
        0 => Request::Connect(ConnectRequest { transaction_id: TransactionId::new(i32s(rng)) }),
        1 => Request::Announce(AnnounceRequest {
            connection_id: ConnectionId::new(i64s(rng)),
            action_placeholder: Default::default(),
            transaction_id: TransactionId::new(i32s(rng)),
            info_hash: InfoHash(bytes20(rng)),
            peer_id: PeerId(bytes20(rng)),
            bytes_downloaded: NumberOfBytes::new(i64s(rng)),
            bytes_left: NumberOfBytes::new(i64s(rng)),
            bytes_uploaded: NumberOfBytes::new(i64s(rng)),
            event: *rng.pick(&[AnnounceEvent::None, AnnounceEvent::Completed, AnnounceEvent::Started, AnnounceEvent::Stopped]),
            ip_address: Ipv4AddrBytes([rng.below(256) as u8, 0, 255, rng.below(256) as u8]),
            key: PeerKey::new(i32s(rng)),
            peers_wanted: NumberOfPeers::new(i32s(rng)),
            port: Port::new(NonZeroU16::new(*rng.pick(&[1u16, 2, 80, 255, 256, 6881, 65535])).unwrap()),
        }),
        _ => {
            let n = *rng.pick(&[0usize, 1, 2, 3, 69, 70, 71, 74, 255]);
            let n = if rng.chance(1, 2) { n } else { rng.below(8) as usize };
            Request::Scrape(ScrapeRequest {
                connection_id: ConnectionId::new(i64s(rng)),
                transaction_id: TransactionId::new(i32s(rng)),
                info_hashes: (0..n).map(|_| InfoHash(bytes20(rng))).collect(),
            })
        }
    }
}

fn gen_response(rng: &mut Prng) -> (Response, bool) {
    let fixed = |rng: &mut Prng| AnnounceResponseFixedData {
        transaction_id: TransactionId::new(i32s(rng)),
        announce_interval: AnnounceInterval::new(i32s(rng)),
        leechers: NumberOfPeers::new(i32s(rng)),
        seeders: NumberOfPeers::new(i32s(rng)),
    };
    match rng.below(5) {
        0 => (
            Response::Connect(ConnectResponse {
                transaction_id: TransactionId::new(i32s(rng)),
                connection_id: ConnectionId::new(i64s(rng)),
            }),
            rng.chance(1, 2),
        ),
        1 => {
            let n = rng.below(5) as usize;
            let peers = (0..n)
                .map(|_| ResponsePeer {
                    ip_address: Ipv4AddrBytes([rng.below(256) as u8, 1, 2, 3]),
                    port: Port::new(NonZeroU16::new(1 + rng.below(65535) as u16).unwrap()),
                })
                .collect();
            (Response::AnnounceIpv4(AnnounceResponse { fixed: fixed(rng), peers }), false)
        }
        2 => {
            let n = rng.below(4) as usize;
            let peers = (0..n)
                .map(|_| {
                    let mut ip = [0u8; 16];
                    for x in ip.iter_mut() {
                        *x = rng.below(256) as u8
                    }
                    ResponsePeer { ip_address: Ipv6AddrBytes(ip), port: Port::new(NonZeroU16::new(1 + rng.below(65535) as u16).unwrap()) }
                })
                .collect();
            (Response::AnnounceIpv6(AnnounceResponse { fixed: fixed(rng), peers }), true)
        }
        3 => {
            let n = rng.below(5) as usize;
            let torrent_stats = (0..n)
                .map(|_| TorrentScrapeStatistics {
                    seeders: NumberOfPeers::new(i32s(rng)),
                    completed: NumberOfDownloads::new(i32s(rng)),
                    leechers: NumberOfPeers::new(i32s(rng)),
                })
                .collect();
            (Response::Scrape(ScrapeResponse { transaction_id: TransactionId::new(i32s(rng)), torrent_stats }), rng.chance(1, 2))
        }
        _ => {
            // short texts the trackers use, and texts of boundary lengths (the message is the whole
            // rest of the datagram, whatever its size)
            let msg: String = if rng.chance(1, 2) {
                rng.pick(&["", "Info hash not allowed", "Port can't be 0", "x", "h\u{e9}llo \u{1F600}"]).to_string()
            } else {
                let len = *rng.pick(&[31usize, 32, 33, 63, 64, 65, 127, 128, 129, 255, 256, 257, 1000, 1400]);
                let mut m = String::new();
                while m.len() < len {
                    if rng.chance(1, 16) && m.len() + 2 <= len {
                        m.push('\u{e9}');
                    } else {
                        m.push((b'a' + rng.below(26) as u8) as char);
                    }
                }
                m
            };
            (
                Response::Error(ErrorResponse { transaction_id: TransactionId::new(i32s(rng)), message: msg.into() }),
                rng.chance(1, 2),
            )
        }
    }
}

fn mutate(rng: &mut Prng, bytes: &mut Vec<u8>) -> &'static str {
    match rng.below(10) {
        0..=3 => "valid",
        4 => {
            let n = rng.below(bytes.len() as u64 + 1) as usize;
            bytes.truncate(n);
            "truncated"
        }
        5 => {
            for _ in 0..1 + rng.below(30) {
                bytes.push(rng.below(256) as u8);
            }
            "extended"
        }
        6 => {
            if !bytes.is_empty() {
                let i = rng.below(bytes.len() as u64) as usize;
                bytes[i] ^= 1 << rng.below(8);
            }
            "bitflip"
        }
        7 => {
            // action / event fields
            if bytes.len() >= 12 {
                bytes[8 + rng.below(4) as usize] = rng.below(5) as u8;
            }
            "action"
        }
        8 => {
            if bytes.len() >= 84 {
                bytes[80 + rng.below(4) as usize] = rng.below(5) as u8;
            }
            "event"
        }
        _ => {
            let n = rng.below(40) as usize;
            *bytes = (0..n).map(|_| rng.below(256) as u8).collect();
            "random"
        }
    }
}

pub fn run(args: &Args) {
    crate::drive(args, 0xc0dec, |rng, _keep, _seed, header, items| {
        *header = "true".to_string();
        for _ in 0..6 {
            if rng.chance(1, 2) {
                let req = gen_request(rng);
                let mut bytes = Vec::new();
                req.write_bytes(&mut bytes).unwrap();
                if let Request::Announce(_) = req {
                    if rng.chance(1, 12) && bytes.len() >= 98 {
                        bytes[96] = 0;
                        bytes[97] = 0; // port 0
                    }
                }
                mutate(rng, &mut bytes);
                let max = *rng.pick(&[0u8, 1, 2, 70, 255]);
                let impl_t = match Request::parse_bytes(&bytes, max) {
                    Ok(r) => {
                        let mut w = Vec::new();
                        r.write_bytes(&mut w).unwrap();
                        format!("IReqOk ({}) {}", request_term(&r), cq::hex(&w))
                    }
                    Err(RequestParseError::Sendable { connection_id, transaction_id, err }) => {
                        let kind = match err {
                            "Port can't be 0" => 1,
                            "Full scrapes are not allowed" => 2,
                            "Invalid info hash list" => 3,
                            _ => 9,
                        };
                        format!(
                            "IReqSendable {} {} {}",
                            cq::z(connection_id.0.get() as i128),
                            cq::z(transaction_id.0.get() as i128),
                            cq::n(kind)
                        )
                    }
                    Err(RequestParseError::Unsendable { .. }) => "IReqUnsendable".to_string(),
                };
                items.push(format!("CReq {} {} ({})", cq::hex(&bytes), cq::nat(max), impl_t));
            } else {
                let (resp, v6) = gen_response(rng);
                let mut bytes = Vec::new();
                resp.write_bytes(&mut bytes).unwrap();
                let kind = mutate(rng, &mut bytes);
                // lossy UTF-8 decoding of an error text is the identity only on valid UTF-8:
                // keep error replies un-mutated beyond their 8-byte header
                if let Response::Error(_) = resp {
                    if kind != "valid" && bytes.len() > 8 && std::str::from_utf8(&bytes[8..]).is_err() {
                        bytes.truncate(8);
                    }
                }
                let v6 = if rng.chance(1, 6) { !v6 } else { v6 };
                let impl_t = match Response::parse_bytes(&bytes, !v6) {
                    Ok(r) => {
                        let skip = matches!(&r, Response::Error(e) if e.message.contains('\u{fffd}'));
                        if skip {
                            continue;
                        }
                        let mut w = Vec::new();
                        r.write_bytes(&mut w).unwrap();
                        format!("IRespOk ({}) {}", response_term(&r), cq::hex(&w))
                    }
                    Err(_) => "IRespErr".to_string(),
                };
                items.push(format!("CResp {} {} ({})", cq::hex(&bytes), cq::b(v6), impl_t));
            }
        }
    });
}
