//! C11: `update_access_list` + `AccessListCache::allows` on generated files: empty, mixed-case
//! hex, blank lines, surrounding white space, CRLF, a bad line at every position, missing file,
//! good-after-bad and bad-after-good sequences.
use std::sync::Arc;

use aquatic_common::access_list::{
    create_access_list_cache, update_access_list, AccessListArcSwap, AccessListConfig, AccessListMode,
};

use crate::coqfmt as cq;
use crate::prng::Prng;
use crate::Args;

fn hexline(rng: &mut Prng, h: &[u8; 20]) -> String {
    let mut s = String::new();
    let style = rng.below(3);
    for b in h {
        let t = format!("{:02x}", b);
        match style {
            0 => s.push_str(&t),
            1 => s.push_str(&t.to_uppercase()),
            _ => {
                for c in t.chars() {
                    if rng.chance(1, 2) {
                        s.push(c.to_ascii_uppercase())
                    } else {
                        s.push(c)
                    }
                }
            }
        }
    }
    s
}

fn bad_line(rng: &mut Prng, h: &[u8; 20]) -> Vec<u8> {
    let good = hexline(rng, h).into_bytes();
    match rng.below(8) {
        0 => good[..39].to_vec(),                       // one digit short
        1 => [good.clone(), b"0".to_vec()].concat(),    // one digit long
        2 => [good.clone(), b"00".to_vec()].concat(),   // 21 bytes
        3 => {
            let mut g = good.clone();
            g[rng.below(40) as usize] = b'g';
            g
        }
        4 => {
            let mut g = good.clone();
            g.insert(20, b' '); // white space inside
            g
        }
        5 => b"x".to_vec(),
        6 => {
            let mut g = good.clone();
            g[5] = 0xc3; // non-ASCII inside the line ("ö")
            g[6] = 0xb6;
            g
        }
        _ => {
            let mut g = good.clone();
            g[7] = 0xff; // invalid UTF-8
            g
        }
    }
}

pub fn run(args: &Args) {
    let pool = crate::udp_swarm::hash_pool();
    let dir = std::path::PathBuf::from(format!("/verif/.cache/scratch/access-list-{}", std::process::id()));
    std::fs::create_dir_all(&dir).unwrap();
    crate::drive(args, 0xacc1, |rng, _keep, _seed, header, items| {
        let arc: Arc<AccessListArcSwap> = Arc::new(AccessListArcSwap::default());
        let path = dir.join("list.txt");
        let n_steps = 1 + rng.below(5) as usize;
        let mut had_failed = false;
        for _ in 0..n_steps {
            let mode = *rng.pick(&[AccessListMode::Allow, AccessListMode::Deny, AccessListMode::Allow, AccessListMode::Off]);
            // build the file
            let missing = rng.chance(1, 8);
            let mut bytes: Vec<u8> = Vec::new();
            if !missing {
                let n_lines = rng.below(6) as usize;
                let bad_at = if rng.chance(1, 3) && n_lines > 0 { Some(rng.below(n_lines as u64) as usize) } else { None };
                for i in 0..n_lines {
                    let h = rng.pick(&pool);
                    for _ in 0..rng.below(3) {
                        bytes.push(*rng.pick(&[b' ', b'\t', 0x0b, 0x0c]));
                    }
                    if Some(i) == bad_at {
                        bytes.extend(bad_line(rng, h));
                    } else if rng.chance(1, 6) {
                        // blank / white-space-only line
                    } else {
                        bytes.extend(hexline(rng, h).into_bytes());
                    }
                    for _ in 0..rng.below(3) {
                        bytes.push(*rng.pick(&[b' ', b'\t', b'\r']));
                    }
                    match rng.below(5) {
                        0 => bytes.extend(b"\r\n"),
                        1 if i + 1 == n_lines => {}
                        _ => bytes.push(b'\n'),
                    }
                }
                std::fs::write(&path, &bytes).unwrap();
            } else {
                let _ = std::fs::remove_file(&path);
            }
            let config = AccessListConfig { mode, path: path.clone() };
            let ok = update_access_list(&config, &arc).is_ok();
            if !ok {
                had_failed = true;
            }
            let mut cache = create_access_list_cache(&arc);
            let probes: Vec<String> = pool
                .iter()
                .map(|h| {
                    let l = cache.load();
                    format!(
                        "({}, {}, {}, {})",
                        cq::id20(h),
                        cq::b(l.allows(AccessListMode::Allow, h)),
                        cq::b(l.allows(AccessListMode::Deny, h)),
                        cq::b(l.allows(AccessListMode::Off, h))
                    )
                })
                .collect();
            let m = match mode {
                AccessListMode::Allow => "AclAllow",
                AccessListMode::Deny => "AclDeny",
                AccessListMode::Off => "AclOff",
            };
            let io = if missing { "None".to_string() } else { format!("(Some {})", cq::hex(&bytes)) };
            items.push(format!("({}, {}, {}, {})", m, io, cq::b(ok), cq::list(&probes)));
        }
        *header = cq::b(had_failed).to_string();
    });
    let _ = std::fs::remove_dir_all(&dir);
}
