//! C14 (requests) and the http part of C12: `Request::write` and
//! `Request::parse_http_get_path` on generated requests and on hand-built / mutated paths:
//! permuted parameters, unknown keys, identifiers with every byte value raw or percent-encoded
//! (upper / lower case hex), 19/21-byte identifiers, characters above U+00FF, bad hex, '=' and
//! '&' in odd places.  `urlencoding::{encode,decode}` is passed to the model as a table.
use aquatic_http_protocol::common::*;
use aquatic_http_protocol::request::*;

use crate::coqfmt as cq;
use crate::prng::Prng;
use crate::Args;

fn chars_term(s: &str) -> String {
    let items: Vec<String> = s.chars().map(|c| (c as u32).to_string()).collect();
    format!("[{}]%N", items.join("; "))
}
fn bytes_term(b: &[u8]) -> String {
    let items: Vec<String> = b.iter().map(|c| c.to_string()).collect();
    format!("[{}]%N", items.join("; "))
}

fn id20(rng: &mut Prng) -> [u8; 20] {
    let mut b = [0u8; 20];
    match rng.below(4) {
        0 => {}
        1 => b = [0xff; 20],
        2 => {
            for (i, x) in b.iter_mut().enumerate() {
                *x = (rng.below(13) as u8).wrapping_mul(20).wrapping_add(i as u8)
            }
        }
        _ => {
            for x in b.iter_mut() {
                *x = rng.below(256) as u8
            }
        }
    }
    b
}

fn req_term(r: &Request) -> String {
    match r {
        Request::Announce(a) => {
            let ev = match a.event {
                AnnounceEvent::Started => "EvStarted",
                AnnounceEvent::Stopped => "EvStopped",
                AnnounceEvent::Completed => "EvCompleted",
                AnnounceEvent::Empty => "EvEmpty",
            };
            format!(
                "HReqAnnounce (mkAreq {} {} {} {} {} {} {} {} {})",
                bytes_term(&a.info_hash.0),
                bytes_term(&a.peer_id.0),
                cq::n(a.port),
                cq::n(a.bytes_uploaded),
                cq::n(a.bytes_downloaded),
                cq::n(a.bytes_left),
                ev,
                cq::opt(a.numwant.map(cq::n)),
                cq::opt(a.key.as_ref().map(|k| chars_term(k.as_str())))
            )
        }
        Request::Scrape(s) => {
            let hs: Vec<String> = s.info_hashes.iter().map(|h| bytes_term(&h.0)).collect();
            format!("HReqScrape {}", cq::list(&hs))
        }
    }
}

/// one identifier written raw where possible, percent-encoded otherwise, mixed hex case
fn enc_id(rng: &mut Prng, id: &[u8; 20]) -> String {
    let mut s = String::new();
    for &b in id.iter() {
        let raw_ok = b != b'%' && b != b'&' && b != b'=' && b != b'?' && b != b'#' && b != b' ';
        if raw_ok && rng.chance(1, 2) {
            s.push(b as char); // chars 128..255 become two UTF-8 bytes in the &str
        } else if rng.chance(1, 2) {
            s.push_str(&format!("%{:02x}", b));
        } else {
            s.push_str(&format!("%{:02X}", b));
        }
    }
    s
}

/// identifier text made of atoms (ASCII, raw Latin-1 = 2 UTF-8 bytes, raw characters above
/// U+00FF = 2..3 bytes, %XX) and then padded / cut with ASCII so that EITHER its character count
/// (after decoding) OR its UTF-8 byte length is exactly 20, or one off
fn atom_id(rng: &mut Prng) -> String {
    let mut s = String::new();
    let n = 6 + rng.below(16);
    let pct_ok = rng.chance(1, 2);
    for _ in 0..n {
        match rng.below(20) {
            0..=10 => s.push((b'a' + rng.below(26) as u8) as char),
            11..=13 => s.push(char::from_u32(0xa1 + rng.below(0x5e) as u32).unwrap()),
            14 => s.push(*rng.pick(&['\u{131}', '\u{20ac}', '\u{100}', '\u{7ff}'])),
            _ => {
                if pct_ok {
                    s.push_str(&format!("%{:02x}", rng.below(256)))
                } else {
                    s.push('z')
                }
            }
        }
    }
    let target = *rng.pick(&[20usize, 20, 20, 19, 21]);
    if rng.chance(1, 2) {
        // UTF-8 byte length == target
        while s.len() > target {
            s.pop();
        }
        while s.len() < target {
            s.push('q');
        }
    } else {
        // decoded character count == target (a %XX atom counts once)
        let count = |s: &str| -> usize {
            let mut n = 0;
            let cs: Vec<char> = s.chars().collect();
            let mut i = 0;
            while i < cs.len() {
                if cs[i] == '%' {
                    i += 3;
                } else {
                    i += 1;
                }
                n += 1;
            }
            n
        };
        while count(&s) > target {
            s.pop();
        }
        while count(&s) < target {
            s.push('q');
        }
    }
    s
}

pub fn run(args: &Args) {
    crate::drive(args, 0x4e91, |rng, _keep, _seed, header, items| {
        *header = "true".to_string();
        for _ in 0..5 {
            let mut tbl: Vec<(String, Option<String>)> = Vec::new();
            let mut enc_tbl: Vec<(String, String)> = Vec::new();
            let mode = rng.below(4);
            let (written, path): (Option<Request>, String) = if mode == 0 {
                // written by the library
                let req = if rng.chance(2, 3) {
                    let key = match rng.below(4) {
                        0 => None,
                        1 => Some("4ab4b877".to_string()),
                        2 => Some("a b&c=d%".to_string()),
                        _ => Some("k\u{e9}y".to_string()),
                    };
                    Request::Announce(AnnounceRequest {
                        info_hash: InfoHash(id20(rng)),
                        peer_id: PeerId(id20(rng)),
                        port: *rng.pick(&[0u16, 1, 6881, 65535]),
                        bytes_uploaded: *rng.pick(&[0usize, 1, usize::MAX]),
                        bytes_downloaded: *rng.pick(&[0usize, 7, usize::MAX]),
                        bytes_left: *rng.pick(&[0usize, 3, usize::MAX]),
                        event: *rng.pick(&[AnnounceEvent::Started, AnnounceEvent::Stopped, AnnounceEvent::Completed, AnnounceEvent::Empty]),
                        numwant: *rng.pick(&[None, Some(0usize), Some(50), Some(usize::MAX)]),
                        key: key.map(|k| k.as_str().into()),
                    })
                } else {
                    let n = rng.below(4) as usize;
                    Request::Scrape(ScrapeRequest { info_hashes: (0..n).map(|_| InfoHash(id20(rng))).collect() })
                };
                let mut out = Vec::new();
                req.write(&mut out, b"").unwrap();
                let text = String::from_utf8(out).unwrap();
                let path = text.strip_prefix("GET ").unwrap().split(" HTTP/1.1").next().unwrap().to_string();
                (Some(req), path)
            } else {
                // hand-built
                let ih = id20(rng);
                let pid = id20(rng);
                let mut params: Vec<String> = vec![
                    format!("info_hash={}", enc_id(rng, &ih)),
                    format!("peer_id={}", enc_id(rng, &pid)),
                    format!("port={}", rng.pick(&["6881", "0", "65535", "65536", "+1", "-1", "", "12a"])),
                    format!("uploaded={}", rng.pick(&["0", "1", "18446744073709551615", "18446744073709551616"])),
                    "downloaded=2".to_string(),
                    format!("left={}", rng.pick(&["0", "3", "x"])),
                ];
                if rng.chance(1, 2) {
                    params.push(format!("event={}", rng.pick(&["started", "stopped", "completed", "empty", "paused", ""])));
                }
                if rng.chance(1, 2) {
                    params.push(format!("numwant={}", rng.pick(&["0", "5", "-3"])));
                }
                if rng.chance(1, 3) {
                    params.push(format!("key={}", rng.pick(&["4ab4b877", "a%20b", "%zz", "%c3%28", ""])));
                }
                if rng.chance(1, 2) {
                    params.push(format!("compact={}", rng.pick(&["1", "0"])));
                }
                if rng.chance(1, 2) {
                    params.push(rng.pick(&["supportcrypto=1", "foo=bar", "x=", "=y", "noequals", "a=b=c"]).to_string());
                }
                // permute
                for i in (1..params.len()).rev() {
                    let j = rng.below(i as u64 + 1) as usize;
                    params.swap(i, j);
                }
                match rng.below(11) {
                    6 | 7 => {
                        // replace one identifier by an atom-built text
                        let which = *rng.pick(&["info_hash", "peer_id"]);
                        let text = atom_id(rng);
                        let mut done = false;
                        for p in params.iter_mut() {
                            if p.starts_with(&format!("{}=", which)) && !done {
                                *p = format!("{}={}", which, text);
                                done = true;
                            }
                        }
                        if !done {
                            params.push(format!("{}={}", which, text));
                        }
                    }
                    0 => params[0] = format!("info_hash={}", enc_id(rng, &ih).chars().take(10).collect::<String>()), // short id
                    1 => params.push(format!("info_hash={}x", enc_id(rng, &ih))),              // 21 chars
                    2 => params.push("peer_id=%4".to_string()),
                    3 => params.push(format!("info_hash={}", "\u{131}".repeat(20))),           // chars above U+00FF
                    4 => params.push(format!("info_hash=%\u{131}\u{131}{}", "a".repeat(19))),  // '%' + non-ASCII "hex"
                    5 => params.push("&&".to_string()),
                    _ => {}
                }
                let loc = *rng.pick(&["/announce", "/announce", "/scrape", "/other", "announce"]);
                let sep = if rng.chance(9, 10) { "?" } else { "" };
                (None, format!("{}{}{}", loc, sep, params.join("&")))
            };
            // tables for urlencoding
            if let Some(q) = path.split_once('?').map(|x| x.1) {
                for seg in q.split('&') {
                    if let Some(v) = seg.strip_prefix("key=") {
                        tbl.push((v.to_string(), urlencoding::decode(v).ok().map(|c| c.into_owned())));
                    }
                }
            }
            if let Some(Request::Announce(a)) = &written {
                if let Some(k) = &a.key {
                    enc_tbl.push((k.to_string(), urlencoding::encode(k.as_str()).into_owned()));
                    let e = urlencoding::encode(k.as_str()).into_owned();
                    tbl.push((e.clone(), urlencoding::decode(&e).ok().map(|c| c.into_owned())));
                }
            }
            let parsed = Request::parse_http_get_path(&path).ok();
            let tbl_t: Vec<String> = tbl.iter().map(|(k, v)| format!("({}, {})", chars_term(k), cq::opt(v.as_ref().map(|x| chars_term(x))))).collect();
            let enc_t: Vec<String> = enc_tbl.iter().map(|(k, v)| format!("({}, {})", chars_term(k), chars_term(v))).collect();
            items.push(format!(
                "({}, {}, {}, {}, {})",
                cq::opt(written.as_ref().map(|r| format!("({})", req_term(r)))),
                chars_term(&path),
                cq::opt(parsed.as_ref().map(|r| format!("({})", req_term(r)))),
                cq::list(&tbl_t),
                cq::list(&enc_t)
            ));
        }
    });
}
