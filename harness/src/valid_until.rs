//! `ValidUntil::new` / `new_with_now` / `valid` of aquatic_common against the model's deadline
//! arithmetic (C10): mock clock (hook H1) as the time sample.
use aquatic_common::{SecondsSinceServerStart, ServerStartInstant, ValidUntil};

use crate::coqfmt as cq;
use crate::Args;

pub fn run(args: &Args) {
    let start = ServerStartInstant::new();
    let edge: [u64; 9] = [0, 1, 2, 59, 1200, 1 << 31, (1 << 32) - 3, (1 << 32) - 2, (1 << 32) - 1];
    crate::drive(args, 0x7a11d, |rng, _keep, _seed, header, items| {
        let sample = if rng.chance(2, 3) { *rng.pick(&edge) } else { rng.below(1 << 32) } as u32;
        let age = if rng.chance(2, 3) { *rng.pick(&edge) } else { rng.below(1 << 32) } as u32;
        let with_now = rng.chance(1, 2);
        *header = format!("{}, {}, {}", cq::n(sample), cq::n(age), cq::b(with_now));
        aquatic_common::verif::set_mock_seconds(Some(sample));
        let vu = if with_now {
            ValidUntil::new_with_now(SecondsSinceServerStart::new_raw(sample), age)
        } else {
            ValidUntil::new(start, age).expect("mock clock")
        };
        aquatic_common::verif::set_mock_seconds(None);
        let d = sample as u64 + age as u64;
        let mut nows: Vec<u64> = vec![d.saturating_sub(2), d.saturating_sub(1), d, d + 1, sample as u64, 0, (1 << 32) - 1, (1 << 32) - 2];
        nows.push(rng.below(1 << 32));
        for now in nows {
            if now >= (1 << 32) {
                continue;
            }
            let v = vu.valid(SecondsSinceServerStart::new_raw(now as u32));
            items.push(format!("({}, {})", cq::n(now), cq::b(v)));
        }
    });
}
